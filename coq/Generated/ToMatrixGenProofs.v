(* ToMatrixGenProofs.v -- accessor_to_adjacency_matrix REGENERATED from dsw/graphized.py (MatrixGen.v, MiniPyM.v) computes what the
   model Graph.accessor_to_adjacency_matrix computes, exception for exception.
   Compiled on every run of the checks against the freshly generated MatrixGen.v (harness/regen.py, unit "matrix"). *)
From Coq Require Import Lia ZifyBool.
From DSW Require Import MiniPyM Graph Kmer Spec GraphSpec MiniPyMLemmas KmerProofs GraphProofs ReprProofs.
From DSWGen Require Import MatrixGen MatrixRepr.
Open Scope Z_scope.
Open Scope string_scope.
Ltac Zify.zify_post_hook ::= Z.to_euclidean_division_equations.
Local Open Scope Z_scope.
Local Open Scope list_scope.
Notation lookup := MiniPyM.lookup.

(* STATUS: accessor_to_adjacency_matrix_gen is proved below with Qed EXACTLY as stated (no extra hypothesis was needed; the
   statement was first tested with vm_compute on k = 1 accessors of widths 0/1/3/4/5, entries -2 / n, maxlen 0/1/2/8, verbose
   on / off: program and model agree, exception for exception).

   Notes.  * the program: MemoryError (SRaise OtherExn) when len(accessor) >= 4 ** maximum_length; ValueError when
   accessor.shape[1] != 4 or min(accessor) < -1 or max(accessor) > len(accessor) - 1 (`or` short-circuits: min / max are only
   evaluated on a 4-column array, which is never empty here, so BNpMin / BNpMax do not raise); matrix = zeros((n, n)); for each row
   `matrix[vertex_index][vertex[vertex >= 0]] = 1` = TIndex2 with an ARRAY of positions (MiniPyM.store_val, VArr l / VArr pos case)
   -- every position is in range because of the max test; verbose only evaluates a tuple (SExpr).
   * the model: Graph.accessor_to_adjacency_matrix / matrix_row (memZ c (live_entries row)) / all_entries / minZ / maxZ.
   * No while loop: any fuel.  Loop over enumerate(accessor): induction over the rows still to do (loop_rows) with the invariant
   "the first i rows of matrix are matrix_row n of the first i rows of acc, the rest are zero rows"; environments are only
   spoken of through lookup (lookup_update_same / lookup_update_other). *)

Ltac lk := repeat (rewrite lookup_update_same || (rewrite lookup_update_other by discriminate)).

(* ---- generic facts ------------------------------------------------------------------------------------------------- *)
Lemma map_res_map {A B C} (g : A -> B) (f : B -> res C) (h : A -> C) (l : list A) :
  (forall a, f (g a) = Ret (h a)) -> map_res f (map g l) = Ret (map h l).
Proof.
  intro H. induction l as [|a t IH]; cbn [map map_res]; [reflexivity|]. rewrite H, IH. reflexivity.
Qed.

Lemma all_ints vs : forallb (fun x => match x with VInt _ => true | _ => false end) (map VInt vs) = true.
Proof. induction vs as [|a t IH]; [reflexivity|exact IH]. Qed.

Lemma tm_py_get_mid {A} (pre : list A) c t : py_get (pre ++ c :: t) (Z.of_nat (length pre)) = Ok c.
Proof.
  unfold py_get. rewrite app_length. cbn [length].
  replace (Z.of_nat (length pre) <? 0) with false by lia.
  replace ((Z.of_nat (length pre) <? 0) || (Z.of_nat (length pre + S (length t)) <=? Z.of_nat (length pre))) with false by lia.
  rewrite Nat2Z.id. induction pre as [|y ys IH]; cbn [app length nthZ]; [reflexivity|exact IH].
Qed.

(* ---- flat_ints, min, max ---------------------------------------------------------------------------------------------- *)
Fixpoint flat_list (l : list val) : res (list Z) :=
  match l with [] => Ret [] | x :: t => y <~ flat_ints x ;; ys <~ flat_list t ;; Ret (y ++ ys) end.

Lemma flat_ints_arr l : flat_ints (VArr l) = flat_list l.
Proof. cbn [flat_ints]. induction l as [|x t IH]; cbn [flat_list]; [reflexivity|]. rewrite IH. reflexivity. Qed.

Lemma flat_ints_varr row : flat_ints (varr row) = Ret row.
Proof.
  unfold varr. rewrite flat_ints_arr. induction row as [|x t IH]; cbn [map flat_list]; [reflexivity|].
  rewrite IH. cbn [flat_ints rbind app]. reflexivity.
Qed.

Lemma flat_ints_varr2 acc : flat_ints (varr2 acc) = Ret (concat acc).
Proof.
  unfold varr2. rewrite flat_ints_arr. induction acc as [|r t IH]; cbn [map flat_list concat]; [reflexivity|].
  rewrite flat_ints_varr, IH. reflexivity.
Qed.

Lemma fold_min_out t : forall a b, fold_left Z.min t (Z.min a b) = Z.min a (fold_left Z.min t b).
Proof. induction t as [|x t IH]; intros a b; cbn [fold_left]; [reflexivity|]. rewrite <- IH. f_equal. lia. Qed.

Lemma fold_max_out t : forall a b, fold_left Z.max t (Z.max a b) = Z.max a (fold_left Z.max t b).
Proof. induction t as [|x t IH]; intros a b; cbn [fold_left]; [reflexivity|]. rewrite <- IH. f_equal. lia. Qed.

Lemma fold_max_ge t : forall d, d <= fold_left Z.max t d /\ Forall (fun x => x <= fold_left Z.max t d) t.
Proof.
  induction t as [|x t IH]; intro d; cbn [fold_left]; [split; [lia|constructor]|].
  destruct (IH (Z.max d x)) as [H1 H2]. split; [lia|]. constructor; [lia|exact H2].
Qed.

Lemma BNpMin_varr2 acc h t : concat acc = h :: t ->
  builtin1_val BNpMin (varr2 acc) = Ret (VInt (fold_left Z.min t h)).
Proof.
  intro E. change (builtin1_val BNpMin (varr2 acc))
    with (ks <~ flat_ints (varr2 acc) ;; match ks with [] => Exn ValueError | h :: t => Ret (VInt (fold_left Z.min t h)) end).
  rewrite flat_ints_varr2, E. reflexivity.
Qed.

Lemma BNpMax_varr2 acc h t : concat acc = h :: t ->
  builtin1_val BNpMax (varr2 acc) = Ret (VInt (fold_left Z.max t h)).
Proof.
  intro E. change (builtin1_val BNpMax (varr2 acc))
    with (ks <~ flat_ints (varr2 acc) ;; match ks with [] => Exn ValueError | h :: t => Ret (VInt (fold_left Z.max t h)) end).
  rewrite flat_ints_varr2, E. reflexivity.
Qed.

Lemma BLen_varr2 acc : builtin1_val BLen (varr2 acc) = Ret (VInt (Z.of_nat (length acc))).
Proof. unfold varr2. cbn [builtin1_val]. rewrite map_length. reflexivity. Qed.

Lemma BShape1_varr2 r0 rest w : Forall (fun row => length row = w) (r0 :: rest) ->
  builtin1_val BShape1 (varr2 (r0 :: rest)) = Ret (VInt (Z.of_nat w)).
Proof.
  intro F. unfold varr2, varr. cbn [map builtin1_val].
  assert (E : forallb (fun r => match r with VArr l => Nat.eqb (length l) (length (map VInt r0)) | _ => false end)
                (map (fun l => VArr (map VInt l)) rest) = true).
  { inversion F as [|? ? H0 FR]; subst. clear F. induction rest as [|r t IH]; [reflexivity|].
    inversion FR as [|? ? Hr Ft]; subst. cbn [map forallb]. rewrite IH by exact Ft. rewrite !map_length, Hr, Nat.eqb_refl. reflexivity. }
  rewrite E. rewrite map_length. inversion F; subst. reflexivity.
Qed.

(* ---- one row of the matrix: row[positions] = 1 ------------------------------------------------------------------------ *)
(* a row of the matrix as the characteristic function of a set of columns *)
Definition chi_row (n : nat) (f : Z -> bool) : list Z := map (fun c => if f c then 1 else 0) (zrange n).

Lemma chi_row_ext n f g : (forall c, f c = g c) -> chi_row n f = chi_row n g.
Proof. intro H. unfold chi_row. apply map_ext. intro c. rewrite H. reflexivity. Qed.

Lemma chi_row_length n f : length (chi_row n f) = n.
Proof. unfold chi_row, zrange. rewrite map_length. apply zrange_from_length. Qed.

Lemma repeat_zrange_from n : forall s, repeat 0 n = map (fun _ => 0) (zrange_from s n).
Proof. induction n as [|n IH]; intro s; cbn [repeat zrange_from map]; [reflexivity|]. rewrite (IH (s + 1)). reflexivity. Qed.

Lemma zero_row_chi n : repeat 0 n = chi_row n (fun _ => false).
Proof. unfold chi_row, zrange. apply repeat_zrange_from. Qed.

Lemma matrix_row_chi n row : matrix_row n row = chi_row n (fun c => memZ c (live_entries row)).
Proof. reflexivity. Qed.

Lemma set_nth_zrange_from (h : Z -> Z) : forall n s p, (p < n)%nat ->
  set_nth (map h (zrange_from s n)) p 1 = map (fun c => if c =? s + Z.of_nat p then 1 else h c) (zrange_from s n).
Proof.
  induction n as [|n IH]; intros s p Hp; [lia|].
  cbn [zrange_from map]. destruct p as [|p]; cbn [set_nth].
  - replace (s =? s + Z.of_nat 0) with true by lia. f_equal.
    apply map_ext_in. intros c Hc. apply zrange_from_In in Hc.
    replace (c =? s + Z.of_nat 0) with false by lia. reflexivity.
  - replace (s =? s + Z.of_nat (S p)) with false by lia. f_equal.
    rewrite IH by lia. apply map_ext. intro c.
    replace (s + 1 + Z.of_nat p) with (s + Z.of_nat (S p)) by lia. reflexivity.
Qed.

Lemma set_nth_chi n f p : 0 <= p < Z.of_nat n ->
  set_nth (chi_row n f) (Z.to_nat p) 1 = chi_row n (fun c => (c =? p) || f c).
Proof.
  intro Hp. unfold chi_row, zrange. rewrite set_nth_zrange_from by lia.
  apply map_ext. intro c. replace (0 + Z.of_nat (Z.to_nat p)) with p by lia.
  destruct (c =? p); reflexivity.
Qed.

(* the local fixpoint of store_val (VArr l / VArr pos case) *)
Fixpoint set_all (z : Z) (pos : list val) (l : list val) : res val :=
  match pos with
  | [] => Ret (VArr l)
  | VInt j :: rest =>
      let n := Z.of_nat (length l) in
      let j' := if j <? 0 then j + n else j in
      if (j' <? 0) || (n <=? j') then Exn IndexError else set_all z rest (set_nth l (Z.to_nat j') (VInt z))
  | _ => Stuck
  end.

Lemma store_val_positions l pos z :
  store_val (varr l) (VArr pos) (VInt z) = set_all z pos (map VInt l).
Proof.
  unfold varr. cbn [store_val]. rewrite all_ints.
  generalize (map VInt l) as vs. induction pos as [|p rest IH]; intro vs; cbn [set_all]; [reflexivity|].
  destruct p; try reflexivity. cbv zeta. destruct ((_ <? 0) || _); [reflexivity|]. apply IH.
Qed.

Lemma set_nth_map_VInt (l : list Z) i x : set_nth (map VInt l) i (VInt x) = map VInt (set_nth l i x).
Proof.
  revert i; induction l as [|y t IH]; intro i; cbn [map set_nth]; [destruct i; reflexivity|].
  destruct i; cbn [map]; [reflexivity|]. rewrite IH. reflexivity.
Qed.

Lemma set_all_chi n : forall ps f, Forall (fun p => 0 <= p < Z.of_nat n) ps ->
  set_all 1 (map VInt ps) (map VInt (chi_row n f)) = Ret (varr (chi_row n (fun c => f c || memZ c ps))).
Proof.
  induction ps as [|p ps IH]; intros f F; cbn [map set_all memZ].
  - unfold varr. do 3 f_equal. apply chi_row_ext. intro c. destruct (f c); reflexivity.
  - inversion F as [|? ? Hp F']; subst. cbv zeta. rewrite map_length, chi_row_length.
    replace (p <? 0) with false by lia.
    replace ((p <? 0) || (Z.of_nat n <=? p)) with false by lia.
    rewrite set_nth_map_VInt, set_nth_chi by exact Hp. rewrite IH by exact F'.
    unfold varr. do 3 f_equal. apply chi_row_ext. intro c.
    destruct (c =? p); destruct (f c); reflexivity.
Qed.

(* matrix[i][row[row >= 0]] = 1 on a zero row *)
Lemma store_row n row : Forall (fun x => x < Z.of_nat n) row ->
  store_val (varr (repeat 0 n)) (VArr (map VInt (live_entries row))) (VInt 1) = Ret (varr (matrix_row n row)).
Proof.
  intro F. rewrite store_val_positions, zero_row_chi, set_all_chi.
  - rewrite matrix_row_chi. reflexivity.
  - unfold live_entries. apply Forall_forall. intros x Hx. apply filter_In in Hx. destruct Hx as [Hx H0].
    rewrite Forall_forall in F. specialize (F x Hx). lia.
Qed.

Lemma store2_row A z B ps v z' : store_val (varr z) ps v = Ret (varr z') ->
  store2_val (varr2 (A ++ z :: B)) (VInt (Z.of_nat (length A))) ps v = Ret (varr2 (A ++ z' :: B)).
Proof.
  intro H. unfold varr2. rewrite !map_app. cbn [map]. unfold store2_val.
  rewrite <- (map_length varr A).
  set (A' := map varr A). set (B' := map varr B). cbv zeta.
  replace (Z.of_nat (length A') <? 0) with false by lia.
  rewrite tm_py_get_mid. rewrite app_length. cbn [length].
  replace ((Z.of_nat (length A') <? 0) || (Z.of_nat (length A' + S (length B')) <=? Z.of_nat (length A'))) with false by lia.
  rewrite H. cbn [rbind]. rewrite Nat2Z.id, set_nth_mid. reflexivity.
Qed.

(* vertex[vertex >= 0] *)
Lemma cmp_row_ge row : row <> [] ->
  cmp_top CGe (varr row) (VInt 0) = Ret (VArr (map (fun x => VBool (0 <=? x)) row)).
Proof.
  intro N. destruct row as [|x t]; [contradiction|]. unfold varr. cbn [map cmp_top cmp_vals].
  change (VInt x :: map VInt t) with (map VInt (x :: t)).
  rewrite (map_res_map VInt _ (fun x => VBool (0 <=? x))) by reflexivity. reflexivity.
Qed.

Lemma mask_filter row : 
  map snd (filter fst (combine (map (fun x => 0 <=? x) row) (map VInt row))) = map VInt (live_entries row).
Proof.
  unfold live_entries. induction row as [|x t IH]; [reflexivity|].
  cbn [map combine filter fst]. destruct (0 <=? x); cbn [map snd]; rewrite IH; reflexivity.
Qed.

Lemma index_mask row : row <> [] ->
  index_val (varr row) (VArr (map (fun x => VBool (0 <=? x)) row)) = Ret (VArr (map VInt (live_entries row))).
Proof.
  intro N. destruct row as [|x t]; [contradiction|]. unfold varr.
  change (index_val (VArr (map VInt (x :: t))) (VArr (map (fun x => VBool (0 <=? x)) (x :: t))))
    with (if Nat.eqb (length (map (fun x => VBool (0 <=? x)) (x :: t))) 0 then Ret (VArr []) else
          if negb (Nat.eqb (length (map (fun x => VBool (0 <=? x)) (x :: t))) (length (map VInt (x :: t)))) then Exn IndexError else
          bs <~ map_res (fun x => match x with VBool b => Ret b | _ => Stuck end) (map (fun x => VBool (0 <=? x)) (x :: t)) ;;
          Ret (VArr (map snd (filter fst (combine bs (map VInt (x :: t))))))).
  rewrite !map_length, Nat.eqb_refl. cbn [length Nat.eqb negb].
  rewrite (map_res_map (fun x => VBool (0 <=? x)) _ (fun x => 0 <=? x)) by reflexivity.
  cbn [rbind]. rewrite mask_filter. reflexivity.
Qed.

Lemma map_repeat' {A B} (f : A -> B) x n : map f (repeat x n) = repeat (f x) n.
Proof. induction n as [|n IH]; cbn [repeat map]; [reflexivity|]. rewrite IH. reflexivity. Qed.

(* zeros((n, n)) *)
Lemma zeros2_varr2 n :
  builtin2_val BNpZeros2 (VInt (Z.of_nat n)) (VInt (Z.of_nat n)) = Ret (varr2 (repeat (repeat 0 n) n)).
Proof. cbn [builtin2_val]. rewrite Nat2Z.id. unfold varr2, varr. rewrite !map_repeat'. reflexivity. Qed.

(* ---- the statements of the program -------------------------------------------------------------------------------------- *)
Definition loop_target : target := TTuple ["vertex_index"; "vertex"].
Definition loop_body : stmt :=
  SSeq (SAssign (TIndex2 "matrix"%string (EVar "vertex_index"%string) (EIndex (EVar "vertex"%string) (ECmp CGe (EVar "vertex"%string) (EInt (0))))) (EInt (1)))
       (SIf (EVar "verbose"%string)
            (SExpr (ETuple [(EBin Add (EVar "vertex_index"%string) (EInt (1))); (EB1 BLen (EVar "accessor"%string))]))
            SSkip).

Section Funs.
  Variable ce : string -> list val -> res val.

  Lemma exec_assign fuel t e en : exec ce fuel (SAssign t e) en = lift (eval ce en e) (fun v => assign ce t v en).
  Proof. reflexivity. Qed.
  Lemma exec_return fuel e en : exec ce fuel (SReturn e) en = lift (eval ce en e) OReturn.
  Proof. reflexivity. Qed.
  Lemma exec_raise fuel e en : exec ce fuel (SRaise e) en = OExn e.
  Proof. reflexivity. Qed.
  Lemma exec_skip fuel en : exec ce fuel SSkip en = ONormal en.
  Proof. reflexivity. Qed.
  Lemma exec_expr fuel e en : exec ce fuel (SExpr e) en = lift (eval ce en e) (fun _ => ONormal en).
  Proof. reflexivity. Qed.

  (* one iteration: matrix[vertex_index][vertex[vertex >= 0]] = 1 on a row that is still zero *)
  Lemma body_step fuel en acc vb A B n row :
    lookup "accessor" en = Ret (varr2 acc) -> lookup "verbose" en = Ret (VBool vb) ->
    lookup "matrix" en = Ret (varr2 (A ++ repeat 0 n :: B)) ->
    row <> [] -> Forall (fun x => x < Z.of_nat n) row ->
    exists en', seq (assign ce loop_target (VTuple [VInt (Z.of_nat (length A)); varr row]) en) (exec ce fuel loop_body) = ONormal en'
      /\ lookup "accessor" en' = Ret (varr2 acc) /\ lookup "verbose" en' = Ret (VBool vb)
      /\ lookup "matrix" en' = Ret (varr2 (A ++ matrix_row n row :: B)).
  Proof.
    intros Hacc Hvb Hm Hne Hrow. unfold loop_target, loop_body.
    cbn [assign items lift bind_tuple seq].
    set (en1 := update "vertex" (varr row) (update "vertex_index" (VInt (Z.of_nat (length A))) en)).
    assert (Hacc1 : lookup "accessor" en1 = Ret (varr2 acc)) by (unfold en1; lk; exact Hacc).
    assert (Hvb1 : lookup "verbose" en1 = Ret (VBool vb)) by (unfold en1; lk; exact Hvb).
    assert (Hm1 : lookup "matrix" en1 = Ret (varr2 (A ++ repeat 0 n :: B))) by (unfold en1; lk; exact Hm).
    assert (Hv1 : lookup "vertex" en1 = Ret (varr row)) by (unfold en1; lk; reflexivity).
    assert (Hi1 : lookup "vertex_index" en1 = Ret (VInt (Z.of_nat (length A)))) by (unfold en1; lk; reflexivity).
    clearbody en1.
    rewrite exec_seq, exec_assign. cbn [eval lift assign]. rewrite Hi1, Hv1, Hm1. cbn [rbind lift].
    rewrite (cmp_row_ge row Hne). cbn [rbind]. rewrite (index_mask row Hne). cbn [lift].
    rewrite (store2_row A (repeat 0 n) B _ _ (matrix_row n row) (store_row n row Hrow)). cbn [lift seq].
    set (en2 := update "matrix" (varr2 (A ++ matrix_row n row :: B)) en1).
    assert (Hacc2 : lookup "accessor" en2 = Ret (varr2 acc)) by (unfold en2; lk; exact Hacc1).
    assert (Hvb2 : lookup "verbose" en2 = Ret (VBool vb)) by (unfold en2; lk; exact Hvb1).
    assert (Hm2 : lookup "matrix" en2 = Ret (varr2 (A ++ matrix_row n row :: B))) by (unfold en2; lk; reflexivity).
    assert (Hi2 : lookup "vertex_index" en2 = Ret (VInt (Z.of_nat (length A)))) by (unfold en2; lk; exact Hi1).
    clearbody en2.
    exists en2. split; [|split; [exact Hacc2|split; [exact Hvb2|exact Hm2]]].
    rewrite exec_if. cbn [eval]. rewrite Hvb2. cbn [lift truthy]. destruct vb.
    - rewrite exec_expr. cbn [eval]. rewrite Hi2, Hacc2. cbn [rbind binop_vals binop_scalar]. rewrite BLen_varr2. reflexivity.
    - apply exec_skip.
  Qed.

  (* the loop over enumerate(accessor): the rows of [post] are still to do *)
  Lemma loop_rows fuel acc vb n : forall post pre en,
    Forall (fun row => row <> [] /\ Forall (fun x => x < Z.of_nat n) row) post ->
    lookup "accessor" en = Ret (varr2 acc) -> lookup "verbose" en = Ret (VBool vb) ->
    lookup "matrix" en = Ret (varr2 (map (matrix_row n) pre ++ repeat (repeat 0 n) (length post))) ->
    exists en', for_loop ce fuel loop_target loop_body (enumerate_from (Z.of_nat (length pre)) (map varr post)) en = ONormal en'
      /\ lookup "matrix" en' = Ret (varr2 (map (matrix_row n) (pre ++ post))).
  Proof.
    induction post as [|row post IH]; intros pre en F Hacc Hvb Hm.
    - exists en. split; [reflexivity|]. rewrite Hm. cbn [length repeat]. rewrite !app_nil_r. reflexivity.
    - inversion F as [|? ? [Hne Hrow] F']; subst.
      cbn [map enumerate_from length repeat] in Hm |- *. rewrite for_loop_cons.
      rewrite <- (map_length (matrix_row n) pre).
      destruct (body_step fuel en acc vb (map (matrix_row n) pre) (repeat (repeat 0 n) (length post)) n row Hacc Hvb Hm Hne Hrow)
        as [en' [E [Hacc' [Hvb' Hm']]]].
      rewrite E. cbn [seq]. rewrite map_length.
      replace (Z.of_nat (length pre) + 1) with (Z.of_nat (length (pre ++ [row]))) by (rewrite app_length; cbn [length]; lia).
      destruct (IH (pre ++ [row]) en' F' Hacc' Hvb') as [en'' [E' Hm'']].
      + rewrite Hm'. rewrite map_app. cbn [map]. rewrite <- app_assoc. reflexivity.
      + exists en''. split; [exact E'|]. rewrite Hm''. rewrite <- app_assoc. reflexivity.
  Qed.
End Funs.

(* ---- what the two tests establish ----------------------------------------------------------------------------------------- *)
Lemma forallb_len4 (acc : list (list Z)) w : Forall (fun row => length row = w) acc -> acc <> [] ->
  forallb (fun r => Nat.eqb (length r) 4) acc = Nat.eqb w 4.
Proof.
  intros F N. destruct acc as [|r0 rest]; [contradiction|]. clear N.
  inversion F as [|? ? H0 FR]; subst. cbn [forallb].
  destruct (Nat.eqb (length r0) 4) eqn:E; [|reflexivity]. cbn [andb].
  induction rest as [|r t IH]; [reflexivity|]. inversion FR as [|? ? Hr Ft]; subst.
  cbn [forallb]. rewrite Hr, E. cbn [andb]. apply IH; [constructor; [reflexivity|exact Ft]|exact Ft].
Qed.

Lemma rows_ok (acc : list (list Z)) n : Forall (fun row => length row = 4%nat) acc ->
  maxZ (all_entries acc) (-1) <= Z.of_nat n - 1 ->
  Forall (fun row => row <> [] /\ Forall (fun x => x < Z.of_nat n) row) acc.
Proof.
  intros F4 Hmax. unfold maxZ, all_entries in Hmax.
  destruct (fold_max_ge (concat acc) (-1)) as [_ Hall].
  rewrite Forall_forall in Hall.
  apply Forall_forall. intros row Hin. split.
  - rewrite Forall_forall in F4. specialize (F4 row Hin). destruct row; [discriminate|discriminate].
  - apply Forall_forall. intros x Hx.
    assert (Hc : In x (concat acc)) by (apply in_concat; exists row; split; assumption).
    specialize (Hall x Hc). cbv beta in Hall. lia.
Qed.

Theorem accessor_to_adjacency_matrix_gen : forall ce fuel acc w maxlen verbose,
  acc <> [] -> Forall (fun row => length row = w) acc ->
  run_fun ce fuel accessor_to_adjacency_matrix_def [varr2 acc; VInt (Z.of_nat maxlen); VBool verbose]
  = res_of_mat (Graph.accessor_to_adjacency_matrix acc maxlen).
Proof.
  intros ce fuel acc w maxlen verbose Hne Hw.
  unfold run_fun. cbn [params body bind_params accessor_to_adjacency_matrix_def].
  set (en0 := [("accessor", varr2 acc); ("maximum_length", VInt (Z.of_nat maxlen)); ("verbose", VBool verbose)]).
  (* nucleotides = "ACGT" *)
  rewrite exec_seq, exec_assign. cbn [eval lift assign seq].
  set (en1 := update "nucleotides" (VStr [65; 67; 71; 84]) en0).
  assert (Hacc1 : lookup "accessor" en1 = Ret (varr2 acc)) by reflexivity.
  assert (Hmax1 : lookup "maximum_length" en1 = Ret (VInt (Z.of_nat maxlen))) by reflexivity.
  assert (Hvb1 : lookup "verbose" en1 = Ret (VBool verbose)) by reflexivity.
  assert (Hnuc1 : lookup "nucleotides" en1 = Ret (VStr [65; 67; 71; 84])) by reflexivity.
  clearbody en1. clear en0.
  (* the MemoryError test *)
  rewrite exec_seq, exec_if. cbn [eval]. rewrite Hacc1, Hmax1. cbn [rbind]. rewrite BLen_varr2.
  cbn [rbind binop_vals binop_scalar]. replace (Z.of_nat maxlen <? 0) with false by lia.
  cbn [rbind cmp_top cmp_vals cmp_scalar mixes_bool is_arr orb lift truthy].
  unfold accessor_to_adjacency_matrix, pow4.
  destruct (4 ^ Z.of_nat maxlen <=? Z.of_nat (length acc)) eqn:Emem.
  { rewrite exec_raise. reflexivity. }
  rewrite exec_skip. cbn [seq].
  (* the ValueError test *)
  rewrite exec_seq, exec_if. cbn [eval]. rewrite Hacc1, Hnuc1. cbn [rbind].
  rewrite (forallb_len4 acc w Hw Hne).
  destruct acc as [|r0 rest]; [contradiction|].
  rewrite (BShape1_varr2 r0 rest w Hw).
  change (builtin1_val BLen (VStr [65; 67; 71; 84])) with (Ret (VInt 4)).
  cbn [cmp_top cmp_vals cmp_scalar mixes_bool is_arr orb val_eqb rbind truthy].
  destruct (Nat.eqb w 4) eqn:Ew.
  2:{ replace (Z.of_nat w =? 4) with false by lia. cbn [negb lift orb]. rewrite exec_raise. reflexivity. }
  apply Nat.eqb_eq in Ew. subst w.
  replace (Z.of_nat 4 =? 4) with true by lia. cbn [negb orb].
  assert (Hcat : exists h t, concat (r0 :: rest) = h :: t).
  { inversion Hw as [|? ? H0 _]; subst. destruct r0 as [|a r0']; [discriminate|].
    exists a, (r0' ++ concat rest). reflexivity. }
  destruct Hcat as [h [t Hcat]].
  rewrite (BNpMin_varr2 _ h t Hcat), (BNpMax_varr2 _ h t Hcat), BLen_varr2.
  cbn [rbind binop_vals binop_scalar cmp_top cmp_vals cmp_scalar mixes_bool is_arr orb truthy].
  assert (Hmn : minZ (all_entries (r0 :: rest)) 0 = Z.min 0 (fold_left Z.min t h))
    by (unfold minZ, all_entries; rewrite Hcat; cbn [fold_left]; apply fold_min_out).
  assert (Hmx : maxZ (all_entries (r0 :: rest)) (-1) = Z.max (-1) (fold_left Z.max t h))
    by (unfold maxZ, all_entries; rewrite Hcat; cbn [fold_left]; apply fold_max_out).
  assert (Hn : 1 <= Z.of_nat (length (r0 :: rest))) by (cbn [length]; lia).
  remember (r0 :: rest) as acc eqn:Eacc. clear Eacc Hcat r0 rest.
  set (n := length acc) in *.
  assert (Hrows := rows_ok acc n Hw). rewrite Hmx in Hrows |- *. rewrite Hmn. clear Hmn Hmx.
  set (mn := fold_left Z.min t h) in *. set (mx := fold_left Z.max t h) in *. clearbody mn mx. clear h t.
  destruct (mn <? -1) eqn:Emin.
  { cbn [lift truthy]. rewrite exec_raise. replace (Z.min 0 mn <? -1) with true by lia. reflexivity. }
  replace (Z.min 0 mn <? -1) with false by lia. cbn [orb].
  replace (Z.of_nat n - 1 <? Z.max (-1) mx) with (Z.of_nat n - 1 <? mx) by lia.
  destruct (Z.of_nat n - 1 <? mx) eqn:Emax.
  { cbn [lift truthy]. rewrite exec_raise. reflexivity. }
  cbn [lift truthy]. rewrite exec_skip. cbn [seq].
  assert (Hrows' : Forall (fun row => row <> [] /\ Forall (fun x => x < Z.of_nat n) row) acc) by (apply Hrows; lia).
  clear Hrows Emin Emax mn mx.
  (* matrix, monitor = zeros((n, n)), Monitor() *)
  rewrite exec_seq, exec_assign. cbn [eval]. rewrite Hacc1. cbn [rbind]. rewrite BLen_varr2. cbn [rbind].
  fold n. rewrite zeros2_varr2. cbn [rbind lift assign items bind_tuple seq].
  set (en2 := update "monitor" VOpaque (update "matrix" (varr2 (repeat (repeat 0 n) n)) en1)).
  assert (Hacc2 : lookup "accessor" en2 = Ret (varr2 acc)) by (unfold en2; lk; exact Hacc1).
  assert (Hvb2 : lookup "verbose" en2 = Ret (VBool verbose)) by (unfold en2; lk; exact Hvb1).
  assert (Hm2 : lookup "matrix" en2 = Ret (varr2 (repeat (repeat 0 n) n))) by (unfold en2; lk; reflexivity).
  clearbody en2. clear Hacc1 Hmax1 Hvb1 Hnuc1 en1.
  (* the loop over enumerate(accessor) *)
  rewrite exec_seq, exec_for. cbn [eval]. rewrite Hacc2. unfold varr2 at 1. cbn [rbind builtin1_val items lift].
  destruct (loop_rows ce fuel acc verbose n acc [] en2 Hrows' Hacc2 Hvb2 Hm2) as [en3 [E3 Hm3]].
  cbn [length app] in E3, Hm3. change (Z.of_nat 0) with 0 in E3. unfold loop_target, loop_body in E3. rewrite E3. cbn [seq].
  rewrite exec_return. cbn [eval]. rewrite Hm3. reflexivity.
Qed.

Print Assumptions accessor_to_adjacency_matrix_gen.
