(* DecodeFastGenProofs.v -- the regenerated decode (dsw/spiderweb.py), fast mode, computes Coder.decode.
   Compiled on every run of the checks against the freshly generated CoderGen.v / OperationGen.v (harness/regen.py, unit "coder"). *)
From Coq Require Import Lia ZifyBool.
From DSW Require Import MiniPy Bignum Convert Coder Spec MiniPyLemmas BignumProofs ConvertProofs.
From DSWGen Require Import OperationGen CoderGen OperationGenProofs CoderCallees.
Open Scope Z_scope.
Open Scope string_scope.
Ltac Zify.zify_post_hook ::= Z.to_euclidean_division_equations.
Local Open Scope Z_scope.

From Coq Require Import Sorted.
From DSW Require ShuffleProofs WalkProofs.

(* Proved here (is_faster = True): decode_fast_gen_ok and decode_fast_gen_raise, both corollaries of decode_fast_gen_both.
   No while loop in this mode.  zeros(shape=(bit_length,), dtype=int) is varr (repeat 0 (Z.to_nat L)); the for loop over
   enumerate(dna_sequence) is Coder.decode_fast with the vertex, the bit array and message_location as accumulators (loop_ok,
   by induction on the strand; one iteration is body_ok against the one-step model dstep).  The pieces: (a) eval_used:
   where(accessor[vertex_index] >= 0)[0] = varr (used_indices row); (b) eval_comp / in_nucs / indexof_nucs: the comprehension of
   used nucleotides and its `in` / `.index` tests = nuc_index / first_pos; (c) exec_shuffle: the unshuffled digit =
   unshuffle_digit (table_shape gives the row and the distinct keys NumPy's argsort needs); (d) store_write / exec_write: the array
   writes = write_bit (write_step); (f) the check comparison at the top uses set_vt_callee only (callees_ok is not needed in this
   mode: none of the functions of dsw/operation.py is called). *)

(* ---- tactics (as in ConvGenProofs.v) ---------------------------------------------------------------------------------- *)
Ltac lk := repeat (rewrite lookup_update_same || (rewrite lookup_update_other by discriminate)).
Ltac step := cbn [exec eval lift seq rbind assign items bind_tuple builtin1_val builtin2_val binop_vals binop_scalar cmp_vals cmp_scalar
                  is_arr orb truthy mixes_bool type_is].

(* ---- lists: py_get, set_nth ----------------------------------------------------------------------------------------- *)
Lemma nthZ_map {A B} (f : A -> B) : forall l n, nthZ (map f l) n = option_map f (nthZ l n).
Proof.
  induction l as [|x t IH]; intros n; [destruct n; reflexivity|].
  destruct n as [|n]; cbn [map nthZ option_map]; [reflexivity|apply IH].
Qed.

Lemma py_get_map {A B} (f : A -> B) l i :
  py_get (map f l) i = match py_get l i with Ok x => Ok (f x) | Raise e => Raise e | OutOfFuel => OutOfFuel end.
Proof.
  unfold py_get. rewrite map_length. cbv zeta.
  destruct ((if i <? 0 then i + Z.of_nat (length l) else i) <? 0) eqn:E1; cbn [orb]; [reflexivity|].
  destruct (Z.of_nat (length l) <=? (if i <? 0 then i + Z.of_nat (length l) else i)) eqn:E2; [reflexivity|].
  rewrite nthZ_map. destruct (nthZ l _); reflexivity.
Qed.

Lemma py_get_0_cons {A} (x : A) t : py_get (x :: t) 0 = Ok x.
Proof. rewrite (ShuffleProofs.py_get_ok (x :: t) 0 x) by (cbn [length]; lia). reflexivity. Qed.

Lemma py_get_0_nil {A} : py_get (@nil A) 0 = Raise IndexError.
Proof. reflexivity. Qed.

Lemma set_nth_map {A B} (f : A -> B) : forall l n x, set_nth (map f l) n (f x) = map f (set_nth l n x).
Proof.
  induction l as [|y t IH]; intros n x; [destruct n; reflexivity|].
  destruct n as [|n]; cbn [map set_nth]; [reflexivity|rewrite IH; reflexivity].
Qed.

Lemma set_nth_len {A} : forall (l : list A) n x, length (set_nth l n x) = length l.
Proof.
  induction l as [|y t IH]; intros n x; [destruct n; reflexivity|].
  destruct n as [|n]; cbn [set_nth length]; [reflexivity|rewrite IH; reflexivity].
Qed.

Lemma write_bit_len bits pos x b : write_bit bits pos x = Ok b -> length b = length bits.
Proof.
  unfold write_bit. destruct ((pos <? 0) || (Z.of_nat (length bits) <=? pos)); [discriminate|].
  intro H; injection H as <-. apply set_nth_len.
Qed.

(* (d) binary_message[pos] = x on a NumPy array is write_bit *)
Lemma store_write bits pos x : 0 <= pos ->
  store_val (varr bits) (VInt pos) (VInt x) =
  match write_bit bits pos x with Ok b => Ret (varr b) | Raise e => Exn e | OutOfFuel => Fuel end.
Proof.
  intro Hp. unfold store_val, varr, write_bit. rewrite map_length. cbv zeta.
  destruct (pos <? 0) eqn:E; [lia|]. rewrite E.
  destruct ((false || (Z.of_nat (length bits) <=? pos))%bool); [reflexivity|].
  rewrite (set_nth_map VInt). reflexivity.
Qed.

(* ---- (a) where(row >= 0)[0] ----------------------------------------------------------------------------------------- *)
Lemma used_from_bools : forall row j,
  used_from (map (fun b : bool => if b then 0 else -1) (map (fun x => 0 <=? x) row)) j = used_from row j.
Proof.
  induction row as [|x t IH]; intros j; cbn [map used_from]; [reflexivity|].
  rewrite IH. destruct (0 <=? x); reflexivity.
Qed.

Lemma cmp_ge0 row : cmp_vals CGe (varr row) (VInt 0) = Ret (VArr (map VBool (map (fun x => 0 <=? x) row))).
Proof.
  unfold varr, cmp_vals.
  assert (H : map_res (fun x => match x with VInt _ => cmp_scalar CGe x (VInt 0) | _ => Stuck end) (map VInt row)
              = Ret (map VBool (map (fun x => 0 <=? x) row))).
  { induction row as [|x t IH]; cbn [map map_res]; [reflexivity|]. rewrite IH. reflexivity. }
  rewrite H. reflexivity.
Qed.

Lemma where_bools bs :
  builtin1_val BNpWhere (VArr (map VBool bs)) =
  Ret (VTuple [varr (used_indices (map (fun b : bool => if b then 0 else -1) bs))]).
Proof.
  cbn [builtin1_val].
  assert (H : map_res (fun x => match x with VBool b => Ret b | _ => Stuck end) (map VBool bs) = Ret bs).
  { induction bs as [|b t IH]; cbn [map map_res]; [reflexivity|]. rewrite IH. reflexivity. }
  rewrite H. reflexivity.
Qed.

Lemma index_tuple1 x : index_val (VTuple [x]) (VInt 0) = Ret x.
Proof. reflexivity. Qed.

(* the live columns of a row of four entries *)
Lemma used_range row : length row = 4%nat -> Forall (fun j => 0 <= j < 4) (used_indices row).
Proof.
  intro Hl. apply Forall_forall. intros j Hj.
  apply (proj2 (WalkProofs.used_indices_spec row Hl)) in Hj. lia.
Qed.

Lemma ssorted_nodup l : StronglySorted Z.lt l -> NoDup l.
Proof.
  induction 1 as [|a l Hs IH Hall]; constructor; [|exact IH].
  intro Hin. rewrite Forall_forall in Hall. specialize (Hall _ Hin). lia.
Qed.

Lemma used_nodup row : NoDup (used_indices row).
Proof. apply ssorted_nodup. apply (proj1 (WalkProofs.used_from_spec row 0)). Qed.

(* ---- (b) the used nucleotides, `in` and `.index` ------------------------------------------------------------------------ *)
Lemma index_nuc r : 0 <= r < 4 -> index_val (VStr [65; 67; 71; 84]) (VInt r) = Ret (VStr [nuc_char r]).
Proof.
  intro H. assert (C : r = 0 \/ r = 1 \/ r = 2 \/ r = 3) by lia.
  destruct C as [->|[->|[->| ->]]]; reflexivity.
Qed.

Definition vnucs (used : list Z) : list val := map (fun j => VStr [nuc_char j]) used.

Lemma vnucs_strs used : forallb (fun y => match y with VInt _ | VStr _ => true | _ => false end) (vnucs used) = true.
Proof. induction used as [|j t IH]; [reflexivity|exact IH]. Qed.

Lemma nuc_eqb c y : 0 <= y < 4 ->
  (c =? nuc_char y) = match nuc_index c with Some j => j =? y | None => false end.
Proof.
  intro H. assert (C : y = 0 \/ y = 1 \/ y = 2 \/ y = 3) by lia.
  unfold nuc_index.
  destruct C as [->|[->|[->| ->]]];
    [change (nuc_char 0) with 65|change (nuc_char 1) with 67|change (nuc_char 2) with 71|change (nuc_char 3) with 84];
    destruct (c =? 65) eqn:E1; try lia; destruct (c =? 67) eqn:E2; try lia;
    destruct (c =? 71) eqn:E3; try lia; destruct (c =? 84) eqn:E4; lia.
Qed.

Lemma index_of_nucs c : forall used i, Forall (fun j => 0 <= j < 4) used ->
  index_of_val (VStr [c]) (vnucs used) i = match nuc_index c with Some j => first_pos j used i | None => None end.
Proof.
  induction used as [|y t IH]; intros i HF; cbn [vnucs map index_of_val first_pos].
  - destruct (nuc_index c); reflexivity.
  - inversion HF as [|? ? Hy HF']; subst. cbn [val_eqb listZ_eqb]. rewrite andb_true_r.
    rewrite (nuc_eqb c y Hy). fold (vnucs t). rewrite (IH (i + 1) HF').
    destruct (nuc_index c) as [j|]; [|reflexivity]. destruct (j =? y); reflexivity.
Qed.

Lemma mem_index x : forall l i, mem_val x l = match index_of_val x l i with Some _ => true | None => false end.
Proof.
  induction l as [|y t IH]; intros i; cbn [mem_val index_of_val]; [reflexivity|].
  destruct (val_eqb x y); [reflexivity|apply IH].
Qed.

Lemma in_nucs c used : Forall (fun j => 0 <= j < 4) used ->
  cmp_vals CIn (VStr [c]) (VList (vnucs used)) =
  Ret (VBool match nuc_index c with Some j => match first_pos j used 0 with Some _ => true | None => false end | None => false end).
Proof.
  intro HF. cbn [cmp_vals cmp_scalar mixes_bool is_arr orb]. rewrite vnucs_strs. cbn [xorb].
  rewrite (mem_index _ _ 0), (index_of_nucs c used 0 HF).
  destruct (nuc_index c) as [j|]; [destruct (first_pos j used 0)|]; reflexivity.
Qed.

Lemma indexof_nucs c used j rem : Forall (fun j => 0 <= j < 4) used -> nuc_index c = Some j -> first_pos j used 0 = Some rem ->
  builtin2_val BIndexOf (VList (vnucs used)) (VStr [c]) = Ret (VInt rem).
Proof.
  intros HF Hn Hp. cbn [builtin2_val]. rewrite vnucs_strs, (index_of_nucs c used 0 HF), Hn, Hp. reflexivity.
Qed.

Lemma indexof_acgt c j : nuc_index c = Some j ->
  builtin2_val BIndexOf (VStr [65; 67; 71; 84]) (VStr [c]) = Ret (VInt j).
Proof.
  unfold nuc_index. cbn [builtin2_val str_index indexZ].
  destruct (c =? 65); [intro H; injection H as <-; reflexivity|].
  destruct (c =? 67); [intro H; injection H as <-; reflexivity|].
  destruct (c =? 71); [intro H; injection H as <-; reflexivity|].
  destruct (c =? 84); [intro H; injection H as <-; reflexivity|discriminate].
Qed.

(* [nucleotides[used_index] for used_index in used_indices] *)
Lemma comp_nucs ce en used : Forall (fun j => 0 <= j < 4) used ->
  lookup "nucleotides" en = Ret (VStr [65; 67; 71; 84]) ->
  map_res (fun v => eval ce (update "used_index" v en) (EIndex (EVar "nucleotides") (EVar "used_index"))) (map VInt used)
  = Ret (vnucs used).
Proof.
  intros HF HN. induction HF as [|j t Hj HF IH]; cbn [map map_res vnucs]; [reflexivity|].
  cbn [eval]. lk. rewrite HN. cbn [rbind]. rewrite (index_nuc j Hj). fold (vnucs t).
  cbn [eval] in IH. rewrite IH. reflexivity.
Qed.

(* ---- (c) the unshuffled digit ------------------------------------------------------------------------------------------ *)
Lemma fancy_pick srow : forall used, Forall (fun j => 0 <= j < Z.of_nat (length srow)) used ->
  map_res (fun c => match c with
                    | VInt j => match py_get (map VInt srow) j with Ok v => Ret v | _ => Exn IndexError end
                    | _ => Stuck end) (map VInt used) = Ret (map VInt (pick srow used)).
Proof.
  induction used as [|j t IH]; intro HF; cbn [map map_res pick]; [reflexivity|].
  inversion HF as [|? ? Hj HF']; subst. rewrite py_get_map, (ShuffleProofs.py_get_ok srow j (-1) Hj). cbn [rbind].
  unfold pick in IH. rewrite (IH HF'). reflexivity.
Qed.

Lemma ints_back : forall ks, map_res (fun x => match x with VInt z => Ret z | _ => Stuck end) (map VInt ks) = Ret ks.
Proof. induction ks as [|k t IH]; cbn [map map_res]; [reflexivity|]. rewrite IH. reflexivity. Qed.

Lemma memZ_In x : forall l, memZ x l = true -> In x l.
Proof.
  induction l as [|y t IH]; cbn [memZ]; [discriminate|]. intro H.
  destruct (x =? y) eqn:E; [left; lia|right; apply IH; exact H].
Qed.

Lemma nodupb_true : forall ks, NoDup ks -> nodupb ks = true.
Proof.
  induction ks as [|k t IH]; intro H; [reflexivity|]. inversion H as [|? ? Hn Ht]; subst. cbn [nodupb].
  rewrite (IH Ht), andb_true_r. destruct (memZ k t) eqn:E; [exfalso; apply Hn, memZ_In, E|reflexivity].
Qed.

Lemma pick_nodup srow : forall used, NoDup srow -> NoDup used ->
  Forall (fun j => 0 <= j < Z.of_nat (length srow)) used -> NoDup (pick srow used).
Proof.
  intros used Hs. induction used as [|a t IH]; intros Hu HF; cbn [pick map]; [constructor|].
  inversion Hu as [|? ? Ha Ht]; subst. inversion HF as [|? ? Hr HF']; subst.
  constructor; [|apply IH; assumption].
  intro Hin. apply in_map_iff in Hin. destruct Hin as (j & Hj & Hjt).
  rewrite Forall_forall in HF'. specialize (HF' j Hjt).
  apply (proj1 (NoDup_nth srow (-1)) Hs) in Hj; [|lia|lia].
  apply Ha. replace a with j by lia. exact Hjt.
Qed.

Lemma cmp_eq_arr rem l : cmp_vals CEq (varr l) (VInt rem) = Ret (VArr (map VBool (map (fun y => rem =? y) l))).
Proof.
  unfold varr, cmp_vals.
  assert (H : map_res (fun x => match x with VInt _ => cmp_scalar CEq x (VInt rem) | _ => Stuck end) (map VInt l)
              = Ret (map VBool (map (fun y => rem =? y) l))).
  { induction l as [|x t IH]; cbn [map map_res]; [reflexivity|]. rewrite IH.
    cbn [cmp_scalar mixes_bool is_arr orb val_eqb rbind]. rewrite (Z.eqb_sym x rem). reflexivity. }
  rewrite H. reflexivity.
Qed.

Lemma used_first rem : forall l i,
  match first_pos rem l i with
  | Some p => exists tl, used_from (map (fun b : bool => if b then 0 else -1) (map (fun y => rem =? y) l)) i = p :: tl
  | None => used_from (map (fun b : bool => if b then 0 else -1) (map (fun y => rem =? y) l)) i = []
  end.
Proof.
  induction l as [|y t IH]; intro i; cbn [first_pos map used_from]; [reflexivity|].
  destruct (rem =? y); cbn [Z.leb Z.compare]; [eexists; reflexivity|apply IH].
Qed.

Lemma where_first rem l :
  index_val (varr (used_indices (map (fun b : bool => if b then 0 else -1) (map (fun y => rem =? y) l)))) (VInt 0)
  = match first_pos rem l 0 with Some p => Ret (VInt p) | None => Exn IndexError end.
Proof.
  unfold varr, used_indices. cbn [index_val].
  pose proof (used_first rem l 0) as H. destruct (first_pos rem l 0) as [p|].
  - destruct H as [tl ->]. cbn [map]. rewrite py_get_0_cons. reflexivity.
  - rewrite H. reflexivity.
Qed.

Lemma fancy_index t v used srow : py_get t v = Ok srow -> Forall (fun j => 0 <= j < Z.of_nat (length srow)) used ->
  index_val (varr2 t) (VTuple [VInt v; varr used]) = Ret (varr (pick srow used)).
Proof.
  intros Hrow HF. unfold varr2, varr. cbn [index_val]. rewrite py_get_map, Hrow. unfold varr.
  rewrite (fancy_pick srow used HF). reflexivity.
Qed.

Lemma argsort_val ks : NoDup ks -> builtin1_val BNpArgsort (varr ks) = Ret (varr (argsort ks)).
Proof.
  intro H. unfold varr. cbn [builtin1_val]. rewrite ints_back. cbn [rbind]. rewrite (nodupb_true ks H). reflexivity.
Qed.

Definition unshuffle_expr : expr :=
  (EIndex (EIndex (EB1 BNpWhere (ECmp CEq (EB1 BNpArgsort (EIndex (EVar "shuffles"%string) (ETuple [(EVar "vertex_index"%string); (EVar "used_indices"%string)]))) (EVar "remainder"%string))) (EInt (0))) (EInt (0))).

Lemma eval_unshuffle ce en t v used rem srow :
  lookup "shuffles" en = Ret (varr2 t) -> lookup "vertex_index" en = Ret (VInt v) ->
  lookup "used_indices" en = Ret (varr used) -> lookup "remainder" en = Ret (VInt rem) ->
  py_get t v = Ok srow -> length srow = 4%nat -> NoDup srow -> Forall (fun j => 0 <= j < 4) used -> NoDup used ->
  eval ce en unshuffle_expr =
  match first_pos rem (argsort (pick srow used)) 0 with Some p => Ret (VInt p) | None => Exn IndexError end.
Proof.
  intros HS HV HU HR Hrow Hlen Hnd HF Hun. unfold unshuffle_expr. cbn [eval]. rewrite HS, HV, HU, HR. cbn [rbind].
  assert (HF' : Forall (fun j => 0 <= j < Z.of_nat (length srow)) used).
  { rewrite Hlen. exact HF. }
  rewrite (fancy_index t v used srow Hrow HF'). cbn [rbind].
  rewrite (argsort_val _ (pick_nodup srow used Hnd Hun HF')). cbn [rbind].
  rewrite cmp_eq_arr. cbn [rbind]. rewrite where_bools. cbn [rbind]. rewrite index_tuple1. cbn [rbind].
  apply where_first.
Qed.

(* ---- the loop of the fast mode ------------------------------------------------------------------------------------------ *)
Definition write_step (radix rem' : Z) (bits : list Z) (loc : Z) : result (list Z * Z) :=
  if radix =? 4 then
    b1 <- write_bit bits loc (rem' / 2) ;;
    b2 <- (if loc + 1 <? Z.of_nat (length bits) then write_bit b1 (loc + 1) (rem' mod 2) else Ok b1) ;;
    Ok (b2, loc + 2)
  else if radix =? 2 then b1 <- write_bit bits loc (rem' mod 2) ;; Ok (b1, loc + 1)
  else if radix =? 1 then Ok (bits, loc)
  else Raise ValueError.

Definition shuffle_stmt : stmt :=
 (SIf (ENot (EB1 BIsNone (EVar "shuffles"%string)))
 (SAssign (TVar "remainder"%string) (EIndex (EIndex (EB1 BNpWhere (ECmp CEq (EB1 BNpArgsort (EIndex (EVar "shuffles"%string) (ETuple [(EVar "vertex_index"%string); (EVar "used_indices"%string)]))) (EVar "remainder"%string))) (EInt (0))) (EInt (0))))
 SSkip).

Definition write_stmt : stmt :=
 (SIf (ECmp CEq (EVar "radix"%string) (EInt (4)))
 (SSeq (SAssign (TIndex "binary_message"%string (EVar "message_location"%string)) (EBin FloorDiv (EVar "remainder"%string) (EInt (2))))
 (SSeq (SIf (ECmp CLt (EBin Add (EVar "message_location"%string) (EInt (1))) (EVar "bit_length"%string))
 (SAssign (TIndex "binary_message"%string (EBin Add (EVar "message_location"%string) (EInt (1)))) (EBin Mod (EVar "remainder"%string) (EInt (2))))
 SSkip)
 (SAug (TVar "message_location"%string) Add (EInt (2)))))
 (SIf (ECmp CEq (EVar "radix"%string) (EInt (2)))
 (SSeq (SAssign (TIndex "binary_message"%string (EVar "message_location"%string)) (EBin Mod (EVar "remainder"%string) (EInt (2))))
 (SAug (TVar "message_location"%string) Add (EInt (1))))
 (SIf (ECmp CEq (EVar "radix"%string) (EInt (1)))
 SSkip
 (SIf (ECmp CEq (EVar "radix"%string) (EInt (3)))
 (SRaise ValueError)
 (SRaise ValueError))))).

Section Fast.
  Variable ce : string -> list val -> res val.
  Variable fuel : nat.
  Variable acc : list (list Z).
  Variable sh : option (list (list Z)).
  Variable L : Z.
  Hypothesis Hacc : acc_shape acc.
  Hypothesis Hsh : table_shape (length acc) sh.
  Local Open Scope Z_scope.

  Lemma exec_assign t e en : exec ce fuel (SAssign t e) en = lift (eval ce en e) (fun v => assign ce t v en).
  Proof. reflexivity. Qed.
  Lemma exec_return e en : exec ce fuel (SReturn e) en = lift (eval ce en e) OReturn.
  Proof. reflexivity. Qed.
  Lemma exec_raise e en : exec ce fuel (SRaise e) en = OExn e.
  Proof. reflexivity. Qed.
  Lemma exec_skip en : exec ce fuel SSkip en = ONormal en.
  Proof. reflexivity. Qed.

  Lemma exec_shuffle en v used rem :
    lookup "shuffles" en = Ret (v_table sh) -> lookup "vertex_index" en = Ret (VInt v) ->
    lookup "used_indices" en = Ret (varr used) -> lookup "remainder" en = Ret (VInt rem) ->
    0 <= v < Z.of_nat (length acc) -> Forall (fun j => 0 <= j < 4) used -> NoDup used ->
    match unshuffle_digit sh v used rem with
    | Ok rem' => exists en', exec ce fuel shuffle_stmt en = ONormal en' /\ lookup "remainder" en' = Ret (VInt rem') /\
                   (forall x, x <> "remainder" -> lookup x en' = lookup x en)
    | Raise e => exec ce fuel shuffle_stmt en = OExn e
    | OutOfFuel => True
    end.
  Proof.
    intros HS HV HU HR Hv HF Hnd. unfold shuffle_stmt. rewrite exec_if. cbn [eval]. rewrite HS.
    destruct sh as [tb|]; cbn [v_table unshuffle_digit].
    - unfold varr2 at 1. cbn [rbind builtin1_val truthy negb lift].
      destruct Hsh as [Hlen Hrows].
      assert (Hrow : py_get tb v = Ok (nth (Z.to_nat v) tb [])) by (apply ShuffleProofs.py_get_ok; lia).
      assert (Hin : In (nth (Z.to_nat v) tb []) tb) by (apply nth_In; lia).
      set (srow := nth (Z.to_nat v) tb []) in *.
      rewrite Forall_forall in Hrows. destruct (Hrows srow Hin) as [Hl4 Hnds].
      rewrite Hrow. cbn [bind]. rewrite exec_assign.
      fold unshuffle_expr. rewrite (eval_unshuffle ce en tb v used rem srow) by assumption.
      destruct (first_pos rem (argsort (pick srow used)) 0) as [p|]; cbn [lift assign].
      + eexists; split; [reflexivity|]. split; [apply lookup_update_same|].
        intros x Hx. apply lookup_update_other; exact Hx.
      + reflexivity.
    - cbn [rbind builtin1_val truthy negb lift]. rewrite exec_skip. exists en. repeat split; auto.
  Qed.

  Lemma exec_write en radix rem' bits loc :
    lookup "radix" en = Ret (VInt radix) -> lookup "remainder" en = Ret (VInt rem') ->
    lookup "binary_message" en = Ret (varr bits) -> lookup "message_location" en = Ret (VInt loc) ->
    lookup "bit_length" en = Ret (VInt L) -> Z.of_nat (length bits) = L -> 0 <= loc ->
    match write_step radix rem' bits loc with
    | Ok (b, l) => exists en', exec ce fuel write_stmt en = ONormal en' /\
                     lookup "binary_message" en' = Ret (varr b) /\ lookup "message_location" en' = Ret (VInt l) /\
                     (forall x, x <> "binary_message" -> x <> "message_location" -> lookup x en' = lookup x en)
    | Raise e => exec ce fuel write_stmt en = OExn e
    | OutOfFuel => True
    end.
  Proof.
    intros HX HR HM HP HB Hlen Hloc. unfold write_stmt, write_step.
    rewrite exec_if. cbn [eval]. rewrite HX. cbn [rbind cmp_vals cmp_scalar mixes_bool is_arr orb val_eqb lift truthy].
    destruct (radix =? 4) eqn:E4.
    - rewrite exec_seq, exec_assign. cbn [eval]. rewrite HR. cbn [rbind binop_vals binop_scalar].
      change (2 =? 0) with false. cbn [lift assign eval]. rewrite HP, HM. cbn [lift].
      rewrite store_write by exact Hloc.
      destruct (write_bit bits loc (rem' / 2)) as [b1| |] eqn:W1; cbn [bind lift seq]; [|reflexivity|exact I].
      rewrite exec_seq, exec_if. cbn [eval]. lk. rewrite HP, HB.
      cbn [rbind binop_vals binop_scalar cmp_vals cmp_scalar mixes_bool is_arr orb lift truthy].
      rewrite Hlen. destruct (loc + 1 <? L) eqn:EL.
      + rewrite exec_assign. cbn [eval]. lk. rewrite HR. cbn [rbind binop_vals binop_scalar].
        change (2 =? 0) with false. cbn [lift assign eval]. lk. rewrite HP. cbn [rbind binop_vals binop_scalar lift].
        rewrite store_write by lia.
        destruct (write_bit b1 (loc + 1) (rem' mod 2)) as [b2| |] eqn:W2; cbn [bind lift seq]; [|reflexivity|exact I].
        cbn [exec]. lk. rewrite HP. cbn [lift eval binop_vals binop_scalar].
        eexists; split; [reflexivity|]. split; [lk; reflexivity|]. split; [lk; reflexivity|].
        intros x H1 H2. repeat rewrite lookup_update_other by assumption. reflexivity.
      + rewrite exec_skip. cbn [bind seq exec]. lk. rewrite HP. cbn [lift eval binop_vals binop_scalar].
        eexists; split; [reflexivity|]. split; [lk; reflexivity|]. split; [lk; reflexivity|].
        intros x H1 H2. repeat rewrite lookup_update_other by assumption. reflexivity.
    - rewrite exec_if. cbn [eval]. rewrite HX. cbn [rbind cmp_vals cmp_scalar mixes_bool is_arr orb val_eqb lift truthy].
      destruct (radix =? 2) eqn:E2.
      + rewrite exec_seq, exec_assign. cbn [eval]. rewrite HR. cbn [rbind binop_vals binop_scalar].
        change (2 =? 0) with false. cbn [lift assign eval]. rewrite HP, HM. cbn [lift].
        rewrite store_write by exact Hloc.
        destruct (write_bit bits loc (rem' mod 2)) as [b1| |] eqn:W1; cbn [bind lift seq]; [|reflexivity|exact I].
        cbn [exec]. lk. rewrite HP. cbn [lift eval binop_vals binop_scalar].
        eexists; split; [reflexivity|]. split; [lk; reflexivity|]. split; [lk; reflexivity|].
        intros x H1 H2. repeat rewrite lookup_update_other by assumption. reflexivity.
      + rewrite exec_if. cbn [eval]. rewrite HX. cbn [rbind cmp_vals cmp_scalar mixes_bool is_arr orb val_eqb lift truthy].
        destruct (radix =? 1) eqn:E1.
        * rewrite exec_skip. exists en. split; [reflexivity|]. split; [exact HM|]. split; [exact HP|]. reflexivity.
        * rewrite exec_if. cbn [eval]. rewrite HX. cbn [rbind cmp_vals cmp_scalar mixes_bool is_arr orb val_eqb lift truthy].
          destruct (radix =? 3); apply exec_raise.
  Qed.

  (* ---- the body ---------------------------------------------------------------------------------------------------------- *)
  Definition used_expr : expr :=
    (EIndex (EB1 BNpWhere (ECmp CGe (EIndex (EVar "accessor"%string) (EVar "vertex_index"%string)) (EInt (0)))) (EInt (0))).
  Definition comp_expr : expr :=
    (EComp (EIndex (EVar "nucleotides"%string) (EVar "used_index"%string)) "used_index"%string (EVar "used_indices"%string)).
  Definition next_expr : expr :=
    (EIndex (EIndex (EVar "accessor"%string) (EVar "vertex_index"%string)) (EB2 BIndexOf (EVar "nucleotides"%string) (EVar "nucleotide"%string))).

  Definition dfast_body : stmt :=
   (SSeq (SAssign (TVar "used_indices"%string) used_expr)
   (SSeq (SAssign (TVar "radix"%string) (EB1 BLen (EVar "used_indices"%string)))
   (SSeq (SAssign (TVar "used_nucleotides"%string) comp_expr)
   (SSeq (SIf (ECmp CIn (EVar "nucleotide"%string) (EVar "used_nucleotides"%string))
   (SAssign (TVar "remainder"%string) (EB2 BIndexOf (EVar "used_nucleotides"%string) (EVar "nucleotide"%string)))
   (SRaise ValueError))
   (SSeq shuffle_stmt
   (SSeq (SAssign (TVar "vertex_index"%string) next_expr)
   write_stmt)))))).

  Lemma index_row v row : py_get acc v = Ok row -> index_val (varr2 acc) (VInt v) = Ret (varr row).
  Proof. intro H. unfold varr2. cbn [index_val]. rewrite py_get_map, H. reflexivity. Qed.

  Lemma eval_used en v row :
    lookup "accessor" en = Ret (varr2 acc) -> lookup "vertex_index" en = Ret (VInt v) -> py_get acc v = Ok row ->
    eval ce en used_expr = Ret (varr (used_indices row)).
  Proof.
    intros HA HV Hrow. unfold used_expr. cbn [eval]. rewrite HA, HV. cbn [rbind]. rewrite (index_row v row Hrow). cbn [rbind].
    rewrite cmp_ge0. cbn [rbind]. rewrite where_bools. cbn [rbind]. rewrite index_tuple1.
    unfold used_indices. rewrite used_from_bools. reflexivity.
  Qed.

  Lemma len_varr l : builtin1_val BLen (varr l) = Ret (VInt (Z.of_nat (length l))).
  Proof. unfold varr. cbn [builtin1_val]. rewrite map_length. reflexivity. Qed.

  Lemma eval_comp en used :
    lookup "used_indices" en = Ret (varr used) -> lookup "nucleotides" en = Ret (VStr [65; 67; 71; 84]) ->
    Forall (fun j => 0 <= j < 4) used -> eval ce en comp_expr = Ret (VList (vnucs used)).
  Proof.
    intros HU HN HF. unfold comp_expr. cbn [eval]. rewrite HU. cbn [rbind]. rewrite items_varr. cbn [rbind].
    pose proof (comp_nucs ce en used HF HN) as H. cbn [eval] in H. rewrite H. reflexivity.
  Qed.

  Lemma eval_next en v row c j :
    lookup "accessor" en = Ret (varr2 acc) -> lookup "vertex_index" en = Ret (VInt v) ->
    lookup "nucleotides" en = Ret (VStr [65; 67; 71; 84]) -> lookup "nucleotide" en = Ret (VStr [c]) ->
    py_get acc v = Ok row -> nuc_index c = Some j ->
    eval ce en next_expr = (match py_get row j with Ok nxt => Ret (VInt nxt) | _ => Exn IndexError end).
  Proof.
    intros HA HV HN HC Hrow Hj. unfold next_expr. cbn [eval]. rewrite HA, HV, HN, HC. cbn [rbind].
    rewrite (index_row v row Hrow). cbn [rbind]. rewrite (indexof_acgt c j Hj). cbn [rbind].
    unfold varr. cbn [index_val]. rewrite py_get_map. destruct (py_get row j); reflexivity.
  Qed.

  Definition Inv (en : env) (v : Z) (bits : list Z) (loc : Z) : Prop :=
    lookup "nucleotides" en = Ret (VStr [65; 67; 71; 84]) /\ lookup "accessor" en = Ret (varr2 acc) /\
    lookup "shuffles" en = Ret (v_table sh) /\ lookup "bit_length" en = Ret (VInt L) /\
    lookup "vertex_index" en = Ret (VInt v) /\ lookup "binary_message" en = Ret (varr bits) /\
    lookup "message_location" en = Ret (VInt loc).

  (* one iteration of the model *)
  Definition dstep (c v : Z) (bits : list Z) (loc : Z) : result (Z * (list Z * Z)) :=
    row <- py_get acc v ;;
    let used := used_indices row in
    match nuc_index c with
    | None => Raise ValueError
    | Some j =>
        match first_pos j used 0 with
        | None => Raise ValueError
        | Some rem =>
            rem' <- unshuffle_digit sh v used rem ;;
            nxt <- py_get row j ;;
            p <- write_step (Z.of_nat (length used)) rem' bits loc ;;
            Ok (nxt, p)
        end
    end.

  Lemma decode_fast_cons c t v bits loc :
    decode_fast (c :: t) acc v sh bits loc =
    st <- dstep c v bits loc ;; decode_fast t acc (fst st) sh (fst (snd st)) (snd (snd st)).
  Proof.
    cbn [decode_fast]. unfold dstep, write_step.
    destruct (py_get acc v) as [row| |]; cbn [bind]; try reflexivity.
    destruct (nuc_index c) as [j|]; [|reflexivity].
    destruct (first_pos j (used_indices row) 0) as [rem|]; [|reflexivity].
    destruct (unshuffle_digit sh v (used_indices row) rem) as [rem'| |]; cbn [bind]; try reflexivity.
    destruct (py_get row j) as [nxt| |]; cbn [bind]; try reflexivity.
    destruct (Z.of_nat (length (used_indices row)) =? 4).
    - destruct (write_bit bits loc (rem' / 2)) as [b1| |]; cbn [bind]; try reflexivity.
      destruct (if loc + 1 <? Z.of_nat (length bits) then write_bit b1 (loc + 1) (rem' mod 2) else Ok b1) as [b2| |];
        cbn [bind fst snd]; reflexivity.
    - destruct (Z.of_nat (length (used_indices row)) =? 2).
      + destruct (write_bit bits loc (rem' mod 2)) as [b1| |]; cbn [bind fst snd]; reflexivity.
      + destruct (Z.of_nat (length (used_indices row)) =? 1); reflexivity.
  Qed.

  Lemma write_step_len radix rem' bits loc b l : 0 <= loc ->
    write_step radix rem' bits loc = Ok (b, l) -> length b = length bits /\ 0 <= l.
  Proof.
    intro Hloc. unfold write_step.
    destruct (radix =? 4).
    - destruct (write_bit bits loc (rem' / 2)) as [b1| |] eqn:W1; cbn [bind]; try discriminate.
      destruct (loc + 1 <? Z.of_nat (length bits)).
      + destruct (write_bit b1 (loc + 1) (rem' mod 2)) as [b2| |] eqn:W2; cbn [bind]; try discriminate.
        intro H; injection H as <- <-. apply write_bit_len in W1, W2. split; [congruence|lia].
      + cbn [bind]. intro H; injection H as <- <-. apply write_bit_len in W1. split; [congruence|lia].
    - destruct (radix =? 2).
      + destruct (write_bit bits loc (rem' mod 2)) as [b1| |] eqn:W1; cbn [bind]; try discriminate.
        intro H; injection H as <- <-. apply write_bit_len in W1. split; [congruence|lia].
      + destruct (radix =? 1); [|discriminate]. intro H; injection H as <- <-. split; [reflexivity|lia].
  Qed.

  Lemma row_facts v : 0 <= v < Z.of_nat (length acc) ->
    exists row, py_get acc v = Ok row /\ length row = 4%nat /\ Forall (fun x => -1 <= x < Z.of_nat (length acc)) row.
  Proof.
    intro Hv. exists (nth (Z.to_nat v) acc []). split; [apply ShuffleProofs.py_get_ok; exact Hv|].
    unfold acc_shape in Hacc. rewrite Forall_forall in Hacc. apply Hacc. apply nth_In. lia.
  Qed.

  Lemma next_facts row j rem : length row = 4%nat -> Forall (fun x => -1 <= x < Z.of_nat (length acc)) row ->
    first_pos j (used_indices row) 0 = Some rem ->
    exists nxt, py_get row j = Ok nxt /\ 0 <= nxt < Z.of_nat (length acc).
  Proof.
    intros Hl4 Hbnd Hp. apply ShuffleProofs.first_pos_some in Hp. destruct Hp as (n & Hn & _ & Hx).
    assert (Hin : In j (used_indices row)) by (rewrite <- Hx; apply nth_In; exact Hn).
    apply (proj2 (WalkProofs.used_indices_spec row Hl4)) in Hin. destruct Hin as [Hj Hge].
    exists (nth (Z.to_nat j) row (-1)). split; [apply ShuffleProofs.py_get_ok; lia|].
    rewrite Forall_forall in Hbnd. specialize (Hbnd (nth (Z.to_nat j) row (-1)) ltac:(apply nth_In; lia)). lia.
  Qed.

  Lemma body_ok en i c v bits loc :
    Inv en v bits loc -> 0 <= v < Z.of_nat (length acc) -> Z.of_nat (length bits) = L -> 0 <= loc ->
    match dstep c v bits loc with
    | Ok (nxt, (b, l)) =>
        exists en', seq (assign ce (TTuple ["location"; "nucleotide"]) (VTuple [VInt i; VStr [c]]) en) (exec ce fuel dfast_body)
                    = ONormal en' /\
          Inv en' nxt b l /\ 0 <= nxt < Z.of_nat (length acc) /\ Z.of_nat (length b) = L /\ 0 <= l
    | Raise e => seq (assign ce (TTuple ["location"; "nucleotide"]) (VTuple [VInt i; VStr [c]]) en) (exec ce fuel dfast_body) = OExn e
    | OutOfFuel => True
    end.
  Proof.
    intros (HN & HA & HS & HB & HV & HM & HP) Hv Hlen Hloc.
    destruct (row_facts v Hv) as (row & Hrow & Hl4 & Hbnd).
    unfold dstep. rewrite Hrow. cbn [bind].
    pose proof (used_range row Hl4) as HF. pose proof (used_nodup row) as Hnd.
    set (used := used_indices row) in *.
    cbn [assign items lift bind_tuple seq]. unfold dfast_body.
    rewrite exec_seq, exec_assign. rewrite (eval_used _ v row) by (lk; assumption). cbn [lift assign seq]. fold used.
    rewrite exec_seq, exec_assign. cbn [eval]. lk. cbn [rbind]. rewrite len_varr. cbn [lift assign seq].
    rewrite exec_seq, exec_assign. rewrite (eval_comp _ used) by (lk; first [assumption|reflexivity]). cbn [lift assign seq].
    rewrite exec_seq, exec_if. cbn [eval]. lk. cbn [rbind]. rewrite (in_nucs c used HF). cbn [lift truthy].
    destruct (nuc_index c) as [j|] eqn:Hj; [|rewrite exec_raise; reflexivity].
    destruct (first_pos j used 0) as [rem|] eqn:Hrem; [|rewrite exec_raise; reflexivity].
    rewrite exec_assign. cbn [eval]. lk. cbn [rbind]. rewrite (indexof_nucs c used j rem HF Hj Hrem). cbn [lift assign seq].
    rewrite exec_seq.
    match goal with |- context [exec ce fuel shuffle_stmt ?E] => set (en5 := E) end.
    assert (HSh := exec_shuffle en5 v used rem).
    do 4 (lapply HSh; [clear HSh; intro HSh|unfold en5; lk; first [assumption|reflexivity]]).
    specialize (HSh Hv HF Hnd).
    destruct (unshuffle_digit sh v used rem) as [rem'| |]; cbn [bind]; [|rewrite HSh; reflexivity|exact I].
    destruct HSh as (en6 & E6 & HR6 & HF6). rewrite E6. cbn [seq].
    destruct (next_facts row j rem Hl4 Hbnd Hrem) as (nxt & Hnxt & Hnb).
    rewrite exec_seq, exec_assign.
    rewrite (eval_next en6 v row c j) by (try assumption; rewrite HF6 by discriminate; unfold en5; lk; first [assumption|reflexivity]).
    rewrite Hnxt. cbn [bind lift assign seq].
    match goal with |- context [exec ce fuel write_stmt ?E] => set (en7 := E) end.
    assert (HW := exec_write en7 (Z.of_nat (length used)) rem' bits loc).
    do 5 (lapply HW; [clear HW; intro HW|unfold en7; lk; try exact HR6; rewrite HF6 by discriminate; unfold en5; lk; first [assumption|reflexivity]]).
    specialize (HW Hlen Hloc).
    destruct (write_step (Z.of_nat (length used)) rem' bits loc) as [[b l]| |] eqn:EW; cbn [bind]; [|exact HW|exact I].
    destruct HW as (en8 & E8 & HM8 & HP8 & HF8). exists en8. split; [exact E8|].
    destruct (write_step_len _ _ _ _ _ _ Hloc EW) as [Hbl Hl0].
    split; [|split; [exact Hnb|split; [rewrite Hbl; exact Hlen|exact Hl0]]].
    unfold Inv. repeat split; try assumption;
      (rewrite HF8 by discriminate; unfold en7; lk; try reflexivity; rewrite HF6 by discriminate; unfold en5; lk; assumption).
  Qed.

  Definition out_ok (o : outcome) (r : result (list Z)) : Prop :=
    match r with
    | Ok b => exists en', o = ONormal en' /\ lookup "binary_message" en' = Ret (varr b)
    | Raise e => o = OExn e
    | OutOfFuel => True
    end.

  (* (e) the loop is decode_fast *)
  Lemma loop_ok : forall s i en v bits loc,
    Inv en v bits loc -> 0 <= v < Z.of_nat (length acc) -> Z.of_nat (length bits) = L -> 0 <= loc ->
    out_ok (for_loop ce fuel (TTuple ["location"; "nucleotide"]) dfast_body (enumerate_from i (chars s)) en)
           (decode_fast s acc v sh bits loc).
  Proof.
    induction s as [|c t IH]; intros i en v bits loc HI Hv Hlen Hloc.
    - cbn [chars map enumerate_from for_loop decode_fast out_ok]. exists en. split; [reflexivity|].
      destruct HI as (_ & _ & _ & _ & _ & HM & _). exact HM.
    - rewrite decode_fast_cons.
      change (enumerate_from i (chars (c :: t))) with (VTuple [VInt i; VStr [c]] :: enumerate_from (i + 1) (chars t)).
      rewrite for_loop_cons. pose proof (body_ok en i c v bits loc HI Hv Hlen Hloc) as HB.
      destruct (dstep c v bits loc) as [[nxt [b l]]| |]; cbn [bind fst snd].
      + destruct HB as (en' & E & HI' & Hv' & Hlen' & Hl'). rewrite E. cbn [seq]. apply IH; assumption.
      + rewrite HB. reflexivity.
      + exact I.
  Qed.
End Fast.

(* ---- the whole function ------------------------------------------------------------------------------------------------- *)
Ltac evc := cbn [eval lift seq rbind assign items bind_tuple builtin1_val builtin2_val binop_vals binop_scalar cmp_vals cmp_scalar is_arr orb
                 truthy mixes_bool type_is lookup update String.eqb Ascii.eqb Bool.eqb negb].

Definition vt_ok (vt : option (list Z)) (fuel : nat) : Prop :=
  match vt with None => True | Some c => c <> [] /\ (2 * length c < fuel)%nat end.

Definition res_rel (r : result (list Z)) (x : res val) : Prop :=
  match r with Ok b => x = Ret (varr b) | Raise e => x = Exn e | OutOfFuel => True end.
Definition out_rel (r : result (list Z)) (o : outcome) : Prop :=
  match r with Ok b => o = OReturn (varr b) | Raise e => o = OExn e | OutOfFuel => True end.

(* what follows the check of vt_check *)
Definition decode_tail : stmt := match body decode_def with SSeq _ (SSeq _ t) => t | _ => SSkip end.

Lemma map_repeat_int x n : repeat (VInt x) n = map VInt (repeat x n).
Proof. induction n as [|n IH]; cbn [repeat map]; [reflexivity|rewrite IH; reflexivity]. Qed.

Lemma listZ_eqb_sym : forall a b, listZ_eqb a b = listZ_eqb b a.
Proof.
  induction a as [|x a IH]; intros [|y b]; cbn [listZ_eqb]; try reflexivity.
  rewrite (Z.eqb_sym x y), IH. reflexivity.
Qed.

Lemma tail_ok ce fuel s L acc v vtv sh verbose :
  acc_shape acc -> 0 <= v < Z.of_nat (length acc) -> table_shape (length acc) sh -> 0 <= L ->
  out_rel (decode_fast s acc v sh (repeat 0 (Z.to_nat L)) 0)
    (exec ce fuel decode_tail
       [("dna_sequence", VStr s); ("bit_length", VInt L); ("accessor", varr2 acc); ("start_index", VInt v);
        ("is_faster", VBool true); ("vt_check", vtv); ("shuffles", v_table sh); ("verbose", VBool verbose);
        ("vertex_index", VInt v); ("nucleotides", VStr [65; 67; 71; 84]); ("monitor", VOpaque)]).
Proof.
  intros Hacc Hv Hsh HL. unfold decode_tail. cbn [body decode_def].
  rewrite exec_seq, exec_if. evc. rewrite exec_seq, (exec_assign ce fuel). evc. rewrite exec_for. evc.
  rewrite map_repeat_int.
  match goal with |- context [for_loop ce fuel _ _ _ ?E] => set (en1 := E) end.
  assert (HI : Inv acc sh L en1 v (repeat 0 (Z.to_nat L)) 0) by (unfold Inv; repeat split; reflexivity).
  assert (Hlen : Z.of_nat (length (repeat 0 (Z.to_nat L))) = L) by (rewrite repeat_length; lia).
  pose proof (loop_ok ce fuel acc sh L Hacc Hsh s 0 en1 v (repeat 0 (Z.to_nat L)) 0 HI Hv Hlen ltac:(lia)) as HLoop.
  unfold dfast_body, used_expr, comp_expr, next_expr, shuffle_stmt, write_stmt in HLoop.
  destruct (decode_fast s acc v sh (repeat 0 (Z.to_nat L)) 0) as [r|e|]; cbn [out_ok out_rel] in *.
  - destruct HLoop as (en' & E & HM). rewrite E. cbn [seq]. rewrite (exec_return ce fuel). cbn [eval]. rewrite HM. reflexivity.
  - rewrite HLoop. reflexivity.
  - exact I.
Qed.

(* (f) the check comparison at the top, then the loop *)
Lemma decode_fast_gen_both ce fuel s L acc v vt sh verbose :
  set_vt_callee ce fuel ->
  acc_shape acc -> 0 <= v < Z.of_nat (length acc) -> table_shape (length acc) sh -> vt_ok vt fuel -> 0 <= L ->
  res_rel (Coder.decode s L acc v true vt sh)
    (run_fun ce fuel decode_def [VStr s; VInt L; varr2 acc; VInt v; VBool true; v_optstr vt; v_table sh; VBool verbose]).
Proof.
  intros Hset Hacc Hv Hsh Hvt HL. unfold run_fun. cbn [params body bind_params decode_def].
  rewrite exec_seq, (exec_assign ce fuel). evc.
  rewrite exec_seq.
  match goal with |- context [seq _ (exec ce fuel ?T)] => change T with decode_tail end.
  rewrite exec_if. evc. unfold Coder.decode.
  destruct vt as [chk|]; cbn [v_optstr builtin1_val rbind truthy negb lift bind].
  - destruct Hvt as [Hne Hfu].
    rewrite exec_if. evc.
    rewrite Hset by (destruct chk; [contradiction|cbn [length]; lia] || lia).
    destruct (set_vt s (Z.of_nat (length chk))) as [c'|e|]; cbn [res_of_str rbind bind is_arr val_eqb lift truthy].
    + rewrite (listZ_eqb_sym chk c'). destruct (listZ_eqb c' chk); cbn [negb].
      * rewrite (exec_skip ce fuel). cbn [seq].
        pose proof (tail_ok ce fuel s L acc v (VStr chk) sh verbose Hacc Hv Hsh HL) as HT.
        destruct (decode_fast s acc v sh (repeat 0 (Z.to_nat L)) 0); cbn [out_rel res_rel] in *;
          [rewrite HT; reflexivity|rewrite HT; reflexivity|exact I].
      * rewrite (exec_raise ce fuel). reflexivity.
    + reflexivity.
    + exact I.
  - rewrite (exec_skip ce fuel). cbn [seq].
    pose proof (tail_ok ce fuel s L acc v VNone sh verbose Hacc Hv Hsh HL) as HT.
    destruct (decode_fast s acc v sh (repeat 0 (Z.to_nat L)) 0); cbn [out_rel res_rel] in *;
      [rewrite HT; reflexivity|rewrite HT; reflexivity|exact I].
Qed.

Theorem decode_fast_gen_ok : forall ce fuel s L acc v vt sh verbose r,
  callees_ok ce fuel -> set_vt_callee ce fuel ->
  acc_shape acc -> 0 <= v < Z.of_nat (length acc) -> table_shape (length acc) sh -> vt_ok vt fuel -> 0 <= L ->
  Coder.decode s L acc v true vt sh = Ok r ->
  run_fun ce fuel decode_def [VStr s; VInt L; varr2 acc; VInt v; VBool true; v_optstr vt; v_table sh; VBool verbose]
  = Ret (varr r).
Proof.
  intros ce fuel s L acc v vt sh verbose r _ Hset Hacc Hv Hsh Hvt HL HD.
  pose proof (decode_fast_gen_both ce fuel s L acc v vt sh verbose Hset Hacc Hv Hsh Hvt HL) as H.
  rewrite HD in H. exact H.
Qed.

Theorem decode_fast_gen_raise : forall ce fuel s L acc v vt sh verbose e,
  callees_ok ce fuel -> set_vt_callee ce fuel ->
  acc_shape acc -> 0 <= v < Z.of_nat (length acc) -> table_shape (length acc) sh -> vt_ok vt fuel -> 0 <= L ->
  Coder.decode s L acc v true vt sh = Raise e ->
  run_fun ce fuel decode_def [VStr s; VInt L; varr2 acc; VInt v; VBool true; v_optstr vt; v_table sh; VBool verbose]
  = Exn e.
Proof.
  intros ce fuel s L acc v vt sh verbose e _ Hset Hacc Hv Hsh Hvt HL HD.
  pose proof (decode_fast_gen_both ce fuel s L acc v vt sh verbose Hset Hacc Hv Hsh Hvt HL) as H.
  rewrite HD in H. exact H.
Qed.

Print Assumptions decode_fast_gen_ok.
Print Assumptions decode_fast_gen_raise.
