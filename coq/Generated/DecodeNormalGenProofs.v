(* DecodeNormalGenProofs.v -- the regenerated decode (dsw/spiderweb.py), arbitrary-precision mode, computes Coder.decode.
   Compiled on every run of the checks against the freshly generated CoderGen.v / OperationGen.v (harness/regen.py, unit "coder"). *)
From Coq Require Import Lia ZifyBool.
From DSW Require Import MiniPy Bignum Convert Coder Spec MiniPyLemmas BignumProofs ConvertProofs.
From DSWGen Require Import OperationGen CoderGen OperationGenProofs CoderCallees.
Open Scope Z_scope.
Open Scope string_scope.
Ltac Zify.zify_post_hook ::= Z.to_euclidean_division_equations.
Local Open Scope Z_scope.

From Coq Require Import Permutation Sorted.
From DSW Require Import ShuffleProofs WalkProofs.

(* PROVED (exactly as stated in the task; is_faster = False):  decode_normal_gen_ok, decode_normal_gen_raise (end of file).
   Notes: the check comparison `vt_check != set_vt(dna_sequence, len(vt_check))` (set_vt_callee with n = length c >= 1; string
   inequality is negb (listZ_eqb ..)); set_vt may raise ValueError on a foreign character, which decode propagates, as the model
   does.  The first for loop over enumerate(dna_sequence) is Coder.decode_walk (lemma walk_loop, one character = wstep /
   body_step; saved_values accumulates (out_degree, remainder) pairs as VTuple [VInt; VInt] by append, i.e. in strand order);
   `nucleotide in used_nucleotides` / `.index` on the list of one-character strings correspond to nuc_index c / first_pos j used 0
   (index_of_nucs); `where(argsort(..) == remainder)[0][0]` is unshuffle_digit (eval_unshuffle: an empty `where` is IndexError on
   both sides); the second loop (TPair target) is Coder.horner_str (horner_loop); number_to_bit gets its fuel from
   dval (horner_str saved) < 4 ^ length saved (horner_fold_bound) and OperationGenProofs.fuel_str_bound.  The proof follows the
   model step by step, so an out-of-range vertex (IndexError in the model) is IndexError in the program too: the hypothesis
   0 <= v < length acc of the statements is not used. *)

Definition vt_ok (vt : option (list Z)) (fuel : nat) : Prop :=
  match vt with None => True | Some c => c <> [] /\ (2 * length c < fuel)%nat end.

(* ---- tactics ------------------------------------------------------------------------------------------------------ *)
Ltac lk := repeat (rewrite lookup_update_same || (rewrite lookup_update_other by discriminate)).

(* ---- lists --------------------------------------------------------------------------------------------------------- *)
Lemma nthZ_map {A B} (f : A -> B) : forall l n, nthZ (map f l) n = option_map f (nthZ l n).
Proof.
  induction l as [|x t IH]; intros n; [destruct n; reflexivity|].
  destruct n as [|n]; cbn [map nthZ option_map]; [reflexivity|apply IH].
Qed.

Lemma py_get_map {A B} (f : A -> B) l i :
  py_get (map f l) i = match py_get l i with Ok x => Ok (f x) | Raise e => Raise e | OutOfFuel => OutOfFuel end.
Proof.
  unfold py_get. rewrite map_length. cbv zeta.
  destruct (((if i <? 0 then i + Z.of_nat (length l) else i) <? 0)
            || (Z.of_nat (length l) <=? (if i <? 0 then i + Z.of_nat (length l) else i))); [reflexivity|].
  rewrite nthZ_map. destruct (nthZ l _); reflexivity.
Qed.

Lemma nthZ_in {A} : forall (l : list A) n x, nthZ l n = Some x -> In x l.
Proof.
  induction l as [|y t IH]; intros n x H; [destruct n; discriminate|].
  destruct n as [|n]; cbn [nthZ] in H; [injection H as <-; left; reflexivity|right; eapply IH; exact H].
Qed.

Lemma py_get_in {A} (l : list A) i x : py_get l i = Ok x -> In x l.
Proof.
  unfold py_get. cbv zeta. destruct (_ || _); [discriminate|].
  destruct (nthZ l _) as [y|] eqn:E; [|discriminate]. intro H; injection H as <-. eapply nthZ_in; exact E.
Qed.

Lemma py_get_nth {A} (l : list A) i x d : py_get l i = Ok x -> 0 <= i -> x = nth (Z.to_nat i) l d /\ i < Z.of_nat (length l).
Proof.
  intros H Hi. unfold py_get in H. cbv zeta in H.
  destruct (i <? 0) eqn:E0; [lia|].
  destruct (Z.of_nat (length l) <=? i) eqn:E1; [rewrite orb_true_r in H; discriminate|].
  destruct (i <? 0) eqn:E2; [lia|]. cbn [orb] in H.
  rewrite (nthZ_nth l _ d) in H by lia. injection H as <-. split; [reflexivity|lia].
Qed.

Lemma map_res_map {A B C} (f : B -> res C) (h : A -> B) (k : A -> C) : forall l,
  (forall x, In x l -> f (h x) = Ret (k x)) -> map_res f (map h l) = Ret (map k l).
Proof.
  induction l as [|x t IH]; intros H; [reflexivity|].
  cbn [map map_res]. rewrite H by (left; reflexivity). cbn [rbind]. rewrite IH; [reflexivity|].
  intros y Hy. apply H. right. exact Hy.
Qed.

Lemma listZ_eqb_sym : forall a b, listZ_eqb a b = listZ_eqb b a.
Proof.
  induction a as [|x a IH]; intros [|y b]; cbn [listZ_eqb]; try reflexivity.
  rewrite IH. rewrite (Z.eqb_sym x y). reflexivity.
Qed.

Lemma forallb_map_VInt l : forallb (fun x => match x with VInt _ => true | _ => false end) (map VInt l) = true.
Proof. induction l as [|x t IH]; [reflexivity|exact IH]. Qed.

(* ---- NumPy primitives ----------------------------------------------------------------------------------------------- *)
Lemma index_varr2 a v :
  index_val (varr2 a) (VInt v) = match py_get a v with Ok row => Ret (varr row) | _ => Exn IndexError end.
Proof.
  unfold index_val, varr2. rewrite py_get_map. destruct (py_get a v); reflexivity.
Qed.

Lemma index_varr l j :
  index_val (varr l) (VInt j) = match py_get l j with Ok x => Ret (VInt x) | _ => Exn IndexError end.
Proof.
  unfold index_val, varr. rewrite py_get_map. destruct (py_get l j); reflexivity.
Qed.

Lemma cmp_ge0_varr row : cmp_vals CGe (varr row) (VInt 0) = Ret (VArr (map (fun x => VBool (0 <=? x)) row)).
Proof.
  unfold cmp_vals, varr.
  rewrite (map_res_map _ VInt (fun x => VBool (0 <=? x))); [reflexivity|]. intros x _. reflexivity.
Qed.

Lemma cmp_eq_varr l r : cmp_vals CEq (varr l) (VInt r) = Ret (VArr (map (fun x => VBool (x =? r)) l)).
Proof.
  unfold cmp_vals, varr.
  rewrite (map_res_map _ VInt (fun x => VBool (x =? r))); [reflexivity|]. intros x _. reflexivity.
Qed.

Lemma where_bools {A} (g : A -> bool) l :
  builtin1_val BNpWhere (VArr (map (fun x => VBool (g x)) l)) =
  Ret (VTuple [varr (used_indices (map (fun x => if g x then 0 else -1) l))]).
Proof.
  unfold builtin1_val.
  rewrite (map_res_map _ (fun x => VBool (g x)) g) by (intros; reflexivity). cbn [rbind].
  rewrite map_map. reflexivity.
Qed.

Lemma used_from_flag : forall row j, used_from (map (fun x => if 0 <=? x then 0 else -1) row) j = used_from row j.
Proof.
  induction row as [|x t IH]; intros j; [reflexivity|]. cbn [map used_from]. rewrite IH.
  destruct (0 <=? x); reflexivity.
Qed.

Lemma where_ge0 row : builtin1_val BNpWhere (VArr (map (fun x => VBool (0 <=? x)) row)) = Ret (VTuple [varr (used_indices row)]).
Proof. rewrite where_bools. unfold used_indices. rewrite used_from_flag. reflexivity. Qed.

(* where(a == r)[0][0] : the first position *)
Lemma used_from_eq r : forall l i,
  match first_pos r l i with
  | Some p => exists tl, used_from (map (fun x => if x =? r then 0 else -1) l) i = p :: tl
  | None => used_from (map (fun x => if x =? r then 0 else -1) l) i = []
  end.
Proof.
  induction l as [|y t IH]; intros i; [reflexivity|]. cbn [first_pos map used_from].
  rewrite (Z.eqb_sym r y). destruct (y =? r); cbn [Z.leb]; [eexists; reflexivity|].
  change (0 <=? -1) with false. cbv iota. apply IH.
Qed.

Lemma index_tuple1 x : index_val (VTuple [x]) (VInt 0) = Ret x.
Proof. reflexivity. Qed.

Lemma where_eq_first l r :
  (t <~ builtin1_val BNpWhere (VArr (map (fun x => VBool (x =? r)) l)) ;; a <~ index_val t (VInt 0) ;; index_val a (VInt 0))
  = match first_pos r l 0 with Some p => Ret (VInt p) | None => Exn IndexError end.
Proof.
  rewrite where_bools. cbn [rbind]. rewrite index_tuple1. cbn [rbind]. unfold used_indices.
  pose proof (used_from_eq r l 0) as H. destruct (first_pos r l 0) as [p|].
  - destruct H as [tl ->]. reflexivity.
  - rewrite H. reflexivity.
Qed.

Lemma blen_varr l : builtin1_val BLen (varr l) = Ret (VInt (Z.of_nat (length l))).
Proof. unfold varr, builtin1_val. rewrite map_length. reflexivity. Qed.

(* ---- nucleotides ----------------------------------------------------------------------------------------------------- *)
Definition ACGT : list Z := [65; 67; 71; 84].
Definition nucv (j : Z) : val := VStr [nuc_char j].

Lemma index_nuc r : 0 <= r < 4 -> index_val (VStr ACGT) (VInt r) = Ret (nucv r).
Proof.
  intro H. assert (C : r = 0 \/ r = 1 \/ r = 2 \/ r = 3) by lia.
  destruct C as [->|[->|[->| ->]]]; reflexivity.
Qed.

Lemma str_index_nuc c : builtin2_val BIndexOf (VStr ACGT) (VStr [c]) =
  match nuc_index c with Some j => Ret (VInt j) | None => Exn ValueError end.
Proof.
  unfold builtin2_val, str_index, nuc_index, ACGT. cbn [indexZ].
  destruct (c =? 65); [reflexivity|]. destruct (c =? 67); [reflexivity|].
  destruct (c =? 71); [reflexivity|]. destruct (c =? 84); reflexivity.
Qed.

Lemma val_eqb_nuc c j : 0 <= j < 4 ->
  val_eqb (VStr [c]) (nucv j) = match nuc_index c with Some j' => j' =? j | None => false end.
Proof.
  intro H. unfold nucv, val_eqb, listZ_eqb. rewrite andb_true_r.
  assert (C : j = 0 \/ j = 1 \/ j = 2 \/ j = 3) by lia.
  unfold nuc_index.
  destruct C as [->|[->|[->| ->]]];
    [change (nuc_char 0) with 65|change (nuc_char 1) with 67|change (nuc_char 2) with 71|change (nuc_char 3) with 84];
  destruct (c =? 65) eqn:E1; destruct (c =? 67) eqn:E2; destruct (c =? 71) eqn:E3; destruct (c =? 84) eqn:E4;
  cbv beta iota; try reflexivity; lia.
Qed.

Lemma forallb_nucv used : forallb (fun y => match y with VInt _ | VStr _ => true | _ => false end) (map nucv used) = true.
Proof. induction used as [|x t IH]; [reflexivity|exact IH]. Qed.

Lemma index_of_nucs c : forall used i, Forall (fun j => 0 <= j < 4) used ->
  index_of_val (VStr [c]) (map nucv used) i = match nuc_index c with Some j => first_pos j used i | None => None end.
Proof.
  induction used as [|u t IH]; intros i H; [destruct (nuc_index c); reflexivity|].
  inversion H as [|? ? Hu Ht]; subst. cbn [map index_of_val first_pos].
  rewrite (val_eqb_nuc c u Hu). rewrite (IH (i + 1) Ht).
  destruct (nuc_index c) as [j|]; reflexivity.
Qed.

Lemma mem_index_of x : forall l i, mem_val x l = match index_of_val x l i with Some _ => true | None => false end.
Proof.
  induction l as [|y t IH]; intros i; [reflexivity|]. cbn [mem_val index_of_val].
  destruct (val_eqb x y); [reflexivity|]. cbn [orb]. apply IH.
Qed.

(* ---- shuffles[vertex_index, used_indices], argsort -------------------------------------------------------------------- *)
Lemma memZ_iff x : forall l, memZ x l = true <-> In x l.
Proof.
  induction l as [|y t IH]; cbn [memZ In]; [split; [discriminate|contradiction]|].
  rewrite orb_true_iff, IH. split; (intros [H|H]; [left; lia|right; exact H]).
Qed.

Lemma nodupb_true : forall l, NoDup l -> nodupb l = true.
Proof.
  induction l as [|x t IH]; intros H; [reflexivity|]. apply NoDup_cons_iff in H. destruct H as [Hx Ht].
  cbn [nodupb]. rewrite (IH Ht), andb_true_r. destruct (memZ x t) eqn:E; [|reflexivity].
  apply memZ_iff in E. contradiction.
Qed.

Lemma ssorted_nodup : forall l, StronglySorted Z.lt l -> NoDup l.
Proof.
  induction l as [|h t IH]; intros Hs; [constructor|].
  apply StronglySorted_inv in Hs. destruct Hs as [Hst Hfa]. constructor; [|apply IH; exact Hst].
  intro Hin. rewrite Forall_forall in Hfa. specialize (Hfa _ Hin). lia.
Qed.

Lemma pick_nodup srow : forall used, NoDup srow -> NoDup used ->
  Forall (fun j => 0 <= j < Z.of_nat (length srow)) used -> NoDup (pick srow used).
Proof.
  induction used as [|u t IH]; intros Hs Hu Hr; [constructor|].
  apply NoDup_cons_iff in Hu. destruct Hu as [Hni Hnt]. inversion Hr as [|? ? Hur Htr]; subst.
  unfold pick in *. cbn [map]. constructor; [|apply IH; assumption].
  intro Hin. apply in_map_iff in Hin. destruct Hin as [u' [E Hu']].
  rewrite Forall_forall in Htr. specialize (Htr _ Hu').
  apply (proj1 (NoDup_nth srow (-1)) Hs) in E; [|lia|lia].
  apply Hni. replace u with u' by lia. exact Hu'.
Qed.

Lemma fancy_index t v used : Forall (fun r => length r = 4%nat /\ NoDup r) t -> Forall (fun j => 0 <= j < 4) used ->
  index_val (varr2 t) (VTuple [VInt v; varr used]) =
  match py_get t v with Ok srow => Ret (varr (pick srow used)) | _ => Exn IndexError end.
Proof.
  intros Ht Hu. unfold index_val, varr2, varr at 1. rewrite py_get_map.
  destruct (py_get t v) as [srow|e|] eqn:E; try reflexivity.
  apply py_get_in in E. rewrite Forall_forall in Ht. destruct (Ht _ E) as [Hl _].
  unfold varr at 1.
  rewrite (map_res_map _ VInt (fun j => VInt (nth (Z.to_nat j) srow (-1)))).
  - cbn [rbind]. unfold varr, pick. rewrite map_map. reflexivity.
  - intros x Hx. rewrite Forall_forall in Hu. specialize (Hu _ Hx).
    rewrite py_get_map. rewrite (py_get_ok srow x (-1)) by lia. reflexivity.
Qed.

Lemma argsort_varr keys : NoDup keys -> builtin1_val BNpArgsort (varr keys) = Ret (varr (argsort keys)).
Proof.
  intro H. unfold builtin1_val, varr.
  rewrite (map_res_map _ VInt (fun z => z)) by (intros; reflexivity). cbn [rbind]. rewrite map_id.
  rewrite (nodupb_true keys H). reflexivity.
Qed.

Lemma used_shape row : length row = 4%nat ->
  Forall (fun j => 0 <= j < 4) (used_indices row) /\ NoDup (used_indices row) /\
  (forall j, In j (used_indices row) -> 0 <= nth (Z.to_nat j) row (-1)).
Proof.
  intro Hl. destruct (used_indices_spec row Hl) as [Hs Hi]. split; [|split].
  - apply Forall_forall. intros j Hj. apply Hi in Hj. lia.
  - apply ssorted_nodup. exact Hs.
  - intros j Hj. apply Hi in Hj. lia.
Qed.

Lemma py_get_raise {A} (l : list A) i e : py_get l i = Raise e -> e = IndexError.
Proof.
  unfold py_get. cbv zeta. destruct (_ || _); [intro H; injection H as <-; reflexivity|].
  destruct (nthZ l _); [discriminate|intro H; injection H as <-; reflexivity].
Qed.

Lemma py_get_fuel {A} (l : list A) i : py_get l i <> OutOfFuel.
Proof. unfold py_get. cbv zeta. destruct (_ || _); [discriminate|]. destruct (nthZ l _); discriminate. Qed.

(* ---- the pieces of the generated term --------------------------------------------------------------------------------- *)
Definition used_expr : expr :=
  (EIndex (EB1 BNpWhere (ECmp CGe (EIndex (EVar "accessor"%string) (EVar "vertex_index"%string)) (EInt (0)))) (EInt (0))).
Definition comp_expr : expr :=
  (EComp (EIndex (EVar "nucleotides"%string) (EVar "used_index"%string)) "used_index"%string (EVar "used_indices"%string)).
Definition unshuffle_expr : expr :=
  (EIndex (EIndex (EB1 BNpWhere (ECmp CEq (EB1 BNpArgsort (EIndex (EVar "shuffles"%string) (ETuple [(EVar "vertex_index"%string); (EVar "used_indices"%string)]))) (EVar "remainder"%string))) (EInt (0))) (EInt (0))).
Definition next_expr : expr :=
  (EIndex (EIndex (EVar "accessor"%string) (EVar "vertex_index"%string)) (EB2 BIndexOf (EVar "nucleotides"%string) (EVar "nucleotide"%string))).
Definition branch_many : stmt :=
 (SSeq (SAssign (TVar "used_nucleotides"%string) comp_expr)
 (SSeq (SIf (ECmp CIn (EVar "nucleotide"%string) (EVar "used_nucleotides"%string))
 (SAssign (TVar "remainder"%string) (EB2 BIndexOf (EVar "used_nucleotides"%string) (EVar "nucleotide"%string)))
 (SRaise ValueError))
 (SSeq (SIf (ENot (EB1 BIsNone (EVar "shuffles"%string)))
 (SAssign (TVar "remainder"%string) unshuffle_expr)
 SSkip)
 (SSeq (SAppend "saved_values"%string (ETuple [(EB1 BLen (EVar "used_indices"%string)); (EVar "remainder"%string)]))
 (SAssign (TVar "vertex_index"%string) next_expr))))).
Definition branch_one : stmt :=
 (SSeq (SAssign (TVar "used_nucleotide"%string) (EIndex (EVar "nucleotides"%string) (EIndex (EVar "used_indices"%string) (EInt (0)))))
 (SIf (ECmp CEq (EVar "nucleotide"%string) (EVar "used_nucleotide"%string))
 (SAssign (TVar "vertex_index"%string) next_expr)
 (SRaise ValueError))).
Definition verbose_stmt : stmt :=
 (SIf (EVar "verbose"%string)
 (SExpr (ETuple [(EBin Add (EVar "location"%string) (EInt (1))); (EB1 BLen (EVar "dna_sequence"%string))]))
 SSkip).
Definition walk_body : stmt :=
 (SSeq (SAssign (TVar "used_indices"%string) used_expr)
 (SSeq (SIf (ECmp CGt (EB1 BLen (EVar "used_indices"%string)) (EInt (1)))
 branch_many
 (SIf (ECmp CEq (EB1 BLen (EVar "used_indices"%string)) (EInt (1)))
 branch_one
 (SRaise ValueError)))
 verbose_stmt)).
Definition horner_body : stmt :=
 (SSeq (SAssign (TVar "quotient"%string) (ECall "calculus_multiplication"%string [(EVar "quotient"%string); (EB1 BStr (EVar "out_degree"%string))]))
 (SAssign (TVar "quotient"%string) (ECall "calculus_addition"%string [(EVar "quotient"%string); (EB1 BStr (EVar "number"%string))]))).
Definition normal_part : stmt :=
 (SSeq (SAssign (TTuple ["quotient"%string; "saved_values"%string]) (ETuple [(EStr [48]); (EList [])]))
 (SSeq (SFor (TTuple ["location"%string; "nucleotide"%string]) (EB1 BEnumerate (EVar "dna_sequence"%string)) walk_body)
 (SSeq (SFor (TPair "location"%string ["out_degree"%string; "number"%string]) (EB1 BEnumerate (EB1 BRev (EVar "saved_values"%string))) horner_body)
 (SAssign (TVar "binary_message"%string) (EB1 BNpArray (ECall "number_to_bit"%string [(EVar "quotient"%string); (EVar "bit_length"%string)])))))).
Definition check_part : stmt :=
 (SIf (ENot (EB1 BIsNone (EVar "vt_check"%string)))
 (SIf (ECmp CNe (EVar "vt_check"%string) (ECall "set_vt"%string [(EVar "dna_sequence"%string); (EB1 BLen (EVar "vt_check"%string))]))
 (SRaise ValueError)
 SSkip)
 SSkip).

(* the generated body is: prelude; check; if not is_faster: normal_part else: <fast part>; return binary_message *)
Lemma decode_def_shape : exists fast_part,
  body decode_def =
  SSeq (SAssign (TTuple ["vertex_index"%string; "nucleotides"%string; "monitor"%string]) (ETuple [(EVar "start_index"%string); (EStr [65; 67; 71; 84]); EOpaque]))
  (SSeq check_part
  (SSeq (SIf (ENot (EVar "is_faster"%string)) normal_part fast_part)
  (SReturn (EVar "binary_message"%string)))).
Proof. eexists. reflexivity. Qed.

Definition pairv (dn : Z * Z) : val := VTuple [VInt (fst dn); VInt (snd dn)].
Definition optv (o : option (Z * Z)) : list val := match o with Some dn => [pairv dn] | None => [] end.
Definition optl (o : option (Z * Z)) : list (Z * Z) := match o with Some dn => [dn] | None => [] end.
Definition good (dn : Z * Z) : Prop := 2 <= fst dn <= 4 /\ 0 <= snd dn < fst dn.
Definition res_of {A} (f : A -> val) (r : result A) : res val :=
  match r with Ok x => Ret (f x) | Raise e => Exn e | OutOfFuel => Fuel end.

Section Walk.
  Variable ce : string -> list val -> res val.
  Variable fuel : nat.
  Variable acc : list (list Z).
  Variable sh : option (list (list Z)).
  Variable verbose : bool.
  Variable s0 : list Z.
  Variables vq vb : val.
  Hypothesis Hacc : acc_shape acc.
  Hypothesis Hsh : table_shape (length acc) sh.

  (* one character of the strand in the model *)
  Definition wstep (c v : Z) : result (option (Z * Z) * Z) :=
    row <- py_get acc v ;;
    let used := used_indices row in
    match used with
    | [] => Raise ValueError
    | [j] => if c =? nuc_char j then nxt <- py_get row j ;; Ok (None, nxt) else Raise ValueError
    | _ => match nuc_index c with
           | None => Raise ValueError
           | Some j => match first_pos j used 0 with
                       | None => Raise ValueError
                       | Some rem => rem' <- unshuffle_digit sh v used rem ;; nxt <- py_get row j ;;
                                     Ok (Some (Z.of_nat (length used), rem'), nxt)
                       end
           end
    end.

  Lemma decode_walk_cons c t v :
    decode_walk (c :: t) acc v sh =
    (p <- wstep c v ;; rest <- decode_walk t acc (snd p) sh ;; Ok (optl (fst p) ++ rest)%list).
  Proof.
    cbn [decode_walk]. unfold wstep. destruct (py_get acc v) as [row|e|]; cbn [bind]; try reflexivity.
    destruct (used_indices row) as [|j [|j2 r]]; try reflexivity.
    - destruct (c =? nuc_char j); [|reflexivity]. destruct (py_get row j); cbn [bind fst snd optl app]; try reflexivity.
      destruct (decode_walk t acc a sh); reflexivity.
    - destruct (nuc_index c) as [jj|]; [|reflexivity]. destruct (first_pos jj (j :: j2 :: r) 0); [|reflexivity].
      destruct (unshuffle_digit sh v (j :: j2 :: r) z); cbn [bind]; try reflexivity.
      destruct (py_get row jj); cbn [bind fst snd optl app]; try reflexivity.
  Qed.

  Definition inv (en : env) (v : Z) (sv : list val) : Prop :=
    lookup "accessor" en = Ret (varr2 acc) /\ lookup "vertex_index" en = Ret (VInt v) /\
    lookup "nucleotides" en = Ret (VStr ACGT) /\ lookup "shuffles" en = Ret (v_table sh) /\
    lookup "saved_values" en = Ret (VList sv) /\ lookup "verbose" en = Ret (VBool verbose) /\
    lookup "dna_sequence" en = Ret (VStr s0) /\ lookup "quotient" en = Ret vq /\ lookup "bit_length" en = Ret vb.

  Lemma row_shape v row : py_get acc v = Ok row ->
    length row = 4%nat /\ Forall (fun x => -1 <= x < Z.of_nat (length acc)) row.
  Proof. intro H. apply py_get_in in H. unfold acc_shape in Hacc. rewrite Forall_forall in Hacc. exact (Hacc _ H). Qed.

  Lemma eval_used en v : lookup "accessor" en = Ret (varr2 acc) -> lookup "vertex_index" en = Ret (VInt v) ->
    eval ce en used_expr = match py_get acc v with Ok row => Ret (varr (used_indices row)) | _ => Exn IndexError end.
  Proof.
    intros HA HV. unfold used_expr. cbn [eval]. rewrite HA, HV. cbn [rbind]. rewrite index_varr2.
    destruct (py_get acc v) as [row|e|]; cbn [rbind]; try reflexivity.
    rewrite cmp_ge0_varr. cbn [rbind]. rewrite where_ge0. cbn [rbind]. reflexivity.
  Qed.

  Lemma eval_comp en used : lookup "nucleotides" en = Ret (VStr ACGT) -> lookup "used_indices" en = Ret (varr used) ->
    Forall (fun j => 0 <= j < 4) used ->
    eval ce en comp_expr = Ret (VList (map nucv used)).
  Proof.
    intros HN HU Hr. unfold comp_expr. cbn [eval]. rewrite HU. cbn [rbind]. rewrite items_varr. cbn [rbind].
    rewrite (map_res_map _ VInt nucv); [reflexivity|].
    intros x Hx. rewrite Forall_forall in Hr. cbn [eval]. lk. rewrite HN. cbn [rbind]. apply index_nuc. apply Hr, Hx.
  Qed.

  Lemma eval_next en v row c j : lookup "accessor" en = Ret (varr2 acc) -> lookup "vertex_index" en = Ret (VInt v) ->
    lookup "nucleotides" en = Ret (VStr ACGT) -> lookup "nucleotide" en = Ret (VStr [c]) ->
    py_get acc v = Ok row -> nuc_index c = Some j ->
    eval ce en next_expr = match py_get row j with Ok x => Ret (VInt x) | _ => Exn IndexError end.
  Proof.
    intros HA HV HN HC Hrow Hj. unfold next_expr. cbn [eval]. rewrite HA, HV, HN, HC. cbn [rbind].
    rewrite index_varr2, Hrow. cbn [rbind]. rewrite str_index_nuc, Hj. cbn [rbind]. apply index_varr.
  Qed.

  Lemma eval_unshuffle en t v used rem : sh = Some t ->
    lookup "shuffles" en = Ret (v_table sh) -> lookup "vertex_index" en = Ret (VInt v) ->
    lookup "used_indices" en = Ret (varr used) -> lookup "remainder" en = Ret (VInt rem) ->
    Forall (fun j => 0 <= j < 4) used -> NoDup used ->
    eval ce en unshuffle_expr = res_of VInt (unshuffle_digit sh v used rem).
  Proof.
    intros -> HS HV HU HR Hr Hn. unfold unshuffle_expr, unshuffle_digit. cbn [eval]. rewrite HS, HV, HU, HR. cbn [rbind v_table].
    destruct Hsh as [_ Ht]. rewrite (fancy_index t v used Ht Hr).
    destruct (py_get t v) as [srow|e|] eqn:E; cbn [rbind bind res_of]; try reflexivity.
    - assert (Hs : length srow = 4%nat /\ NoDup srow).
      { apply py_get_in in E. rewrite Forall_forall in Ht. exact (Ht _ E). }
      destruct Hs as [Hl Hnd].
      rewrite argsort_varr by (apply pick_nodup; [exact Hnd|exact Hn|rewrite Hl; exact Hr]).
      cbn [rbind]. rewrite cmp_eq_varr. cbn [rbind]. rewrite where_bools. cbn [rbind]. rewrite index_tuple1. cbn [rbind].
      unfold used_indices. pose proof (used_from_eq rem (argsort (pick srow used)) 0) as H.
      destruct (first_pos rem (argsort (pick srow used)) 0) as [p|].
      + destruct H as [tl ->]. reflexivity.
      + rewrite H. reflexivity.
    - rewrite (py_get_raise _ _ _ E). reflexivity.
    - exfalso. exact (py_get_fuel _ _ E).
  Qed.

  Lemma exec_assign t e en : exec ce fuel (SAssign t e) en = lift (eval ce en e) (fun v => assign ce t v en).
  Proof. reflexivity. Qed.
  Lemma exec_raise e en : exec ce fuel (SRaise e) en = OExn e.
  Proof. reflexivity. Qed.
  Lemma exec_skip en : exec ce fuel SSkip en = ONormal en.
  Proof. reflexivity. Qed.
  Lemma cmp_gt1 n : cmp_vals CGt (VInt n) (VInt 1) = Ret (VBool (1 <? n)).
  Proof. reflexivity. Qed.
  Lemma cmp_eq1 n : cmp_vals CEq (VInt n) (VInt 1) = Ret (VBool (n =? 1)).
  Proof. reflexivity. Qed.

  Lemma verbose_ok en i : lookup "verbose" en = Ret (VBool verbose) -> lookup "location" en = Ret (VInt i) ->
    lookup "dna_sequence" en = Ret (VStr s0) -> exec ce fuel verbose_stmt en = ONormal en.
  Proof.
    intros HVB HL HD. unfold verbose_stmt. cbn [exec eval]. rewrite HVB. cbn [lift truthy].
    destruct verbose; [|reflexivity]. cbn [exec eval]. rewrite HL, HD. reflexivity.
  Qed.

  Lemma inv_upd en v sv x w : inv en v sv ->
    x <> "accessor" -> x <> "vertex_index" -> x <> "nucleotides" -> x <> "shuffles" -> x <> "saved_values" ->
    x <> "verbose" -> x <> "dna_sequence" -> x <> "quotient" -> x <> "bit_length" -> inv (update x w en) v sv.
  Proof.
    intros (HA & HV & HN & HS & HSV & HVB & HD & HQ & HB) N1 N2 N3 N4 N5 N6 N7 N8 N9. unfold inv.
    rewrite !lookup_update_other by (intro E; symmetry in E; contradiction). repeat split; assumption.
  Qed.

  Lemma cmp_in_nucs c used : cmp_vals CIn (VStr [c]) (VList (map nucv used)) = Ret (VBool (mem_val (VStr [c]) (map nucv used))).
  Proof. unfold cmp_vals, cmp_scalar. cbn [mixes_bool is_arr orb]. rewrite forallb_nucv, xorb_false_l. reflexivity. Qed.

  Lemma index_in_nucs c used : builtin2_val BIndexOf (VList (map nucv used)) (VStr [c]) =
    match index_of_val (VStr [c]) (map nucv used) 0 with Some i => Ret (VInt i) | None => Exn ValueError end.
  Proof. unfold builtin2_val. rewrite forallb_nucv. reflexivity. Qed.

  Lemma many_tail en v sv used row c jj rem' : inv en v sv -> lookup "nucleotide" en = Ret (VStr [c]) ->
    lookup "used_indices" en = Ret (varr used) -> lookup "remainder" en = Ret (VInt rem') ->
    py_get acc v = Ok row -> nuc_index c = Some jj ->
    exec ce fuel (SSeq (SAppend "saved_values"%string (ETuple [(EB1 BLen (EVar "used_indices"%string)); (EVar "remainder"%string)]))
                       (SAssign (TVar "vertex_index"%string) next_expr)) en =
    match py_get row jj with
    | Ok nxt => ONormal (update "vertex_index" (VInt nxt)
                          (update "saved_values" (VList (sv ++ [pairv (Z.of_nat (length used), rem')])) en))
    | _ => OExn IndexError
    end.
  Proof.
    intros (HA & HV & HN & HS & HSV & HVB & HD & HQ & HB) HC HU HR Hrow Hj.
    rewrite exec_seq. cbn [exec eval]. rewrite HSV, HU, HR. cbn [rbind lift]. rewrite blen_varr. cbn [rbind lift seq].
    rewrite (eval_next _ v row c jj) by (lk; assumption).
    destruct (py_get row jj); reflexivity.
  Qed.

  Lemma sh_cases : sh = None \/ exists t, sh = Some t.
  Proof. clear Hsh. destruct sh as [t|]; [right; exists t; reflexivity|left; reflexivity]. Qed.

  Lemma many_step en v sv i c row : inv en v sv -> lookup "location" en = Ret (VInt i) -> lookup "nucleotide" en = Ret (VStr [c]) ->
    lookup "used_indices" en = Ret (varr (used_indices row)) -> py_get acc v = Ok row ->
    (2 <= length (used_indices row))%nat ->
    match (match nuc_index c with
           | None => Raise ValueError
           | Some j => match first_pos j (used_indices row) 0 with
                       | None => Raise ValueError
                       | Some rem => rem' <- unshuffle_digit sh v (used_indices row) rem ;; nxt <- py_get row j ;;
                                     Ok (Some (Z.of_nat (length (used_indices row)), rem'), nxt)
                       end
           end) with
    | Ok (o, nxt) => exists en', exec ce fuel branch_many en = ONormal en' /\ inv en' nxt (sv ++ optv o) /\ Forall good (optl o)
                                 /\ lookup "location" en' = Ret (VInt i)
    | Raise e => exec ce fuel branch_many en = OExn e
    | OutOfFuel => True
    end.
  Proof.
    intros Hinv HL HC HU Er Hlen. pose proof Hinv as (HA & HV & HN & HS & HSV & HVB & HD & HQ & HB).
    destruct (row_shape v row Er) as [Hl4 Hrng]. destruct (used_shape row Hl4) as (Hur & Hun & Hup).
    pose proof (used_from_len row 0) as Hle. fold (used_indices row) in Hle.
    remember (used_indices row) as used eqn:Eu.
    unfold branch_many. rewrite exec_seq, exec_assign, (eval_comp en used HN HU Hur). cbn [lift assign seq].
    rewrite exec_seq, exec_if. cbn [eval]. lk. rewrite HC. cbn [rbind]. rewrite cmp_in_nucs. cbn [lift truthy].
    rewrite (mem_index_of _ _ 0), (index_of_nucs c used 0 Hur).
    destruct (nuc_index c) as [jj|] eqn:Ej; [|reflexivity].
    destruct (first_pos jj used 0) as [rem|] eqn:Ef; [|reflexivity].
    rewrite exec_assign. cbn [eval]. lk. rewrite HC. cbn [rbind]. rewrite index_in_nucs, (index_of_nucs c used 0 Hur), Ej, Ef.
    cbn [lift assign seq]. rewrite exec_seq, exec_if. cbn [eval]. lk. rewrite HS. cbn [rbind].
    destruct (first_pos_some _ _ _ _ Ef) as (n & Hn & Hrem & _).
    assert (Hgood : forall rem', unshuffle_digit sh v used rem = Ok rem' -> good (Z.of_nat (length used), rem')).
    { intros rem' E. destruct (unshuffle_shuffle sh v used rem ltac:(lia) rem' E) as [Hb _]. unfold good. cbn [fst snd]. lia. }
    destruct sh_cases as [Esh|[t Esh]];
      [replace (v_table sh) with VNone by (rewrite Esh; reflexivity)
      |replace (v_table sh) with (varr2 t) by (rewrite Esh; reflexivity)].
    2:{ unfold varr2. cbn [builtin1_val rbind truthy negb lift].
      rewrite exec_assign, (eval_unshuffle _ t v used rem) by (lk; assumption || reflexivity).
      destruct (unshuffle_digit sh v used rem) as [rem'|e|] eqn:Eun; cbn [res_of bind lift]; [|reflexivity|exact I].
      cbn [assign seq].
      rewrite (many_tail _ v sv used row c jj rem') by
        (first [repeat apply inv_upd; (assumption || discriminate) | lk; assumption || reflexivity | assumption]).
      destruct (py_get row jj) as [nxt|e|] eqn:En; cbn [bind]; [|rewrite (py_get_raise _ _ _ En); reflexivity|exact I].
      eexists. split; [reflexivity|]. split; [|split].
      + unfold inv. lk. repeat split; assumption.
      + constructor; [apply Hgood; reflexivity|constructor].
      + lk. exact HL. }
    assert (Eun : unshuffle_digit sh v used rem = Ok rem) by (rewrite Esh; reflexivity). rewrite Eun.
    cbn [builtin1_val rbind truthy negb lift bind]. rewrite exec_skip. cbn [seq].
      rewrite (many_tail _ v sv used row c jj rem) by
        (first [repeat apply inv_upd; (assumption || discriminate) | lk; assumption || reflexivity | assumption]).
      destruct (py_get row jj) as [nxt|e|] eqn:En; cbn [bind]; [|rewrite (py_get_raise _ _ _ En); reflexivity|exact I].
      eexists. split; [reflexivity|]. split; [|split].
      + unfold inv. lk. repeat split; assumption.
      + constructor; [apply Hgood; assumption|constructor].
      + lk. exact HL.
  Qed.

  Lemma cmp_eq_nuc c j : cmp_vals CEq (VStr [c]) (nucv j) = Ret (VBool (c =? nuc_char j)).
  Proof. unfold nucv, cmp_vals, cmp_scalar. cbn [mixes_bool is_arr orb val_eqb listZ_eqb]. rewrite andb_true_r. reflexivity. Qed.

  Lemma one_step en v sv i c row j : inv en v sv -> lookup "location" en = Ret (VInt i) -> lookup "nucleotide" en = Ret (VStr [c]) ->
    lookup "used_indices" en = Ret (varr [j]) -> py_get acc v = Ok row -> 0 <= j < 4 ->
    match (if c =? nuc_char j then nxt <- py_get row j ;; Ok (@None (Z * Z), nxt) else Raise ValueError) with
    | Ok (o, nxt) => exists en', exec ce fuel branch_one en = ONormal en' /\ inv en' nxt (sv ++ optv o) /\ Forall good (optl o)
                                 /\ lookup "location" en' = Ret (VInt i)
    | Raise e => exec ce fuel branch_one en = OExn e
    | OutOfFuel => True
    end.
  Proof.
    intros Hinv HL HC HU Er Hj. pose proof Hinv as (HA & HV & HN & HS & HSV & HVB & HD & HQ & HB).
    unfold branch_one. rewrite exec_seq, exec_assign. cbn [eval]. rewrite HN, HU. cbn [rbind].
    change (index_val (varr [j]) (VInt 0)) with (Ret (VInt j)). cbn [rbind]. rewrite (index_nuc j Hj).
    cbn [lift assign seq]. rewrite exec_if. cbn [eval]. lk. rewrite HC. cbn [rbind]. rewrite cmp_eq_nuc. cbn [lift truthy].
    destruct (c =? nuc_char j) eqn:Ec; [|reflexivity].
    assert (Ej : nuc_index c = Some j) by (replace c with (nuc_char j) by lia; apply nuc_index_char; exact Hj).
    rewrite exec_assign, (eval_next _ v row c j) by (lk; assumption).
    destruct (py_get row j) as [nxt|e|] eqn:En; cbn [bind lift assign]; [|rewrite (py_get_raise _ _ _ En); reflexivity|exact I].
    eexists. split; [reflexivity|]. cbn [optv optl]. rewrite app_nil_r. split; [|split].
    - unfold inv. lk. repeat split; assumption.
    - constructor.
    - lk. exact HL.
  Qed.

  Lemma body_step en v sv i c : inv en v sv -> lookup "location" en = Ret (VInt i) -> lookup "nucleotide" en = Ret (VStr [c]) ->
    match wstep c v with
    | Ok (o, nxt) => exists en', exec ce fuel walk_body en = ONormal en' /\ inv en' nxt (sv ++ optv o) /\ Forall good (optl o)
    | Raise e => exec ce fuel walk_body en = OExn e
    | OutOfFuel => True
    end.
  Proof.
    intros Hinv HL HC. pose proof Hinv as (HA & HV & HN & HS & HSV & HVB & HD & HQ & HB).
    unfold wstep, walk_body. rewrite exec_seq, exec_assign, (eval_used en v HA HV).
    destruct (py_get acc v) as [row|e|] eqn:Er; cbn [bind lift seq]; [|rewrite (py_get_raise _ _ _ Er); reflexivity|exact I].
    destruct (row_shape v row Er) as [Hl4 Hrng]. destruct (used_shape row Hl4) as (Hur & Hun & Hup).
    cbn [assign seq]. rewrite exec_seq, exec_if. cbn [eval]. lk. cbn [rbind]. rewrite blen_varr. cbn [rbind]. rewrite cmp_gt1.
    cbn [lift truthy].
    set (en1 := update "used_indices" (varr (used_indices row)) en).
    assert (Hinv1 : inv en1 v sv) by (apply inv_upd; (assumption || discriminate)).
    assert (HL1 : lookup "location" en1 = Ret (VInt i)) by (unfold en1; lk; exact HL).
    assert (HC1 : lookup "nucleotide" en1 = Ret (VStr [c])) by (unfold en1; lk; exact HC).
    assert (HU1 : lookup "used_indices" en1 = Ret (varr (used_indices row))) by (unfold en1; lk; reflexivity).
    clearbody en1.
    assert (Hfin : forall (r : result (option (Z * Z) * Z)) (st : stmt),
      match r with
      | Ok (o, nxt) => exists en', exec ce fuel st en1 = ONormal en' /\ inv en' nxt (sv ++ optv o) /\ Forall good (optl o)
                                 /\ lookup "location" en' = Ret (VInt i)
      | Raise e => exec ce fuel st en1 = OExn e
      | OutOfFuel => True
      end ->
      match r with
      | Ok (o, nxt) => exists en', seq (exec ce fuel st en1) (exec ce fuel verbose_stmt) = ONormal en' /\ inv en' nxt (sv ++ optv o) /\ Forall good (optl o)
      | Raise e => seq (exec ce fuel st en1) (exec ce fuel verbose_stmt) = OExn e
      | OutOfFuel => True
      end).
    { intros r st H. destruct r as [[o nxt]|e|]; [|rewrite H; reflexivity|exact I].
      destruct H as (en' & E & Hi & Hg & Hl). rewrite E. cbn [seq].
      pose proof Hi as (_ & _ & _ & _ & _ & HVB' & HD' & _ & _).
      rewrite (verbose_ok en' i HVB' Hl HD'). exists en'. split; [reflexivity|split; assumption]. }
    destruct (used_indices row) as [|j [|j2 r]] eqn:Eu.
    - change (1 <? Z.of_nat (length (@nil Z))) with false. cbv iota. rewrite exec_if. cbn [eval]. rewrite HU1. reflexivity.
    - change (1 <? Z.of_nat (length [j])) with false. cbv iota. rewrite exec_if. cbn [eval]. rewrite HU1. cbn [rbind].
      rewrite blen_varr. cbn [rbind lift truthy]. rewrite cmp_eq1. cbn [lift truthy]. change (Z.of_nat (length [j]) =? 1) with true. cbv iota.
      apply Hfin. apply (one_step en1 v sv i c row j); try assumption. inversion Hur; assumption.
    - replace (1 <? Z.of_nat (length (j :: j2 :: r))) with true by (cbn [length]; lia).
      rewrite <- Eu. apply Hfin. apply (many_step en1 v sv i c row); try assumption; rewrite Eu; [exact HU1|cbn [Datatypes.length]; lia].
  Qed.

  Lemma map_pairv_optl o : map pairv (optl o) = optv o.
  Proof. destruct o; reflexivity. Qed.

  Lemma walk_loop : forall s v sv i en, inv en v sv ->
    match decode_walk s acc v sh with
    | Ok rest => exists en' v', for_loop ce fuel (TTuple ["location"; "nucleotide"]) walk_body (enumerate_from i (chars s)) en = ONormal en'
                   /\ inv en' v' (sv ++ map pairv rest) /\ Forall good rest /\ (length rest <= length s)%nat
    | Raise e => for_loop ce fuel (TTuple ["location"; "nucleotide"]) walk_body (enumerate_from i (chars s)) en = OExn e
    | OutOfFuel => True
    end.
  Proof.
    induction s as [|c t IH]; intros v sv i en Hinv.
    - cbn [decode_walk]. exists en, v. cbn [map]. rewrite app_nil_r. split; [reflexivity|]. split; [exact Hinv|]. split; [constructor|apply le_n].
    - rewrite decode_walk_cons. unfold chars. cbn [map enumerate_from for_loop]. fold (chars t).
      cbn [assign items lift bind_tuple seq].
      set (en2 := update "nucleotide" (VStr [c]) (update "location" (VInt i) en)).
      assert (Hinv2 : inv en2 v sv) by (unfold en2; repeat apply inv_upd; (assumption || discriminate)).
      assert (HL2 : lookup "location" en2 = Ret (VInt i)) by (unfold en2; lk; reflexivity).
      assert (HC2 : lookup "nucleotide" en2 = Ret (VStr [c])) by (unfold en2; lk; reflexivity).
      clearbody en2.
      pose proof (body_step en2 v sv i c Hinv2 HL2 HC2) as H.
      destruct (wstep c v) as [[o nxt]|e|]; cbn [bind]; [|rewrite H; reflexivity|exact I].
      destruct H as (en' & E & Hi & Hg). rewrite E. cbn [seq snd fst].
      specialize (IH nxt (sv ++ optv o)%list (i + 1) en' Hi).
      destruct (decode_walk t acc nxt sh) as [rest|e|]; cbn [bind]; [|exact IH|exact I].
      destruct IH as (en'' & v' & E2 & Hi2 & Hg2 & Hlen). exists en'', v'. split; [exact E2|].
      split; [rewrite map_app, map_pairv_optl, app_assoc; exact Hi2|].
      split; [apply Forall_app; split; assumption|].
      rewrite app_length. cbn [Datatypes.length]. destruct o; cbn [optl Datatypes.length]; lia.
  Qed.
End Walk.

(* ---- the second loop: Horner over the saved pairs ------------------------------------------------------------------------ *)
Lemma canonical_digits_ok d : canonical d -> digits_ok d.
Proof.
  intro H. apply canonical_digits in H. unfold digits_ok. eapply Forall_impl; [|exact H].
  unfold digit. intros; lia.
Qed.

Definition hstep (q : list Z) (dn : Z * Z) : list Z := calculus_addition (calculus_multiplication q (fst dn)) (snd dn).

Lemma horner_fold_bound : forall l q, Forall good l -> canonical q ->
  canonical (fold_left hstep l q) /\ dval (fold_left hstep l q) + 1 <= (dval q + 1) * 4 ^ Z.of_nat (length l).
Proof.
  induction l as [|[d n] l IH]; intros q Hg Hc.
  - cbn [fold_left length]. split; [exact Hc|]. change (4 ^ Z.of_nat 0) with 1. lia.
  - inversion Hg as [|? ? [Hd Hn] Hg']; subst. cbn [fst snd] in Hd, Hn. cbn [fold_left].
    destruct (mul_correct q d Hc ltac:(unfold digit; lia)) as [Hmc Hmv].
    destruct (add_correct _ n Hmc ltac:(unfold digit; lia)) as [Hac Hav].
    destruct (IH (hstep q (d, n)) Hg' Hac) as [Hc' Hb]. split; [exact Hc'|].
    unfold hstep in Hb at 3. cbn [fst snd] in Hb. rewrite Hav, Hmv in Hb.
    cbn [length]. rewrite Nat2Z.inj_succ, Z.pow_succ_r by lia.
    pose proof (canonical_nonneg q Hc) as Hq0.
    assert (Hp : 0 < 4 ^ Z.of_nat (length l)) by (apply Z.pow_pos_nonneg; lia).
    assert (Hs : dval q * d + n + 1 <= 4 * (dval q + 1)) by nia.
    nia.
Qed.

Lemma to_radix_str_no_raise : forall f b d a e, to_radix_str f b d a <> Raise e.
Proof.
  induction f as [|f IH]; intros b d a e; cbn [to_radix_str]; destruct (is_zero_str d); try discriminate.
  destruct (calculus_division d b) as [q r]. apply IH.
Qed.

Lemma number_to_bit_str_no_raise d len e : number_to_bit_str d len <> Raise e.
Proof.
  unfold number_to_bit_str. destruct (to_radix_str (fuel_str d) 2 d []) as [one|e'|] eqn:E; cbn [bind]; try discriminate.
  exfalso. exact (to_radix_str_no_raise _ _ _ _ _ E).
Qed.

Lemma np_array_vints r : builtin1_val BNpArray (vints r) = Ret (varr r).
Proof. unfold builtin1_val, vints. rewrite forallb_map_VInt. reflexivity. Qed.

Section Main.
  Variable ce : string -> list val -> res val.
  Variable fuel : nat.
  Hypothesis Hce : callees_ok ce fuel.
  Hypothesis Hvt : set_vt_callee ce fuel.

  Lemma ce_mul : forall ds b, digits_ok ds -> 0 <= b <= 9 ->
    ce "calculus_multiplication" [dstr ds; dstr [b]] = Ret (dstr (calculus_multiplication ds b)).
  Proof. exact (proj1 (proj2 (proj2 Hce))). Qed.
  Lemma ce_add : forall ds b, digits_ok ds -> 0 <= b <= 9 ->
    ce "calculus_addition" [dstr ds; dstr [b]] = Ret (dstr (calculus_addition ds b)).
  Proof. exact (proj1 (proj2 (proj2 (proj2 Hce)))). Qed.
  Lemma ce_n2b : forall d len r, digits_ok d -> d <> [] -> number_to_bit_str d len = Ok r -> (fuel_str d < fuel)%nat ->
    ce "number_to_bit" [dstr d; VInt len] = Ret (vints r).
  Proof. exact (proj1 (proj2 (proj2 (proj2 (proj2 Hce))))). Qed.

  Lemma horner_loop vb : forall l i q en, Forall good l -> canonical q ->
    lookup "quotient" en = Ret (dstr q) -> lookup "bit_length" en = Ret vb ->
    exists en', for_loop ce fuel (TPair "location" ["out_degree"; "number"]) horner_body (enumerate_from i (map pairv l)) en = ONormal en'
      /\ lookup "quotient" en' = Ret (dstr (fold_left hstep l q)) /\ lookup "bit_length" en' = Ret vb.
  Proof.
    induction l as [|[d n] l IH]; intros i q en Hg Hc HQ HB.
    - exists en. cbn [fold_left]. split; [reflexivity|split; assumption].
    - inversion Hg as [|? ? [Hd Hn] Hg']; subst. cbn [fst snd] in Hd, Hn.
      cbn [map enumerate_from for_loop]. unfold pairv at 1. cbn [fst snd assign items lift bind_tuple seq].
      unfold horner_body at 1. cbn [exec eval]. lk. rewrite HQ. cbn [rbind builtin1_val]. rewrite (to_str_digit d) by lia. cbn [rbind].
      change (VStr [dchr d]) with (dstr [d]). rewrite ce_mul by (try apply canonical_digits_ok; auto; lia).
      destruct (mul_correct q d Hc ltac:(unfold digit; lia)) as [Hmc _].
      cbn [lift assign seq]. lk. cbn [rbind builtin1_val]. rewrite (to_str_digit n) by lia. cbn [rbind].
      change (VStr [dchr n]) with (dstr [n]). rewrite ce_add by (try apply canonical_digits_ok; auto; lia).
      destruct (add_correct _ n Hmc ltac:(unfold digit; lia)) as [Hac _].
      cbn [lift assign seq fold_left]. apply IH; auto; lk; auto.
  Qed.

  Lemma exec_return e en : exec ce fuel (SReturn e) en = lift (eval ce en e) OReturn.
  Proof. reflexivity. Qed.

  Lemma normal_run fp en s L acc v sh verbose :
    acc_shape acc -> table_shape (length acc) sh -> (4 * length s + 16 <= fuel)%nat ->
    lookup "dna_sequence" en = Ret (VStr s) -> lookup "bit_length" en = Ret (VInt L) ->
    lookup "accessor" en = Ret (varr2 acc) -> lookup "vertex_index" en = Ret (VInt v) ->
    lookup "nucleotides" en = Ret (VStr ACGT) -> lookup "shuffles" en = Ret (v_table sh) ->
    lookup "verbose" en = Ret (VBool verbose) -> lookup "is_faster" en = Ret (VBool false) ->
    match (saved <- decode_walk s acc v sh ;; number_to_bit_str (horner_str saved) L) with
    | Ok r => seq (exec ce fuel (SIf (ENot (EVar "is_faster"%string)) normal_part fp) en)
                  (exec ce fuel (SReturn (EVar "binary_message"%string))) = OReturn (varr r)
    | Raise e => seq (exec ce fuel (SIf (ENot (EVar "is_faster"%string)) normal_part fp) en)
                     (exec ce fuel (SReturn (EVar "binary_message"%string))) = OExn e
    | OutOfFuel => True
    end.
  Proof.
    intros Hacc Hsh Hfuel HD HB HA HV HN HS HVB HF.
    rewrite exec_if. cbn [eval]. rewrite HF. cbn [rbind truthy negb lift]. unfold normal_part.
    rewrite exec_seq, (exec_assign ce fuel). cbn [eval rbind lift assign items bind_tuple seq].
    set (en1 := update "saved_values" (VList []) (update "quotient" (VStr [48]) en)).
    assert (Hinv1 : inv acc sh verbose s (VStr [48]) (VInt L) en1 v []).
    { unfold inv, en1. lk. repeat split; assumption. }
    clearbody en1.
    rewrite exec_seq, exec_for. cbn [eval]. destruct Hinv1 as (HA1 & HV1 & HN1 & HS1 & HSV1 & HVB1 & HD1 & HQ1 & HB1).
    rewrite HD1. cbn [rbind builtin1_val items lift].
    pose proof (walk_loop ce fuel acc sh verbose s (VStr [48]) (VInt L) Hacc Hsh s v [] 0 en1
                  (conj HA1 (conj HV1 (conj HN1 (conj HS1 (conj HSV1 (conj HVB1 (conj HD1 (conj HQ1 HB1))))))))) as H.
    destruct (decode_walk s acc v sh) as [saved|e|]; cbn [bind]; [|rewrite H; reflexivity|exact I].
    destruct H as (en' & v' & E & Hi & Hg & Hlen). rewrite E. cbn [seq app] in *.
    destruct Hi as (HA2 & HV2 & HN2 & HS2 & HSV2 & HVB2 & HD2 & HQ2 & HB2).
    rewrite exec_seq, exec_for. cbn [eval]. rewrite HSV2. cbn [rbind builtin1_val items lift]. rewrite <- map_rev.
    destruct (horner_loop (VInt L) (rev saved) 0 [0] en' (Forall_rev Hg) canonical_0 HQ2 HB2) as (en'' & E2 & HQ3 & HB3).
    rewrite E2. cbn [seq]. rewrite (exec_assign ce fuel). cbn [eval]. rewrite HQ3, HB3. cbn [rbind].
    destruct (horner_fold_bound (rev saved) [0] (Forall_rev Hg) canonical_0) as [Hc Hbd].
    change (fold_left hstep (rev saved) [0]) with (horner_str saved) in *.
    destruct (number_to_bit_str (horner_str saved) L) as [r|e|] eqn:En; [|exfalso; exact (number_to_bit_str_no_raise _ _ _ En)|exact I].
    rewrite (ce_n2b _ L r (canonical_digits_ok _ Hc) (proj1 Hc) En).
    - cbn [rbind]. rewrite np_array_vints. cbn [lift assign seq]. rewrite exec_return. cbn [eval]. lk. reflexivity.
    - rewrite rev_length in Hbd. change (dval [0]) with 0 in Hbd.
      assert (Hp : 4 ^ Z.of_nat (length saved) <= 4 ^ Z.of_nat (length s)) by (apply Z.pow_le_mono_r; lia).
      pose proof (fuel_str_bound (horner_str saved) 4 (length s) ltac:(lia) Hc ltac:(lia)). lia.
  Qed.

  Lemma decode_run s L acc v vt sh verbose :
    acc_shape acc -> 0 <= v < Z.of_nat (length acc) -> table_shape (length acc) sh -> vt_ok vt fuel ->
    (4 * length s + 16 <= fuel)%nat ->
    match Coder.decode s L acc v false vt sh with
    | Ok r => run_fun ce fuel decode_def [VStr s; VInt L; varr2 acc; VInt v; VBool false; v_optstr vt; v_table sh; VBool verbose] = Ret (varr r)
    | Raise e => run_fun ce fuel decode_def [VStr s; VInt L; varr2 acc; VInt v; VBool false; v_optstr vt; v_table sh; VBool verbose] = Exn e
    | OutOfFuel => True
    end.
  Proof.
    intros Hacc Hv Hsh Hvtok Hfuel. destruct decode_def_shape as [fp Ebody].
    unfold run_fun. rewrite Ebody. cbn [params decode_def bind_params].
    rewrite exec_seq, (exec_assign ce fuel).
    cbn [eval lookup String.eqb Ascii.eqb Bool.eqb rbind lift assign items bind_tuple update seq].
    rewrite exec_seq. unfold check_part. rewrite exec_if.
    cbn [eval lookup String.eqb Ascii.eqb Bool.eqb rbind].
    unfold Coder.decode.
    assert (Hnormal : forall vc,
      match (saved <- decode_walk s acc v sh ;; number_to_bit_str (horner_str saved) L) with
      | Ok r => exec ce fuel (SSeq (SIf (ENot (EVar "is_faster"%string)) normal_part fp) (SReturn (EVar "binary_message"%string)))
                  [("dna_sequence", VStr s); ("bit_length", VInt L); ("accessor", varr2 acc); ("start_index", VInt v);
                   ("is_faster", VBool false); ("vt_check", vc); ("shuffles", v_table sh); ("verbose", VBool verbose);
                   ("vertex_index", VInt v); ("nucleotides", VStr [65; 67; 71; 84]); ("monitor", VOpaque)] = OReturn (varr r)
      | Raise e => exec ce fuel (SSeq (SIf (ENot (EVar "is_faster"%string)) normal_part fp) (SReturn (EVar "binary_message"%string)))
                  [("dna_sequence", VStr s); ("bit_length", VInt L); ("accessor", varr2 acc); ("start_index", VInt v);
                   ("is_faster", VBool false); ("vt_check", vc); ("shuffles", v_table sh); ("verbose", VBool verbose);
                   ("vertex_index", VInt v); ("nucleotides", VStr [65; 67; 71; 84]); ("monitor", VOpaque)] = OExn e
      | OutOfFuel => True
      end).
    { intro vc. rewrite exec_seq.
      apply (normal_run fp _ s L acc v sh verbose); first [assumption | reflexivity]. }
    destruct vt as [chk|]; cbn [v_optstr builtin1_val rbind truthy negb lift bind].
    - destruct Hvtok as [Hne Hlen]. rewrite exec_if. cbn [eval lookup String.eqb Ascii.eqb Bool.eqb rbind builtin1_val].
      assert (Hl1 : (1 <= length chk)%nat) by (destruct chk; [contradiction|cbn [Datatypes.length]; lia]).
      rewrite (Hvt s (Z.of_nat (length chk))) by lia.
      destruct (set_vt s (Z.of_nat (length chk))) as [c'|e|]; cbn [res_of_str bind rbind lift]; [|reflexivity|exact I].
      change (cmp_vals CNe (VStr chk) (VStr c')) with (Ret (VBool (negb (listZ_eqb chk c')))). cbn [lift truthy].
      rewrite (listZ_eqb_sym c' chk). destruct (listZ_eqb chk c'); cbn [negb].
      + rewrite exec_skip. cbn [seq]. specialize (Hnormal (VStr chk)).
        destruct (saved <- decode_walk s acc v sh ;; number_to_bit_str (horner_str saved) L) as [r|e|];
          [rewrite Hnormal; reflexivity|rewrite Hnormal; reflexivity|exact I].
      + rewrite (exec_raise ce fuel). reflexivity.
    - rewrite exec_skip. cbn [seq]. specialize (Hnormal VNone).
      destruct (saved <- decode_walk s acc v sh ;; number_to_bit_str (horner_str saved) L) as [r|e|];
        [rewrite Hnormal; reflexivity|rewrite Hnormal; reflexivity|exact I].
  Qed.
End Main.

Theorem decode_normal_gen_ok : forall ce fuel s L acc v vt sh verbose r,
  callees_ok ce fuel -> set_vt_callee ce fuel ->
  acc_shape acc -> 0 <= v < Z.of_nat (length acc) -> table_shape (length acc) sh -> vt_ok vt fuel ->
  (4 * length s + 16 <= fuel)%nat ->
  Coder.decode s L acc v false vt sh = Ok r ->
  run_fun ce fuel decode_def [VStr s; VInt L; varr2 acc; VInt v; VBool false; v_optstr vt; v_table sh; VBool verbose]
  = Ret (varr r).
Proof.
  intros ce fuel s L acc v vt sh verbose r Hce Hvt Hacc Hv Hsh Hvtok Hfuel E.
  pose proof (decode_run ce fuel Hce Hvt s L acc v vt sh verbose Hacc Hv Hsh Hvtok Hfuel) as H.
  rewrite E in H. exact H.
Qed.

Theorem decode_normal_gen_raise : forall ce fuel s L acc v vt sh verbose e,
  callees_ok ce fuel -> set_vt_callee ce fuel ->
  acc_shape acc -> 0 <= v < Z.of_nat (length acc) -> table_shape (length acc) sh -> vt_ok vt fuel ->
  (4 * length s + 16 <= fuel)%nat ->
  Coder.decode s L acc v false vt sh = Raise e ->
  run_fun ce fuel decode_def [VStr s; VInt L; varr2 acc; VInt v; VBool false; v_optstr vt; v_table sh; VBool verbose]
  = Exn e.
Proof.
  intros ce fuel s L acc v vt sh verbose e Hce Hvt Hacc Hv Hsh Hvtok Hfuel E.
  pose proof (decode_run ce fuel Hce Hvt s L acc v vt sh verbose Hacc Hv Hsh Hvtok Hfuel) as H.
  rewrite E in H. exact H.
Qed.

Print Assumptions decode_normal_gen_ok.
Print Assumptions decode_normal_gen_raise.
