(* DecodeNormalGenProofs.v -- the regenerated decode (dsw/spiderweb.py), arbitrary-precision mode, computes Coder.decode.
   Compiled on every run of the checks against the freshly generated CoderGen.v / OperationGen.v (harness/regen.py, unit "coder"). *)
From Coq Require Import Lia ZifyBool.
From DSW Require Import MiniPy Bignum Convert Coder Spec MiniPyLemmas BignumProofs ConvertProofs.
From DSWGen Require Import OperationGen CoderGen OperationGenProofs CoderCallees.
Open Scope Z_scope.
Open Scope string_scope.
Ltac Zify.zify_post_hook ::= Z.to_euclidean_division_equations.
Local Open Scope Z_scope.

From Coq Require Import Permutation Sorted.
From DSW Require Import ShuffleProofs WalkProofs.

Definition vt_ok (vt : option (list Z)) (fuel : nat) : Prop :=
  match vt with None => True | Some c => c <> [] /\ (2 * length c < fuel)%nat end.

(* ---- tactics ------------------------------------------------------------------------------------------------------ *)
Ltac lk := repeat (rewrite lookup_update_same || (rewrite lookup_update_other by discriminate)).
Ltac step := cbn [exec eval lift seq rbind assign items bind_tuple truthy negb].

(* ---- lists --------------------------------------------------------------------------------------------------------- *)
Lemma nthZ_map {A B} (f : A -> B) : forall l n, nthZ (map f l) n = option_map f (nthZ l n).
Proof.
  induction l as [|x t IH]; intros n; [destruct n; reflexivity|].
  destruct n as [|n]; cbn [map nthZ option_map]; [reflexivity|apply IH].
Qed.

Lemma py_get_map {A B} (f : A -> B) l i :
  py_get (map f l) i = match py_get l i with Ok x => Ok (f x) | Raise e => Raise e | OutOfFuel => OutOfFuel end.
Proof.
  unfold py_get. rewrite map_length. cbv zeta.
  destruct (((if i <? 0 then i + Z.of_nat (length l) else i) <? 0)
            || (Z.of_nat (length l) <=? (if i <? 0 then i + Z.of_nat (length l) else i))); [reflexivity|].
  rewrite nthZ_map. destruct (nthZ l _); reflexivity.
Qed.

Lemma nthZ_in {A} : forall (l : list A) n x, nthZ l n = Some x -> In x l.
Proof.
  induction l as [|y t IH]; intros n x H; [destruct n; discriminate|].
  destruct n as [|n]; cbn [nthZ] in H; [injection H as <-; left; reflexivity|right; eapply IH; exact H].
Qed.

Lemma py_get_in {A} (l : list A) i x : py_get l i = Ok x -> In x l.
Proof.
  unfold py_get. cbv zeta. destruct (_ || _); [discriminate|].
  destruct (nthZ l _) as [y|] eqn:E; [|discriminate]. intro H; injection H as <-. eapply nthZ_in; exact E.
Qed.

Lemma py_get_nth {A} (l : list A) i x d : py_get l i = Ok x -> 0 <= i -> x = nth (Z.to_nat i) l d /\ i < Z.of_nat (length l).
Proof.
  intros H Hi. unfold py_get in H. cbv zeta in H.
  destruct (i <? 0) eqn:E0; [lia|].
  destruct (Z.of_nat (length l) <=? i) eqn:E1; [rewrite orb_true_r in H; discriminate|].
  destruct (i <? 0) eqn:E2; [lia|]. cbn [orb] in H.
  rewrite (nthZ_nth l _ d) in H by lia. injection H as <-. split; [reflexivity|lia].
Qed.

Lemma map_res_map {A B C} (f : B -> res C) (h : A -> B) (k : A -> C) : forall l,
  (forall x, In x l -> f (h x) = Ret (k x)) -> map_res f (map h l) = Ret (map k l).
Proof.
  induction l as [|x t IH]; intros H; [reflexivity|].
  cbn [map map_res]. rewrite H by (left; reflexivity). cbn [rbind]. rewrite IH; [reflexivity|].
  intros y Hy. apply H. right. exact Hy.
Qed.

Lemma listZ_eqb_sym : forall a b, listZ_eqb a b = listZ_eqb b a.
Proof.
  induction a as [|x a IH]; intros [|y b]; cbn [listZ_eqb]; try reflexivity.
  rewrite IH. rewrite (Z.eqb_sym x y). reflexivity.
Qed.

Lemma forallb_map_VInt l : forallb (fun x => match x with VInt _ => true | _ => false end) (map VInt l) = true.
Proof. induction l as [|x t IH]; [reflexivity|exact IH]. Qed.

(* ---- NumPy primitives ----------------------------------------------------------------------------------------------- *)
Lemma index_varr2 a v :
  index_val (varr2 a) (VInt v) = match py_get a v with Ok row => Ret (varr row) | _ => Exn IndexError end.
Proof.
  unfold index_val, varr2. rewrite py_get_map. destruct (py_get a v); reflexivity.
Qed.

Lemma index_varr l j :
  index_val (varr l) (VInt j) = match py_get l j with Ok x => Ret (VInt x) | _ => Exn IndexError end.
Proof.
  unfold index_val, varr. rewrite py_get_map. destruct (py_get l j); reflexivity.
Qed.

Lemma cmp_ge0_varr row : cmp_vals CGe (varr row) (VInt 0) = Ret (VArr (map (fun x => VBool (0 <=? x)) row)).
Proof.
  unfold cmp_vals, varr.
  rewrite (map_res_map _ VInt (fun x => VBool (0 <=? x))); [reflexivity|]. intros x _. reflexivity.
Qed.

Lemma cmp_eq_varr l r : cmp_vals CEq (varr l) (VInt r) = Ret (VArr (map (fun x => VBool (x =? r)) l)).
Proof.
  unfold cmp_vals, varr.
  rewrite (map_res_map _ VInt (fun x => VBool (x =? r))); [reflexivity|]. intros x _. reflexivity.
Qed.

Lemma where_bools {A} (g : A -> bool) l :
  builtin1_val BNpWhere (VArr (map (fun x => VBool (g x)) l)) =
  Ret (VTuple [varr (used_indices (map (fun x => if g x then 0 else -1) l))]).
Proof.
  unfold builtin1_val.
  rewrite (map_res_map _ (fun x => VBool (g x)) g) by (intros; reflexivity). cbn [rbind].
  rewrite map_map. reflexivity.
Qed.

Lemma used_from_flag : forall row j, used_from (map (fun x => if 0 <=? x then 0 else -1) row) j = used_from row j.
Proof.
  induction row as [|x t IH]; intros j; [reflexivity|]. cbn [map used_from]. rewrite IH.
  destruct (0 <=? x); reflexivity.
Qed.

Lemma where_ge0 row : builtin1_val BNpWhere (VArr (map (fun x => VBool (0 <=? x)) row)) = Ret (VTuple [varr (used_indices row)]).
Proof. rewrite where_bools. unfold used_indices. rewrite used_from_flag. reflexivity. Qed.

(* where(a == r)[0][0] : the first position *)
Lemma used_from_eq r : forall l i,
  match first_pos r l i with
  | Some p => exists tl, used_from (map (fun x => if x =? r then 0 else -1) l) i = p :: tl
  | None => used_from (map (fun x => if x =? r then 0 else -1) l) i = []
  end.
Proof.
  induction l as [|y t IH]; intros i; [reflexivity|]. cbn [first_pos map used_from].
  rewrite (Z.eqb_sym r y). destruct (y =? r); cbn [Z.leb]; [eexists; reflexivity|].
  change (0 <=? -1) with false. cbv iota. apply IH.
Qed.

Lemma index_tuple1 x : index_val (VTuple [x]) (VInt 0) = Ret x.
Proof. reflexivity. Qed.

Lemma where_eq_first l r :
  (t <~ builtin1_val BNpWhere (VArr (map (fun x => VBool (x =? r)) l)) ;; a <~ index_val t (VInt 0) ;; index_val a (VInt 0))
  = match first_pos r l 0 with Some p => Ret (VInt p) | None => Exn IndexError end.
Proof.
  rewrite where_bools. cbn [rbind]. rewrite index_tuple1. cbn [rbind]. unfold used_indices.
  pose proof (used_from_eq r l 0) as H. destruct (first_pos r l 0) as [p|].
  - destruct H as [tl ->]. reflexivity.
  - rewrite H. reflexivity.
Qed.

Lemma blen_varr l : builtin1_val BLen (varr l) = Ret (VInt (Z.of_nat (length l))).
Proof. unfold varr, builtin1_val. rewrite map_length. reflexivity. Qed.

(* ---- nucleotides ----------------------------------------------------------------------------------------------------- *)
Definition ACGT : list Z := [65; 67; 71; 84].
Definition nucv (j : Z) : val := VStr [nuc_char j].

Lemma index_nuc r : 0 <= r < 4 -> index_val (VStr ACGT) (VInt r) = Ret (nucv r).
Proof.
  intro H. assert (C : r = 0 \/ r = 1 \/ r = 2 \/ r = 3) by lia.
  destruct C as [->|[->|[->| ->]]]; reflexivity.
Qed.

Lemma str_index_nuc c : builtin2_val BIndexOf (VStr ACGT) (VStr [c]) =
  match nuc_index c with Some j => Ret (VInt j) | None => Exn ValueError end.
Proof.
  unfold builtin2_val, str_index, nuc_index, ACGT. cbn [indexZ].
  destruct (c =? 65); [reflexivity|]. destruct (c =? 67); [reflexivity|].
  destruct (c =? 71); [reflexivity|]. destruct (c =? 84); reflexivity.
Qed.

Lemma val_eqb_nuc c j : 0 <= j < 4 ->
  val_eqb (VStr [c]) (nucv j) = match nuc_index c with Some j' => j' =? j | None => false end.
Proof.
  intro H. unfold nucv, val_eqb, listZ_eqb. rewrite andb_true_r.
  assert (C : j = 0 \/ j = 1 \/ j = 2 \/ j = 3) by lia.
  unfold nuc_index.
  destruct C as [->|[->|[->| ->]]];
    [change (nuc_char 0) with 65|change (nuc_char 1) with 67|change (nuc_char 2) with 71|change (nuc_char 3) with 84];
  destruct (c =? 65) eqn:E1; destruct (c =? 67) eqn:E2; destruct (c =? 71) eqn:E3; destruct (c =? 84) eqn:E4;
  cbv beta iota; try reflexivity; lia.
Qed.

Lemma forallb_nucv used : forallb (fun y => match y with VInt _ | VStr _ => true | _ => false end) (map nucv used) = true.
Proof. induction used as [|x t IH]; [reflexivity|exact IH]. Qed.

Lemma index_of_nucs c : forall used i, Forall (fun j => 0 <= j < 4) used ->
  index_of_val (VStr [c]) (map nucv used) i = match nuc_index c with Some j => first_pos j used i | None => None end.
Proof.
  induction used as [|u t IH]; intros i H; [destruct (nuc_index c); reflexivity|].
  inversion H as [|? ? Hu Ht]; subst. cbn [map index_of_val first_pos].
  rewrite (val_eqb_nuc c u Hu). rewrite (IH (i + 1) Ht).
  destruct (nuc_index c) as [j|]; reflexivity.
Qed.

Lemma mem_index_of x : forall l i, mem_val x l = match index_of_val x l i with Some _ => true | None => false end.
Proof.
  induction l as [|y t IH]; intros i; [reflexivity|]. cbn [mem_val index_of_val].
  destruct (val_eqb x y); [reflexivity|]. cbn [orb]. apply IH.
Qed.

(* ---- shuffles[vertex_index, used_indices], argsort -------------------------------------------------------------------- *)
Lemma memZ_iff x : forall l, memZ x l = true <-> In x l.
Proof.
  induction l as [|y t IH]; cbn [memZ In]; [split; [discriminate|contradiction]|].
  rewrite orb_true_iff, IH. split; (intros [H|H]; [left; lia|right; exact H]).
Qed.

Lemma nodupb_true : forall l, NoDup l -> nodupb l = true.
Proof.
  induction l as [|x t IH]; intros H; [reflexivity|]. apply NoDup_cons_iff in H. destruct H as [Hx Ht].
  cbn [nodupb]. rewrite (IH Ht), andb_true_r. destruct (memZ x t) eqn:E; [|reflexivity].
  apply memZ_iff in E. contradiction.
Qed.

Lemma ssorted_nodup : forall l, StronglySorted Z.lt l -> NoDup l.
Proof.
  induction l as [|h t IH]; intros Hs; [constructor|].
  apply StronglySorted_inv in Hs. destruct Hs as [Hst Hfa]. constructor; [|apply IH; exact Hst].
  intro Hin. rewrite Forall_forall in Hfa. specialize (Hfa _ Hin). lia.
Qed.

Lemma pick_nodup srow : forall used, NoDup srow -> NoDup used ->
  Forall (fun j => 0 <= j < Z.of_nat (length srow)) used -> NoDup (pick srow used).
Proof.
  induction used as [|u t IH]; intros Hs Hu Hr; [constructor|].
  apply NoDup_cons_iff in Hu. destruct Hu as [Hni Hnt]. inversion Hr as [|? ? Hur Htr]; subst.
  unfold pick in *. cbn [map]. constructor; [|apply IH; assumption].
  intro Hin. apply in_map_iff in Hin. destruct Hin as [u' [E Hu']].
  rewrite Forall_forall in Htr. specialize (Htr _ Hu').
  apply (proj1 (NoDup_nth srow (-1)) Hs) in E; [|lia|lia].
  apply Hni. replace u with u' by lia. exact Hu'.
Qed.

Lemma fancy_index t v used : Forall (fun r => length r = 4%nat /\ NoDup r) t -> Forall (fun j => 0 <= j < 4) used ->
  index_val (varr2 t) (VTuple [VInt v; varr used]) =
  match py_get t v with Ok srow => Ret (varr (pick srow used)) | _ => Exn IndexError end.
Proof.
  intros Ht Hu. unfold index_val, varr2, varr at 1. rewrite py_get_map.
  destruct (py_get t v) as [srow|e|] eqn:E; try reflexivity.
  apply py_get_in in E. rewrite Forall_forall in Ht. destruct (Ht _ E) as [Hl _].
  unfold varr at 1.
  rewrite (map_res_map _ VInt (fun j => VInt (nth (Z.to_nat j) srow (-1)))).
  - cbn [rbind]. unfold varr, pick. rewrite map_map. reflexivity.
  - intros x Hx. rewrite Forall_forall in Hu. specialize (Hu _ Hx).
    rewrite py_get_map. rewrite (py_get_ok srow x (-1)) by lia. reflexivity.
Qed.

Lemma argsort_varr keys : NoDup keys -> builtin1_val BNpArgsort (varr keys) = Ret (varr (argsort keys)).
Proof.
  intro H. unfold builtin1_val, varr.
  rewrite (map_res_map _ VInt (fun z => z)) by (intros; reflexivity). cbn [rbind]. rewrite map_id.
  rewrite (nodupb_true keys H). reflexivity.
Qed.

Lemma used_shape row : length row = 4%nat ->
  Forall (fun j => 0 <= j < 4) (used_indices row) /\ NoDup (used_indices row) /\
  (forall j, In j (used_indices row) -> 0 <= nth (Z.to_nat j) row (-1)).
Proof.
  intro Hl. destruct (used_indices_spec row Hl) as [Hs Hi]. split; [|split].
  - apply Forall_forall. intros j Hj. apply Hi in Hj. lia.
  - apply ssorted_nodup. exact Hs.
  - intros j Hj. apply Hi in Hj. lia.
Qed.

Lemma py_get_raise {A} (l : list A) i e : py_get l i = Raise e -> e = IndexError.
Proof.
  unfold py_get. cbv zeta. destruct (_ || _); [intro H; injection H as <-; reflexivity|].
  destruct (nthZ l _); [discriminate|intro H; injection H as <-; reflexivity].
Qed.

Lemma py_get_fuel {A} (l : list A) i : py_get l i <> OutOfFuel.
Proof. unfold py_get. cbv zeta. destruct (_ || _); [discriminate|]. destruct (nthZ l _); discriminate. Qed.

(* ---- the pieces of the generated term --------------------------------------------------------------------------------- *)
Definition used_expr : expr :=
  (EIndex (EB1 BNpWhere (ECmp CGe (EIndex (EVar "accessor"%string) (EVar "vertex_index"%string)) (EInt (0)))) (EInt (0))).
Definition comp_expr : expr :=
  (EComp (EIndex (EVar "nucleotides"%string) (EVar "used_index"%string)) "used_index"%string (EVar "used_indices"%string)).
Definition unshuffle_expr : expr :=
  (EIndex (EIndex (EB1 BNpWhere (ECmp CEq (EB1 BNpArgsort (EIndex (EVar "shuffles"%string) (ETuple [(EVar "vertex_index"%string); (EVar "used_indices"%string)]))) (EVar "remainder"%string))) (EInt (0))) (EInt (0))).
Definition next_expr : expr :=
  (EIndex (EIndex (EVar "accessor"%string) (EVar "vertex_index"%string)) (EB2 BIndexOf (EVar "nucleotides"%string) (EVar "nucleotide"%string))).
Definition branch_many : stmt :=
 (SSeq (SAssign (TVar "used_nucleotides"%string) comp_expr)
 (SSeq (SIf (ECmp CIn (EVar "nucleotide"%string) (EVar "used_nucleotides"%string))
 (SAssign (TVar "remainder"%string) (EB2 BIndexOf (EVar "used_nucleotides"%string) (EVar "nucleotide"%string)))
 (SRaise ValueError))
 (SSeq (SIf (ENot (EB1 BIsNone (EVar "shuffles"%string)))
 (SAssign (TVar "remainder"%string) unshuffle_expr)
 SSkip)
 (SSeq (SAppend "saved_values"%string (ETuple [(EB1 BLen (EVar "used_indices"%string)); (EVar "remainder"%string)]))
 (SAssign (TVar "vertex_index"%string) next_expr))))).
Definition branch_one : stmt :=
 (SSeq (SAssign (TVar "used_nucleotide"%string) (EIndex (EVar "nucleotides"%string) (EIndex (EVar "used_indices"%string) (EInt (0)))))
 (SIf (ECmp CEq (EVar "nucleotide"%string) (EVar "used_nucleotide"%string))
 (SAssign (TVar "vertex_index"%string) next_expr)
 (SRaise ValueError))).
Definition verbose_stmt : stmt :=
 (SIf (EVar "verbose"%string)
 (SExpr (ETuple [(EBin Add (EVar "location"%string) (EInt (1))); (EB1 BLen (EVar "dna_sequence"%string))]))
 SSkip).
Definition walk_body : stmt :=
 (SSeq (SAssign (TVar "used_indices"%string) used_expr)
 (SSeq (SIf (ECmp CGt (EB1 BLen (EVar "used_indices"%string)) (EInt (1)))
 branch_many
 (SIf (ECmp CEq (EB1 BLen (EVar "used_indices"%string)) (EInt (1)))
 branch_one
 (SRaise ValueError)))
 verbose_stmt)).
Definition horner_body : stmt :=
 (SSeq (SAssign (TVar "quotient"%string) (ECall "calculus_multiplication"%string [(EVar "quotient"%string); (EB1 BStr (EVar "out_degree"%string))]))
 (SAssign (TVar "quotient"%string) (ECall "calculus_addition"%string [(EVar "quotient"%string); (EB1 BStr (EVar "number"%string))]))).
Definition normal_part : stmt :=
 (SSeq (SAssign (TTuple ["quotient"%string; "saved_values"%string]) (ETuple [(EStr [48]); (EList [])]))
 (SSeq (SFor (TTuple ["location"%string; "nucleotide"%string]) (EB1 BEnumerate (EVar "dna_sequence"%string)) walk_body)
 (SSeq (SFor (TPair "location"%string ["out_degree"%string; "number"%string]) (EB1 BEnumerate (EB1 BRev (EVar "saved_values"%string))) horner_body)
 (SAssign (TVar "binary_message"%string) (EB1 BNpArray (ECall "number_to_bit"%string [(EVar "quotient"%string); (EVar "bit_length"%string)])))))).
Definition check_part : stmt :=
 (SIf (ENot (EB1 BIsNone (EVar "vt_check"%string)))
 (SIf (ECmp CNe (EVar "vt_check"%string) (ECall "set_vt"%string [(EVar "dna_sequence"%string); (EB1 BLen (EVar "vt_check"%string))]))
 (SRaise ValueError)
 SSkip)
 SSkip).

(* the generated body is: prelude; check; if not is_faster: normal_part else: <fast part>; return binary_message *)
Lemma decode_def_shape : exists fast_part,
  body decode_def =
  SSeq (SAssign (TTuple ["vertex_index"%string; "nucleotides"%string; "monitor"%string]) (ETuple [(EVar "start_index"%string); (EStr [65; 67; 71; 84]); EOpaque]))
  (SSeq check_part
  (SSeq (SIf (ENot (EVar "is_faster"%string)) normal_part fast_part)
  (SReturn (EVar "binary_message"%string)))).
Proof. eexists. reflexivity. Qed.

Definition pairv (dn : Z * Z) : val := VTuple [VInt (fst dn); VInt (snd dn)].
Definition optv (o : option (Z * Z)) : list val := match o with Some dn => [pairv dn] | None => [] end.
Definition optl (o : option (Z * Z)) : list (Z * Z) := match o with Some dn => [dn] | None => [] end.
Definition good (dn : Z * Z) : Prop := 2 <= fst dn <= 4 /\ 0 <= snd dn < fst dn.
Definition res_of {A} (f : A -> val) (r : result A) : res val :=
  match r with Ok x => Ret (f x) | Raise e => Exn e | OutOfFuel => Fuel end.

Section Walk.
  Variable ce : string -> list val -> res val.
  Variable fuel : nat.
  Variable acc : list (list Z).
  Variable sh : option (list (list Z)).
  Variable verbose : bool.
  Variable s0 : list Z.
  Variables vq vb : val.
  Hypothesis Hacc : acc_shape acc.
  Hypothesis Hsh : table_shape (length acc) sh.

  (* one character of the strand in the model *)
  Definition wstep (c v : Z) : result (option (Z * Z) * Z) :=
    row <- py_get acc v ;;
    let used := used_indices row in
    match used with
    | [] => Raise ValueError
    | [j] => if c =? nuc_char j then nxt <- py_get row j ;; Ok (None, nxt) else Raise ValueError
    | _ => match nuc_index c with
           | None => Raise ValueError
           | Some j => match first_pos j used 0 with
                       | None => Raise ValueError
                       | Some rem => rem' <- unshuffle_digit sh v used rem ;; nxt <- py_get row j ;;
                                     Ok (Some (Z.of_nat (length used), rem'), nxt)
                       end
           end
    end.

  Lemma decode_walk_cons c t v :
    decode_walk (c :: t) acc v sh =
    (p <- wstep c v ;; rest <- decode_walk t acc (snd p) sh ;; Ok (optl (fst p) ++ rest)%list).
  Proof.
    cbn [decode_walk]. unfold wstep. destruct (py_get acc v) as [row|e|]; cbn [bind]; try reflexivity.
    destruct (used_indices row) as [|j [|j2 r]]; try reflexivity.
    - destruct (c =? nuc_char j); [|reflexivity]. destruct (py_get row j); cbn [bind fst snd optl app]; try reflexivity.
      destruct (decode_walk t acc a sh); reflexivity.
    - destruct (nuc_index c) as [jj|]; [|reflexivity]. destruct (first_pos jj (j :: j2 :: r) 0); [|reflexivity].
      destruct (unshuffle_digit sh v (j :: j2 :: r) z); cbn [bind]; try reflexivity.
      destruct (py_get row jj); cbn [bind fst snd optl app]; try reflexivity.
  Qed.

  Definition inv (en : env) (v : Z) (sv : list val) : Prop :=
    lookup "accessor" en = Ret (varr2 acc) /\ lookup "vertex_index" en = Ret (VInt v) /\
    lookup "nucleotides" en = Ret (VStr ACGT) /\ lookup "shuffles" en = Ret (v_table sh) /\
    lookup "saved_values" en = Ret (VList sv) /\ lookup "verbose" en = Ret (VBool verbose) /\
    lookup "dna_sequence" en = Ret (VStr s0) /\ lookup "quotient" en = Ret vq /\ lookup "bit_length" en = Ret vb.

  Lemma row_shape v row : py_get acc v = Ok row ->
    length row = 4%nat /\ Forall (fun x => -1 <= x < Z.of_nat (length acc)) row.
  Proof. intro H. apply py_get_in in H. unfold acc_shape in Hacc. rewrite Forall_forall in Hacc. exact (Hacc _ H). Qed.

  Lemma eval_used en v : lookup "accessor" en = Ret (varr2 acc) -> lookup "vertex_index" en = Ret (VInt v) ->
    eval ce en used_expr = match py_get acc v with Ok row => Ret (varr (used_indices row)) | _ => Exn IndexError end.
  Proof.
    intros HA HV. unfold used_expr. cbn [eval]. rewrite HA, HV. cbn [rbind]. rewrite index_varr2.
    destruct (py_get acc v) as [row|e|]; cbn [rbind]; try reflexivity.
    rewrite cmp_ge0_varr. cbn [rbind]. rewrite where_ge0. cbn [rbind]. reflexivity.
  Qed.

  Lemma eval_comp en used : lookup "nucleotides" en = Ret (VStr ACGT) -> lookup "used_indices" en = Ret (varr used) ->
    Forall (fun j => 0 <= j < 4) used ->
    eval ce en comp_expr = Ret (VList (map nucv used)).
  Proof.
    intros HN HU Hr. unfold comp_expr. cbn [eval]. rewrite HU. cbn [rbind]. rewrite items_varr. cbn [rbind].
    rewrite (map_res_map _ VInt nucv); [reflexivity|].
    intros x Hx. rewrite Forall_forall in Hr. cbn [eval]. lk. rewrite HN. cbn [rbind]. apply index_nuc. apply Hr, Hx.
  Qed.

  Lemma eval_next en v row c j : lookup "accessor" en = Ret (varr2 acc) -> lookup "vertex_index" en = Ret (VInt v) ->
    lookup "nucleotides" en = Ret (VStr ACGT) -> lookup "nucleotide" en = Ret (VStr [c]) ->
    py_get acc v = Ok row -> nuc_index c = Some j ->
    eval ce en next_expr = match py_get row j with Ok x => Ret (VInt x) | _ => Exn IndexError end.
  Proof.
    intros HA HV HN HC Hrow Hj. unfold next_expr. cbn [eval]. rewrite HA, HV, HN, HC. cbn [rbind].
    rewrite index_varr2, Hrow. cbn [rbind]. rewrite str_index_nuc, Hj. cbn [rbind]. apply index_varr.
  Qed.

  Lemma eval_unshuffle en t v used rem : sh = Some t ->
    lookup "shuffles" en = Ret (v_table sh) -> lookup "vertex_index" en = Ret (VInt v) ->
    lookup "used_indices" en = Ret (varr used) -> lookup "remainder" en = Ret (VInt rem) ->
    Forall (fun j => 0 <= j < 4) used -> NoDup used ->
    eval ce en unshuffle_expr = res_of VInt (unshuffle_digit sh v used rem).
  Proof.
    intros -> HS HV HU HR Hr Hn. unfold unshuffle_expr, unshuffle_digit. cbn [eval]. rewrite HS, HV, HU, HR. cbn [rbind v_table].
    destruct Hsh as [_ Ht]. rewrite (fancy_index t v used Ht Hr).
    destruct (py_get t v) as [srow|e|] eqn:E; cbn [rbind bind res_of]; try reflexivity.
    - assert (Hs : length srow = 4%nat /\ NoDup srow).
      { apply py_get_in in E. rewrite Forall_forall in Ht. exact (Ht _ E). }
      destruct Hs as [Hl Hnd].
      rewrite argsort_varr by (apply pick_nodup; [exact Hnd|exact Hn|rewrite Hl; exact Hr]).
      cbn [rbind]. rewrite cmp_eq_varr. cbn [rbind]. rewrite where_bools. cbn [rbind]. rewrite index_tuple1. cbn [rbind].
      unfold used_indices. pose proof (used_from_eq rem (argsort (pick srow used)) 0) as H.
      destruct (first_pos rem (argsort (pick srow used)) 0) as [p|].
      + destruct H as [tl ->]. reflexivity.
      + rewrite H. reflexivity.
    - rewrite (py_get_raise _ _ _ E). reflexivity.
    - exfalso. exact (py_get_fuel _ _ E).
  Qed.

  Lemma exec_assign t e en : exec ce fuel (SAssign t e) en = lift (eval ce en e) (fun v => assign ce t v en).
  Proof. reflexivity. Qed.
  Lemma exec_raise e en : exec ce fuel (SRaise e) en = OExn e.
  Proof. reflexivity. Qed.
  Lemma cmp_gt1 n : cmp_vals CGt (VInt n) (VInt 1) = Ret (VBool (1 <? n)).
  Proof. reflexivity. Qed.
  Lemma cmp_eq1 n : cmp_vals CEq (VInt n) (VInt 1) = Ret (VBool (n =? 1)).
  Proof. reflexivity. Qed.

  Lemma verbose_ok en i : lookup "verbose" en = Ret (VBool verbose) -> lookup "location" en = Ret (VInt i) ->
    lookup "dna_sequence" en = Ret (VStr s0) -> exec ce fuel verbose_stmt en = ONormal en.
  Proof.
    intros HVB HL HD. unfold verbose_stmt. cbn [exec eval]. rewrite HVB. cbn [lift truthy].
    destruct verbose; [|reflexivity]. cbn [exec eval]. rewrite HL, HD. reflexivity.
  Qed.

  Lemma inv_upd en v sv x w : inv en v sv ->
    x <> "accessor" -> x <> "vertex_index" -> x <> "nucleotides" -> x <> "shuffles" -> x <> "saved_values" ->
    x <> "verbose" -> x <> "dna_sequence" -> x <> "quotient" -> x <> "bit_length" -> inv (update x w en) v sv.
  Proof.
    intros (HA & HV & HN & HS & HSV & HVB & HD & HQ & HB) N1 N2 N3 N4 N5 N6 N7 N8 N9. unfold inv.
    rewrite !lookup_update_other by (intro E; symmetry in E; contradiction). repeat split; assumption.
  Qed.

  Lemma cmp_in_nucs c used : cmp_vals CIn (VStr [c]) (VList (map nucv used)) = Ret (VBool (mem_val (VStr [c]) (map nucv used))).
  Proof. unfold cmp_vals, cmp_scalar. cbn [mixes_bool is_arr orb]. rewrite forallb_nucv, xorb_false_l. reflexivity. Qed.

  Lemma index_in_nucs c used : builtin2_val BIndexOf (VList (map nucv used)) (VStr [c]) =
    match index_of_val (VStr [c]) (map nucv used) 0 with Some i => Ret (VInt i) | None => Exn ValueError end.
  Proof. unfold builtin2_val. rewrite forallb_nucv. reflexivity. Qed.

  Lemma many_tail en v sv used row c jj rem' : inv en v sv -> lookup "nucleotide" en = Ret (VStr [c]) ->
    lookup "used_indices" en = Ret (varr used) -> lookup "remainder" en = Ret (VInt rem') ->
    py_get acc v = Ok row -> nuc_index c = Some jj ->
    exec ce fuel (SSeq (SAppend "saved_values"%string (ETuple [(EB1 BLen (EVar "used_indices"%string)); (EVar "remainder"%string)]))
                       (SAssign (TVar "vertex_index"%string) next_expr)) en =
    match py_get row jj with
    | Ok nxt => ONormal (update "vertex_index" (VInt nxt)
                          (update "saved_values" (VList (sv ++ [pairv (Z.of_nat (length used), rem')])) en))
    | _ => OExn IndexError
    end.
  Proof.
    intros (HA & HV & HN & HS & HSV & HVB & HD & HQ & HB) HC HU HR Hrow Hj.
    rewrite exec_seq. cbn [exec eval]. rewrite HSV, HU, HR. cbn [rbind lift]. rewrite blen_varr. cbn [rbind lift seq].
    rewrite (eval_next _ v row c jj) by (lk; assumption).
    destruct (py_get row jj); reflexivity.
  Qed.

  Lemma many_step en v sv i c row : inv en v sv -> lookup "location" en = Ret (VInt i) -> lookup "nucleotide" en = Ret (VStr [c]) ->
    lookup "used_indices" en = Ret (varr (used_indices row)) -> py_get acc v = Ok row ->
    (2 <= length (used_indices row))%nat ->
    match (match nuc_index c with
           | None => Raise ValueError
           | Some j => match first_pos j (used_indices row) 0 with
                       | None => Raise ValueError
                       | Some rem => rem' <- unshuffle_digit sh v (used_indices row) rem ;; nxt <- py_get row j ;;
                                     Ok (Some (Z.of_nat (length (used_indices row)), rem'), nxt)
                       end
           end) with
    | Ok (o, nxt) => exists en', exec ce fuel branch_many en = ONormal en' /\ inv en' nxt (sv ++ optv o) /\ Forall good (optl o)
                                 /\ lookup "location" en' = Ret (VInt i)
    | Raise e => exec ce fuel branch_many en = OExn e
    | OutOfFuel => True
    end.
  Proof.
    intros Hinv HL HC HU Er Hlen. pose proof Hinv as (HA & HV & HN & HS & HSV & HVB & HD & HQ & HB).
    destruct (row_shape v row Er) as [Hl4 Hrng]. destruct (used_shape row Hl4) as (Hur & Hun & Hup).
    pose proof (used_from_len row 0) as Hle. fold (used_indices row) in Hle.
    remember (used_indices row) as used eqn:Eu.
    unfold branch_many. rewrite exec_seq, exec_assign, (eval_comp en used HN HU Hur). cbn [lift assign seq].
    rewrite exec_seq, exec_if. cbn [eval]. lk. rewrite HC. cbn [rbind]. rewrite cmp_in_nucs. cbn [lift truthy].
    rewrite (mem_index_of _ _ 0), (index_of_nucs c used 0 Hur).
    destruct (nuc_index c) as [jj|] eqn:Ej; [|reflexivity].
    destruct (first_pos jj used 0) as [rem|] eqn:Ef; [|reflexivity].
    rewrite exec_assign. cbn [eval]. lk. rewrite HC. cbn [rbind]. rewrite index_in_nucs, (index_of_nucs c used 0 Hur), Ej, Ef.
    cbn [lift assign seq]. rewrite exec_seq, exec_if. cbn [eval]. lk. rewrite HS. cbn [rbind].
    destruct (first_pos_some _ _ _ _ Ef) as (n & Hn & Hrem & _).
    assert (Hgood : forall rem', unshuffle_digit sh v used rem = Ok rem' -> good (Z.of_nat (length used), rem')).
    { intros rem' E. destruct (unshuffle_shuffle sh v used rem ltac:(lia) rem' E) as [Hb _]. unfold good. cbn [fst snd]. lia. }
    destruct sh as [t|] eqn:Esh.
    - cbn [v_table]. unfold varr2 at 1. cbn [builtin1_val rbind truthy negb lift].
      rewrite exec_assign, (eval_unshuffle _ t v used rem) by (lk; assumption || reflexivity).
      destruct (unshuffle_digit (Some t) v used rem) as [rem'|e|] eqn:Eun; cbn [res_of bind lift]; [|reflexivity|exact I].
      cbn [assign seq].
      rewrite (many_tail _ v sv used row c jj rem') by
        (first [repeat apply inv_upd; (assumption || discriminate) | lk; assumption || reflexivity | assumption]).
      destruct (py_get row jj) as [nxt|e|] eqn:En; cbn [bind]; [|rewrite (py_get_raise _ _ _ En); reflexivity|exact I].
      eexists. split; [reflexivity|]. split; [|split].
      + unfold inv. lk. repeat split; assumption.
      + constructor; [apply Hgood; reflexivity|constructor].
      + lk. exact HL.
    - cbn [v_table builtin1_val rbind truthy negb lift exec seq bind unshuffle_digit].
      rewrite (many_tail _ v sv used row c jj rem) by
        (first [repeat apply inv_upd; (assumption || discriminate) | lk; assumption || reflexivity | assumption]).
      destruct (py_get row jj) as [nxt|e|] eqn:En; cbn [bind]; [|rewrite (py_get_raise _ _ _ En); reflexivity|exact I].
      eexists. split; [reflexivity|]. split; [|split].
      + unfold inv. lk. repeat split; assumption.
      + constructor; [apply Hgood; reflexivity|constructor].
      + lk. exact HL.
  Qed.
