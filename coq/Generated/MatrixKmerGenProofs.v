(* MatrixKmerGenProofs.v -- obtain_latters_gen of KmerDeepGenProofs.v over MiniPyM.v, for the MiniPyM copy of obtain_latters in
   MatrixGen.v.  Compiled on every run of the checks against the freshly generated MatrixGen.v (harness/regen.py, unit "matrix"). *)
From Coq Require Import Lia ZifyBool.
From DSW Require Import MiniPyM Graph Kmer Convert Spec MiniPyMLemmas KmerProofs GraphProofs.
From DSWGen Require Import MatrixGen MatrixRepr.
Open Scope Z_scope.
Open Scope string_scope.
Ltac Zify.zify_post_hook ::= Z.to_euclidean_division_equations.
Local Open Scope Z_scope.



Ltac step := cbn [exec eval lift seq rbind assign MiniPyM.lookup update bind_tuple items String.eqb Ascii.eqb Bool.eqb
  binop_vals binop_scalar cmp_vals cmp_scalar is_arr orb truthy builtin1_val builtin2_val index_val mixes_bool val_eqb
  andb negb to_int length chars map app for_loop].
Ltac setK := match goal with |- context [seq _ ?k] => let K := fresh "K" in set (K := k) end.

Lemma range4 : range3 0 4 1 = Ret [VInt 0; VInt 1; VInt 2; VInt 3].
Proof. reflexivity. Qed.

Lemma pow4_ltb k : (Z.of_nat k <? 0) = false.
Proof. lia. Qed.
Lemma pow4_eqb k : (4 ^ Z.of_nat k =? 0) = false.
Proof. pose proof (pow4_pos k) as H. unfold pow4 in H. lia. Qed.

Theorem obtain_latters_gen : forall ce fuel current k,
  run_fun ce fuel obtain_latters_def [VInt current; VInt (Z.of_nat k)] = Ret (VList (map VInt (obtain_latters current k))).
Proof.
  intros ce fuel current k. unfold run_fun. cbn [params bind_params body obtain_latters_def].
  rewrite exec_seq; setK; step; subst K.
  rewrite exec_seq; setK; step; subst K.
  rewrite exec_seq, exec_for; setK; step.
  change (Z.of_nat 4) with 4. rewrite range4. step.
  do 4 (change (Z.of_nat 4) with 4; rewrite ?pow4_ltb; step; rewrite ?pow4_eqb; step).
  subst K. step. reflexivity.
Qed.

Print Assumptions obtain_latters_gen.
