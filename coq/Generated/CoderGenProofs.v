(* CoderGenProofs.v -- ties the knot for set_vt / encode / decode of dsw/spiderweb.py REGENERATED from the current source
   (CoderGen.coder_module = these three functions in front of the regenerated dsw/operation.py), run by MiniPy.call_in, and
   restates C01 / C06 / C07 for the source text.
   Compiled on every run of the checks against the freshly generated CoderGen.v / OperationGen.v (harness/regen.py, unit "coder"). *)
From Coq Require Import Lia ZifyBool.
From Coq Require Import Permutation.
From DSW Require Import Py MiniPy Bignum Convert Kmer Graph Coder Spec GraphSpec CoderSpec FastSpec MiniPyLemmas BignumProofs ConvertProofs.
From DSW.Proofs Require Import KmerProofs VTProofs WalkProofs CoderProofs ComposeProofs.
From DSWGen Require Import OperationGen CoderGen OperationGenProofs CoderCallees SetVtGenProofs EncodeNormalGenProofs
  EncodeFastGenProofs DecodeNormalGenProofs DecodeFastGenProofs.
Open Scope Z_scope.
Open Scope string_scope.
Ltac Zify.zify_post_hook ::= Z.to_euclidean_division_equations.
Local Open Scope Z_scope.

(* running a function of the regenerated spiderweb + operation modules *)
Definition py2 (fuel : nat) (f : string) (args : list val) : res val := call_in coder_module fuel f args.

(* coder_module = [("decode", _); ("encode", _); ("set_vt", _)] ++ operation_module; call_in resolves a name and runs it with
   the REST of the list as callees.  The TARGET STATEMENTS are all proved below (summary at the end of the file). *)

(* ---- Part A: the knot ---------------------------------------------------------------------------------------------- *)
Local Notation cok := CoderCallees.callees_ok.

(* the regenerated dsw/operation.py satisfies what the coder proofs assume of their callees *)
Theorem coder_callees_ok : forall fuel, (3 <= fuel)%nat -> CoderCallees.callees_ok (call_in operation_module fuel) fuel.
Proof.
  intros fuel Hf. unfold CoderCallees.callees_ok. fold (py fuel).
  split; [|split; [|split; [|split; [|split]]]].
  - intros bits verbose HB. apply py_bit_to_number_str_arr; assumption.
  - intros ds b Hd Hb. apply py_calculus_division; assumption.
  - intros ds b Hd Hb. apply py_calculus_multiplication; [assumption|assumption|lia].
  - intros ds b Hd Hb. apply py_calculus_addition; assumption.
  - intros d len r Hd Hne HR Hfs. apply py_number_to_bit_str; assumption.
  - intros n len r HR Hfs. apply py_number_to_dna_int; assumption.
Qed.

(* a function of dsw/spiderweb.py in front of the list does not hide a function of dsw/operation.py *)
Lemma skip_cok g fd m fuel :
  String.eqb "bit_to_number" g = false -> String.eqb "calculus_division" g = false ->
  String.eqb "calculus_multiplication" g = false -> String.eqb "calculus_addition" g = false ->
  String.eqb "number_to_bit" g = false -> String.eqb "number_to_dna" g = false ->
  cok (call_in m fuel) fuel -> cok (call_in ((g, fd) :: m) fuel) fuel.
Proof.
  intros E1 E2 E3 E4 E5 E6 (H1 & H2 & H3 & H4 & H5 & H6). unfold CoderCallees.callees_ok. cbn [call_in].
  rewrite E1, E2, E3, E4, E5, E6. auto 7.
Qed.

(* the callees of encode and of decode *)
Definition encode_callees : module := ("set_vt", set_vt_def) :: operation_module.
Definition decode_callees : module := ("encode", encode_def) :: encode_callees.

Lemma py2_set_vt_unfold fuel args :
  py2 fuel "set_vt" args = run_fun (call_in operation_module fuel) fuel set_vt_def args.
Proof. unfold py2, coder_module. cbn [app call_in String.eqb Ascii.eqb Bool.eqb]. reflexivity. Qed.
Lemma py2_encode_unfold fuel args :
  py2 fuel "encode" args = run_fun (call_in encode_callees fuel) fuel encode_def args.
Proof. unfold py2, coder_module, encode_callees. cbn [app call_in String.eqb Ascii.eqb Bool.eqb]. reflexivity. Qed.
Lemma py2_decode_unfold fuel args :
  py2 fuel "decode" args = run_fun (call_in decode_callees fuel) fuel decode_def args.
Proof. unfold py2, coder_module, decode_callees, encode_callees. cbn [app call_in String.eqb Ascii.eqb Bool.eqb]. reflexivity. Qed.

Lemma encode_callees_ok fuel : (3 <= fuel)%nat -> cok (call_in encode_callees fuel) fuel.
Proof. intro Hf. apply skip_cok; try reflexivity. apply coder_callees_ok, Hf. Qed.
Lemma decode_callees_ok fuel : (3 <= fuel)%nat -> cok (call_in decode_callees fuel) fuel.
Proof. intro Hf. apply skip_cok; try reflexivity. apply encode_callees_ok, Hf. Qed.

Lemma encode_set_vt_ok fuel : (3 <= fuel)%nat -> set_vt_callee (call_in encode_callees fuel) fuel.
Proof.
  intros Hf s n Hn Hfn. unfold encode_callees. cbn [call_in String.eqb Ascii.eqb Bool.eqb].
  apply set_vt_gen; [apply coder_callees_ok, Hf|exact Hn|exact Hfn].
Qed.
Lemma decode_set_vt_ok fuel : (3 <= fuel)%nat -> set_vt_callee (call_in decode_callees fuel) fuel.
Proof.
  intros Hf s n Hn Hfn. unfold decode_callees. cbn [call_in String.eqb Ascii.eqb Bool.eqb].
  apply (encode_set_vt_ok fuel Hf); assumption.
Qed.

Theorem py2_set_vt : forall fuel s n, (3 <= fuel)%nat -> 1 <= n -> (2 * Z.to_nat n < fuel)%nat ->
  py2 fuel "set_vt" [VStr s; VInt n] = res_of_str (set_vt s n).
Proof.
  intros fuel s n Hf Hn Hfn. rewrite py2_set_vt_unfold.
  apply set_vt_gen; [apply coder_callees_ok, Hf|exact Hn|exact Hfn].
Qed.

Theorem py2_encode_ok : forall fuel bits acc v faster vt sh verbose mf r, (3 <= fuel)%nat ->
  acc_shape acc -> 0 <= v < Z.of_nat (length acc) -> table_shape (length acc) sh ->
  Forall (fun a => 0 <= a <= 1) bits -> 0 <= vt -> (2 * Z.to_nat vt < fuel)%nat -> (mf < fuel)%nat ->
  Coder.encode bits acc v faster vt sh mf = Ok r ->
  py2 fuel "encode" [varr bits; varr2 acc; VInt v; VBool faster; VInt vt; v_table sh; VBool false; VBool verbose]
  = Ret (res_of_encode r).
Proof.
  intros fuel bits acc v faster vt sh verbose mf r Hf HA Hv HT HB Hvt Hfv Hmf HE. rewrite py2_encode_unfold.
  destruct faster.
  - eapply encode_fast_gen_ok; try eassumption; [apply encode_callees_ok, Hf|apply encode_set_vt_ok, Hf].
  - eapply encode_normal_gen_ok; try eassumption; [apply encode_callees_ok, Hf|apply encode_set_vt_ok, Hf].
Qed.

Theorem py2_encode_raise : forall fuel bits acc v faster vt sh verbose mf e, (3 <= fuel)%nat ->
  acc_shape acc -> 0 <= v < Z.of_nat (length acc) -> table_shape (length acc) sh ->
  Forall (fun a => 0 <= a <= 1) bits -> 0 <= vt -> (2 * Z.to_nat vt < fuel)%nat -> (mf < fuel)%nat ->
  Coder.encode bits acc v faster vt sh mf = Raise e ->
  py2 fuel "encode" [varr bits; varr2 acc; VInt v; VBool faster; VInt vt; v_table sh; VBool false; VBool verbose]
  = Exn e.
Proof.
  intros fuel bits acc v faster vt sh verbose mf e Hf HA Hv HT HB Hvt Hfv Hmf HE. rewrite py2_encode_unfold.
  destruct faster.
  - eapply encode_fast_gen_raise; try eassumption; [apply encode_callees_ok, Hf|apply encode_set_vt_ok, Hf].
  - eapply encode_normal_gen_raise; try eassumption; [apply encode_callees_ok, Hf|apply encode_set_vt_ok, Hf].
Qed.

(* DecodeNormalGenProofs.vt_ok and DecodeFastGenProofs.vt_ok have the same text *)
Definition vt_ok := DecodeNormalGenProofs.vt_ok.
Lemma vt_ok_fast vt fuel : vt_ok vt fuel -> DecodeFastGenProofs.vt_ok vt fuel.
Proof. intro H. exact H. Qed.

Theorem py2_decode_ok : forall fuel s L acc v faster vt sh verbose r, (3 <= fuel)%nat ->
  acc_shape acc -> 0 <= v < Z.of_nat (length acc) -> table_shape (length acc) sh -> vt_ok vt fuel -> 0 <= L ->
  (4 * length s + 16 <= fuel)%nat ->
  Coder.decode s L acc v faster vt sh = Ok r ->
  py2 fuel "decode" [VStr s; VInt L; varr2 acc; VInt v; VBool faster; v_optstr vt; v_table sh; VBool verbose] = Ret (varr r).
Proof.
  intros fuel s L acc v faster vt sh verbose r Hf HA Hv HT Hvt HL Hfs HD. rewrite py2_decode_unfold.
  destruct faster.
  - apply decode_fast_gen_ok; try assumption; [apply decode_callees_ok, Hf|apply decode_set_vt_ok, Hf].
  - apply decode_normal_gen_ok; try assumption; [apply decode_callees_ok, Hf|apply decode_set_vt_ok, Hf].
Qed.

Theorem py2_decode_raise : forall fuel s L acc v faster vt sh verbose e, (3 <= fuel)%nat ->
  acc_shape acc -> 0 <= v < Z.of_nat (length acc) -> table_shape (length acc) sh -> vt_ok vt fuel -> 0 <= L ->
  (4 * length s + 16 <= fuel)%nat ->
  Coder.decode s L acc v faster vt sh = Raise e ->
  py2 fuel "decode" [VStr s; VInt L; varr2 acc; VInt v; VBool faster; v_optstr vt; v_table sh; VBool verbose] = Exn e.
Proof.
  intros fuel s L acc v faster vt sh verbose e Hf HA Hv HT Hvt HL Hfs HD. rewrite py2_decode_unfold.
  destruct faster.
  - apply decode_fast_gen_raise; try assumption; [apply decode_callees_ok, Hf|apply decode_set_vt_ok, Hf].
  - apply decode_normal_gen_raise; try assumption; [apply decode_callees_ok, Hf|apply decode_set_vt_ok, Hf].
Qed.


(* ---- Part B: C07, C06, C01 for the source text --------------------------------------------------------------------- *)
(* bridges from the vocabulary of Spec.v / GraphSpec.v / CoderSpec.v to the hypotheses of Part A *)
Lemma shaped_acc_shape acc : shaped acc -> acc_shape acc.
Proof.
  intros (H4 & HR). unfold acc_shape, rows4, entries_in_range, nrows in *.
  rewrite Forall_forall in *. intros row Hin. split; [apply H4, Hin|apply HR, Hin].
Qed.

Lemma perm_table_table_shape sh acc : perm_table sh (nrows acc) -> table_shape (length acc) sh.
Proof.
  unfold perm_table, table_shape, nrows. destruct sh as [t|]; [|trivial]. intros (HL & HP).
  split; [lia|]. eapply Forall_impl; [|exact HP]. cbv beta. intros r Hr. split.
  - apply Permutation_length in Hr. exact Hr.
  - apply Permutation_sym in Hr. eapply Permutation_NoDup; [exact Hr|].
    repeat constructor; cbn [In]; intuition discriminate.
Qed.

Lemma bits_01 l : bits_ok l -> Forall (fun a => 0 <= a <= 1) l.
Proof. apply Forall_impl. unfold bit. intros; lia. Qed.

(* -- C07 -- *)
Theorem C07_set_vt_source : forall fuel s vs n, nuc_values s = Ok vs -> 1 <= n -> (3 <= fuel)%nat -> (2 * Z.to_nat n < fuel)%nat ->
  exists ds, is_kmer (Z.to_nat (n - 1)) ds /\ kmer_index ds = asc_sum vs mod 4 ^ (n - 1)
             /\ py2 fuel "set_vt" [VStr s; VInt n] = Ret (VStr (nuc_char (sumZ vs mod 4) :: map nuc_char ds)).
Proof.
  intros fuel s vs n Hvs Hn Hf Hfn. destruct (set_vt_formula s vs n Hvs Hn) as (ds & Hk & Hi & E).
  exists ds. split; [exact Hk|]. split; [exact Hi|].
  rewrite py2_set_vt by assumption. rewrite E. reflexivity.
Qed.

Theorem C07_foreign_source : forall fuel s n, ~ acgt s -> 1 <= n -> (3 <= fuel)%nat -> (2 * Z.to_nat n < fuel)%nat ->
  py2 fuel "set_vt" [VStr s; VInt n] = Exn ValueError.
Proof.
  intros fuel s n Hs Hn Hf Hfn. rewrite py2_set_vt by assumption. rewrite (set_vt_foreign s n Hs). reflexivity.
Qed.

(* -- C06 -- *)
Theorem C06_normal_reject_source : forall fuel acc v0 sh s L vt verbose,
  shaped acc -> in_range acc v0 -> perm_table sh (nrows acc) -> 0 <= L -> vt_ok vt fuel -> (4 * length s + 16 <= fuel)%nat ->
  ~ (is_walk acc v0 s /\ check_ok vt s) ->
  py2 fuel "decode" [VStr s; VInt L; varr2 acc; VInt v0; VBool false; v_optstr vt; v_table sh; VBool verbose] = Exn ValueError.
Proof.
  intros fuel acc v0 sh s L vt verbose Hs Hv Hp HL Hvt Hf Hn.
  destruct (decode_normal_iff acc v0 sh s L vt Hs Hv (perm_table_shape sh _ Hp) HL) as (_ & Hrej).
  apply py2_decode_raise; try assumption; [lia|apply shaped_acc_shape, Hs|apply perm_table_table_shape, Hp|apply Hrej, Hn].
Qed.

Theorem C06_normal_accept_source : forall fuel acc v0 sh s L vt verbose,
  shaped acc -> in_range acc v0 -> perm_table sh (nrows acc) -> 0 <= L -> vt_ok vt fuel -> (4 * length s + 16 <= fuel)%nat ->
  is_walk acc v0 s /\ check_ok vt s ->
  exists bits, py2 fuel "decode" [VStr s; VInt L; varr2 acc; VInt v0; VBool false; v_optstr vt; v_table sh; VBool verbose] = Ret (varr bits)
               /\ Z.of_nat (length bits) = L.
Proof.
  intros fuel acc v0 sh s L vt verbose Hs Hv Hp HL Hvt Hf Hw.
  destruct (decode_normal_iff acc v0 sh s L vt Hs Hv (perm_table_shape sh _ Hp) HL) as (Hacc & _).
  destruct (Hacc Hw) as (bits & HD & Hlen). exists bits. split; [|exact Hlen].
  apply py2_decode_ok; try assumption; [lia|apply shaped_acc_shape, Hs|apply perm_table_table_shape, Hp].
Qed.

(* -- C01 -- *)
(* a strand produced with fuel mf has at most mf nucleotides *)
Lemma bind_ok {A B} (r : result A) (f : A -> result B) b : bind r f = Ok b -> exists a, r = Ok a /\ f a = Ok b.
Proof. destruct r as [a|e|]; cbn [bind]; intro H; [exists a; auto|discriminate|discriminate]. Qed.

Ltac bok H x Hx := apply bind_ok in H; destruct H as (x & Hx & H).

Lemma encode_normal_length : forall mf q acc v sh s, encode_normal mf q acc v sh = Ok s -> (length s <= mf)%nat.
Proof.
  induction mf as [|mf IH]; intros q acc v sh s H.
  - cbn [encode_normal] in H. destruct (is_zero_str q); [|discriminate]. injection H as <-. cbn; lia.
  - cbn [encode_normal] in H. destruct (is_zero_str q); [injection H as <-; cbn; lia|].
    bok H row Hrow. cbv zeta in H. destruct (used_indices row) as [|j [|j2 u]]; [discriminate| |].
    + bok H nxt Hnxt. bok H rest Hrest. injection H as <-. apply IH in Hrest. cbn [length]. lia.
    + destruct (calculus_division q _) as (q' & rem). bok H rem' Hrem. bok H jj Hjj. bok H nxt Hnxt. bok H rest Hrest.
      injection H as <-. apply IH in Hrest. cbn [length]. lia.
Qed.

Lemma encode_fast_length : forall mf bits acc v sh s, encode_fast mf bits acc v sh = Ok s -> (length s <= mf)%nat.
Proof.
  induction mf as [|mf IH]; intros bits acc v sh s H.
  - destruct bits; cbn [encode_fast] in H; [|discriminate]. injection H as <-. cbn; lia.
  - destruct bits as [|b0 bits1]; cbn [encode_fast] in H; [injection H as <-; cbn; lia|].
    bok H row Hrow. cbv zeta in H.
    destruct (Z.of_nat (length (used_indices row)) =? 4).
    { destruct (match bits1 with [] => (b0 * 2, []) | b1 :: bits2 => (b0 * 2 + b1, bits2) end) as (rem & bits').
      bok H rem' Hrem. bok H jj Hjj. bok H nxt Hnxt. bok H rest Hrest.
      injection H as <-. apply IH in Hrest. cbn [length]. lia. }
    destruct (Z.of_nat (length (used_indices row)) =? 2).
    { bok H rem' Hrem. bok H jj Hjj. bok H nxt Hnxt. bok H rest Hrest.
      injection H as <-. apply IH in Hrest. cbn [length]. lia. }
    destruct (Z.of_nat (length (used_indices row)) =? 1); [|discriminate].
    bok H jj Hjj. bok H nxt Hnxt. bok H rest Hrest.
    injection H as <-. apply IH in Hrest. cbn [length]. lia.
Qed.

Lemma encode_length : forall bits acc v faster vt sh mf s chk,
  Coder.encode bits acc v faster vt sh mf = Ok (s, chk) -> (length s <= mf)%nat.
Proof.
  intros bits acc v faster vt sh mf s chk H. unfold Coder.encode in H. bok H s' Hs'.
  assert (s' = s) as ->.
  { destruct (0 <? vt); [bok H c Hc|]; injection H as -> _; reflexivity. }
  destruct faster; [eapply encode_fast_length|eapply encode_normal_length]; exact Hs'.
Qed.

(* the check returned by encode has the requested length *)
Lemma encode_check_ok : forall bits acc v faster vt sh mf s chk fuel, 0 <= vt -> (2 * Z.to_nat vt < fuel)%nat ->
  Coder.encode bits acc v faster vt sh mf = Ok (s, chk) -> vt_ok chk fuel.
Proof.
  intros bits acc v faster vt sh mf s chk fuel Hvt Hf H. unfold Coder.encode in H. bok H s' Hs'.
  destruct (0 <? vt) eqn:E.
  - bok H c Hc. injection H as _ <-. destruct (set_vt_length s' vt c ltac:(lia) Hc) as (HL & _).
    unfold vt_ok, DecodeNormalGenProofs.vt_ok. split; [intros ->; cbn [length] in HL; lia|lia].
  - injection H as _ <-. exact I.
Qed.

Lemma C01_source_core : forall fuel acc v0 sh bits vt_len verbose faster s chk,
  shaped acc -> in_range acc v0 -> perm_table sh (nrows acc) -> bits_ok bits -> 0 <= vt_len ->
  (4 * (length bits * length acc) + 2 * Z.to_nat vt_len + 20 <= fuel)%nat ->
  Coder.encode bits acc v0 faster vt_len sh (Z.to_nat (Z.of_nat (length bits) * nrows acc)) = Ok (s, chk) ->
  Coder.decode s (Z.of_nat (length bits)) acc v0 faster chk sh = Ok bits ->
  py2 fuel "encode" [varr bits; varr2 acc; VInt v0; VBool faster; VInt vt_len; v_table sh; VBool false; VBool verbose]
    = Ret (res_of_encode (s, chk))
  /\ py2 fuel "decode" [VStr s; VInt (Z.of_nat (length bits)); varr2 acc; VInt v0; VBool faster; v_optstr chk; v_table sh; VBool verbose]
    = Ret (varr bits).
Proof.
  intros fuel acc v0 sh bits vt_len verbose faster s chk Hs Hv Hp Hb Hvt Hf HE HD.
  assert (Hmf : Z.to_nat (Z.of_nat (length bits) * nrows acc) = (length bits * length acc)%nat) by (unfold nrows; lia).
  rewrite Hmf in HE. pose proof (encode_length _ _ _ _ _ _ _ _ _ HE) as Hlen.
  split.
  - eapply py2_encode_ok; [| | | | | | | |exact HE]; try assumption;
      [lia|apply shaped_acc_shape, Hs|apply perm_table_table_shape, Hp|apply bits_01, Hb|lia|lia].
  - apply py2_decode_ok; try assumption;
      [lia|apply shaped_acc_shape, Hs|apply perm_table_table_shape, Hp| |lia|lia].
    eapply encode_check_ok; [exact Hvt| |exact HE]. lia.
Qed.

Theorem C01_normal_source : forall fuel acc v0 sh bits vt_len verbose,
  shaped acc -> wf_from acc v0 -> perm_table sh (nrows acc) -> bits_ok bits -> 0 <= vt_len ->
  (4 * (length bits * length acc) + 2 * Z.to_nat vt_len + 20 <= fuel)%nat ->
  exists s chk,
    py2 fuel "encode" [varr bits; varr2 acc; VInt v0; VBool false; VInt vt_len; v_table sh; VBool false; VBool verbose]
      = Ret (res_of_encode (s, chk))
    /\ py2 fuel "decode" [VStr s; VInt (Z.of_nat (length bits)); varr2 acc; VInt v0; VBool false; v_optstr chk; v_table sh; VBool verbose]
      = Ret (varr bits).
Proof.
  intros fuel acc v0 sh bits vt_len verbose Hs Hwf Hp Hb Hvt Hf.
  destruct (C01_normal_wf acc v0 sh bits vt_len Hs Hwf Hp Hb) as (s & chk & HE & _ & HD).
  exists s, chk. eapply C01_source_core; try eassumption. apply co_wf_in_range, Hwf.
Qed.

Theorem C01_fast_source : forall fuel acc v0 sh bits vt_len verbose,
  shaped acc -> wf_from acc v0 -> perm_table sh (nrows acc) -> bits_ok bits -> no_outdeg3 acc -> 0 <= vt_len ->
  (4 * (length bits * length acc) + 2 * Z.to_nat vt_len + 20 <= fuel)%nat ->
  exists s chk,
    py2 fuel "encode" [varr bits; varr2 acc; VInt v0; VBool true; VInt vt_len; v_table sh; VBool false; VBool verbose]
      = Ret (res_of_encode (s, chk))
    /\ py2 fuel "decode" [VStr s; VInt (Z.of_nat (length bits)); varr2 acc; VInt v0; VBool true; v_optstr chk; v_table sh; VBool verbose]
      = Ret (varr bits).
Proof.
  intros fuel acc v0 sh bits vt_len verbose Hs Hwf Hp Hb Hno Hvt Hf.
  destruct (C01_fast_wf acc v0 sh bits vt_len Hs Hwf Hp Hb Hno) as (s & chk & HE & _ & _ & _ & HD).
  exists s, chk. eapply C01_source_core; try eassumption. apply co_wf_in_range, Hwf.
Qed.

(* ---- non-vacuity: the GC-balanced order-2 graph of the doctests (Properties/C01.v, C06.v), through the regenerated source -- *)
Definition gc_acc : accessor :=
  [[-1;-1;-1;-1]; [4;-1;-1;7]; [8;-1;-1;11]; [-1;-1;-1;-1]; [-1;1;2;-1]; [-1;-1;-1;-1]; [-1;-1;-1;-1]; [-1;13;14;-1];
   [-1;1;2;-1]; [-1;-1;-1;-1]; [-1;-1;-1;-1]; [-1;13;14;-1]; [-1;-1;-1;-1]; [4;-1;-1;7]; [8;-1;-1;11]; [-1;-1;-1;-1]].
Definition gc_tbl : list (list Z) := repeat [2; 0; 3; 1] 16.
Definition gc_live : list Z := [1; 2; 4; 7; 8; 11; 13; 14].

Lemma gc_shaped : shaped gc_acc.
Proof.
  split; unfold rows4, entries_in_range, gc_acc; repeat (apply Forall_cons || apply Forall_nil); try reflexivity;
    unfold nrows; cbn [length]; lia.
Qed.

Lemma gc_closed : forall u v, reach gc_acc u v -> In u gc_live -> In v gc_live.
Proof.
  intros u v H. induction H as [u|u j w Hj He _ IH]; intro Hin; [exact Hin|]. apply IH. clear IH.
  assert (Hj' : j = 0 \/ j = 1 \/ j = 2 \/ j = 3) by lia.
  unfold gc_live in Hin. cbn [In] in Hin.
  repeat match goal with H : _ \/ _ |- _ => destruct H as [H|H] end; try contradiction; subst u j;
    vm_compute in He; try (exfalso; apply He; reflexivity); vm_compute; repeat ((left; reflexivity) || right).
Qed.

Lemma gc_wf : wf_from gc_acc 1.
Proof.
  intros v Hr. apply gc_closed in Hr; [|left; reflexivity]. unfold gc_live in Hr. cbn [In] in Hr.
  repeat match goal with H : _ \/ _ |- _ => destruct H as [H|H] end; try contradiction; subst v;
    (split; [unfold in_range, nrows; cbn [length gc_acc]; lia|]);
    (split; [|eexists; split; [apply reach_refl|vm_compute; discriminate]]).
  all: try (exists 0; split; [lia|vm_compute; discriminate]).
  all: exists 1; split; [lia|vm_compute; discriminate].
Qed.

Lemma gc_no3 : no_outdeg3 gc_acc.
Proof.
  intros v Hv. unfold in_range, nrows in Hv. cbn [length gc_acc] in Hv.
  assert (H : v = 0 \/ v = 1 \/ v = 2 \/ v = 3 \/ v = 4 \/ v = 5 \/ v = 6 \/ v = 7 \/ v = 8 \/ v = 9 \/ v = 10 \/ v = 11
              \/ v = 12 \/ v = 13 \/ v = 14 \/ v = 15) by lia.
  repeat match goal with H : _ \/ _ |- _ => destruct H as [H|H] end; subst v; vm_compute; discriminate.
Qed.

Lemma gc_perm : perm_table (Some gc_tbl) (nrows gc_acc).
Proof.
  split; [reflexivity|]. unfold gc_tbl. apply Forall_forall. intros r Hr. apply repeat_spec in Hr. subst r.
  apply NoDup_Permutation.
  - repeat constructor; cbn [In]; intuition discriminate.
  - repeat constructor; cbn [In]; intuition discriminate.
  - intro x. cbn [In]. intuition.
Qed.

Example coder_source_nonvacuous :
  (* arbitrary-precision mode with a check: the doctest *)
  py2 600 "encode" [varr [0;1;0;1;0;1;0;1]; varr2 gc_acc; VInt 1; VBool false; VInt 5; v_table None; VBool false; VBool false]
    = Ret (res_of_encode ([84;67;84;67;84;67;84], Some [84;65;65;71;67]))
  /\ py2 600 "decode" [VStr [84;67;84;67;84;67;84]; VInt 8; varr2 gc_acc; VInt 1; VBool false; v_optstr (Some [84;65;65;71;67]); v_table None; VBool false]
    = Ret (varr [0;1;0;1;0;1;0;1])
  (* fast mode, verbose *)
  /\ py2 600 "encode" [varr [0;1;0;1;0;1;0;1]; varr2 gc_acc; VInt 1; VBool true; VInt 5; v_table None; VBool false; VBool true]
    = Ret (res_of_encode ([65;71;65;71;65;71;65;71], Some [65;65;65;84;65]))
  /\ py2 600 "decode" [VStr [65;71;65;71;65;71;65;71]; VInt 8; varr2 gc_acc; VInt 1; VBool true; v_optstr (Some [65;65;65;84;65]); v_table None; VBool true]
    = Ret (varr [0;1;0;1;0;1;0;1])
  (* with a shuffle table, without a check *)
  /\ py2 600 "encode" [varr [0;1;1;1;0;1;0;0]; varr2 gc_acc; VInt 1; VBool false; VInt 0; v_table (Some gc_tbl); VBool false; VBool false]
    = Ret (res_of_encode ([84;67;65;67;65;71;65], None))
  /\ py2 600 "decode" [VStr [84;67;65;67;65;71;65]; VInt 8; varr2 gc_acc; VInt 1; VBool false; v_optstr None; v_table (Some gc_tbl); VBool false]
    = Ret (varr [0;1;1;1;0;1;0;0])
  (* rejected: a non-walk, a foreign character, a wrong check *)
  /\ py2 600 "decode" [VStr [84;67;84;65]; VInt 8; varr2 gc_acc; VInt 1; VBool false; v_optstr None; v_table None; VBool false] = Exn ValueError
  /\ py2 600 "decode" [VStr [84;78]; VInt 8; varr2 gc_acc; VInt 1; VBool false; v_optstr None; v_table None; VBool false] = Exn ValueError
  /\ py2 600 "decode" [VStr [84;67;84;67;84;67;84]; VInt 8; varr2 gc_acc; VInt 1; VBool false; v_optstr (Some [84;65;65;71;71]); v_table None; VBool false]
    = Exn ValueError
  (* set_vt *)
  /\ py2 600 "set_vt" [VStr [84;67;84;67;84;67;84]; VInt 5] = Ret (VStr [84;65;65;71;67])
  /\ py2 600 "set_vt" [VStr [84;78]; VInt 5] = Exn ValueError
  (* the hypotheses of the theorems hold of these inputs *)
  /\ shaped gc_acc /\ wf_from gc_acc 1 /\ no_outdeg3 gc_acc /\ perm_table None (nrows gc_acc) /\ perm_table (Some gc_tbl) (nrows gc_acc)
  /\ bits_ok [0;1;0;1;0;1;0;1] /\ (4 * (length [0;1;0;1;0;1;0;1] * length gc_acc) + 2 * Z.to_nat 5 + 20 <= 600)%nat
  /\ vt_ok (Some [84;65;65;71;67]) 600 /\ ~ is_walk gc_acc 1 [84;67;84;65] /\ ~ acgt [84;78]
  /\ nuc_values [84;67;84;67;84;67;84] = Ok [3;1;3;1;3;1;3].
Proof.
  repeat match goal with |- _ /\ _ => split end; try (vm_compute; reflexivity).
  - exact gc_shaped.
  - exact gc_wf.
  - exact gc_no3.
  - exact gc_perm.
  - repeat constructor; (left; reflexivity) || (right; reflexivity).
  - cbn [length gc_acc]. lia.
  - split; [discriminate|cbn [length]; lia].
  - cbn [is_walk]. intros (j1 & E1 & _ & _ & j2 & E2 & _ & _ & j3 & E3 & _ & _ & j4 & E4 & _ & H4 & _).
    vm_compute in E1. injection E1 as <-. vm_compute in E2. injection E2 as <-.
    vm_compute in E3. injection E3 as <-. vm_compute in E4. injection E4 as <-. vm_compute in H4. apply H4. reflexivity.
  - intro H. inversion H as [|? ? _ H2]. inversion H2 as [|? ? H3 _]. vm_compute in H3. discriminate.
Qed.

(* TARGET STATEMENTS: all proved above, exactly as stated (vt_ok is DecodeNormalGenProofs.vt_ok, convertible with
   DecodeFastGenProofs.vt_ok: lemma vt_ok_fast).
   Part A: coder_callees_ok, py2_set_vt, py2_encode_ok, py2_encode_raise, py2_decode_ok, py2_decode_raise.
   Part B: C07_set_vt_source, C07_foreign_source, C06_normal_reject_source, C06_normal_accept_source,
   C01_normal_source, C01_fast_source (extra hypothesis no_outdeg3 acc), both with the fuel bound of the statement
   (4 * (length bits * length acc) + 2 * Z.to_nat vt_len + 20 <= fuel): the model fuel is mf = length bits * length acc, a strand
   produced with fuel mf has at most mf nucleotides (encode_normal_length, encode_fast_length, encode_length), and the check
   returned by encode has length vt_len (encode_check_ok, from VTProofs.set_vt_length).  Example coder_source_nonvacuous. *)

Print Assumptions coder_callees_ok.
Print Assumptions py2_set_vt.
Print Assumptions py2_encode_ok.
Print Assumptions py2_encode_raise.
Print Assumptions py2_decode_ok.
Print Assumptions py2_decode_raise.
Print Assumptions C07_set_vt_source.
Print Assumptions C07_foreign_source.
Print Assumptions C06_normal_reject_source.
Print Assumptions C06_normal_accept_source.
Print Assumptions C01_normal_source.
Print Assumptions C01_fast_source.
Print Assumptions coder_source_nonvacuous.
