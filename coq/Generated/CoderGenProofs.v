(* CoderGenProofs.v -- ties the knot for the regenerated set_vt / encode / decode over the generated modules (to be filled in). *)
From DSW Require Import MiniPy.
