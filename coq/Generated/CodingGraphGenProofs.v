(* CodingGraphGenProofs.v -- the regenerated connect_coding_graph (dsw/spiderweb.py: the graph generator behind C03 / C04, with its
   trimming rounds and, for threshold 1, the reachability fixed point and the removal cascade) computes
   Graph.connect_coding_graph, value and exception.
   Compiled on every run of the checks against the freshly generated CodingGen.v (harness/regen.py, unit "coding"). *)
From Coq Require Import Lia ZifyBool.
From DSW Require Import MiniPyH Graph Kmer Convert Spec GraphSpec MiniPyHLemmas KmerProofs GraphProofs GenerateProofs.
From DSWGen Require Import CodingGen CodingRepr.
Open Scope Z_scope.
Open Scope string_scope.
Ltac Zify.zify_post_hook ::= Z.to_euclidean_division_equations.
Local Open Scope Z_scope.
Local Open Scope list_scope.
Notation lookup := MiniPyH.lookup.

(* what connect_coding_graph assumes of the three functions of dsw/graphized.py it calls (proved of their regenerated MiniPyH
   copies in CodingCalleesGenProofs.v; CodingKnotGenProofs.v discharges them) *)
Definition coding_callees_ok (ce : string -> list val -> res val) (k : nat) : Prop :=
  (forall current, ce "obtain_latters" [VInt current; VInt (Z.of_nat k)] = Ret (VList (map VInt (obtain_latters current k))))
  /\ (forall current, (1 <= k)%nat -> ce "obtain_formers" [VInt current; VInt (Z.of_nat k)] = Ret (VList (map VInt (obtain_formers current k))))
  /\ (forall acc, ce "obtain_vertices" [varr2 acc] = Ret (varr (Graph.obtain_vertices acc))).

(* TARGET STATEMENTS: connect_coding_graph_gen_ok and connect_coding_graph_gen_raise are proved at the end of this file exactly as
   stated (for every threshold 1 <= t; the hypothesis 1 <= t is in fact not used), together with their restrictions to 2 <= t
   (connect_coding_graph_gen_ok_t2 / _raise_t2, which do not need the callees obtain_formers / obtain_vertices).

   The Python returns (vertices, accessor).  For threshold 1 `vertices` is the array of retained vertex indices (obtain_vertices
   of the final accessor); for threshold >= 2 it is the vertex MASK of the last trimming round: the boolean array new_vertices
   of the previous round -- or the ARGUMENT ITSELF (an integer array) when the first round already changes nothing: coding_result
   below (tested with vm_compute against call_in coding_module on masks of order 1 and 2, thresholds 1..5, verbose true / false).

   Structure (bottom-up, one lemma per loop):
   * trimming: trim_loop (the for loop over the marked vertices, for a mask encoded as an int OR a bool array: [enc]),
     trim_fold (its result is Graph.trim_round), round_prefix / round_ok (one round of the `while True`), rounds_ok (the rounds
     against Graph.trim_fuel: one unit of the model's fuel per round);
   * accessor construction: inner_loop / outer_loop (adapted from ValidGraphGenProofs.v) = Graph.induced; prefix_ok (the function
     up to there, any tail); tail_t2 / gen_t2 (thresholds other than 1);
   * threshold 1: cascade_for_loop (= fold_left cascade_pair), cascade_while (= Graph.cascade; a plain SWhile: needs one more
     iteration of fuel than the model for the final test), useless_loop (= remove_vertices), reach_for_loop (= useful_step),
     reach_round / reach_while (= useful_fix), t1_pre / t1_mid / t1_post / t1_while (= threshold1_fuel), tail_t1 / gen_t1.
     Every accessor of the repair satisfies [ashape] (4^k rows of four entries, each -1 or a vertex), which keeps all NumPy
     indexing in range (no IndexError); the model's loops never Raise (cascade_noraise, ..), OutOfFuel of the model is excluded
     by the hypothesis that connect_coding_graph returns Ok / Raise.
   Fuel: the proofs need S (S (length mask)) < fuel (the model's fuels are S (length mask) for the trimming rounds and
   S (4^k) for the repair, the reachability loop and the cascade); 4 * length mask + 8 <= fuel implies it.
*)

Local Open Scope list_scope.
Local Open Scope Z_scope.

Definition coding_result (k : nat) (mask : list Z) (t : Z) (V : list Z) (acc : accessor) : val :=
  VTuple [ (if t =? 1 then varr V
            else if sumZ mask - sumZ (trim_round k t mask) =? 0 then v_mask_int mask
            else VArr (map (fun v => VBool (memZ v V)) (zrange (length mask))));
           varr2 acc ].

(* ---- tactics ------------------------------------------------------------------------------------------------------ *)
Ltac lk := repeat (rewrite lookup_update_same || (rewrite lookup_update_other by discriminate)).

Definition frame (vars : list string) (en en' : env) : Prop :=
  forall x, ~ In x vars -> lookup x en' = lookup x en.

Ltac frame_solve :=
  let x := fresh "x" in let Hx := fresh "Hx" in
  intros x Hx;
  repeat first
    [ rewrite lookup_update_other by (let E := fresh "E" in intro E; apply Hx; rewrite E; cbn [In]; auto 30)
    | match goal with
      | H : frame _ _ ?e |- context [lookup x ?e] =>
          rewrite (H x) by (let Hin := fresh "Hin" in intro Hin; apply Hx; cbn [In] in Hin |- *; intuition auto 30)
      end ];
  reflexivity.

Ltac fr H := repeat (rewrite H by (cbn [In]; intuition discriminate)).

Ltac ev := cbn [eval lift seq rbind assign items bind_tuple builtin1_val builtin2_val binop_vals binop_scalar cmp_top cmp_vals cmp_scalar
                is_arr orb truthy mixes_bool to_int negb fst snd].

(* ---- lists ------------------------------------------------------------------------------------------------------------ *)
Lemma nthZ_nth {A} (l : list A) d : forall i, (i < length l)%nat -> nthZ l i = Some (nth i l d).
Proof.
  induction l as [|x xs IH]; intros i Hi; cbn [length] in Hi; [lia|].
  destruct i as [|i]; [reflexivity|]. cbn [nthZ nth]. apply IH. lia.
Qed.

Lemma py_get_ok {A} (l : list A) d j : 0 <= j < Z.of_nat (length l) -> py_get l j = Ok (nth (Z.to_nat j) l d).
Proof.
  intro H. unfold py_get. destruct (j <? 0) eqn:E1; [lia|].
  destruct ((j <? 0) || (Z.of_nat (length l) <=? j)) eqn:E2; [lia|].
  rewrite (nthZ_nth l d) by lia. reflexivity.
Qed.

Lemma py_get_map {A} (g : Z -> A) (l : list Z) v : 0 <= v < Z.of_nat (length l) ->
  py_get (map g l) v = Ok (g (nth (Z.to_nat v) l 0)).
Proof.
  intro H. rewrite (py_get_ok (map g l) (g 0)) by (rewrite map_length; exact H). rewrite map_nth. reflexivity.
Qed.

Lemma set_nth_map {A B} (f : A -> B) x : forall l i, set_nth (map f l) i (f x) = map f (set_nth l i x).
Proof.
  induction l as [|y ys IH]; intros i; [reflexivity|]. destruct i as [|i]; cbn [map set_nth]; [reflexivity|].
  rewrite IH. reflexivity.
Qed.

Lemma set_nth_len {A} (x : A) : forall l i, length (set_nth l i x) = length l.
Proof.
  induction l as [|y ys IH]; intros i; [reflexivity|]. destruct i as [|i]; cbn [set_nth length]; [reflexivity|].
  rewrite IH. reflexivity.
Qed.

Lemma map_res_map {A B C} (g : A -> B) (f : B -> res C) (h : A -> C) (l : list A) :
  (forall a, f (g a) = Ret (h a)) -> map_res f (map g l) = Ret (map h l).
Proof.
  intro H. induction l as [|a t IH]; cbn [map map_res]; [reflexivity|]. rewrite H, IH. reflexivity.
Qed.

Lemma map_res_map_in {A B C} (g : A -> B) (f : B -> res C) (h : A -> C) (l : list A) :
  (forall a, In a l -> f (g a) = Ret (h a)) -> map_res f (map g l) = Ret (map h l).
Proof.
  induction l as [|a t IH]; intro H; cbn [map map_res]; [reflexivity|].
  rewrite H by (left; reflexivity). rewrite IH by (intros; apply H; right; assumption). reflexivity.
Qed.

Lemma zrange_up_from : forall n a, zrange_up n a 1 = map VInt (zrange_from a n).
Proof. induction n as [|n IH]; intro a; cbn [zrange_up zrange_from map]; [reflexivity|rewrite IH; reflexivity]. Qed.

Lemma range_items n : 0 <= n -> range3 0 n 1 = Ret (map VInt (zrange_from 0 (Z.to_nat n))).
Proof.
  intro H. unfold range3. change (1 =? 0) with false. change (0 <? 1) with true. cbv iota.
  rewrite zrange_up_from. do 3 f_equal. lia.
Qed.

Lemma sumZ_01 : forall l, Forall (fun x => 0 <= x <= 1) l -> 0 <= sumZ l <= Z.of_nat (length l).
Proof.
  induction l as [|x l IH]; intro H; [cbn; lia|].
  inversion H as [|? ? Hx Hl]; subst. rewrite sumZ_cons. cbn [length]. specialize (IH Hl). lia.
Qed.

Lemma ratio_ok_sum s n : 0 <= s <= n -> 0 < n -> n < 2 ^ 1000 -> ratio_ok s n = true.
Proof.
  intros Hs Hn Hb. unfold ratio_ok. generalize dependent (2 ^ 1000). intros B HB. lia.
Qed.

Lemma pow4_nat k : Z.of_nat (Z.to_nat (pow4 k)) = pow4 k.
Proof. pose proof (pow4_pos k). lia. Qed.

Lemma pow4_lt_1000 k : Z.of_nat k < 400 -> pow4 k < 2 ^ 1000.
Proof.
  intro H. unfold pow4. change 4 with (2 ^ 2). rewrite <- Z.pow_mul_r by lia.
  apply Z.pow_lt_mono_r; lia.
Qed.

Lemma if_same {A} (b : bool) (x : A) : (if b then x else x) = x.
Proof. destruct b; reflexivity. Qed.

Lemma bit01 : forall l, Forall (fun x => 0 <= x <= 1) l <-> Forall bit l.
Proof.
  intro l. split; intro H; apply Forall_forall; intros x Hx; rewrite Forall_forall in H; specialize (H x Hx); unfold bit in *; lia.
Qed.

(* ---- the encoding of a mask entry: an integer array (the argument) or a boolean array (new_vertices) ------------------- *)
Definition nz (x : Z) : bool := negb (x =? 0).
Definition enc (b : bool) (x : Z) : val := if b then VBool (nz x) else VInt x.

Lemma enc_truthy b x : truthy (enc b x) = Ret (nz x).
Proof. destruct b; reflexivity. Qed.

Lemma enc_count b x : 0 <= x <= 1 -> as_count (enc b x) = Ret x.
Proof.
  intro H. destruct b; cbn [enc as_count]; [|reflexivity]. unfold nz.
  assert (C : x = 0 \/ x = 1) by lia. destruct C as [-> | ->]; reflexivity.
Qed.

Lemma count_enc b : forall l, Forall (fun x => 0 <= x <= 1) l -> map_res as_count (map (enc b) l) = Ret l.
Proof.
  induction l as [|x l IH]; intro H; [reflexivity|].
  inversion H as [|? ? Hx Hl]; subst. cbn [map map_res]. rewrite (enc_count b x Hx), (IH Hl). reflexivity.
Qed.

Lemma sum_enc b l : Forall (fun x => 0 <= x <= 1) l -> builtin1_val BNpSum (VArr (map (enc b) l)) = Ret (VInt (sumZ l)).
Proof. intro H. cbn [builtin1_val]. rewrite (count_enc b l H). reflexivity. Qed.

Lemma index_enc b mask v : 0 <= v < Z.of_nat (length mask) ->
  index_val (VArr (map (enc b) mask)) (VInt v) = Ret (enc b (nth (Z.to_nat v) mask 0)).
Proof. intro H. unfold index_val. rewrite py_get_map by exact H. reflexivity. Qed.

Lemma index_list b mask pos : Forall (fun l => 0 <= l < Z.of_nat (length mask)) pos ->
  index_val (VArr (map (enc b) mask)) (VList (map VInt pos))
  = Ret (VArr (map (enc b) (map (fun l => nth (Z.to_nat l) mask 0) pos))).
Proof.
  intro H. unfold index_val. rewrite map_map.
  rewrite (map_res_map_in VInt _ (fun l => enc b (nth (Z.to_nat l) mask 0))); [reflexivity|].
  intros l Hl. rewrite Forall_forall in H. rewrite py_get_map by (apply H; exact Hl). reflexivity.
Qed.

(* vertices != 0 *)
Lemma ne0_enc b mask : cmp_top CNe (VArr (map (enc b) mask)) (VInt 0) = Ret (VArr (map VBool (map nz mask))).
Proof.
  assert (E : cmp_top CNe (VArr (map (enc b) mask)) (VInt 0) = cmp_vals CNe (VArr (map (enc b) mask)) (VInt 0))
    by (destruct mask; [reflexivity|destruct b; reflexivity]).
  rewrite E. cbn [cmp_vals]. rewrite map_map.
  rewrite (map_res_map (enc b) _ (fun x => VBool (nz x))); [reflexivity|].
  intro x. destruct b; cbn [enc]; unfold nz; [|reflexivity].
  destruct (x =? 0); reflexivity.
Qed.

(* where(..)[0] of a boolean array *)
Lemma used_marked : forall l s,
  used_from (map (fun b : bool => if b then 0 else -1) (map nz l)) s
  = filter (fun v => nz (nth (Z.to_nat (v - s)) l 0)) (zrange_from s (length l)).
Proof.
  induction l as [|x l IH]; intro s; [reflexivity|].
  cbn [map used_from length zrange_from filter]. rewrite IH.
  replace (Z.to_nat (s - s)) with O by lia. cbn [nth].
  assert (E : filter (fun v => nz (nth (Z.to_nat (v - (s + 1))) l 0)) (zrange_from (s + 1) (length l))
              = filter (fun v => nz (nth (Z.to_nat (v - s)) (x :: l) 0)) (zrange_from (s + 1) (length l))).
  { apply filter_ext_in. intros v Hv. apply zrange_from_In in Hv.
    replace (Z.to_nat (v - s)) with (S (Z.to_nat (v - (s + 1)))) by lia. reflexivity. }
  rewrite E. destruct (nz x); reflexivity.
Qed.

Lemma where_marked mask :
  builtin1_val BNpWhere (VArr (map VBool (map nz mask))) = Ret (VTuple [varr (marked mask)]).
Proof.
  cbn [builtin1_val]. rewrite (map_res_map VBool _ (fun b : bool => b)) by reflexivity. rewrite map_id. cbn [rbind].
  unfold used_indices. rewrite used_marked. unfold marked, zrange, varr. do 5 f_equal.
  apply filter_ext. intro v. rewrite Z.sub_0_r. reflexivity.
Qed.

Lemma marked_range mask v : In v (marked mask) -> 0 <= v < Z.of_nat (length mask).
Proof. unfold marked. intro H. apply filter_In in H. destruct H as [H _]. apply zrange_from_In in H. lia. Qed.

Lemma zrange_from_In_iff : forall n s x, In x (zrange_from s n) <-> s <= x < s + Z.of_nat n.
Proof.
  induction n as [|n IH]; intros s x; cbn [zrange_from In]; [lia|].
  rewrite IH. lia.
Qed.

Lemma memZ_In' : forall x l, memZ x l = true <-> In x l.
Proof.
  intros x. induction l as [|y ys IH]; cbn [memZ In]; [split; [discriminate | contradiction]|].
  rewrite orb_true_iff, IH. split; (intros [H|H]; [left; lia | right; exact H]).
Qed.

Lemma memZ_marked mask v : 0 <= v < Z.of_nat (length mask) -> memZ v (marked mask) = maskb mask v.
Proof.
  intro H. destruct (maskb mask v) eqn:E.
  - apply memZ_In'. unfold marked. apply filter_In. split; [|exact E]. apply zrange_from_In_iff. lia.
  - destruct (memZ v (marked mask)) eqn:F; [|reflexivity]. apply memZ_In' in F. unfold marked in F. apply filter_In in F.
    destruct F as [_ F]. congruence.
Qed.

(* stores into a boolean array *)
Lemma store_bool bs v x : 0 <= v < Z.of_nat (length bs) ->
  store_val (VArr (map VBool bs)) (VInt v) (VBool x) = Ret (VArr (map VBool (set_nth bs (Z.to_nat v) x))).
Proof.
  intro H. unfold store_val. rewrite map_length.
  destruct (v <? 0) eqn:E1; [lia|]. destruct ((v <? 0) || (Z.of_nat (length bs) <=? v)) eqn:E2; [lia|].
  destruct bs as [|b0 bs]; [cbn [length] in H; lia|]. cbn [map]. rewrite <- (set_nth_map VBool). reflexivity.
Qed.

Definition ACGT : list Z := [65; 67; 71; 84].

Section Coding.
  Variable ce : string -> list val -> res val.
  Variable fuel : nat.
  Variable k : nat.
  Variable t : Z.
  Variable vb : bool.
  Hypothesis ce_lat : forall current,
    ce "obtain_latters" [VInt current; VInt (Z.of_nat k)] = Ret (VList (map VInt (obtain_latters current k))).

  Lemma exec_assign tg e en : exec ce fuel (SAssign tg e) en = lift (eval ce en e) (fun v => assign ce tg v en).
  Proof. reflexivity. Qed.
  Lemma exec_skip en : exec ce fuel SSkip en = ONormal en.
  Proof. reflexivity. Qed.
  Lemma exec_return e en : exec ce fuel (SReturn e) en = lift (eval ce en e) OReturn.
  Proof. reflexivity. Qed.
  Lemma exec_raise e en : exec ce fuel (SRaise e) en = OExn e.
  Proof. reflexivity. Qed.
  Lemma exec_break en : exec ce fuel SBreak en = OBreak en.
  Proof. reflexivity. Qed.
  Lemma exec_expr e en : exec ce fuel (SExpr e) en = lift (eval ce en e) (fun _ => ONormal en).
  Proof. reflexivity. Qed.
  Lemma exec_aug_var x o e en : exec ce fuel (SAug (TVar x) o e) en =
    lift (lookup x en) (fun a => lift (eval ce en e) (fun b => lift (binop_vals o a b) (fun v => ONormal (update x v en)))).
  Proof. reflexivity. Qed.

  (* ---- one trimming round: the loop over the marked vertices ------------------------------------------------------------ *)
  Definition trim_body : stmt :=
    (SSeq (SAssign (TVar "latter_indices"%string) (ECall "obtain_latters"%string [(EVar "vertex_index"%string); (EVar "observed_length"%string)]))
    (SSeq (SAssign (TIndex "new_vertices"%string (EVar "vertex_index"%string)) (ECmp CGe (EB1 BNpSum (EIndex (EVar "vertices"%string) (EVar "latter_indices"%string))) (EVar "threshold"%string)))
    (SIf (EVar "verbose"%string)
     (SExpr (ETuple [(EBin Add (EVar "current"%string) (EInt (1))); (EB1 BLen (EVar "saved_indices"%string))]))
     SSkip))).

  Definition keepv (mask : list Z) (v : Z) : bool :=
    t <=? sumZ (map (fun l => nth (Z.to_nat l) mask 0) (obtain_latters v k)).

  Lemma latters_ok (mask : list Z) v : Z.of_nat (length mask) = pow4 k ->
    Forall (fun l => 0 <= l < Z.of_nat (length mask)) (obtain_latters v k).
  Proof.
    intro HL. apply Forall_forall. intros w Hw. rewrite HL. unfold obtain_latters in Hw.
    apply in_map_iff in Hw. destruct Hw as [j [He _]]. subst w. apply Z.mod_pos_bound. apply pow4_pos.
  Qed.

  Lemma nth_01 (mask : list Z) i : Forall (fun x => 0 <= x <= 1) mask -> 0 <= nth i mask 0 <= 1.
  Proof.
    intro H. destruct (nth_in_or_default i mask 0) as [Hin|He]; [|rewrite He; lia].
    rewrite Forall_forall in H. apply H, Hin.
  Qed.

  Lemma trim_loop b (mask : list Z) sl : Z.of_nat (length mask) = pow4 k -> Forall (fun x => 0 <= x <= 1) mask ->
    forall ls i bs en,
    Forall (fun v => 0 <= v < Z.of_nat (length bs)) ls ->
    lookup "vertices" en = Ret (VArr (map (enc b) mask)) -> lookup "new_vertices" en = Ret (VArr (map VBool bs)) ->
    lookup "observed_length" en = Ret (VInt (Z.of_nat k)) -> lookup "threshold" en = Ret (VInt t) ->
    lookup "verbose" en = Ret (VBool vb) -> lookup "saved_indices" en = Ret (VArr sl) ->
    exists en', for_loop ce fuel (TTuple ["current"; "vertex_index"]) trim_body (enumerate_from i (map VInt ls)) en = ONormal en'
      /\ lookup "new_vertices" en' = Ret (VArr (map VBool (fold_left (fun r v => set_nth r (Z.to_nat v) (keepv mask v)) ls bs)))
      /\ frame ["current"; "vertex_index"; "latter_indices"; "new_vertices"] en en'.
  Proof.
    intros HL H01. induction ls as [|v ls IH]; intros i bs en HR HV HN HK HT HB HS.
    - exists en. cbn [map enumerate_from for_loop fold_left]. split; [reflexivity|split; [exact HN|intros x _; reflexivity]].
    - inversion HR as [|? ? Hv HR']; subst.
      cbn [map enumerate_from for_loop fold_left]. ev. unfold trim_body at 1.
      rewrite exec_seq, exec_assign. cbn [eval]. lk. rewrite HK. cbn [rbind]. rewrite ce_lat. ev.
      rewrite exec_seq, exec_assign. cbn [eval]. lk. rewrite HV. cbn [rbind].
      rewrite (index_list b mask _ (latters_ok mask v HL)). cbn [rbind].
      rewrite sum_enc by (apply Forall_forall; intros x Hx; apply in_map_iff in Hx; destruct Hx as [l [<- _]]; apply nth_01, H01).
      cbn [rbind]. lk. rewrite HT. ev. fold (keepv mask v). lk. cbn [lift]. lk. rewrite HN. cbn [lift].
      rewrite (store_bool bs v _ Hv). cbn [lift seq].
      rewrite exec_if. cbn [eval]. lk. rewrite HB. cbn [lift truthy].
      match goal with |- context [exec ce fuel SSkip ?E] => set (en1 := E) end.
      assert (EM : (if vb then exec ce fuel (SExpr (ETuple [(EBin Add (EVar "current"%string) (EInt (1))); (EB1 BLen (EVar "saved_indices"%string))])) en1
                    else exec ce fuel SSkip en1) = ONormal en1).
      { destruct vb; [|reflexivity]. rewrite exec_expr. cbn [eval]. unfold en1. lk. rewrite HS. reflexivity. }
      rewrite EM. cbn [seq].
      destruct (IH (i + 1) (set_nth bs (Z.to_nat v) (keepv mask v)) en1) as (en' & EL & HN' & HF);
        try (unfold en1; lk; first [assumption|reflexivity]).
      { rewrite set_nth_len. exact HR'. }
      exists en'. split; [exact EL|split; [exact HN'|unfold en1 in HF; frame_solve]].
  Qed.

  Lemma trim_fold (mask : list Z) : Z.of_nat (length mask) = pow4 k ->
    fold_left (fun r v => set_nth r (Z.to_nat v) (keepv mask v)) (marked mask) (repeat false (Z.to_nat (pow4 k)))
    = map nz (trim_round k t mask).
  Proof.
    intro HL. pose proof (pow4_pos k) as Hp.
    destruct (GenerateProofs.fold_set_nth (keepv mask) (marked mask) (repeat false (Z.to_nat (pow4 k)))) as [Hlen Hnth].
    { intros v Hv. apply marked_range in Hv. rewrite repeat_length. lia. }
    apply (nth_ext _ _ false false).
    - rewrite Hlen, repeat_length, map_length, GenerateProofs.trim_round_length. reflexivity.
    - intros n Hn. rewrite Hlen, repeat_length in Hn.
      replace n with (Z.to_nat (Z.of_nat n)) by lia. rewrite Hnth by lia.
      rewrite memZ_marked by lia. rewrite nth_repeat.
      change false with (nz 0) at 2. rewrite map_nth. unfold trim_round.
      rewrite (nth_map_vertices Z _ k (Z.of_nat n) 0) by lia. unfold keepv.
      destruct (maskb mask (Z.of_nat n)); [|reflexivity].
      destruct (t <=? sumZ (map (fun l : Z => nth (Z.to_nat l) mask 0) (obtain_latters (Z.of_nat n) k))); reflexivity.
  Qed.

  Lemma map_repeat' {A B} (h : A -> B) x n : map h (repeat x n) = repeat (h x) n.
  Proof. induction n as [|n IH]; cbn [repeat map]; [reflexivity|rewrite IH; reflexivity]. Qed.

  Lemma index_single v : index_val (VTuple [v]) (VInt 0) = Ret v.
  Proof. reflexivity. Qed.

  (* ---- one trimming round = Graph.trim_round -------------------------------------------------------------------------------- *)
  Definition round_tail : stmt :=
    (SSeq (SIf (EVar "verbose"%string) SSkip SSkip)
    (SSeq (SIf (ECmp CLt (EB1 BNpSum (EVar "new_vertices"%string)) (EInt (1))) (SRaise ValueError) SSkip)
    (SSeq (SIf (ENot (EVar "changed"%string)) SBreak SSkip)
    (SSeq (SAssign (TVar "vertices"%string) (EVar "new_vertices"%string))
    (SAug (TVar "times"%string) Add (EInt (1))))))).

  Definition round_body : stmt :=
    (SSeq (SIf (EVar "verbose"%string) SSkip SSkip)
    (SSeq (SAssign (TTuple ["new_vertices"%string; "monitor"%string]) (ETuple [(EB1 BNpZerosBool (EB1 BInt (EBin Pow (EB1 BLen (EVar "nucleotides"%string)) (EVar "observed_length"%string)))); EOpaque]))
    (SSeq (SAssign (TVar "saved_indices"%string) (EIndex (EB1 BNpWhere (ECmp CNe (EVar "vertices"%string) (EInt (0)))) (EInt (0))))
    (SSeq (SFor (TTuple ["current"%string; "vertex_index"%string]) (EB1 BEnumerate (EVar "saved_indices"%string)) trim_body)
    (SSeq (SAssign (TVar "changed"%string) (EBin Sub (EB1 BNpSum (EVar "vertices"%string)) (EB1 BNpSum (EVar "new_vertices"%string))))
    round_tail))))).

  Definition tinv (en : env) (b : bool) (mask : list Z) : Prop :=
    lookup "vertices" en = Ret (VArr (map (enc b) mask)) /\ lookup "observed_length" en = Ret (VInt (Z.of_nat k)) /\
    lookup "threshold" en = Ret (VInt t) /\ lookup "verbose" en = Ret (VBool vb) /\ lookup "nucleotides" en = Ret (VStr ACGT) /\
    exists tm, lookup "times" en = Ret (VInt tm).

  Lemma trim_round_01 (mask : list Z) : Forall (fun x => 0 <= x <= 1) (trim_round k t mask).
  Proof. apply bit01. apply trim_round_bit. Qed.

  Lemma round_prefix b (mask : list Z) en : Z.of_nat (length mask) = pow4 k -> Forall (fun x => 0 <= x <= 1) mask -> tinv en b mask ->
    exists en2, exec ce fuel round_body en = exec ce fuel round_tail en2 /\ tinv en2 b mask
      /\ lookup "new_vertices" en2 = Ret (VArr (map (enc true) (trim_round k t mask)))
      /\ lookup "changed" en2 = Ret (VInt (sumZ mask - sumZ (trim_round k t mask))).
  Proof.
    intros HL H01 (HV & HK & HT & HB & HNu & tm & HTm). pose proof (pow4_pos k) as Hp.
    unfold round_body.
    rewrite exec_seq, exec_if. cbn [eval]. rewrite HB. cbn [lift truthy]. rewrite if_same, exec_skip. cbn [seq].
    rewrite exec_seq, exec_assign. cbn [eval]. rewrite HNu, HK. cbn [rbind builtin1_val ACGT length]. change (Z.of_nat 4) with 4.
    cbn [binop_vals binop_scalar]. destruct (Z.of_nat k <? 0) eqn:EK; [lia|]. cbn [rbind to_int builtin1_val]. fold (pow4 k).
    cbn [lift assign items bind_tuple seq].
    rewrite exec_seq, exec_assign. cbn [eval]. lk. rewrite HV. cbn [rbind]. rewrite ne0_enc. cbn [rbind]. rewrite where_marked.
    cbn [rbind]. rewrite index_single. cbn [lift assign seq].
    rewrite exec_seq, exec_for. cbn [eval]. lk. cbn [rbind builtin1_val]. unfold varr at 1. cbn [items rbind lift].
    match goal with |- context [for_loop _ _ _ _ _ ?E] => set (en1 := E) end.
    destruct (trim_loop b mask (map VInt (marked mask)) HL H01 (marked mask) 0 (repeat false (Z.to_nat (pow4 k))) en1)
      as (en2 & E2 & HN2 & HF2); try (unfold en1; lk; first [assumption|reflexivity]).
    { apply Forall_forall. intros v Hv. apply marked_range in Hv. rewrite repeat_length. lia. }
    { unfold en1; lk. rewrite map_repeat'. reflexivity. }
    rewrite E2. cbn [seq]. rewrite (trim_fold mask HL) in HN2. rewrite map_map in HN2.
    change (map (fun x => VBool (nz x)) (trim_round k t mask)) with (map (enc true) (trim_round k t mask)) in HN2.
    assert (HV2 : lookup "vertices" en2 = Ret (VArr (map (enc b) mask))) by (fr HF2; unfold en1; lk; exact HV).
    assert (HK2 : lookup "observed_length" en2 = Ret (VInt (Z.of_nat k))) by (fr HF2; unfold en1; lk; exact HK).
    assert (HT2 : lookup "threshold" en2 = Ret (VInt t)) by (fr HF2; unfold en1; lk; exact HT).
    assert (HB2 : lookup "verbose" en2 = Ret (VBool vb)) by (fr HF2; unfold en1; lk; exact HB).
    assert (HNu2 : lookup "nucleotides" en2 = Ret (VStr ACGT)) by (fr HF2; unfold en1; lk; exact HNu).
    assert (HTm2 : lookup "times" en2 = Ret (VInt tm)) by (fr HF2; unfold en1; lk; exact HTm).
    clearbody en1. clear E2 HF2.
    set (new := trim_round k t mask) in *. pose proof (trim_round_01 mask) as N01. fold new in N01.
    rewrite exec_seq, exec_assign. cbn [eval]. rewrite HV2, HN2. cbn [rbind]. rewrite (sum_enc b mask H01), (sum_enc true new N01).
    cbn [rbind binop_vals binop_scalar lift assign seq].
    eexists. split; [reflexivity|]. unfold tinv. lk. repeat split; try assumption. exists tm. exact HTm2.
  Qed.

  Lemma round_ok b (mask : list Z) en : Z.of_nat (length mask) = pow4 k -> Forall (fun x => 0 <= x <= 1) mask -> tinv en b mask ->
    if sumZ (trim_round k t mask) <? 1 then exec ce fuel round_body en = OExn ValueError
    else if sumZ mask - sumZ (trim_round k t mask) =? 0 then exists en', exec ce fuel round_body en = OBreak en' /\ tinv en' b mask
    else exists en', exec ce fuel round_body en = ONormal en' /\ tinv en' true (trim_round k t mask).
  Proof.
    intros HL H01 HI. destruct (round_prefix b mask en HL H01 HI) as (en2 & -> & (HV2 & HK2 & HT2 & HB2 & HNu2 & tm & HTm2) & HN2 & HC2).
    set (new := trim_round k t mask) in *. pose proof (trim_round_01 mask) as N01. fold new in N01.
    assert (EP : exec ce fuel round_tail en2 =
                 if sumZ new <? 1 then OExn ValueError
                 else if sumZ mask - sumZ new =? 0 then OBreak en2
                 else ONormal (update "times" (VInt (tm + 1)) (update "vertices" (VArr (map (enc true) new)) en2))).
    { unfold round_tail.
      rewrite exec_seq, exec_if. cbn [eval]. rewrite HB2. cbn [lift truthy]. rewrite if_same, exec_skip. cbn [seq].
      rewrite exec_seq, exec_if. cbn [eval]. rewrite HN2. cbn [rbind]. rewrite (sum_enc true new N01). ev.
      destruct (sumZ new <? 1) eqn:E1; [rewrite exec_raise; reflexivity|]. rewrite exec_skip. cbn [seq].
      rewrite exec_seq, exec_if. cbn [eval]. rewrite HC2. ev.
      destruct (sumZ mask - sumZ new =? 0) eqn:E0; cbn [negb]; [rewrite exec_break; reflexivity|].
      rewrite exec_skip. cbn [seq].
      rewrite exec_seq, exec_assign. cbn [eval]. rewrite HN2. cbn [lift assign seq].
      rewrite exec_aug_var. lk. rewrite HTm2. cbn [eval lift binop_vals binop_scalar]. reflexivity. }
    rewrite EP. destruct (sumZ new <? 1); [reflexivity|]. destruct (sumZ mask - sumZ new =? 0).
    - exists en2. split; [reflexivity|]. unfold tinv. repeat split; try assumption. exists tm. exact HTm2.
    - eexists. split; [reflexivity|]. unfold tinv. lk. repeat split; try assumption. exists (tm + 1). reflexivity.
  Qed.

  (* ---- the trimming rounds = Graph.trim_fuel (one unit of the model's fuel per round) ---------------------------------------- *)
  Lemma rounds_ok : forall f b (mask : list Z) n en,
    Z.of_nat (length mask) = pow4 k -> Forall (fun x => 0 <= x <= 1) mask -> tinv en b mask -> (f <= n)%nat ->
    match trim_fuel f k t mask with
    | Ok m => exists en', while_loop_b ce fuel (EBoolLit true) round_body n en = ONormal en'
                /\ tinv en' (if sumZ mask - sumZ (trim_round k t mask) =? 0 then b else true) m
                /\ Z.of_nat (length m) = pow4 k /\ Forall (fun x => 0 <= x <= 1) m
    | Raise e => while_loop_b ce fuel (EBoolLit true) round_body n en = OExn e
    | OutOfFuel => True
    end.
  Proof.
    induction f as [|f IH]; intros b mask n en HL H01 HI Hn; cbn [trim_fuel]; [exact I|].
    destruct n as [|n]; [lia|]. rewrite while_loop_b_S. cbn [eval lift truthy].
    pose proof (round_ok b mask en HL H01 HI) as HR.
    destruct (sumZ (trim_round k t mask) <? 1); [rewrite HR; reflexivity|].
    destruct (sumZ mask - sumZ (trim_round k t mask) =? 0).
    - destruct HR as (en' & -> & HI'). cbn [loop_seq]. exists en'. split; [reflexivity|split; [exact HI'|split; assumption]].
    - destruct HR as (en' & -> & HI'). cbn [loop_seq].
      assert (HL' : Z.of_nat (length (trim_round k t mask)) = pow4 k) by (rewrite trim_round_length; apply pow4_nat).
      specialize (IH true (trim_round k t mask) n en' HL' (trim_round_01 mask) HI' ltac:(lia)).
      destruct (trim_fuel f k t (trim_round k t mask)) as [m|e|]; [|exact IH|exact I].
      destruct IH as (en'' & E & HI'' & HLm & Hm). rewrite if_same in HI''. exists en''. split; [exact E|split; [exact HI''|split; assumption]].
  Qed.

  (* ---- the accessor construction (the loop of connect_valid_graph; adapted from ValidGraphGenProofs.v) --------------------- *)
  Lemma nthZ_mid {A} (pre : list A) c tl : nthZ (pre ++ c :: tl) (length pre) = Some c.
  Proof. induction pre as [|x pre IH]; cbn [app length nthZ]; [reflexivity|exact IH]. Qed.

  Lemma py_get_mid {A} (pre : list A) c tl : py_get (pre ++ c :: tl) (Z.of_nat (length pre)) = Ok c.
  Proof.
    unfold py_get. rewrite app_length. cbn [length].
    destruct (Z.of_nat (length pre) <? 0) eqn:E; [lia|].
    destruct ((Z.of_nat (length pre) <? 0) || (Z.of_nat (length pre + S (length tl)) <=? Z.of_nat (length pre))) eqn:F; [lia|].
    rewrite Nat2Z.id, nthZ_mid. reflexivity.
  Qed.

  Lemma set_nth_mid {A} (pre : list A) c tl y : set_nth (pre ++ c :: tl) (length pre) y = pre ++ y :: tl.
  Proof. induction pre as [|x pre IH]; cbn [app length set_nth]; [reflexivity|rewrite IH; reflexivity]. Qed.

  Definition blank : val := VArr [VInt (-1); VInt (-1); VInt (-1); VInt (-1)].

  Lemma minus_ones n :
    broadcast_int Sub false (VArr (repeat (VArr (repeat (VInt 1) (Z.to_nat 4))) n)) 0 = Ret (VArr (repeat blank n)).
  Proof.
    induction n as [|n IH]; [reflexivity|].
    cbn [repeat]. cbn [broadcast_int] in IH |- *.
    match type of IH with rbind ?G _ = _ => destruct G as [r| | |] eqn:EG end; cbn [rbind] in IH; try discriminate.
    injection IH as ->.
    change (Z.to_nat 4) with 4%nat. cbn [repeat rbind binop_scalar]. reflexivity.
  Qed.

  Lemma store_int_mid pre x R l :
    store_val (VArr (map VInt pre ++ VInt x :: R)) (VInt (Z.of_nat (length pre))) (VInt l) = Ret (VArr (map VInt pre ++ VInt l :: R)).
  Proof.
    unfold store_val. rewrite app_length, map_length. cbn [length].
    destruct (Z.of_nat (length pre) <? 0) eqn:E; [lia|].
    destruct ((Z.of_nat (length pre) <? 0) || (Z.of_nat (length pre + S (length R)) <=? Z.of_nat (length pre))) eqn:F; [lia|].
    rewrite Nat2Z.id. rewrite <- (map_length VInt pre). rewrite nthZ_mid, set_nth_mid.
    destruct pre; reflexivity.
  Qed.

  Lemma store2_mid B A pre x R l :
    store2_val (VArr (B ++ VArr (map VInt pre ++ VInt x :: R) :: A)) (VInt (Z.of_nat (length B))) (VInt (Z.of_nat (length pre))) (VInt l)
    = Ret (VArr (B ++ VArr (map VInt pre ++ VInt l :: R) :: A)).
  Proof.
    unfold store2_val. rewrite app_length. cbn [length].
    destruct (Z.of_nat (length B) <? 0) eqn:E; [lia|].
    destruct ((Z.of_nat (length B) <? 0) || (Z.of_nat (length B + S (length A)) <=? Z.of_nat (length B))) eqn:F; [lia|].
    rewrite py_get_mid, store_int_mid. cbn [rbind]. rewrite Nat2Z.id, set_nth_mid. reflexivity.
  Qed.

  Section Acc.
    Variable b : bool.
    Variable mask : list Z.
    Hypothesis mask_len : Z.of_nat (length mask) = pow4 k.

    Definition sel (l : Z) : Z := if maskb mask l then l else -1.

    Definition inner_body : stmt :=
      (SIf (EIndex (EVar "vertices"%string) (EVar "latter_vertex_index"%string))
       (SAssign (TIndex2 "accessor"%string (EVar "vertex_index"%string) (EVar "position"%string)) (EVar "latter_vertex_index"%string))
       SSkip).

    Lemma inner_loop B A : forall ls pre en,
      Forall (fun l => 0 <= l < Z.of_nat (length mask)) ls ->
      lookup "vertices" en = Ret (VArr (map (enc b) mask)) ->
      lookup "vertex_index" en = Ret (VInt (Z.of_nat (length B))) ->
      lookup "accessor" en = Ret (VArr (B ++ VArr (map VInt pre ++ repeat (VInt (-1)) (length ls)) :: A)) ->
      exists en', for_loop ce fuel (TTuple ["position"; "latter_vertex_index"]) inner_body
                    (enumerate_from (Z.of_nat (length pre)) (map VInt ls)) en = ONormal en' /\
        lookup "accessor" en' = Ret (VArr (B ++ VArr (map VInt (pre ++ map sel ls)) :: A)) /\
        (forall x, x <> "accessor" -> x <> "position" -> x <> "latter_vertex_index" -> lookup x en' = lookup x en).
    Proof.
      induction ls as [|l ls IH]; intros pre en HL HV HI HA.
      - exists en. cbn [map enumerate_from for_loop length repeat] in *. rewrite app_nil_r in *. auto.
      - inversion HL as [|? ? Hl HL']; subst.
        cbn [map enumerate_from for_loop length repeat] in *. unfold inner_body at 1. ev.
        rewrite exec_if. cbn [eval]. lk. rewrite HV. cbn [rbind].
        rewrite (index_enc b mask l Hl). cbn [rbind lift]. rewrite enc_truthy. cbn [lift].
        assert (EP : Z.of_nat (length pre) + 1 = Z.of_nat (length (pre ++ [l]))) by (rewrite app_length; cbn [length]; lia).
        assert (ES : Z.of_nat (length pre) + 1 = Z.of_nat (length (pre ++ [-1]))) by (rewrite app_length; cbn [length]; lia).
        change (nz (nth (Z.to_nat l) mask 0)) with (maskb mask l). unfold sel at 1. destruct (maskb mask l) eqn:EM.
        + rewrite exec_assign. cbn [eval]. lk. cbn [lift assign eval]. lk. rewrite HI. cbn [lift]. lk. cbn [lift]. lk. rewrite HA. cbn [lift].
          rewrite store2_mid. cbn [lift seq].
          rewrite EP.
          match goal with |- context [for_loop _ _ _ _ _ ?E] => set (en1 := E) end.
          destruct (IH (pre ++ [l]) en1) as (en' & EL & HA' & HF); auto; try (unfold en1; lk; auto).
          { rewrite map_app. rewrite <- app_assoc. reflexivity. }
          exists en'. split; [exact EL|]. split.
          { rewrite HA'. rewrite <- app_assoc. reflexivity. }
          intros x N1 N2 N3. rewrite HF by auto. unfold en1. rewrite !lookup_update_other by auto. reflexivity.
        + rewrite exec_skip. cbn [seq]. rewrite ES.
          match goal with |- context [for_loop _ _ _ _ _ ?E] => set (en1 := E) end.
          destruct (IH (pre ++ [-1]) en1) as (en' & EL & HA' & HF); auto; try (unfold en1; lk; auto).
          { rewrite HA. rewrite map_app. rewrite <- app_assoc. reflexivity. }
          exists en'. split; [exact EL|]. split.
          { rewrite HA'. rewrite <- app_assoc. reflexivity. }
          intros x N1 N2 N3. rewrite HF by auto. unfold en1. rewrite !lookup_update_other by auto. reflexivity.
    Qed.

    Definition monitor_stmt : stmt :=
      (SIf (EVar "verbose"%string)
       (SExpr (ETuple [(EBin Add (EVar "vertex_index"%string) (EInt (1))); (EB1 BLen (EVar "vertices"%string))]))
       SSkip).

    Lemma monitor_ok en s l :
      lookup "verbose" en = Ret (VBool vb) -> lookup "vertex_index" en = Ret (VInt s) ->
      lookup "vertices" en = Ret (VArr l) -> exec ce fuel monitor_stmt en = ONormal en.
    Proof.
      intros HB HI HV. unfold monitor_stmt. rewrite exec_if. cbn [eval]. rewrite HB. cbn [lift truthy]. destruct vb; [|reflexivity].
      rewrite exec_expr. cbn [eval]. rewrite HI, HV. reflexivity.
    Qed.

    Definition outer_body : stmt :=
      (SSeq (SIf (EIndex (EVar "vertices"%string) (EVar "vertex_index"%string))
       (SSeq (SAssign (TVar "latters"%string) (ECall "obtain_latters"%string [(EVar "vertex_index"%string); (EVar "observed_length"%string)]))
       (SFor (TTuple ["position"%string; "latter_vertex_index"%string]) (EB1 BEnumerate (EVar "latters"%string))
       inner_body))
       SSkip)
       monitor_stmt).

    Lemma outer_loop : forall m D s en,
      s = Z.of_nat (length D) -> s + Z.of_nat m = Z.of_nat (length mask) ->
      lookup "vertices" en = Ret (VArr (map (enc b) mask)) ->
      lookup "observed_length" en = Ret (VInt (Z.of_nat k)) ->
      lookup "verbose" en = Ret (VBool vb) ->
      lookup "accessor" en = Ret (VArr (map varr D ++ repeat blank m)) ->
      exists en', for_loop ce fuel (TVar "vertex_index") outer_body (map VInt (zrange_from s m)) en = ONormal en' /\
        lookup "accessor" en' = Ret (VArr (map varr (D ++ map (induced_row k mask) (zrange_from s m)))) /\
        frame ["vertex_index"; "latters"; "position"; "latter_vertex_index"; "accessor"] en en'.
    Proof.
      induction m as [|m IH]; intros D s en Hs Hm HV HK HB HA.
      - exists en. cbn [zrange_from map for_loop repeat] in *. rewrite app_nil_r in *. split; [reflexivity|split; [exact HA|intros x _; reflexivity]].
      - cbn [zrange_from map for_loop repeat] in *. cbn [assign seq].
        set (en0 := update "vertex_index" (VInt s) en).
        assert (HV0 : lookup "vertices" en0 = Ret (VArr (map (enc b) mask))) by (unfold en0; lk; exact HV).
        assert (HK0 : lookup "observed_length" en0 = Ret (VInt (Z.of_nat k))) by (unfold en0; lk; exact HK).
        assert (HB0 : lookup "verbose" en0 = Ret (VBool vb)) by (unfold en0; lk; exact HB).
        assert (HI0 : lookup "vertex_index" en0 = Ret (VInt s)) by (unfold en0; lk; reflexivity).
        assert (HA0 : lookup "accessor" en0 = Ret (VArr (map varr D ++ blank :: repeat blank m))) by (unfold en0; lk; exact HA).
        assert (HF0 : frame ["vertex_index"] en en0) by (unfold en0; frame_solve).
        clearbody en0.
        assert (Hr : 0 <= s < Z.of_nat (length mask)) by lia.
        unfold outer_body at 1. rewrite exec_seq, exec_if. cbn [eval]. rewrite HV0, HI0. cbn [rbind].
        rewrite (index_enc b mask s Hr). cbn [rbind lift]. rewrite enc_truthy. cbn [lift].
        change (nz (nth (Z.to_nat s) mask 0)) with (maskb mask s).
        assert (ES : s + 1 = Z.of_nat (length (D ++ [induced_row k mask s]))) by (rewrite app_length; cbn [length]; lia).
        unfold induced_row in ES |- *. destruct (maskb mask s) eqn:EM.
        + rewrite exec_seq, exec_assign. cbn [eval]. rewrite HI0, HK0. cbn [rbind]. rewrite ce_lat. cbn [lift assign seq].
          set (en1 := update "latters" (VList (map VInt (obtain_latters s k))) en0).
          rewrite exec_for. cbn [eval]. unfold en1 at 1. lk. cbn [rbind builtin1_val items lift].
          destruct (inner_loop (map varr D) (repeat blank m) (obtain_latters s k) [] en1) as (en2 & EL & HA2 & HF).
          { apply latters_ok. exact mask_len. }
          { unfold en1; lk; exact HV0. }
          { unfold en1; lk. rewrite map_length, <- Hs. exact HI0. }
          { unfold en1; lk. exact HA0. }
          change (Z.of_nat (length (@nil Z))) with 0 in EL. rewrite EL. cbn [seq].
          assert (HV2 : lookup "vertices" en2 = Ret (VArr (map (enc b) mask))) by (rewrite HF by discriminate; unfold en1; lk; exact HV0).
          assert (HK2 : lookup "observed_length" en2 = Ret (VInt (Z.of_nat k))) by (rewrite HF by discriminate; unfold en1; lk; exact HK0).
          assert (HB2 : lookup "verbose" en2 = Ret (VBool vb)) by (rewrite HF by discriminate; unfold en1; lk; exact HB0).
          assert (HI2 : lookup "vertex_index" en2 = Ret (VInt s)) by (rewrite HF by discriminate; unfold en1; lk; exact HI0).
          rewrite (monitor_ok en2 s _ HB2 HI2 HV2). cbn [seq].
          destruct (IH (D ++ [map sel (obtain_latters s k)]) (s + 1) en2) as (en' & EL' & HA' & HF'); auto; try lia.
          { rewrite HA2. rewrite (map_app varr), <- app_assoc. reflexivity. }
          exists en'. split; [exact EL'|]. split.
          { rewrite HA'. rewrite <- app_assoc. reflexivity. }
          intros x Hx. rewrite (HF' x Hx). rewrite HF by (intro E; apply Hx; rewrite E; cbn [In]; auto 10).
          unfold en1. rewrite lookup_update_other by (intro E; apply Hx; rewrite E; cbn [In]; auto 10).
          apply HF0. intro Hin. apply Hx. cbn [In] in Hin |- *. intuition auto 10.
        + rewrite exec_skip. cbn [seq].
          rewrite (monitor_ok en0 s _ HB0 HI0 HV0). cbn [seq].
          destruct (IH (D ++ [empty_row]) (s + 1) en0) as (en' & EL' & HA' & HF'); auto; try lia.
          { rewrite HA0. rewrite map_app, <- app_assoc. reflexivity. }
          exists en'. split; [exact EL'|]. split.
          { rewrite HA'. rewrite <- app_assoc. reflexivity. }
          intros x Hx. rewrite (HF' x Hx). apply HF0. intro Hin. apply Hx. cbn [In] in Hin |- *. intuition auto 10.
    Qed.
  End Acc.

  (* ---- the function up to the accessor construction ----------------------------------------------------------------------- *)
  Definition acc_for : stmt :=
    (SFor (TVar "vertex_index"%string) (EB1 BRange (EB1 BInt (EBin Pow (EB1 BLen (EVar "nucleotides"%string)) (EVar "observed_length"%string))))
      (SSeq (SIf (EIndex (EVar "vertices"%string) (EVar "vertex_index"%string))
       (SSeq (SAssign (TVar "latters"%string) (ECall "obtain_latters"%string [(EVar "vertex_index"%string); (EVar "observed_length"%string)]))
       (SFor (TTuple ["position"%string; "latter_vertex_index"%string]) (EB1 BEnumerate (EVar "latters"%string))
       (SIf (EIndex (EVar "vertices"%string) (EVar "latter_vertex_index"%string))
       (SAssign (TIndex2 "accessor"%string (EVar "vertex_index"%string) (EVar "position"%string)) (EVar "latter_vertex_index"%string))
       SSkip)))
       SSkip)
       (SIf (EVar "verbose"%string)
       (SExpr (ETuple [(EBin Add (EVar "vertex_index"%string) (EInt (1))); (EB1 BLen (EVar "vertices"%string))]))
       SSkip))).

  Definition whole (tail : stmt) : stmt :=
    (SSeq (SAssign (TTuple ["times"%string; "nucleotides"%string]) (ETuple [(EInt (1)); (EStr [65; 67; 71; 84])]))
    (SSeq (SWhileB (EBoolLit true) round_body)
    (SSeq (SAssign (TVar "valid_rate"%string) (EBin TrueDiv (EB1 BNpSum (EVar "vertices"%string)) (EB1 BLen (EVar "vertices"%string))))
    (SIf (ECmp CGt (EVar "valid_rate"%string) (EInt (0)))
     (SSeq (SAssign (TVar "accessor"%string) (EBin Sub (EInt 0) (EB2 BNpOnes2 (EB1 BInt (EBin Pow (EB1 BLen (EVar "nucleotides"%string)) (EVar "observed_length"%string))) (EB1 BLen (EVar "nucleotides"%string)))))
     (SSeq acc_for tail))
     (SRaise ValueError))))).

  (* the state in which the tail (threshold 1 repair, return) starts *)
  Definition pinv (en : env) (b : bool) (m : list Z) : Prop :=
    lookup "vertices" en = Ret (VArr (map (enc b) m)) /\ lookup "accessor" en = Ret (varr2 (induced k m)) /\
    lookup "observed_length" en = Ret (VInt (Z.of_nat k)) /\ lookup "threshold" en = Ret (VInt t) /\
    lookup "verbose" en = Ret (VBool vb).

  Lemma prefix_ok tail (mask : list Z) : Z.of_nat k < 400 ->
    Z.of_nat (length mask) = pow4 k -> Forall (fun x => 0 <= x <= 1) mask -> (S (length mask) <= fuel)%nat ->
    match trim_fuel (S (length mask)) k t mask with
    | Ok m =>
        if 0 <? sumZ m
        then exists en', exec ce fuel (whole tail) [("observed_length", VInt (Z.of_nat k)); ("vertices", v_mask_int mask); ("threshold", VInt t); ("verbose", VBool vb)]
                         = exec ce fuel tail en'
               /\ pinv en' (if sumZ mask - sumZ (trim_round k t mask) =? 0 then false else true) m
               /\ Z.of_nat (length m) = pow4 k /\ Forall (fun x => 0 <= x <= 1) m
        else exec ce fuel (whole tail) [("observed_length", VInt (Z.of_nat k)); ("vertices", v_mask_int mask); ("threshold", VInt t); ("verbose", VBool vb)]
             = OExn ValueError
    | Raise e => exec ce fuel (whole tail) [("observed_length", VInt (Z.of_nat k)); ("vertices", v_mask_int mask); ("threshold", VInt t); ("verbose", VBool vb)]
                 = OExn e
    | OutOfFuel => True
    end.
  Proof.
    intros Hk HL H01 Hf. pose proof (pow4_pos k) as Hp. pose proof (pow4_lt_1000 k Hk) as Hlt.
    unfold whole. rewrite exec_seq, exec_assign.
    cbn [eval rbind lift assign items bind_tuple seq update String.eqb Ascii.eqb Bool.eqb].
    rewrite exec_seq, exec_while_b.
    match goal with |- context [while_loop_b _ _ _ _ _ ?E] => set (en1 := E) end.
    assert (HI1 : tinv en1 false mask).
    { unfold tinv, en1. repeat split; try reflexivity. exists 1. reflexivity. }
    pose proof (rounds_ok (S (length mask)) false mask fuel en1 HL H01 HI1 Hf) as HR. clearbody en1.
    destruct (trim_fuel (S (length mask)) k t mask) as [m|e|]; [|rewrite HR; reflexivity|exact I].
    destruct HR as (en2 & E2 & (HV2 & HK2 & HT2 & HB2 & HNu2 & tm & HTm2) & HLm & Hm01). rewrite E2. cbn [seq].
    set (b' := if sumZ mask - sumZ (trim_round k t mask) =? 0 then false else true) in *.
    pose proof (sumZ_01 m Hm01) as Hsum.
    rewrite exec_seq, exec_assign. cbn [eval]. rewrite HV2. cbn [rbind]. rewrite (sum_enc b' m Hm01). cbn [rbind builtin1_val].
    rewrite map_length. cbn [binop_vals binop_scalar].
    destruct (Z.of_nat (length m) =? 0) eqn:E0; [lia|].
    rewrite (ratio_ok_sum (sumZ m) (Z.of_nat (length m))) by lia. cbn [lift assign seq].
    rewrite exec_if. cbn [eval]. lk. cbn [rbind cmp_top cmp_vals cmp_scalar].
    rewrite (ratio_ok_sum (sumZ m) (Z.of_nat (length m))) by lia. change (0 =? 0) with true. cbn [andb lift truthy].
    destruct (0 <? sumZ m) eqn:ES; [|rewrite exec_raise; reflexivity].
    rewrite exec_seq, exec_assign. cbn [eval]. lk. rewrite HNu2, HK2. cbn [rbind builtin1_val ACGT length]. change (Z.of_nat 4) with 4.
    cbn [binop_vals binop_scalar]. destruct (Z.of_nat k <? 0) eqn:EK; [lia|]. cbn [rbind to_int builtin2_val binop_vals]. fold (pow4 k).
    rewrite minus_ones. cbn [lift assign seq].
    rewrite exec_seq. unfold acc_for. rewrite exec_for. cbn [eval]. lk. rewrite HNu2, HK2. cbn [rbind builtin1_val ACGT length]. change (Z.of_nat 4) with 4.
    cbn [binop_vals binop_scalar]. rewrite EK. cbn [rbind to_int builtin1_val]. fold (pow4 k).
    rewrite range_items by lia. cbn [rbind lift items].
    match goal with |- context [for_loop _ _ _ _ _ ?E] => set (en3 := E) end.
    destruct (outer_loop b' m HLm (Z.to_nat (pow4 k)) [] 0 en3) as (en4 & EL & HA4 & HF4); try (unfold en3; lk; first [assumption|reflexivity]).
    { rewrite pow4_nat. lia. }
    unfold outer_body, monitor_stmt, inner_body in EL. rewrite EL. cbn [seq].
    exists en4. split; [reflexivity|]. split; [|split; assumption].
    unfold pinv. repeat split; try (fr HF4; unfold en3; lk; assumption).
  Qed.

  (* ---- the statements of the threshold-1 repair and the end of the function ------------------------------------------------- *)
  Definition live_len : expr :=
    (EB1 BLen (EIndex (EB1 BNpWhere (ECmp CGe (EIndex (EVar "accessor"%string) (EVar "former_index"%string)) (EInt (0)))) (EInt (0)))).

  Definition cascade_for_body : stmt :=
    (SSeq (SAssign (TVar "previous"%string) live_len)
    (SSeq (SAssign (TIndex2 "accessor"%string (EVar "former_index"%string) (EBin Mod (EVar "latter_index"%string) (EInt (4)))) (EInt (-1)))
    (SSeq (SAssign (TVar "current"%string) live_len)
    (SIf (EAnd (ECmp CGt (EVar "previous"%string) (EVar "current"%string)) (ECmp CEq (EVar "current"%string) (EInt (0))))
     (SAug (TVar "new_pairs"%string) Add (EComp (ETuple [(EVar "i"%string); (EVar "former_index"%string)]) "i"%string (ECall "obtain_formers"%string [(EVar "former_index"%string); (EVar "observed_length"%string)])))
     SSkip)))).

  Definition cascade_while_body : stmt :=
    (SSeq (SAssign (TVar "new_pairs"%string) (EList []))
    (SSeq (SFor (TTuple ["former_index"%string; "latter_index"%string]) (EVar "pairs"%string) cascade_for_body)
    (SAssign (TVar "pairs"%string) (EVar "new_pairs"%string)))).

  Definition useless_body : stmt :=
    (SSeq (SAssign (TIndex "accessor"%string (EVar "useless_vertex"%string)) (EInt (-1)))
    (SSeq (SAssign (TVar "pairs"%string) (EComp (ETuple [(EVar "i"%string); (EVar "useless_vertex"%string)]) "i"%string (ECall "obtain_formers"%string [(EVar "useless_vertex"%string); (EVar "observed_length"%string)])))
    (SWhile (ECmp CGt (EB1 BLen (EVar "pairs"%string)) (EInt (0))) cascade_while_body))).

  Definition reach_for_body : stmt :=
    (SSeq (SAssign (TVar "latter_indices"%string) (EIndex (EIndex (EVar "accessor"%string) (EVar "vertex_index"%string)) (ECmp CGe (EIndex (EVar "accessor"%string) (EVar "vertex_index"%string)) (EInt (0)))))
    (SAssign (TIndex "reached"%string (EVar "vertex_index"%string)) (EOr (EIndex (EVar "useful"%string) (EVar "vertex_index"%string)) (EB1 BAny (EIndex (EVar "useful"%string) (EVar "latter_indices"%string)))))).

  Definition reach_body : stmt :=
    (SSeq (SAssign (TVar "reached"%string) (EB1 BCopy (EVar "useful"%string)))
    (SSeq (SFor (TVar "vertex_index"%string) (EVar "vertices"%string) reach_for_body)
    (SSeq (SIf (EB1 BAll (ECmp CEq (EVar "reached"%string) (EVar "useful"%string))) SBreak SSkip)
    (SAssign (TVar "useful"%string) (EVar "reached"%string))))).

  Definition t1_rest2 : stmt :=
    (SSeq (SIf (ECmp CEq (EB1 BLen (EVar "useless_vertices"%string)) (EInt (0))) SBreak SSkip)
    (SFor (TVar "useless_vertex"%string) (EVar "useless_vertices"%string) useless_body)).

  Definition t1_rest1 : stmt :=
    (SSeq (SAssign (TVar "useful"%string) (ECmp CGt (EB1 BNpSumAxis1 (ECmp CGe (EVar "accessor"%string) (EInt (0)))) (EInt (1))))
    (SSeq (SWhileB (EBoolLit true) reach_body)
    (SSeq (SAssign (TVar "useless_vertices"%string) (ECompIf (EVar "vertex_index"%string) "vertex_index"%string (EVar "vertices"%string) (ENot (EIndex (EVar "useful"%string) (EVar "vertex_index"%string)))))
    t1_rest2))).

  Definition t1_body : stmt :=
    (SSeq (SAssign (TVar "vertices"%string) (ECall "obtain_vertices"%string [(EVar "accessor"%string)]))
    (SSeq (SIf (ECmp CEq (EB1 BLen (EVar "vertices"%string)) (EInt (0))) (SRaise ValueError) SSkip)
    t1_rest1)).

  Definition final_tail : stmt :=
    (SSeq (SIf (ECmp CEq (EVar "threshold"%string) (EInt (1))) (SWhileB (EBoolLit true) t1_body) SSkip)
    (SSeq (SIf (EVar "verbose"%string) SSkip SSkip)
    (SReturn (ETuple [(EVar "vertices"%string); (EVar "accessor"%string)])))).

  Lemma body_eq : body connect_coding_graph_def = whole final_tail.
  Proof. reflexivity. Qed.

  Lemma tail_t2 en b (m : list Z) : t <> 1 -> pinv en b m ->
    exec ce fuel final_tail en = OReturn (VTuple [VArr (map (enc b) m); varr2 (induced k m)]).
  Proof.
    intros Ht (HV & HA & HK & HT & HB). unfold final_tail.
    rewrite exec_seq, exec_if. cbn [eval]. rewrite HT. ev. cbn [val_eqb].
    destruct (t =? 1) eqn:E1; [lia|]. rewrite exec_skip. cbn [seq].
    rewrite exec_seq, exec_if. cbn [eval]. rewrite HB. cbn [lift truthy]. rewrite if_same, exec_skip. cbn [seq].
    rewrite exec_return. cbn [eval]. rewrite HV, HA. reflexivity.
  Qed.

  (* the mask of the last round as the marked positions the model returns *)
  Lemma mask_of_marked (m : list Z) : Forall (fun x => 0 <= x <= 1) m ->
    map (fun v => VBool (memZ v (marked m))) (zrange (length m)) = map (enc true) m.
  Proof.
    intro H. apply (nth_ext _ _ (VBool (memZ 0 (marked m))) (enc true 0)).
    - rewrite !map_length. unfold zrange. apply zrange_from_length.
    - intros n Hn. rewrite map_length in Hn. unfold zrange in Hn. rewrite zrange_from_length in Hn.
      change (VBool (memZ 0 (marked m))) with ((fun v => VBool (memZ v (marked m))) 0). rewrite map_nth.
      rewrite map_nth.
      unfold zrange. rewrite zrange_from_nth by exact Hn. rewrite memZ_marked by lia. cbn [enc]. unfold maskb, nz.
      rewrite Z.add_0_l, Nat2Z.id. reflexivity.
  Qed.

  (* ---- thresholds >= 2 ---------------------------------------------------------------------------------------------------- *)
  Lemma gen_t2 (mask : list Z) : Z.of_nat k < 400 -> length mask = Z.to_nat (pow4 k) -> Forall (fun x => 0 <= x <= 1) mask ->
    t <> 1 -> (S (length mask) <= fuel)%nat ->
    match Graph.connect_coding_graph k mask t with
    | Ok (V, acc) => run_fun ce fuel connect_coding_graph_def [VInt (Z.of_nat k); v_mask_int mask; VInt t; VBool vb]
                     = Ret (coding_result k mask t V acc)
    | Raise e => run_fun ce fuel connect_coding_graph_def [VInt (Z.of_nat k); v_mask_int mask; VInt t; VBool vb] = Exn e
    | OutOfFuel => True
    end.
  Proof.
    intros Hk HL H01 Ht Hf. assert (HL' : Z.of_nat (length mask) = pow4 k) by (rewrite HL; apply pow4_nat).
    unfold run_fun. rewrite body_eq. cbn [params connect_coding_graph_def bind_params].
    pose proof (prefix_ok final_tail mask Hk HL' H01 Hf) as HP. unfold Graph.connect_coding_graph.
    destruct (trim_fuel (S (length mask)) k t mask) as [m|e|] eqn:ET; cbn [bind]; [|rewrite HP; reflexivity|exact I].
    destruct (0 <? sumZ m); [|rewrite HP; reflexivity].
    destruct HP as (en' & -> & HPI & HLm & Hm01). rewrite (tail_t2 en' _ m Ht HPI).
    destruct (t =? 1) eqn:E1; [lia|]. unfold coding_result. rewrite E1.
    cbn [trim_fuel] in ET. destruct (sumZ (trim_round k t mask) <? 1); [discriminate|].
    destruct (sumZ mask - sumZ (trim_round k t mask) =? 0).
    - injection ET as <-. reflexivity.
    - assert (EL : length mask = length m) by lia. rewrite EL, (mask_of_marked m Hm01). reflexivity.
  Qed.

  (* ==== threshold 1 ============================================================================================================= *)
  Hypothesis k_pos : (1 <= k)%nat.
  Hypothesis ce_form : forall current,
    ce "obtain_formers" [VInt current; VInt (Z.of_nat k)] = Ret (VList (map VInt (obtain_formers current k))).
  Hypothesis ce_vert : forall acc, ce "obtain_vertices" [varr2 acc] = Ret (varr (Graph.obtain_vertices acc)).

  (* the shape every accessor of the repair has: 4^k rows of four entries, each -1 or a vertex *)
  Definition ashape (acc : accessor) : Prop :=
    length acc = Z.to_nat (pow4 k) /\ Forall (fun row => length row = 4%nat /\ Forall (fun x => -1 <= x < pow4 k) row) acc.

  Lemma ashape_row acc v : ashape acc -> length (get_row acc v) = 4%nat /\ Forall (fun x => -1 <= x < pow4 k) (get_row acc v).
  Proof.
    intros [HL HR]. unfold get_row. pose proof (pow4_pos k) as Hp.
    destruct (nth_in_or_default (Z.to_nat v) acc empty_row) as [Hin|He].
    - rewrite Forall_forall in HR. apply HR, Hin.
    - rewrite He. split; [reflexivity|]. unfold empty_row. repeat constructor; lia.
  Qed.

  Lemma ashape_set_row acc u row : ashape acc -> length row = 4%nat -> Forall (fun x => -1 <= x < pow4 k) row ->
    ashape (set_nth acc u row).
  Proof.
    intros [HL HR] H4 HE. split; [rewrite set_nth_len; exact HL|]. apply Forall_set_nth; [exact HR|split; assumption].
  Qed.

  Lemma ashape_set_entry acc f c : ashape acc -> ashape (set_entry acc f c (-1)).
  Proof.
    intro H. destruct (ashape_row acc f H) as [H4 HE]. pose proof (pow4_pos k) as Hp. unfold set_entry.
    apply ashape_set_row; [exact H|rewrite set_nth_len; exact H4|]. apply Forall_set_nth; [exact HE|lia].
  Qed.

  Lemma induced_ashape (m : list Z) : ashape (induced k m).
  Proof.
    split; [apply induced_shape|]. apply Forall_forall. intros row Hin. unfold induced in Hin.
    apply in_map_iff in Hin. destruct Hin as [v [<- _]]. split; [apply induced_row_length|].
    pose proof (pow4_pos k) as Hp. unfold induced_row. destruct (maskb m v).
    - apply Forall_forall. intros x Hx. apply in_map_iff in Hx. destruct Hx as [l [<- Hl]].
      apply latters_range in Hl. destruct (maskb m l); lia.
    - unfold empty_row. repeat constructor; lia.
  Qed.

  (* ---- values ---------------------------------------------------------------------------------------------------------------- *)
  Definition ge0 (x : Z) : bool := 0 <=? x.

  Lemma index_row acc v : 0 <= v < Z.of_nat (length acc) -> index_val (varr2 acc) (VInt v) = Ret (varr (get_row acc v)).
  Proof.
    intro H. unfold index_val, varr2. rewrite (py_get_ok (map varr acc) (varr empty_row)) by (rewrite map_length; exact H).
    rewrite map_nth. reflexivity.
  Qed.

  Lemma ge0_row row : cmp_top CGe (varr row) (VInt 0) = Ret (VArr (map VBool (map ge0 row))).
  Proof.
    assert (E : cmp_top CGe (varr row) (VInt 0) = cmp_vals CGe (varr row) (VInt 0)) by (destruct row; reflexivity).
    rewrite E. unfold varr. cbn [cmp_vals]. rewrite map_map.
    rewrite (map_res_map VInt _ (fun x => VBool (ge0 x))); reflexivity.
  Qed.

  Lemma used_live_len : forall row s,
    length (used_from (map (fun b : bool => if b then 0 else -1) (map ge0 row)) s) = length (live_entries row).
  Proof.
    induction row as [|x row IH]; intro s; [reflexivity|]. cbn [map used_from live_entries filter]. unfold ge0 at 1.
    destruct (0 <=? x); cbn [Z.leb]; [change (0 <=? 0) with true|change (0 <=? -1) with false]; cbv iota; cbn [length]; rewrite IH; reflexivity.
  Qed.

  Lemma where_len row :
    (x <~ (y <~ builtin1_val BNpWhere (VArr (map VBool (map ge0 row))) ;; index_val y (VInt 0)) ;; builtin1_val BLen x)
    = Ret (VInt (out_degree row)).
  Proof.
    cbn [builtin1_val]. rewrite (map_res_map VBool _ (fun b : bool => b)) by reflexivity. rewrite map_id. cbn [rbind].
    rewrite index_single. cbn [rbind]. rewrite map_length. unfold used_indices. rewrite used_live_len. reflexivity.
  Qed.

  Lemma store_row row col x : 0 <= col < Z.of_nat (length row) ->
    store_val (varr row) (VInt col) (VInt x) = Ret (varr (set_nth row (Z.to_nat col) x)).
  Proof.
    intro HC. unfold varr, store_val. rewrite map_length.
    destruct (col <? 0) eqn:E1; [lia|]. destruct ((col <? 0) || (Z.of_nat (length row) <=? col)) eqn:E2; [lia|].
    rewrite (nthZ_nth (map VInt row) (VInt 0)) by (rewrite map_length; lia). rewrite map_nth.
    destruct row as [|y ys]; [cbn [length] in HC; lia|]. cbn [map]. rewrite <- (set_nth_map VInt). reflexivity.
  Qed.

  Lemma store2_entry acc f c x : 0 <= f < Z.of_nat (length acc) -> 0 <= c < Z.of_nat (length (get_row acc f)) ->
    store2_val (varr2 acc) (VInt f) (VInt c) (VInt x) = Ret (varr2 (set_entry acc f c x)).
  Proof.
    intros Hf Hc. unfold varr2, store2_val. rewrite map_length.
    destruct (f <? 0) eqn:E1; [lia|]. destruct ((f <? 0) || (Z.of_nat (length acc) <=? f)) eqn:E2; [lia|].
    rewrite (py_get_ok (map varr acc) (varr empty_row)) by (rewrite map_length; exact Hf). rewrite map_nth.
    fold (get_row acc f). rewrite store_row by exact Hc. cbn [rbind]. unfold set_entry. rewrite (set_nth_map varr). reflexivity.
  Qed.

  Lemma all_ints vs : forallb (fun x => match x with VInt _ => true | _ => false end) (map VInt vs) = true.
  Proof. induction vs as [|a tl IH]; [reflexivity|exact IH]. Qed.

  (* accessor[u] = -1 *)
  Lemma store_fill acc u : ashape acc -> 0 <= u < Z.of_nat (length acc) ->
    store_val (varr2 acc) (VInt u) (VInt (-1)) = Ret (varr2 (set_nth acc (Z.to_nat u) empty_row)).
  Proof.
    intros HS Hu. destruct (ashape_row acc u HS) as [H4 _]. unfold varr2, store_val. rewrite map_length.
    destruct (u <? 0) eqn:E1; [lia|]. destruct ((u <? 0) || (Z.of_nat (length acc) <=? u)) eqn:E2; [lia|].
    rewrite (nthZ_nth (map varr acc) (varr empty_row)) by (rewrite map_length; lia). rewrite map_nth. fold (get_row acc u).
    unfold varr at 1. rewrite all_ints. rewrite map_map.
    assert (E : map (fun _ : Z => VInt (-1)) (get_row acc u) = map VInt empty_row).
    { destruct (get_row acc u) as [|a [|b0 [|c [|d [|? ?]]]]]; try discriminate. reflexivity. }
    rewrite E. fold (varr empty_row). rewrite (set_nth_map varr). reflexivity.
  Qed.

  Definition vpair (p : Z * Z) : val := VTuple [VInt (fst p); VInt (snd p)].

  (* [(i, x) for i in ..] *)
  Lemma comp_pairs x u en : x <> "i" -> lookup x en = Ret (VInt u) -> forall l,
    map_res (fun v => eval ce (update "i" v en) (ETuple [(EVar "i"%string); (EVar x)])) (map VInt l)
    = Ret (map vpair (map (fun i => (i, u)) l)).
  Proof.
    intros Nx Hx. induction l as [|i l IH]; [reflexivity|]. cbn [map map_res]. rewrite IH. cbn [eval].
    rewrite lookup_update_same. rewrite lookup_update_other by exact Nx. rewrite Hx. reflexivity.
  Qed.

  Lemma eval_comp en bd x it :
    eval ce en (EComp bd x it)
    = (src <~ eval ce en it ;; l <~ items src ;; vs <~ map_res (fun v => eval ce (update x v en) bd) l ;; Ret (VList vs)).
  Proof. reflexivity. Qed.

  Lemma eval_pairs x u en : x <> "i" -> lookup x en = Ret (VInt u) -> lookup "observed_length" en = Ret (VInt (Z.of_nat k)) ->
    eval ce en (EComp (ETuple [(EVar "i"%string); (EVar x)]) "i"%string (ECall "obtain_formers"%string [(EVar x); (EVar "observed_length"%string)]))
    = Ret (VList (map vpair (map (fun i => (i, u)) (obtain_formers u k)))).
  Proof.
    intros Nx Hx HK. rewrite eval_comp.
    replace (eval ce en (ECall "obtain_formers"%string [(EVar x); (EVar "observed_length"%string)]))
      with (Ret (VList (map VInt (obtain_formers u k)))) by (cbn [eval]; rewrite Hx, HK; cbn [rbind]; rewrite ce_form; reflexivity).
    cbn [rbind items]. rewrite (comp_pairs x u en Nx Hx). reflexivity.
  Qed.

  (* ---- the cascade: one pass over the pairs = fold_left (cascade_pair k) ------------------------------------------------------ *)
  Lemma eval_live_len en acc f : lookup "accessor" en = Ret (varr2 acc) -> lookup "former_index" en = Ret (VInt f) ->
    0 <= f < Z.of_nat (length acc) -> eval ce en live_len = Ret (VInt (out_degree (get_row acc f))).
  Proof.
    intros HA HF Hf. unfold live_len. cbn [eval]. rewrite HA, HF. cbn [rbind]. rewrite (index_row acc f Hf). cbn [rbind].
    rewrite ge0_row. cbn [rbind]. apply where_len.
  Qed.

  Definition prange (p : Z * Z) : Prop := 0 <= fst p < pow4 k.

  Lemma formers_prange u : 0 <= u < pow4 k -> Forall prange (map (fun i => (i, u)) (obtain_formers u k)).
  Proof.
    intro Hu. apply Forall_forall. intros p Hp. apply in_map_iff in Hp. destruct Hp as [i [<- Hi]]. unfold prange. cbn [fst].
    pose proof (formers_in_range k u k_pos Hu) as HF. rewrite Forall_forall in HF. apply HF, Hi.
  Qed.

  Lemma cascade_for_loop : forall pairs acc np en, ashape acc -> Forall prange pairs -> Forall prange np ->
    lookup "accessor" en = Ret (varr2 acc) -> lookup "new_pairs" en = Ret (VList (map vpair np)) ->
    lookup "observed_length" en = Ret (VInt (Z.of_nat k)) ->
    exists en', for_loop ce fuel (TTuple ["former_index"; "latter_index"]) cascade_for_body (map vpair pairs) en = ONormal en'
      /\ lookup "accessor" en' = Ret (varr2 (fst (fold_left (cascade_pair k) pairs (acc, np))))
      /\ lookup "new_pairs" en' = Ret (VList (map vpair (snd (fold_left (cascade_pair k) pairs (acc, np)))))
      /\ ashape (fst (fold_left (cascade_pair k) pairs (acc, np)))
      /\ Forall prange (snd (fold_left (cascade_pair k) pairs (acc, np)))
      /\ frame ["former_index"; "latter_index"; "previous"; "current"; "accessor"; "new_pairs"] en en'.
  Proof.
    induction pairs as [|[f l] pairs IH]; intros acc np en HS HP HNP HA HN HK.
    - exists en. cbn [map for_loop fold_left fst snd].
      split; [reflexivity|split; [exact HA|split; [exact HN|split; [exact HS|split; [exact HNP|intros x _; reflexivity]]]]].
    - inversion HP as [|? ? Hf HP']; subst. unfold prange in Hf. cbn [fst] in Hf.
      destruct HS as [HLen HRows]. assert (Hf' : 0 <= f < Z.of_nat (length acc)) by (rewrite HLen, pow4_nat; exact Hf).
      cbn [map for_loop fold_left]. unfold vpair at 1. cbn [fst snd assign items lift bind_tuple seq].
      set (en0 := update "latter_index" (VInt l) (update "former_index" (VInt f) en)).
      unfold cascade_for_body at 1.
      rewrite exec_seq, exec_assign. rewrite (eval_live_len en0 acc f) by (unfold en0; lk; first [assumption|reflexivity]).
      cbn [lift assign seq].
      rewrite exec_seq, exec_assign. cbn [eval lift assign]. unfold en0 at 1 2 3. lk. cbn [rbind binop_vals binop_scalar].
      change (4 =? 0) with false. cbn [lift]. rewrite HA. cbn [lift].
      destruct (ashape_row acc f (conj HLen HRows)) as [H4 _].
      rewrite store2_entry by (try rewrite H4; lia). cbn [lift seq].
      set (acc' := set_entry acc f (l mod 4) (-1)).
      assert (HS' : ashape acc') by (apply ashape_set_entry; exact (conj HLen HRows)).
      assert (HL' : length acc' = length acc) by (unfold acc', set_entry; apply set_nth_len).
      set (en1 := update "accessor" (varr2 acc') (update "previous" (VInt (out_degree (get_row acc f))) en0)).
      rewrite exec_seq, exec_assign. rewrite (eval_live_len en1 acc' f) by (unfold en1, en0; lk; first [reflexivity|lia]).
      cbn [lift assign seq].
      set (en2 := update "current" (VInt (out_degree (get_row acc' f))) en1).
      rewrite exec_if. cbn [eval]. unfold en2 at 1 2 3. unfold en1 at 1. lk. ev. cbn [val_eqb].
      assert (EC : cascade_pair k (acc, np) (f, l) =
                   if (out_degree (get_row acc' f) <? out_degree (get_row acc f)) && (out_degree (get_row acc' f) =? 0)
                   then (acc', np ++ map (fun i => (i, f)) (obtain_formers f k)) else (acc', np)) by reflexivity.
      rewrite EC.
      match goal with |- context [lift ?X (fun v => lift (truthy v) _)] =>
        replace (lift X) with (@lift val (if out_degree (get_row acc' f) <? out_degree (get_row acc f)
                           then Ret (VBool (out_degree (get_row acc' f) =? 0))
                           else Ret (VBool (out_degree (get_row acc' f) <? out_degree (get_row acc f)))))
          by (destruct (out_degree (get_row acc' f) <? out_degree (get_row acc f)); reflexivity) end.
      destruct (out_degree (get_row acc' f) <? out_degree (get_row acc f)); cbn [lift truthy andb].
      + destruct (out_degree (get_row acc' f) =? 0).
        * rewrite exec_aug_var. unfold en2 at 1, en1 at 1, en0 at 1. lk. rewrite HN. cbn [lift eval].
          unfold en2 at 1 2, en1 at 1 2, en0 at 1 2. lk. rewrite HK. cbn [rbind]. rewrite ce_form. cbn [rbind items].
          rewrite (comp_pairs "former_index" f en2) by (first [discriminate|unfold en2, en1, en0; lk; reflexivity]).
          cbn [rbind lift binop_vals binop_scalar]. rewrite <- map_app.
          destruct (IH acc' (np ++ map (fun i => (i, f)) (obtain_formers f k))
                      (update "new_pairs" (VList (map vpair (np ++ map (fun i => (i, f)) (obtain_formers f k)))) en2))
            as (en' & EL & HA' & HN' & HS'' & HNP' & HF'); try (unfold en2, en1, en0; lk; first [assumption|reflexivity]).
          { apply Forall_app. split; [exact HNP|apply formers_prange; exact Hf]. }
          exists en'. split; [exact EL|split; [exact HA'|split; [exact HN'|split; [exact HS''|split; [exact HNP'|unfold en2, en1, en0 in HF'; frame_solve]]]]].
        * rewrite exec_skip.
          destruct (IH acc' np en2) as (en' & EL & HA' & HN' & HS'' & HNP' & HF'); try (unfold en2, en1, en0; lk; first [assumption|reflexivity]).
          exists en'. split; [exact EL|split; [exact HA'|split; [exact HN'|split; [exact HS''|split; [exact HNP'|unfold en2, en1, en0 in HF'; frame_solve]]]]].
      + rewrite exec_skip.
        destruct (IH acc' np en2) as (en' & EL & HA' & HN' & HS'' & HNP' & HF'); try (unfold en2, en1, en0; lk; first [assumption|reflexivity]).
        exists en'. split; [exact EL|split; [exact HA'|split; [exact HN'|split; [exact HS''|split; [exact HNP'|unfold en2, en1, en0 in HF'; frame_solve]]]]].
  Qed.

  (* ---- the cascade: `while len(pairs) > 0` = Graph.cascade --------------------------------------------------------------------- *)
  Definition cascade_cond : expr := (ECmp CGt (EB1 BLen (EVar "pairs"%string)) (EInt (0))).

  Lemma cascade_while : forall f pairs acc n en, ashape acc -> Forall prange pairs ->
    lookup "accessor" en = Ret (varr2 acc) -> lookup "pairs" en = Ret (VList (map vpair pairs)) ->
    lookup "observed_length" en = Ret (VInt (Z.of_nat k)) -> (f < n)%nat ->
    match cascade f k acc pairs with
    | Ok acc' => exists en', while_loop ce fuel cascade_cond cascade_while_body n en = ONormal en'
                   /\ lookup "accessor" en' = Ret (varr2 acc') /\ ashape acc'
                   /\ frame ["former_index"; "latter_index"; "previous"; "current"; "accessor"; "new_pairs"; "pairs"] en en'
    | _ => True
    end.
  Proof.
    assert (Hnil : forall acc n en, lookup "accessor" en = Ret (varr2 acc) -> ashape acc -> lookup "pairs" en = Ret (VList (map vpair [])) ->
              exists en', while_loop ce fuel cascade_cond cascade_while_body (S n) en = ONormal en'
                   /\ lookup "accessor" en' = Ret (varr2 acc) /\ ashape acc
                   /\ frame ["former_index"; "latter_index"; "previous"; "current"; "accessor"; "new_pairs"; "pairs"] en en').
    { intros acc n en HA HS HP. exists en. cbn [while_loop]. unfold cascade_cond. cbn [eval]. rewrite HP. ev.
      cbn [map length]. change (0 <? Z.of_nat 0) with false. cbn [lift truthy].
      split; [reflexivity|split; [exact HA|split; [exact HS|intros x _; reflexivity]]]. }
    induction f as [|f IH]; intros pairs acc n en HS HPR HA HP HK Hn; (destruct n as [|n]; [lia|]).
    - destruct pairs as [|p pairs]; cbn [cascade]; [|exact I]. apply Hnil; assumption.
    - destruct pairs as [|p pairs]; [cbn [cascade]; apply Hnil; assumption|].
      cbn [cascade]. destruct (fold_left (cascade_pair k) (p :: pairs) (acc, [])) as [acc1 np1] eqn:EF.
      cbn [while_loop]. unfold cascade_cond at 1. cbn [eval]. rewrite HP. ev. rewrite map_length.
      destruct (0 <? Z.of_nat (length (p :: pairs))) eqn:EL; [|cbn [length] in EL; lia]. cbn [lift truthy].
      unfold cascade_while_body at 1.
      rewrite exec_seq, exec_assign. cbn [eval rbind lift assign seq].
      rewrite exec_seq, exec_for. cbn [eval]. lk. rewrite HP. cbn [lift items].
      destruct (cascade_for_loop (p :: pairs) acc [] (update "new_pairs" (VList []) en) HS HPR)
        as (en1 & E1 & HA1 & HN1 & HS1 & HNP1 & HF1); try (lk; first [assumption|reflexivity]).
      { constructor. }
      rewrite E1. cbn [seq]. rewrite EF in HA1, HN1, HS1, HNP1. cbn [fst snd] in HA1, HN1, HS1, HNP1.
      rewrite exec_assign. cbn [eval]. rewrite HN1. cbn [lift assign seq].
      specialize (IH np1 acc1 n (update "pairs" (VList (map vpair np1)) en1) HS1 HNP1).
      destruct (cascade f k acc1 np1) as [acc'| |]; try exact I.
      destruct IH as (en' & EW & HA' & HS' & HF'); try (lk; first [assumption|reflexivity|lia]).
      { lk. fr HF1. lk. exact HK. }
      exists en'. split; [exact EW|split; [exact HA'|split; [exact HS'|frame_solve]]].
  Qed.

  (* ---- removing the useless vertices = Graph.remove_vertices --------------------------------------------------------------------- *)
  Lemma useless_loop : (S (Z.to_nat (pow4 k)) < fuel)%nat -> forall us acc en, ashape acc -> Forall (fun u => 0 <= u < pow4 k) us ->
    lookup "accessor" en = Ret (varr2 acc) -> lookup "observed_length" en = Ret (VInt (Z.of_nat k)) ->
    match remove_vertices k acc us with
    | Ok acc' => exists en', for_loop ce fuel (TVar "useless_vertex") useless_body (map VInt us) en = ONormal en'
                   /\ lookup "accessor" en' = Ret (varr2 acc') /\ ashape acc'
                   /\ frame ["useless_vertex"; "former_index"; "latter_index"; "previous"; "current"; "accessor"; "new_pairs"; "pairs"] en en'
    | _ => True
    end.
  Proof.
    intro Hfuel. induction us as [|u us IH]; intros acc en HS HU HA HK; cbn [remove_vertices].
    - exists en. split; [reflexivity|split; [exact HA|split; [exact HS|intros x _; reflexivity]]].
    - inversion HU as [|? ? Hu HU']; subst. pose proof HS as [HLen _].
      assert (Hu' : 0 <= u < Z.of_nat (length acc)) by (rewrite HLen, pow4_nat; exact Hu).
      unfold remove_vertex. set (acc1 := set_nth acc (Z.to_nat u) empty_row).
      assert (HS1 : ashape acc1).
      { apply ashape_set_row; [exact HS|reflexivity|]. pose proof (pow4_pos k). unfold empty_row. repeat constructor; lia. }
      cbn [map for_loop assign seq]. set (en0 := update "useless_vertex" (VInt u) en).
      unfold useless_body at 1.
      rewrite exec_seq, exec_assign. cbn [eval lift assign]. unfold en0 at 1 2. lk. cbn [lift]. rewrite HA. cbn [lift].
      rewrite (store_fill acc u HS Hu'). fold acc1. cbn [lift seq].
      rewrite exec_seq, exec_assign.
      rewrite (eval_pairs "useless_vertex" u) by (first [discriminate|unfold en0; lk; first [reflexivity|exact HK]]).
      cbn [rbind lift assign seq]. rewrite exec_while. fold cascade_cond.
      match goal with |- context [while_loop _ _ _ _ _ ?E] => set (en1 := E) end.
      pose proof (cascade_while (S (length acc)) (map (fun i => (i, u)) (obtain_formers u k)) acc1 fuel en1 HS1 (formers_prange u Hu)) as HC.
      destruct (cascade (S (length acc)) k acc1 (map (fun i => (i, u)) (obtain_formers u k))) as [a| |]; cbn [bind]; try exact I.
      destruct HC as (en2 & EW & HA2 & HS2 & HF2); try (unfold en1, en0; lk; first [assumption|reflexivity]).
      { rewrite HLen. exact Hfuel. }
      rewrite EW. cbn [seq].
      specialize (IH a en2 HS2 HU' HA2). destruct (remove_vertices k a us) as [acc'| |]; try exact I.
      destruct IH as (en' & EL & HA' & HS' & HF'). { fr HF2. unfold en1, en0. lk. exact HK. }
      exists en'. split; [exact EL|split; [exact HA'|split; [exact HS'|unfold en1, en0 in HF2; frame_solve]]].
  Qed.

  (* ---- the reachability fixed point ---------------------------------------------------------------------------------------------- *)
  Lemma index_bool U v : 0 <= v < Z.of_nat (length U) -> index_val (VArr (map VBool U)) (VInt v) = Ret (VBool (uget U v)).
  Proof.
    intro H. unfold index_val. rewrite (py_get_ok (map VBool U) (VBool false)) by (rewrite map_length; exact H).
    rewrite map_nth. reflexivity.
  Qed.

  Lemma combine_live : forall row, map snd (filter fst (combine (map ge0 row) (map VInt row))) = map VInt (live_entries row).
  Proof.
    induction row as [|x row IH]; [reflexivity|]. cbn [map combine filter live_entries fst]. unfold ge0 at 1.
    destruct (0 <=? x); cbn [map snd]; rewrite IH; reflexivity.
  Qed.

  Lemma index_live row : index_val (varr row) (VArr (map VBool (map ge0 row))) = Ret (varr (live_entries row)).
  Proof.
    destruct row as [|x row]; [reflexivity|]. unfold index_val, varr. cbn [map length Nat.eqb negb].
    rewrite !map_length, Nat.eqb_refl. cbn [negb].
    change (VBool (ge0 x) :: map VBool (map ge0 row)) with (map VBool (map ge0 (x :: row))).
    rewrite (map_res_map VBool _ (fun b : bool => b)) by reflexivity. rewrite map_id. cbn [rbind].
    change (VInt x :: map VInt row) with (map VInt (x :: row)). rewrite combine_live. reflexivity.
  Qed.

  Lemma index_useful U lives : Forall (fun l => 0 <= l < Z.of_nat (length U)) lives ->
    index_val (VArr (map VBool U)) (varr lives) = Ret (VArr (map VBool (map (uget U) lives))).
  Proof.
    intro H. destruct lives as [|x lives]; [reflexivity|]. unfold index_val, varr. cbn [map].
    change (VInt x :: map VInt lives) with (map VInt (x :: lives)). rewrite map_map.
    rewrite (map_res_map_in VInt _ (fun l => VBool (uget U l))); [reflexivity|].
    intros l Hl. rewrite Forall_forall in H. rewrite (py_get_ok (map VBool U) (VBool false)) by (rewrite map_length; apply H, Hl).
    rewrite map_nth. reflexivity.
  Qed.

  Lemma any_bools bs : builtin1_val BAny (VArr (map VBool bs)) = Ret (VBool (existsb (fun b : bool => b) bs)).
  Proof. cbn [builtin1_val]. rewrite (map_res_map VBool _ (fun b : bool => b)) by reflexivity. rewrite map_id. reflexivity. Qed.

  Lemma existsb_map_id {A} (f : A -> bool) l : existsb (fun b : bool => b) (map f l) = existsb f l.
  Proof. induction l as [|x l IH]; [reflexivity|]. cbn [map existsb]. rewrite IH. reflexivity. Qed.

  Fixpoint zipeq (a b : list bool) : list bool :=
    match a, b with x :: a', y :: b' => Bool.eqb x y :: zipeq a' b' | _, _ => [] end.

  Lemma all_eq : forall R U, length R = length U ->
    (x <~ cmp_top CEq (VArr (map VBool R)) (VArr (map VBool U)) ;; builtin1_val BAll x) = Ret (VBool (list_bool_eqb R U)).
  Proof.
    intros R U HL.
    assert (E : cmp_top CEq (VArr (map VBool R)) (VArr (map VBool U)) = cmp_vals CEq (VArr (map VBool R)) (VArr (map VBool U)))
      by (destruct R; reflexivity).
    rewrite E. cbn [cmp_vals].
    assert (G : forall R U, length R = length U ->
              zip_res (fun x y => match x, y with
                                  | VInt _, VInt _ | VBool _, VBool _ => cmp_scalar CEq x y
                                  | _, _ => Stuck end) (map VBool R) (map VBool U) = Ret (map VBool (zipeq R U))
              /\ forallb (fun b : bool => b) (zipeq R U) = list_bool_eqb R U).
    { clear. induction R as [|x R IH]; intros U HL; destruct U as [|y U]; try discriminate; [split; reflexivity|].
      cbn [length] in HL. injection HL as HL. destruct (IH U HL) as [E1 E2].
      cbn [map zip_res zipeq forallb list_bool_eqb]. rewrite E1, E2. split; [|reflexivity].
      destruct x, y; reflexivity. }
    destruct (G R U HL) as [E1 E2]. rewrite E1. cbn [rbind builtin1_val].
    rewrite (map_res_map VBool _ (fun b : bool => b)) by reflexivity. rewrite map_id. cbn [rbind]. rewrite E2. reflexivity.
  Qed.

  Lemma live_in_range acc v : ashape acc -> Forall (fun l => 0 <= l < pow4 k) (live_entries (get_row acc v)).
  Proof.
    intro HS. destruct (ashape_row acc v HS) as [_ HE]. apply Forall_forall. intros l Hl. unfold live_entries in Hl.
    apply filter_In in Hl. destruct Hl as [Hin Hge]. rewrite Forall_forall in HE. specialize (HE l Hin). lia.
  Qed.

  Lemma reach_for_loop acc U : ashape acc -> length U = length acc -> forall ls R en, length R = length acc ->
    Forall (fun v => 0 <= v < pow4 k) ls ->
    lookup "accessor" en = Ret (varr2 acc) -> lookup "useful" en = Ret (VArr (map VBool U)) -> lookup "reached" en = Ret (VArr (map VBool R)) ->
    exists en', for_loop ce fuel (TVar "vertex_index") reach_for_body (map VInt ls) en = ONormal en'
      /\ lookup "reached" en' = Ret (VArr (map VBool (fold_left (fun r v => set_nth r (Z.to_nat v) (ustep_val acc U v)) ls R)))
      /\ frame ["vertex_index"; "latter_indices"; "reached"] en en'.
  Proof.
    intros HS HLU. pose proof HS as [HLen _]. induction ls as [|v ls IH]; intros R en HLR HV HA HU HR.
    - exists en. split; [reflexivity|split; [exact HR|intros x _; reflexivity]].
    - inversion HV as [|? ? Hv HV']; subst.
      assert (Hv' : 0 <= v < Z.of_nat (length acc)) by (rewrite HLen, pow4_nat; exact Hv).
      cbn [map for_loop fold_left assign seq]. set (en0 := update "vertex_index" (VInt v) en).
      unfold reach_for_body at 1.
      rewrite exec_seq, exec_assign. cbn [eval]. unfold en0 at 1 2 3 4. lk. rewrite HA. cbn [rbind].
      rewrite (index_row acc v Hv'). cbn [rbind]. rewrite ge0_row. cbn [rbind]. rewrite index_live. cbn [lift assign seq].
      set (en1 := update "latter_indices" (varr (live_entries (get_row acc v))) en0).
      rewrite exec_assign. cbn [eval]. unfold en1 at 1 2 3 4, en0 at 1 2 3 4. lk. rewrite HU. cbn [rbind].
      rewrite (index_bool U v) by lia. cbn [rbind truthy].
      rewrite index_useful by (rewrite HLU, HLen, pow4_nat; apply live_in_range; exact HS).
      cbn [rbind]. rewrite any_bools, existsb_map_id.
      assert (EV : (if uget U v then Ret (VBool (uget U v)) else Ret (VBool (existsb (uget U) (live_entries (get_row acc v)))))
                   = Ret (VBool (ustep_val acc U v))).
      { unfold ustep_val. destruct (uget U v); reflexivity. }
      rewrite EV. cbn [lift assign eval]. unfold en1 at 1 2, en0 at 1 2. lk. cbn [lift]. rewrite HR. cbn [lift].
      rewrite store_bool by lia. cbn [lift].
      destruct (IH (set_nth R (Z.to_nat v) (ustep_val acc U v))
                  (update "reached" (VArr (map VBool (set_nth R (Z.to_nat v) (ustep_val acc U v)))) en1))
        as (en' & EL & HR' & HF'); try (unfold en1, en0; lk; first [assumption|reflexivity]).
      { rewrite set_nth_len. exact HLR. }
      exists en'. split; [exact EL|split; [exact HR'|unfold en1, en0 in HF'; frame_solve]].
  Qed.

  Lemma fold_set_len (g : Z -> bool) : forall ls (R : list bool),
    length (fold_left (fun r v => set_nth r (Z.to_nat v) (g v)) ls R) = length R.
  Proof. induction ls as [|v ls IH]; intro R; cbn [fold_left]; [reflexivity|]. rewrite IH. apply set_nth_len. Qed.

  Lemma reach_round acc listed U en : ashape acc -> Forall (fun v => 0 <= v < pow4 k) listed -> length U = length acc ->
    lookup "accessor" en = Ret (varr2 acc) -> lookup "vertices" en = Ret (varr listed) -> lookup "useful" en = Ret (VArr (map VBool U)) ->
    exists en', exec ce fuel reach_body en = (if list_bool_eqb (useful_step acc listed U) U then OBreak en' else ONormal en')
      /\ lookup "useful" en' = Ret (VArr (map VBool (if list_bool_eqb (useful_step acc listed U) U then U else useful_step acc listed U)))
      /\ frame ["vertex_index"; "latter_indices"; "reached"; "useful"] en en'.
  Proof.
    intros HS HV HLU HA HVs HU. unfold reach_body.
    rewrite exec_seq, exec_assign. cbn [eval]. rewrite HU. cbn [rbind builtin1_val lift assign seq].
    rewrite exec_seq, exec_for. cbn [eval]. lk. rewrite HVs. unfold varr at 1. cbn [lift items].
    destruct (reach_for_loop acc U HS HLU listed U (update "reached" (VArr (map VBool U)) en) HLU HV)
      as (en1 & E1 & HR1 & HF1); try (lk; first [assumption|reflexivity]).
    rewrite E1. cbn [seq]. change (fold_left (fun r v => set_nth r (Z.to_nat v) (ustep_val acc U v)) listed U) with (useful_step acc listed U) in HR1.
    assert (HU1 : lookup "useful" en1 = Ret (VArr (map VBool U))) by (fr HF1; lk; exact HU).
    rewrite exec_seq, exec_if. cbn [eval]. rewrite HR1, HU1. cbn [rbind].
    assert (HLR : length (useful_step acc listed U) = length U) by (rewrite GenerateProofs.useful_step_eq; apply fold_set_len).
    pose proof (all_eq (useful_step acc listed U) U HLR) as EA. cbn [rbind] in EA.
    match type of EA with ?X = _ => match goal with |- context [lift ?Y] => change Y with X end end.
    rewrite EA. cbn [lift truthy].
    destruct (list_bool_eqb (useful_step acc listed U) U).
    - rewrite exec_break. cbn [seq]. exists en1. split; [reflexivity|split; [exact HU1|frame_solve]].
    - rewrite exec_skip. cbn [seq]. rewrite exec_assign. cbn [eval]. rewrite HR1. cbn [lift assign].
      eexists. split; [reflexivity|]. split; [lk; reflexivity|frame_solve].
  Qed.

  Lemma reach_while acc listed : ashape acc -> Forall (fun v => 0 <= v < pow4 k) listed -> forall f U n en, length U = length acc ->
    lookup "accessor" en = Ret (varr2 acc) -> lookup "vertices" en = Ret (varr listed) -> lookup "useful" en = Ret (VArr (map VBool U)) ->
    (f <= n)%nat ->
    match useful_fix f acc listed U with
    | Ok U' => exists en', while_loop_b ce fuel (EBoolLit true) reach_body n en = ONormal en'
                 /\ lookup "useful" en' = Ret (VArr (map VBool U')) /\ length U' = length acc
                 /\ frame ["vertex_index"; "latter_indices"; "reached"; "useful"] en en'
    | _ => True
    end.
  Proof.
    intros HS HV. induction f as [|f IH]; intros U n en HLU HA HVs HU Hn; cbn [useful_fix]; [exact I|].
    destruct n as [|n]; [lia|]. rewrite while_loop_b_S. cbn [eval lift truthy].
    destruct (reach_round acc listed U en HS HV HLU HA HVs HU) as (en1 & E1 & HU1 & HF1). rewrite E1.
    destruct (list_bool_eqb (useful_step acc listed U) U); cbn [loop_seq].
    - exists en1. split; [reflexivity|split; [exact HU1|split; [exact HLU|exact HF1]]].
    - assert (HLR : length (useful_step acc listed U) = length acc) by (rewrite GenerateProofs.useful_step_eq, fold_set_len; exact HLU).
      specialize (IH (useful_step acc listed U) n en1 HLR).
      destruct (useful_fix f acc listed (useful_step acc listed U)) as [U'| |]; try exact I.
      destruct IH as (en' & EW & HU' & HL' & HF'); try (fr HF1; assumption); try lia; try assumption.
      exists en'. split; [exact EW|split; [exact HU'|split; [exact HL'|frame_solve]]].
  Qed.

  (* ---- the threshold-1 round: values --------------------------------------------------------------------------------------------- *)
  Lemma ge0_row_vals row : cmp_vals CGe (varr row) (VInt 0) = Ret (VArr (map VBool (map ge0 row))).
  Proof.
    unfold varr. cbn [cmp_vals]. rewrite map_map. rewrite (map_res_map VInt _ (fun x => VBool (ge0 x))); reflexivity.
  Qed.

  Lemma stage_ge0 acc : acc <> [] ->
    cmp_top CGe (varr2 acc) (VInt 0) = Ret (VArr (map (fun row => VArr (map VBool (map ge0 row))) acc)).
  Proof.
    intro HN. destruct acc as [|r acc]; [contradiction|]. unfold varr2. cbn [map]. unfold varr at 1. cbn [cmp_top].
    change (VArr (map VInt r) :: map varr acc) with (map varr (r :: acc)).
    rewrite (map_res_map varr _ (fun row => VArr (map VBool (map ge0 row)))); [reflexivity|].
    intro row. unfold varr at 1. apply ge0_row_vals.
  Qed.

  Lemma sum_ge0 : forall row, sumZ (map (fun b : bool => if b then 1 else 0) (map ge0 row)) = out_degree row.
  Proof.
    unfold out_degree. induction row as [|x row IH]; [reflexivity|]. cbn [map live_entries filter]. rewrite sumZ_cons.
    fold (live_entries row). rewrite IH. unfold ge0. destruct (0 <=? x); cbn [length]; lia.
  Qed.

  Lemma stage_deg acc :
    builtin1_val BNpSumAxis1 (VArr (map (fun row => VArr (map VBool (map ge0 row))) acc)) = Ret (VArr (map (fun row => VInt (out_degree row)) acc)).
  Proof.
    cbn [builtin1_val].
    rewrite (map_res_map (fun row => VArr (map VBool (map ge0 row))) _ (fun row => VInt (out_degree row))); [reflexivity|].
    intro row. rewrite (map_res_map VBool _ (fun b : bool => if b then 1 else 0)) by reflexivity. cbn [rbind]. rewrite sum_ge0. reflexivity.
  Qed.

  Lemma stage_gt1 acc :
    cmp_top CGt (VArr (map (fun row => VInt (out_degree row)) acc)) (VInt 1) = Ret (VArr (map VBool (map (fun r => 1 <? out_degree r) acc))).
  Proof.
    assert (E : cmp_top CGt (VArr (map (fun row => VInt (out_degree row)) acc)) (VInt 1)
                = cmp_vals CGt (VArr (map (fun row => VInt (out_degree row)) acc)) (VInt 1)) by (destruct acc; reflexivity).
    rewrite E. cbn [cmp_vals]. rewrite map_map.
    rewrite (map_res_map (fun row => VInt (out_degree row)) _ (fun row => VBool (1 <? out_degree row))); reflexivity.
  Qed.

  Fixpoint compif_go (en : env) (bd : expr) (x : string) (cd : expr) (l : list val) : res (list val) :=
    match l with
    | [] => Ret []
    | v :: tl => c <~ eval ce (update x v en) cd ;; b <~ truthy c ;;
                 if b then w <~ eval ce (update x v en) bd ;; r <~ compif_go en bd x cd tl ;; Ret (w :: r) else compif_go en bd x cd tl
    end.

  Lemma eval_compif en bd x it cd :
    eval ce en (ECompIf bd x it cd) = (src <~ eval ce en it ;; l <~ items src ;; vs <~ compif_go en bd x cd l ;; Ret (VList vs)).
  Proof.
    cbn [eval]. destruct (eval ce en it) as [src| | |]; cbn [rbind]; try reflexivity.
    destruct (items src) as [l| | |]; cbn [rbind]; try reflexivity. f_equal.
    induction l as [|v tl IH]; [reflexivity|]. cbn [compif_go]. rewrite <- IH. reflexivity.
  Qed.

  Lemma eval_useless en listed U : lookup "vertices" en = Ret (varr listed) -> lookup "useful" en = Ret (VArr (map VBool U)) ->
    Forall (fun v => 0 <= v < Z.of_nat (length U)) listed ->
    eval ce en (ECompIf (EVar "vertex_index"%string) "vertex_index"%string (EVar "vertices"%string) (ENot (EIndex (EVar "useful"%string) (EVar "vertex_index"%string))))
    = Ret (VList (map VInt (filter (fun v => negb (uget U v)) listed))).
  Proof.
    intros HV HU HR. rewrite eval_compif. cbn [eval]. rewrite HV. unfold varr at 1. cbn [rbind items].
    assert (G : compif_go en (EVar "vertex_index"%string) "vertex_index"%string (ENot (EIndex (EVar "useful"%string) (EVar "vertex_index"%string))) (map VInt listed)
                = Ret (map VInt (filter (fun v => negb (uget U v)) listed))).
    { clear HV. induction listed as [|v ls IH]; [reflexivity|]. inversion HR as [|? ? Hv HR']; subst.
      cbn [map compif_go eval filter]. lk. rewrite HU. cbn [rbind]. rewrite (index_bool U v Hv). cbn [rbind truthy].
      rewrite (IH HR'). destruct (uget U v); reflexivity. }
    rewrite G. reflexivity.
  Qed.

  Lemma listed_range : forall (acc : accessor) s v, In v (listed_from acc s) -> s <= v < s + Z.of_nat (length acc).
  Proof.
    induction acc as [|row acc IH]; intros s v Hin; cbn [listed_from] in Hin; [contradiction|].
    cbn [length]. destruct (row_listed row); [destruct Hin as [<-|Hin]; [lia|]|]; apply IH in Hin; lia.
  Qed.

  (* the model's loops never raise *)
  Lemma cascade_noraise : forall f acc pairs e, cascade f k acc pairs <> Raise e.
  Proof.
    induction f as [|f IH]; intros acc pairs e; destruct pairs as [|p pairs]; cbn [cascade]; try discriminate.
    destruct (fold_left (cascade_pair k) (p :: pairs) (acc, [])) as [a np]. apply IH.
  Qed.

  Lemma remove_vertices_noraise : forall us acc e, remove_vertices k acc us <> Raise e.
  Proof.
    induction us as [|u us IH]; intros acc e; cbn [remove_vertices]; [discriminate|]. unfold remove_vertex.
    pose proof (cascade_noraise (S (length acc)) (set_nth acc (Z.to_nat u) empty_row) (map (fun i => (i, u)) (obtain_formers u k))) as HC.
    destruct (cascade (S (length acc)) k (set_nth acc (Z.to_nat u) empty_row) (map (fun i => (i, u)) (obtain_formers u k))) as [a|e'|];
      cbn [bind]; [apply IH| |discriminate]. exfalso. apply (HC e'). reflexivity.
  Qed.

  Lemma useful_fix_noraise : forall f acc listed U e, useful_fix f acc listed U <> Raise e.
  Proof.
    induction f as [|f IH]; intros acc listed U e; cbn [useful_fix]; [discriminate|].
    destruct (list_bool_eqb (useful_step acc listed U) U); [discriminate|apply IH].
  Qed.

  (* ---- the threshold-1 repair = Graph.threshold1_fuel ------------------------------------------------------------------------------ *)
  Definition t1_vars : list string :=
    ["vertices"; "useful"; "vertex_index"; "latter_indices"; "reached"; "useless_vertices"; "useless_vertex"; "former_index";
     "latter_index"; "previous"; "current"; "accessor"; "new_pairs"; "pairs"].

  (* vertices = obtain_vertices(accessor); if len(vertices) == 0: raise *)
  Lemma t1_pre acc en : lookup "accessor" en = Ret (varr2 acc) ->
    exec ce fuel t1_body en =
    match obtain_vertices acc with
    | [] => OExn ValueError
    | _ => exec ce fuel t1_rest1 (update "vertices" (varr (obtain_vertices acc)) en)
    end.
  Proof.
    intro HA. unfold t1_body.
    rewrite exec_seq, exec_assign. cbn [eval]. rewrite HA. cbn [rbind]. rewrite ce_vert. cbn [lift assign seq].
    rewrite exec_seq, exec_if. cbn [eval]. lk. unfold varr at 1. ev. cbn [val_eqb]. rewrite map_length.
    destruct (obtain_vertices acc) as [|v0 ls].
    - reflexivity.
    - destruct (Z.of_nat (length (v0 :: ls)) =? 0) eqn:E0; [cbn [length] in E0; lia|]. cbn [lift truthy]. rewrite exec_skip. reflexivity.
  Qed.

  (* useful = ..; the reachability loop; useless_vertices = [..] *)
  Lemma t1_mid acc listed U en0 : (S (Z.to_nat (pow4 k)) < fuel)%nat -> ashape acc -> Forall (fun v => 0 <= v < pow4 k) listed ->
    lookup "accessor" en0 = Ret (varr2 acc) -> lookup "vertices" en0 = Ret (varr listed) ->
    useful_fix (S (length acc)) acc listed (map (fun r => 1 <? out_degree r) acc) = Ok U ->
    exists en3, exec ce fuel t1_rest1 en0 = exec ce fuel t1_rest2 en3
      /\ lookup "useless_vertices" en3 = Ret (VList (map VInt (filter (fun v => negb (nth (Z.to_nat v) U false)) listed)))
      /\ frame ["useful"; "vertex_index"; "latter_indices"; "reached"; "useless_vertices"] en0 en3.
  Proof.
    intros Hfuel HS HLR HA HV EU. pose proof (pow4_pos k) as Hp. pose proof HS as [HLen _].
    assert (HNE : acc <> []) by (intro E; rewrite E in HLen; cbn [length] in HLen; lia).
    unfold t1_rest1.
    rewrite exec_seq, exec_assign. cbn [eval]. rewrite HA. cbn [rbind].
    rewrite (stage_ge0 acc HNE). cbn [rbind]. rewrite stage_deg. cbn [rbind]. rewrite stage_gt1. cbn [lift assign seq].
    set (U0 := map (fun r => 1 <? out_degree r) acc) in *.
    rewrite exec_seq, exec_while_b.
    match goal with |- context [while_loop_b _ _ _ _ _ ?E] => set (en1 := E) end.
    pose proof (reach_while acc listed HS HLR (S (length acc)) U0 fuel en1) as HRW. rewrite EU in HRW.
    destruct HRW as (en2 & EW & HU2 & HLU2 & HF2); try (unfold en1; lk; first [assumption|reflexivity]).
    { unfold U0. apply map_length. }
    { lia. }
    rewrite EW. cbn [seq].
    assert (HV2 : lookup "vertices" en2 = Ret (varr listed)) by (fr HF2; unfold en1; lk; exact HV).
    rewrite exec_seq, exec_assign.
    rewrite (eval_useless en2 listed U HV2 HU2) by (rewrite HLU2, HLen, pow4_nat; exact HLR).
    cbn [lift assign seq].
    eexists. split; [reflexivity|]. split; [lk; reflexivity|]. unfold en1 in HF2. frame_solve.
  Qed.

  (* if len(useless_vertices) == 0: break; for useless_vertex in useless_vertices: .. *)
  Lemma t1_post acc useless en3 : (S (Z.to_nat (pow4 k)) < fuel)%nat -> ashape acc -> Forall (fun u => 0 <= u < pow4 k) useless ->
    lookup "accessor" en3 = Ret (varr2 acc) -> lookup "observed_length" en3 = Ret (VInt (Z.of_nat k)) ->
    lookup "useless_vertices" en3 = Ret (VList (map VInt useless)) ->
    match useless with
    | [] => exec ce fuel t1_rest2 en3 = OBreak en3
    | _ => match remove_vertices k acc useless with
           | Ok acc' => exists en4, exec ce fuel t1_rest2 en3 = ONormal en4 /\ lookup "accessor" en4 = Ret (varr2 acc') /\ ashape acc'
                          /\ frame ["useless_vertex"; "former_index"; "latter_index"; "previous"; "current"; "accessor"; "new_pairs"; "pairs"] en3 en4
           | _ => True
           end
    end.
  Proof.
    intros Hfuel HS HUR HA HK HU.
    assert (EP : exec ce fuel t1_rest2 en3 =
                 match useless with [] => OBreak en3 | _ => for_loop ce fuel (TVar "useless_vertex") useless_body (map VInt useless) en3 end).
    { unfold t1_rest2. rewrite exec_seq, exec_if. cbn [eval]. rewrite HU. ev. cbn [val_eqb]. rewrite map_length.
      destruct useless as [|u0 us]; [reflexivity|].
      destruct (Z.of_nat (length (u0 :: us)) =? 0) eqn:E1; [cbn [length] in E1; lia|]. cbn [lift truthy]. rewrite exec_skip. cbn [seq].
      rewrite exec_for. cbn [eval]. rewrite HU. reflexivity. }
    rewrite EP. destruct useless as [|u0 us]; [reflexivity|].
    pose proof (useless_loop Hfuel (u0 :: us) acc en3 HS HUR HA HK) as HUL.
    destruct (remove_vertices k acc (u0 :: us)) as [acc'| |]; try exact I. exact HUL.
  Qed.

  Lemma t1_while : (S (Z.to_nat (pow4 k)) < fuel)%nat -> forall f acc n en, ashape acc ->
    lookup "accessor" en = Ret (varr2 acc) -> lookup "observed_length" en = Ret (VInt (Z.of_nat k)) -> (f <= n)%nat ->
    match threshold1_fuel f k acc with
    | Ok (V, acc') => exists en', while_loop_b ce fuel (EBoolLit true) t1_body n en = ONormal en'
                        /\ lookup "vertices" en' = Ret (varr V) /\ lookup "accessor" en' = Ret (varr2 acc') /\ frame t1_vars en en'
    | Raise e => while_loop_b ce fuel (EBoolLit true) t1_body n en = OExn e
    | OutOfFuel => True
    end.
  Proof.
    intro Hfuel. pose proof (pow4_pos k) as Hp.
    induction f as [|f IH]; intros acc n en HS HA HK Hn; cbn [threshold1_fuel]; [exact I|].
    destruct n as [|n]; [lia|]. rewrite while_loop_b_S. cbn [eval lift truthy].
    pose proof HS as [HLen _]. rewrite (t1_pre acc en HA).
    remember (obtain_vertices acc) as listed eqn:EL.
    assert (HLR : Forall (fun v => 0 <= v < pow4 k) listed).
    { apply Forall_forall. intros v Hv. rewrite EL in Hv. unfold obtain_vertices in Hv. apply listed_range in Hv. lia. }
    destruct listed as [|v0 ls]; [reflexivity|]. set (listed := v0 :: ls) in *.
    set (en0 := update "vertices" (varr listed) en).
    destruct (useful_fix (S (length acc)) acc listed (map (fun r => 1 <? out_degree r) acc)) as [U|e|] eqn:EU; cbn [bind];
      [|exfalso; exact (useful_fix_noraise _ _ _ _ _ EU)|exact I].
    destruct (t1_mid acc listed U en0 Hfuel HS HLR) as (en3 & E3 & HU3 & HF3); try (unfold en0; lk; first [assumption|reflexivity]).
    rewrite E3.
    remember (filter (fun v => negb (nth (Z.to_nat v) U false)) listed) as useless eqn:EUs.
    assert (HUR : Forall (fun u => 0 <= u < pow4 k) useless).
    { apply Forall_forall. intros u Hu. rewrite EUs in Hu. apply filter_In in Hu. destruct Hu as [Hu _].
      rewrite Forall_forall in HLR. apply HLR, Hu. }
    assert (HA3 : lookup "accessor" en3 = Ret (varr2 acc)) by (fr HF3; unfold en0; lk; exact HA).
    assert (HK3 : lookup "observed_length" en3 = Ret (VInt (Z.of_nat k))) by (fr HF3; unfold en0; lk; exact HK).
    assert (HV3 : lookup "vertices" en3 = Ret (varr listed)) by (fr HF3; unfold en0; lk; reflexivity).
    pose proof (t1_post acc useless en3 Hfuel HS HUR HA3 HK3 HU3) as HP3.
    destruct useless as [|u0 us].
    { rewrite HP3. cbn [loop_seq]. exists en3. split; [reflexivity|split; [exact HV3|split; [exact HA3|]]].
      unfold en0, t1_vars in *. frame_solve. }
    destruct (remove_vertices k acc (u0 :: us)) as [acc'|e|] eqn:ER; cbn [bind];
      [|exfalso; exact (remove_vertices_noraise _ _ _ ER)|exact I].
    destruct HP3 as (en4 & E4 & HA4 & HS4 & HF4). rewrite E4. cbn [loop_seq].
    specialize (IH acc' n en4 HS4 HA4).
    destruct (threshold1_fuel f k acc') as [[V acc'']|e|]; [|apply IH; [fr HF4; exact HK3|lia]|exact I].
    destruct IH as (en' & EW' & HV' & HA' & HF'); [fr HF4; exact HK3|lia|].
    exists en'. split; [exact EW'|split; [exact HV'|split; [exact HA'|]]].
    unfold en0, t1_vars in *. frame_solve.
  Qed.

  (* ---- threshold 1: the end of the function ------------------------------------------------------------------------------------------ *)
  Lemma tail_t1 en b (m : list Z) : t = 1 -> (S (Z.to_nat (pow4 k)) < fuel)%nat -> pinv en b m ->
    match threshold1_fuel (S (length (induced k m))) k (induced k m) with
    | Ok (V, acc') => exec ce fuel final_tail en = OReturn (VTuple [varr V; varr2 acc'])
    | Raise e => exec ce fuel final_tail en = OExn e
    | OutOfFuel => True
    end.
  Proof.
    intros Ht Hfuel (HV & HA & HK & HT & HB).
    assert (HLen : length (induced k m) = Z.to_nat (pow4 k)) by apply induced_shape.
    assert (EP : exec ce fuel final_tail en =
                 seq (while_loop_b ce fuel (EBoolLit true) t1_body fuel en)
                     (exec ce fuel (SSeq (SIf (EVar "verbose"%string) SSkip SSkip) (SReturn (ETuple [(EVar "vertices"%string); (EVar "accessor"%string)]))))).
    { unfold final_tail. rewrite exec_seq, exec_if. cbn [eval]. rewrite HT. ev. cbn [val_eqb].
      destruct (t =? 1) eqn:E1; [|lia]. cbn [lift truthy]. rewrite exec_while_b. reflexivity. }
    rewrite EP.
    pose proof (t1_while Hfuel (S (length (induced k m))) (induced k m) fuel en (induced_ashape m) HA HK ltac:(lia)) as HW.
    destruct (threshold1_fuel (S (length (induced k m))) k (induced k m)) as [[V acc']|e|]; [|rewrite HW; reflexivity|exact I].
    destruct HW as (en' & -> & HV' & HA' & HF'). cbn [seq].
    rewrite exec_seq, exec_if. cbn [eval]. unfold t1_vars in HF'. fr HF'. rewrite HB. cbn [lift truthy]. rewrite if_same, exec_skip. cbn [seq].
    rewrite exec_return. cbn [eval]. rewrite HV', HA'. reflexivity.
  Qed.

  Lemma gen_t1 (mask : list Z) : Z.of_nat k < 400 -> length mask = Z.to_nat (pow4 k) -> Forall (fun x => 0 <= x <= 1) mask ->
    t = 1 -> (S (S (length mask)) < fuel)%nat ->
    match Graph.connect_coding_graph k mask t with
    | Ok (V, acc) => run_fun ce fuel connect_coding_graph_def [VInt (Z.of_nat k); v_mask_int mask; VInt t; VBool vb]
                     = Ret (coding_result k mask t V acc)
    | Raise e => run_fun ce fuel connect_coding_graph_def [VInt (Z.of_nat k); v_mask_int mask; VInt t; VBool vb] = Exn e
    | OutOfFuel => True
    end.
  Proof.
    intros Hk HL H01 Ht Hf. assert (HL' : Z.of_nat (length mask) = pow4 k) by (rewrite HL; apply pow4_nat).
    unfold run_fun. rewrite body_eq. cbn [params connect_coding_graph_def bind_params].
    pose proof (prefix_ok final_tail mask Hk HL' H01 ltac:(lia)) as HP. unfold Graph.connect_coding_graph.
    destruct (trim_fuel (S (length mask)) k t mask) as [m|e|] eqn:ET; cbn [bind]; [|rewrite HP; reflexivity|exact I].
    destruct (0 <? sumZ m); [|rewrite HP; reflexivity].
    destruct HP as (en' & -> & HPI & HLm & Hm01).
    destruct (t =? 1) eqn:E1; [|lia].
    pose proof (tail_t1 en' _ m Ht ltac:(lia) HPI) as HT1.
    destruct (threshold1_fuel (S (length (induced k m))) k (induced k m)) as [[V acc']|e|]; [|rewrite HT1; reflexivity|exact I].
    rewrite HT1. unfold coding_result. rewrite E1. reflexivity.
  Qed.

  Lemma gen_all (mask : list Z) : Z.of_nat k < 400 -> length mask = Z.to_nat (pow4 k) -> Forall (fun x => 0 <= x <= 1) mask ->
    (S (S (length mask)) < fuel)%nat ->
    match Graph.connect_coding_graph k mask t with
    | Ok (V, acc) => run_fun ce fuel connect_coding_graph_def [VInt (Z.of_nat k); v_mask_int mask; VInt t; VBool vb]
                     = Ret (coding_result k mask t V acc)
    | Raise e => run_fun ce fuel connect_coding_graph_def [VInt (Z.of_nat k); v_mask_int mask; VInt t; VBool vb] = Exn e
    | OutOfFuel => True
    end.
  Proof.
    intros Hk HL H01 Hf. destruct (Z.eq_dec t 1) as [E|N].
    - apply gen_t1; assumption.
    - apply gen_t2; try assumption. lia.
  Qed.

(* ==== END OF SECTION ==== *)
End Coding.

Theorem connect_coding_graph_gen_ok_t2 : forall ce fuel k mask t verbose V acc,
  coding_callees_ok ce k -> (1 <= k)%nat -> Z.of_nat k < 400 -> length mask = Z.to_nat (pow4 k) ->
  Forall (fun x => 0 <= x <= 1) mask -> 2 <= t ->
  Graph.connect_coding_graph k mask t = Ok (V, acc) ->
  (4 * length mask + 8 <= fuel)%nat ->
  run_fun ce fuel connect_coding_graph_def [VInt (Z.of_nat k); v_mask_int mask; VInt t; VBool verbose]
  = Ret (coding_result k mask t V acc).
Proof.
  intros ce fuel k mask t verbose V acc (Hlat & _ & _) _ Hk HL H01 Ht HM Hf.
  pose proof (gen_t2 ce fuel k t verbose Hlat mask Hk HL H01 ltac:(lia) ltac:(lia)) as H. rewrite HM in H. exact H.
Qed.

Theorem connect_coding_graph_gen_raise_t2 : forall ce fuel k mask t verbose e,
  coding_callees_ok ce k -> (1 <= k)%nat -> Z.of_nat k < 400 -> length mask = Z.to_nat (pow4 k) ->
  Forall (fun x => 0 <= x <= 1) mask -> 2 <= t ->
  Graph.connect_coding_graph k mask t = Raise e ->
  (4 * length mask + 8 <= fuel)%nat ->
  run_fun ce fuel connect_coding_graph_def [VInt (Z.of_nat k); v_mask_int mask; VInt t; VBool verbose] = Exn e.
Proof.
  intros ce fuel k mask t verbose e (Hlat & _ & _) _ Hk HL H01 Ht HM Hf.
  pose proof (gen_t2 ce fuel k t verbose Hlat mask Hk HL H01 ltac:(lia) ltac:(lia)) as H. rewrite HM in H. exact H.
Qed.

Theorem connect_coding_graph_gen_ok : forall ce fuel k mask t verbose V acc,
  coding_callees_ok ce k -> (1 <= k)%nat -> Z.of_nat k < 400 -> length mask = Z.to_nat (pow4 k) ->
  Forall (fun x => 0 <= x <= 1) mask -> 1 <= t ->
  Graph.connect_coding_graph k mask t = Ok (V, acc) ->
  (4 * length mask + 8 <= fuel)%nat ->
  run_fun ce fuel connect_coding_graph_def [VInt (Z.of_nat k); v_mask_int mask; VInt t; VBool verbose]
  = Ret (coding_result k mask t V acc).
Proof.
  intros ce fuel k mask t verbose V acc (Hlat & Hform & Hvert) Hk1 Hk HL H01 _ HM Hf.
  pose proof (gen_all ce fuel k t verbose Hlat Hk1 (fun c => Hform c Hk1) Hvert mask Hk HL H01 ltac:(lia)) as H.
  rewrite HM in H. exact H.
Qed.

Theorem connect_coding_graph_gen_raise : forall ce fuel k mask t verbose e,
  coding_callees_ok ce k -> (1 <= k)%nat -> Z.of_nat k < 400 -> length mask = Z.to_nat (pow4 k) ->
  Forall (fun x => 0 <= x <= 1) mask -> 1 <= t ->
  Graph.connect_coding_graph k mask t = Raise e ->
  (4 * length mask + 8 <= fuel)%nat ->
  run_fun ce fuel connect_coding_graph_def [VInt (Z.of_nat k); v_mask_int mask; VInt t; VBool verbose] = Exn e.
Proof.
  intros ce fuel k mask t verbose e (Hlat & Hform & Hvert) Hk1 Hk HL H01 _ HM Hf.
  pose proof (gen_all ce fuel k t verbose Hlat Hk1 (fun c => Hform c Hk1) Hvert mask Hk HL H01 ltac:(lia)) as H.
  rewrite HM in H. exact H.
Qed.

Print Assumptions connect_coding_graph_gen_ok_t2.
Print Assumptions connect_coding_graph_gen_raise_t2.
Print Assumptions connect_coding_graph_gen_ok.
Print Assumptions connect_coding_graph_gen_raise.
