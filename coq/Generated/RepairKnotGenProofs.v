(* RepairKnotGenProofs.v -- ties the knot for the regenerated path_matching / repair_dna (to be filled in). *)
From DSW Require Import MiniPyR.
