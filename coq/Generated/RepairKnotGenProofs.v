(* RepairKnotGenProofs.v -- ties the knot for path_matching / repair_dna REGENERATED from the current source (RepairGen.v, MiniPyR.v)
   and restates C09 / C10 for the source text.  dna_to_number (dsw/operation.py) and set_vt (dsw/spiderweb.py) are callees from
   other regenerated modules (operation and coder units, over the interpreter copy MiniPy.v): they enter as the hypothesis
   repair_callees_ok, whose two clauses are the statements py_dna_to_number_int and py2_set_vt proved there.
   Compiled on every run of the checks against the freshly generated RepairGen.v (harness/regen.py, unit "repair"). *)
From Coq Require Import Lia ZifyBool Sorted.
From DSW Require Import MiniPyR Repair Coder Convert Kmer Spec GraphSpec CoderSpec RepairSpec MiniPyRLemmas RepairProofs TerminationProofs.
From DSWGen Require Import RepairGen RepairRepr PathMatchingGenProofs RepairDnaGenProofs.
Open Scope Z_scope.
Open Scope string_scope.
Ltac Zify.zify_post_hook ::= Z.to_euclidean_division_equations.
Local Open Scope Z_scope.
Local Open Scope list_scope.
Notation lookup := MiniPyR.lookup.

(* the callee environment of repair_dna: path_matching from the regenerated module, everything else from [ce] *)
Definition repair_env (ce : string -> list val -> res val) (fuel : nat) : string -> list val -> res val :=
  fun f args => if String.eqb f "path_matching" then run_fun ce fuel path_matching_def args else ce f args.

(* TARGET STATEMENTS

Theorem repair_dna_source : forall ce fuel s acc v0 k vt has_indel heap,
  repair_callees_ok ce -> (hypotheses of repair_dna_gen: rows of four entries, 1 <= k, 0 <= heap, a non-empty check,
                           S (length s) < fuel ... exactly what RepairDnaGenProofs.repair_dna_gen needs) ->
  run_fun (repair_env ce fuel) fuel repair_dna_def [VStr s; varr2 acc; VInt v0; VInt k; v_optstr' vt; VBool has_indel; VInt heap]
  = res_of_repair (Repair.repair_dna s acc v0 k vt has_indel heap).
   (repair_callees_ok (repair_env ce fuel) follows from repair_callees_ok ce since the names differ; the path_matching hypothesis of
    repair_dna_gen is discharged by path_matching_gen -- repair_dna only passes occ = k - recall - 1 >= 0; if repair_dna_gen's
    hypothesis quantifies over ALL occ, use the model's own equation for occ = -1 ... or better: ask for what is needed and report.)

Theorem C09_clean_source : forall ce fuel s acc v0 k vt indel heap, repair_callees_ok ce ->
  shaped acc -> in_range acc v0 -> is_walk acc v0 s -> (the hypotheses above) ->
  exists flag count visited,
    run_fun (repair_env ce fuel) fuel repair_dna_def [VStr s; varr2 acc; VInt v0; VInt k; v_optstr' vt; VBool indel; VInt heap]
    = Ret (VTuple [VList (map VStr (if check_okb vt s then [s] else [])); VTuple [VInt 0; VBool flag; VInt count; VInt visited]]).
   (from RepairProofs.repair_clean)

Theorem C09_output_shape_source : forall ce fuel s acc v0 k vt indel heap cands d flag count visited, repair_callees_ok ce ->
  (the hypotheses above) ->
  run_fun (repair_env ce fuel) fuel repair_dna_def [...] = Ret (VTuple [VList (map VStr cands); VTuple [VInt d; VBool flag; VInt count; VInt visited]]) ->
  StronglySorted lexlt cands /\ (forall c, In c cands -> check_okb vt c = true).
   (the run determines the model result -- res_of_repair is injective on Ok results -- then RepairProofs.repair_output_shape)

Theorem C10_returns_source : forall ce fuel s acc v0 (k : nat) vt indel heap, repair_callees_ok ce ->
  (1 <= k)%nat -> shaped acc -> nrows acc = pow4 k -> in_range acc v0 -> acgt s -> (k <= length s)%nat -> (the hypotheses above) ->
  exists cands d flag count visited,
    run_fun (repair_env ce fuel) fuel repair_dna_def [VStr s; varr2 acc; VInt v0; VInt (Z.of_nat k); v_optstr' vt; VBool indel; VInt heap]
    = Ret (VTuple [VList (map VStr cands); VTuple [VInt d; VBool flag; VInt count; VInt visited]])
    /\ 0 <= visited <= Z.of_nat (length s) * (1 + 16 * Z.of_nat k * Z.of_nat k) /\ 0 <= d <= Z.of_nat (length s).
   (from TerminationProofs.repair_total; `lookups st` / `detected st` are projections of the statistics tuple)

   plus a non-vacuity Example by vm_compute with a concrete ce built from the models (dna_to_number_int, set_vt) on the GC-balanced
   order-2 accessor: a clean walk, a walk with one substitution that is repaired, a wrong check.
   Keep the file compiling at all times; whatever cannot be finished stays in the comment.  End the file with Print Assumptions for
   every proved theorem (all must be Closed under the global context).
*)
