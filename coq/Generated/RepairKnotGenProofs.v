(* RepairKnotGenProofs.v -- ties the knot for path_matching / repair_dna REGENERATED from the current source (RepairGen.v, MiniPyR.v)
   and restates C09 / C10 for the source text.  dna_to_number (dsw/operation.py) and set_vt (dsw/spiderweb.py) are callees from
   other regenerated modules (operation and coder units, over the interpreter copy MiniPy.v): they enter as the hypothesis
   repair_callees_ok, whose two clauses are the statements py_dna_to_number_int and py2_set_vt proved there.
   Compiled on every run of the checks against the freshly generated RepairGen.v (harness/regen.py, unit "repair"). *)
From Coq Require Import Lia ZifyBool Sorted.
From DSW Require Import MiniPyR Repair Coder Convert Kmer Spec GraphSpec CoderSpec RepairSpec MiniPyRLemmas RepairProofs TerminationProofs.
From DSWGen Require Import RepairGen RepairRepr PathMatchingGenProofs RepairDnaGenProofs.
Open Scope Z_scope.
Open Scope string_scope.
Ltac Zify.zify_post_hook ::= Z.to_euclidean_division_equations.
Local Open Scope Z_scope.
Local Open Scope list_scope.
Notation lookup := MiniPyR.lookup.

(* the callee environment of repair_dna: path_matching from the regenerated module, everything else from [ce] *)
Definition repair_env (ce : string -> list val -> res val) (fuel : nat) : string -> list val -> res val :=
  fun f args => if String.eqb f "path_matching" then run_fun ce fuel path_matching_def args else ce f args.

(* All the target statements of this file are proved below, exactly as described, with the elided hypotheses written out in full:
   repair_dna_source, C09_clean_source, C09_output_shape_source, C10_returns_source and the Example repair_knot_nonvacuous.
   "The hypotheses of repair_dna_gen" are, besides repair_callees_ok ce (path_matching itself is discharged by
   PathMatchingGenProofs.path_matching_gen_nonneg, since repair_dna_gen only asks for it at 0 <= occ):
     Forall (fun row => length row = 4%nat) acc   (implied by `shaped acc` where that is a hypothesis: shaped_rows4),
     1 <= k                                       (in C10: from (1 <= k)%nat),
     0 <= heap,
     match vt with Some c => c <> [] | None => True end     (a supplied check is not empty),
     (S (length s) < fuel)%nat.
   Nothing is left in this comment. *)

(* ---- the callee environment satisfies what repair_dna_gen asks of it ------------------------------------------------------------ *)
Lemma repair_env_callees ce fuel : repair_callees_ok ce -> repair_callees_ok (repair_env ce fuel).
Proof.
  intros [H1 H2]. split.
  - intros s. unfold repair_env. change (String.eqb "dna_to_number" "path_matching") with false. cbv iota. apply H1.
  - intros s n Hn. unfold repair_env. change (String.eqb "set_vt" "path_matching") with false. cbv iota. apply H2. exact Hn.
Qed.

Lemma repair_env_path_matching ce fuel acc has_indel : Forall (fun row => length row = 4%nat) acc ->
  forall s' prev occ, 0 <= occ ->
    repair_env ce fuel "path_matching" [VStr s'; varr2 acc; VInt prev; VInt occ; VBool has_indel; VNone]
    = res_of_matching occ (Repair.path_matching s' acc prev occ has_indel).
Proof.
  intros Hacc s' prev occ Hocc. unfold repair_env. change (String.eqb "path_matching" "path_matching") with true. cbv iota.
  apply path_matching_gen_nonneg; assumption.
Qed.

(* the bridge from the vocabulary of the properties *)
Lemma shaped_rows4 acc : shaped acc -> Forall (fun row => length row = 4%nat) acc.
Proof. intros [H _]. exact H. Qed.

(* ---- repair_dna of the current source, with path_matching of the current source as its callee ----------------------------------- *)
Theorem repair_dna_source : forall ce fuel s acc v0 k vt has_indel heap,
  repair_callees_ok ce ->
  Forall (fun row => length row = 4%nat) acc -> 1 <= k -> 0 <= heap ->
  match vt with Some c => c <> [] | None => True end ->
  (S (length s) < fuel)%nat ->
  run_fun (repair_env ce fuel) fuel repair_dna_def [VStr s; varr2 acc; VInt v0; VInt k; v_optstr' vt; VBool has_indel; VInt heap]
  = res_of_repair (Repair.repair_dna s acc v0 k vt has_indel heap).
Proof.
  intros ce fuel s acc v0 k vt has_indel heap Hce Hacc Hk Hheap Hvt Hfuel.
  apply repair_dna_gen.
  - apply repair_env_callees. exact Hce.
  - apply repair_env_path_matching. exact Hacc.
  - exact Hacc.
  - exact Hk.
  - exact Hheap.
  - exact Hvt.
  - exact Hfuel.
Qed.

(* ---- C09 for the source text ---------------------------------------------------------------------------------------------------- *)
Theorem C09_clean_source : forall ce fuel s acc v0 k vt indel heap, repair_callees_ok ce ->
  shaped acc -> in_range acc v0 -> is_walk acc v0 s ->
  1 <= k -> 0 <= heap -> match vt with Some c => c <> [] | None => True end -> (S (length s) < fuel)%nat ->
  exists flag count visited,
    run_fun (repair_env ce fuel) fuel repair_dna_def [VStr s; varr2 acc; VInt v0; VInt k; v_optstr' vt; VBool indel; VInt heap]
    = Ret (VTuple [VList (map VStr (if check_okb vt s then [s] else [])); VTuple [VInt 0; VBool flag; VInt count; VInt visited]]).
Proof.
  intros ce fuel s acc v0 k vt indel heap Hce Hs Hv Hw Hk Hheap Hvt Hfuel.
  destruct (repair_clean s acc v0 k vt indel heap Hs Hv Hw) as (flag & count & visited & E).
  exists flag, count, visited.
  rewrite (repair_dna_source ce fuel s acc v0 k vt indel heap Hce (shaped_rows4 acc Hs) Hk Hheap Hvt Hfuel).
  rewrite E. reflexivity.
Qed.

Lemma map_VStr_inj : forall a b : list (list Z), map VStr a = map VStr b -> a = b.
Proof.
  induction a as [|x xs IH]; intros [|y ys] H; try discriminate; [reflexivity|].
  cbn [map] in H. injection H as H1 H2. subst y. f_equal. apply IH. exact H2.
Qed.

Theorem C09_output_shape_source : forall ce fuel s acc v0 k vt indel heap cands d flag count visited, repair_callees_ok ce ->
  Forall (fun row => length row = 4%nat) acc -> 1 <= k -> 0 <= heap ->
  match vt with Some c => c <> [] | None => True end -> (S (length s) < fuel)%nat ->
  run_fun (repair_env ce fuel) fuel repair_dna_def [VStr s; varr2 acc; VInt v0; VInt k; v_optstr' vt; VBool indel; VInt heap]
  = Ret (VTuple [VList (map VStr cands); VTuple [VInt d; VBool flag; VInt count; VInt visited]]) ->
  StronglySorted lexlt cands /\ (forall c, In c cands -> check_okb vt c = true).
Proof.
  intros ce fuel s acc v0 k vt indel heap cands d flag count visited Hce Hacc Hk Hheap Hvt Hfuel Hrun.
  rewrite (repair_dna_source ce fuel s acc v0 k vt indel heap Hce Hacc Hk Hheap Hvt Hfuel) in Hrun.
  destruct (Repair.repair_dna s acc v0 k vt indel heap) as [[cands' [[[d' flag'] count'] visited']]|e|] eqn:E;
    cbn [res_of_repair] in Hrun; try discriminate.
  injection Hrun as Hc _ _ _ _. apply map_VStr_inj in Hc. subst cands'.
  exact (repair_output_shape s acc v0 k vt indel heap cands _ E).
Qed.

(* ---- C10 for the source text ---------------------------------------------------------------------------------------------------- *)
Theorem C10_returns_source : forall ce fuel s acc v0 (k : nat) vt indel heap, repair_callees_ok ce ->
  (1 <= k)%nat -> shaped acc -> nrows acc = pow4 k -> in_range acc v0 -> acgt s -> (k <= length s)%nat ->
  0 <= heap -> match vt with Some c => c <> [] | None => True end -> (S (length s) < fuel)%nat ->
  exists cands d flag count visited,
    run_fun (repair_env ce fuel) fuel repair_dna_def [VStr s; varr2 acc; VInt v0; VInt (Z.of_nat k); v_optstr' vt; VBool indel; VInt heap]
    = Ret (VTuple [VList (map VStr cands); VTuple [VInt d; VBool flag; VInt count; VInt visited]])
    /\ 0 <= visited <= Z.of_nat (length s) * (1 + 16 * Z.of_nat k * Z.of_nat k) /\ 0 <= d <= Z.of_nat (length s).
Proof.
  intros ce fuel s acc v0 k vt indel heap Hce Hk Hs Hn Hv Ha Hks Hheap Hvt Hfuel.
  destruct (repair_total s acc v0 k vt indel heap Hk Hs Hn Hv Ha Hks) as (cands & [[[d flag] count] visited] & E & Hl & Hd).
  exists cands, d, flag, count, visited.
  rewrite (repair_dna_source ce fuel s acc v0 (Z.of_nat k) vt indel heap Hce (shaped_rows4 acc Hs) ltac:(lia) Hheap Hvt Hfuel).
  rewrite E. cbn [lookups detected] in Hl, Hd. split; [reflexivity|]. split; assumption.
Qed.

(* ---- non-vacuity: a concrete callee environment built from the models, the GC-balanced order-2 accessor (the one of
        Properties/C10.v), start vertex AC.  Every hypothesis of the theorems above is satisfiable at once, and the runs are the
        expected ones: a clean walk with its check, a clean walk with a wrong check, one substitution (two candidates without a
        check, the check singles out the original), a check that no candidate reproduces, heap limit 0. ---- *)
Definition ce_models : string -> list val -> res val := fun f args =>
  if String.eqb f "dna_to_number" then
    match args with
    | [VStr s; VBool false] => match dna_to_number_int s with Ok n => Ret (VInt n) | Raise e => Exn e | OutOfFuel => Fuel end
    | _ => Stuck
    end
  else if String.eqb f "set_vt" then
    match args with
    | [VStr s; VInt n] => match set_vt s n with Ok r => Ret (VStr r) | Raise e => Exn e | OutOfFuel => Fuel end
    | _ => Stuck
    end
  else Stuck.
Definition gc_acc : accessor :=
  [[-1;-1;-1;-1]; [4;-1;-1;7]; [8;-1;-1;11]; [-1;-1;-1;-1]; [-1;1;2;-1]; [-1;-1;-1;-1]; [-1;-1;-1;-1]; [-1;13;14;-1];
   [-1;1;2;-1]; [-1;-1;-1;-1]; [-1;-1;-1;-1]; [-1;13;14;-1]; [-1;-1;-1;-1]; [4;-1;-1;7]; [8;-1;-1;11]; [-1;-1;-1;-1]].
Definition w_clean : list Z := [84;67;84;67;84;67;84;67;84;67;84;67].     (* TCTCTCTCTCTC, a walk from AC *)
Definition w_subst : list Z := [84;67;84;67;84;65;84;67;84;67;84;67].     (* TCTCTATCTCTC: position 5 substituted *)
Definition w_other : list Z := [84;67;84;67;84;71;84;67;84;67;84;67].     (* TCTCTGTCTCTC, the other walk one substitution away *)

Lemma ce_models_ok : repair_callees_ok ce_models.
Proof. split; intros; reflexivity. Qed.

Lemma gc_shaped : shaped gc_acc.
Proof. split; unfold rows4, entries_in_range, nrows, gc_acc; cbn [length Z.of_nat]; repeat constructor; lia. Qed.

Lemma walk_step acc v c t j : nuc_index c = Some j -> in_range acc v -> 0 <= entry acc v j -> is_walk acc (entry acc v j) t ->
  is_walk acc v (c :: t).
Proof. intros H1 H2 H3 H4. cbn [is_walk]. exists j. auto. Qed.

Lemma gc_walk : is_walk gc_acc 1 w_clean.
Proof.
  unfold w_clean.
  repeat (eapply walk_step;
    [vm_compute; reflexivity | unfold in_range, nrows; vm_compute; split; [discriminate|reflexivity] | vm_compute; discriminate
    | match goal with |- is_walk ?a ?v ?s => let v' := eval vm_compute in v in change (is_walk a v' s) end]).
  exact I.
Qed.

Example repair_knot_nonvacuous :
  (* the hypotheses *)
  repair_callees_ok ce_models /\ shaped gc_acc /\ nrows gc_acc = pow4 2 /\ in_range gc_acc 1 /\ is_walk gc_acc 1 w_clean
  /\ acgt w_subst /\ (2 <= length w_subst)%nat /\ (S (length w_subst) < 20)%nat
  /\ set_vt w_clean 2 = Ok [65;67] /\ set_vt w_other 2 = Ok [67;67]
  (* a clean walk with its check AC: returned alone, no error detected *)
  /\ run_fun (repair_env ce_models 20) 20 repair_dna_def
       [VStr w_clean; varr2 gc_acc; VInt 1; VInt 2; v_optstr' (Some [65;67]); VBool false; VInt 1000]
     = Ret (VTuple [VList [VStr w_clean]; VTuple [VInt 0; VBool false; VInt 1; VInt 12]])
  (* the same walk with a wrong check CC: nothing *)
  /\ run_fun (repair_env ce_models 20) 20 repair_dna_def
       [VStr w_clean; varr2 gc_acc; VInt 1; VInt 2; v_optstr' (Some [67;67]); VBool true; VInt 1000]
     = Ret (VTuple [VList []; VTuple [VInt 0; VBool true; VInt 1; VInt 12]])
  (* one substitution, no check: both walks one substitution away, sorted *)
  /\ run_fun (repair_env ce_models 20) 20 repair_dna_def
       [VStr w_subst; varr2 gc_acc; VInt 1; VInt 2; v_optstr' None; VBool true; VInt 1000]
     = Ret (VTuple [VList [VStr w_clean; VStr w_other]; VTuple [VInt 1; VBool false; VInt 2; VInt 14]])
  (* one substitution, check AC: repaired to the original *)
  /\ run_fun (repair_env ce_models 20) 20 repair_dna_def
       [VStr w_subst; varr2 gc_acc; VInt 1; VInt 2; v_optstr' (Some [65;67]); VBool true; VInt 1000]
     = Ret (VTuple [VList [VStr w_clean]; VTuple [VInt 1; VBool true; VInt 2; VInt 14]])
  (* one substitution, a check GC that no candidate reproduces: nothing *)
  /\ run_fun (repair_env ce_models 20) 20 repair_dna_def
       [VStr w_subst; varr2 gc_acc; VInt 1; VInt 2; v_optstr' (Some [71;67]); VBool true; VInt 1000]
     = Ret (VTuple [VList []; VTuple [VInt 1; VBool true; VInt 2; VInt 14]])
  (* heap limit 0: the candidates are not enumerated, the observed strand is tested against the check *)
  /\ run_fun (repair_env ce_models 20) 20 repair_dna_def
       [VStr w_subst; varr2 gc_acc; VInt 1; VInt 2; v_optstr' (Some [71;67]); VBool true; VInt 0]
     = Ret (VTuple [VList []; VTuple [VInt 0; VBool true; VInt 0; VInt 14]])
  (* and every run above is the model's answer (repair_dna_source at this instance) *)
  /\ run_fun (repair_env ce_models 20) 20 repair_dna_def
       [VStr w_subst; varr2 gc_acc; VInt 1; VInt 2; v_optstr' (Some [65;67]); VBool true; VInt 1000]
     = res_of_repair (Repair.repair_dna w_subst gc_acc 1 2 (Some [65;67]) true 1000).
Proof.
  split; [exact ce_models_ok|]. split; [exact gc_shaped|]. split; [reflexivity|].
  split; [unfold in_range, nrows; cbn [gc_acc length Z.of_nat]; lia|]. split; [exact gc_walk|].
  split; [unfold acgt, w_subst; repeat constructor|]. split; [cbn [w_subst length]; lia|]. split; [cbn [w_subst length]; lia|].
  split; [vm_compute; reflexivity|]. split; [vm_compute; reflexivity|].
  split; [vm_compute; reflexivity|]. split; [vm_compute; reflexivity|]. split; [vm_compute; reflexivity|].
  split; [vm_compute; reflexivity|]. split; [vm_compute; reflexivity|]. split; [vm_compute; reflexivity|].
  apply repair_dna_source.
  - exact ce_models_ok.
  - exact (shaped_rows4 gc_acc gc_shaped).
  - lia.
  - lia.
  - discriminate.
  - cbn [w_subst length]. lia.
Qed.

Print Assumptions repair_dna_source.
Print Assumptions C09_clean_source.
Print Assumptions C09_output_shape_source.
Print Assumptions C10_returns_source.
Print Assumptions repair_knot_nonvacuous.
