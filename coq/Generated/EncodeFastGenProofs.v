(* EncodeFastGenProofs.v -- the regenerated encode (dsw/spiderweb.py), fast mode, computes Coder.encode.
   Compiled on every run of the checks against the freshly generated CoderGen.v / OperationGen.v (harness/regen.py, unit "coder"). *)
From Coq Require Import Lia ZifyBool Sorting.Sorted.
From DSW Require Import MiniPy Bignum Convert Coder Spec MiniPyLemmas BignumProofs ConvertProofs CoderProofs.
(* CoderCallees last: OperationGenProofs has a one-argument callees_ok of its own *)
From DSWGen Require Import OperationGen CoderGen OperationGenProofs CoderCallees.
Open Scope Z_scope.
Open Scope string_scope.
Ltac Zify.zify_post_hook ::= Z.to_euclidean_division_equations.
Local Open Scope Z_scope.

(* Both TARGET STATEMENTS (encode_fast_gen_ok, encode_fast_gen_raise) are proved at the end of the file, with the hypotheses
   exactly as they were stated (the "(same hypotheses)" of the second written out).  callees_ok and the 0/1 range of the bits
   are not used by the proof: fast mode calls no function of dsw/operation.py, and both the program and the model index with
   whatever integer the bits give (py_get on both sides).

   Plan: the while loop `while location < len(binary_message)` is Coder.encode_fast with the list argument
   rest = skipn location bits (after the last step at a 4-way vertex with one bit left location = length bits + 1, rest = []).
   One model fuel unit per iteration (ef_loop, by induction on the model fuel); one iteration is ef_body_ok, which follows the
   model through ef_choose (the radix 4 / 2 / 1 / other branches). *)


Ltac lk := repeat (rewrite lookup_update_same || (rewrite lookup_update_other by discriminate)).

(* ---- results of the model as MiniPy results ------------------------------------------------------------------------ *)
Definition rz (r : result Z) : res val :=
  match r with Ok x => Ret (VInt x) | Raise e => Exn e | OutOfFuel => Fuel end.

Lemma nthZ_nth {A} (d : A) : forall l n, (n < length l)%nat -> nthZ l n = Some (nth n l d).
Proof.
  induction l as [|x t IH]; intros [|n] H; cbn [length] in H; cbn [nthZ nth]; try lia; [reflexivity|apply IH; lia].
Qed.

Lemma py_get_ok {A} (l : list A) i d : 0 <= i < Z.of_nat (length l) -> py_get l i = Ok (nth (Z.to_nat i) l d).
Proof.
  intro H. unfold py_get. destruct (i <? 0) eqn:E; [lia|].
  destruct ((i <? 0) || (Z.of_nat (length l) <=? i)) eqn:F; [lia|].
  rewrite (nthZ_nth d) by lia. reflexivity.
Qed.

Lemma sorted_nodup : forall l : list Z, StronglySorted Z.lt l -> NoDup l.
Proof.
  induction 1 as [|x t Ht IH Hx]; constructor; [|exact IH].
  intro Hin. rewrite Forall_forall in Hx. specialize (Hx x Hin). lia.
Qed.

Lemma nthZ_map {A B} (f : A -> B) : forall l n, nthZ (map f l) n = option_map f (nthZ l n).
Proof. induction l as [|x t IH]; intros [|n]; cbn [map nthZ option_map]; auto. Qed.

Lemma py_get_map {A B} (f : A -> B) l i :
  py_get (map f l) i = match py_get l i with Ok x => Ok (f x) | Raise e => Raise e | OutOfFuel => OutOfFuel end.
Proof.
  unfold py_get. rewrite map_length, nthZ_map.
  match goal with |- context [orb ?a ?b] => destruct (orb a b) end; [reflexivity|].
  destruct (nthZ l _); reflexivity.
Qed.

Lemma py_get_exn {A} (l : list A) i :
  match py_get l i with Ok _ => True | Raise e => e = IndexError | OutOfFuel => False end.
Proof.
  unfold py_get.
  match goal with |- context [orb ?a ?b] => destruct (orb a b) end; [reflexivity|].
  destruct (nthZ l _); reflexivity.
Qed.

Lemma nthZ_In {A} : forall (l : list A) n x, nthZ l n = Some x -> In x l.
Proof.
  induction l as [|y t IH]; intros [|n] x H; cbn [nthZ] in H; try discriminate.
  - injection H as <-. left; reflexivity.
  - right. eapply IH; eauto.
Qed.

Lemma py_get_In {A} (l : list A) i x : py_get l i = Ok x -> In x l.
Proof.
  unfold py_get.
  match goal with |- context [orb ?a ?b] => destruct (orb a b) end; [discriminate|].
  destruct (nthZ l _) eqn:E; [|discriminate]. intro H; injection H as <-. eapply nthZ_In; eauto.
Qed.

Lemma index_varr l i : index_val (varr l) (VInt i) = rz (py_get l i).
Proof.
  unfold index_val, varr. rewrite py_get_map. pose proof (py_get_exn l i) as H.
  destruct (py_get l i); cbn [rz]; [reflexivity|subst; reflexivity|contradiction].
Qed.

Lemma index_varr2 a i row : py_get a i = Ok row -> index_val (varr2 a) (VInt i) = Ret (varr row).
Proof. intro H. unfold index_val, varr2. rewrite py_get_map, H. reflexivity. Qed.

Lemma map_res_map {A B C} (f : B -> res C) (g : A -> B) (h : A -> C) l :
  Forall (fun x => f (g x) = Ret (h x)) l -> map_res f (map g l) = Ret (map h l).
Proof.
  induction 1 as [|x t Hx Ht IH]; cbn [map map_res]; [reflexivity|]. rewrite Hx, IH. reflexivity.
Qed.

(* ---- (a) where(accessor[vertex_index] >= 0)[0] ---------------------------------------------------------------------- *)
Lemma used_from_sign : forall row j,
  used_from (map (fun b : bool => if b then 0 else -1) (map (fun x => 0 <=? x) row)) j = used_from row j.
Proof.
  induction row as [|x t IH]; intro j; cbn [map used_from]; [reflexivity|].
  rewrite IH. destruct (0 <=? x); reflexivity.
Qed.

Lemma cmp_ge0 row : cmp_vals CGe (varr row) (VInt 0) = Ret (VArr (map VBool (map (fun x => 0 <=? x) row))).
Proof.
  unfold cmp_vals, varr. rewrite map_map.
  rewrite (map_res_map _ VInt (fun x => VBool (0 <=? x))); [reflexivity|].
  apply Forall_forall. intros x _. reflexivity.
Qed.

Lemma where_bools bs :
  builtin1_val BNpWhere (VArr (map VBool bs)) =
  Ret (VTuple [varr (used_indices (map (fun b : bool => if b then 0 else -1) bs))]).
Proof.
  unfold builtin1_val. rewrite (map_res_map _ VBool (fun b => b)).
  - rewrite map_id. reflexivity.
  - apply Forall_forall. intros x _. reflexivity.
Qed.

Lemma where_ge0 row :
  (x <~ cmp_vals CGe (varr row) (VInt 0) ;; y <~ builtin1_val BNpWhere x ;; index_val y (VInt 0))
  = Ret (varr (used_indices row)).
Proof.
  rewrite cmp_ge0. cbn [rbind]. rewrite where_bools. cbn [rbind]. unfold used_indices. rewrite used_from_sign. reflexivity.
Qed.

(* ---- facts about used_indices ---------------------------------------------------------------------------------------- *)
Lemma used_in_row row j : In j (used_indices row) ->
  0 <= j < Z.of_nat (length row) /\ exists x, py_get row j = Ok x /\ 0 <= x /\ In x row.
Proof.
  intro H. apply cp_used_from_in in H. destruct H as (n & -> & Hn & Hx).
  split; [lia|]. exists (nth n row (-1)). split; [|split; [exact Hx|apply nth_In; exact Hn]].
  rewrite (py_get_ok row (0 + Z.of_nat n) (-1)) by lia. do 2 f_equal. lia.
Qed.

Lemma used_nodup row : NoDup (used_indices row).
Proof. apply sorted_nodup. apply cp_used_from_sorted. Qed.

(* ---- (b) argsort(shuffles[vertex_index, used_indices])[remainder] ------------------------------------------------------ *)
Lemma nodupb_true : forall l, NoDup l -> nodupb l = true.
Proof.
  induction 1 as [|x t Hx Ht IH]; cbn [nodupb]; [reflexivity|]. rewrite IH, andb_true_r.
  assert (M : forall l, ~ In x l -> memZ x l = false).
  { induction l as [|y l IHl]; intro N; cbn [memZ]; [reflexivity|].
    rewrite IHl by (intro; apply N; right; assumption).
    destruct (x =? y) eqn:E; [exfalso; apply N; left; lia|reflexivity]. }
  rewrite M by assumption. reflexivity.
Qed.

Lemma fancy_pick srow used : Forall (fun j => 0 <= j < Z.of_nat (length srow)) used ->
  map_res (fun c => match c with
                    | VInt j => match py_get (map VInt srow) j with Ok v => Ret v | _ => Exn IndexError end
                    | _ => Stuck end) (map VInt used) = Ret (map VInt (pick srow used)).
Proof.
  intro H. unfold pick. rewrite map_map. apply map_res_map.
  eapply Forall_impl; [|exact H]. cbv beta. intros j Hj.
  rewrite py_get_map, (py_get_ok srow j (-1)) by exact Hj. reflexivity.
Qed.

Lemma argsort_varr ks : NoDup ks -> builtin1_val BNpArgsort (varr ks) = Ret (varr (argsort ks)).
Proof.
  intro H. unfold builtin1_val, varr. rewrite (map_res_map _ VInt (fun z => z)).
  - rewrite map_id. cbn [rbind]. rewrite (nodupb_true ks H). reflexivity.
  - apply Forall_forall. intros x _. reflexivity.
Qed.

Lemma shuffle_some t n v used rem :
  table_shape n (Some t) -> 0 <= v < Z.of_nat n -> NoDup used -> Forall (fun j => 0 <= j < 4) used ->
  (x <~ index_val (varr2 t) (VTuple [VInt v; varr used]) ;; y <~ builtin1_val BNpArgsort x ;; index_val y (VInt rem))
  = rz (shuffle_digit (Some t) v used rem).
Proof.
  intros [Hl Hf] Hv Hn Hu. unfold shuffle_digit.
  rewrite (py_get_ok t v []) by lia. cbn [bind].
  assert (Hr : length (nth (Z.to_nat v) t []) = 4%nat /\ NoDup (nth (Z.to_nat v) t [])).
  { rewrite Forall_forall in Hf. apply Hf. apply nth_In. lia. }
  destruct Hr as [H4 Hnd]. set (srow := nth (Z.to_nat v) t []) in *.
  unfold index_val at 1. unfold varr2 at 1. rewrite py_get_map, (py_get_ok t v []) by lia. fold srow.
  unfold varr at 1 2. rewrite fancy_pick by (rewrite H4; exact Hu). cbn [rbind].
  fold (varr (pick srow used)). rewrite argsort_varr.
  - cbn [rbind]. apply index_varr.
  - unfold pick. apply cp_nodup_map_nth; [exact Hnd|exact Hn|rewrite H4; exact Hu].
Qed.

Lemma index_nuc r : 0 <= r < 4 -> index_val (VStr [65; 67; 71; 84]) (VInt r) = Ret (VStr [nuc_char r]).
Proof.
  intro H. assert (C : r = 0 \/ r = 1 \/ r = 2 \/ r = 3) by lia.
  destruct C as [->|[->|[->| ->]]]; reflexivity.
Qed.


(* ---- the model, one step at a time ----------------------------------------------------------------------------------- *)
(* the digit chosen at a vertex: (column, (remaining bits, increment of location)) *)
Definition ef_choose (sh : option (list (list Z))) (v : Z) (used : list Z) (b0 : Z) (bits1 : list Z)
  : result (Z * (list Z * Z)) :=
  let radix := Z.of_nat (length used) in
  if radix =? 4 then
    rem' <- shuffle_digit sh v used (match bits1 with [] => b0 * 2 | b1 :: _ => b0 * 2 + b1 end) ;;
    j <- py_get used rem' ;; Ok (j, (match bits1 with [] => [] | _ :: bits2 => bits2 end, 2))
  else if radix =? 2 then
    rem' <- shuffle_digit sh v used b0 ;; j <- py_get used rem' ;; Ok (j, (bits1, 1))
  else if radix =? 1 then j <- py_get used 0 ;; Ok (j, (b0 :: bits1, 0))
  else Raise ValueError.

Lemma encode_fast_step f b0 bits1 acc v sh :
  encode_fast (S f) (b0 :: bits1) acc v sh =
  row <- py_get acc v ;;
  c <- ef_choose sh v (used_indices row) b0 bits1 ;;
  nxt <- py_get row (fst c) ;; rest <- encode_fast f (fst (snd c)) acc nxt sh ;; Ok (nuc_char (fst c) :: rest).
Proof.
  cbn [encode_fast]. destruct (py_get acc v) as [row| |]; cbn [bind]; try reflexivity.
  unfold ef_choose.
  destruct (Z.of_nat (length (used_indices row)) =? 4).
  - destruct bits1 as [|b1 bits2];
      (destruct (shuffle_digit sh v (used_indices row) _) as [rem'| |]; cbn [bind]; try reflexivity;
       destruct (py_get (used_indices row) rem'); reflexivity).
  - destruct (Z.of_nat (length (used_indices row)) =? 2).
    + destruct (shuffle_digit sh v (used_indices row) _) as [rem'| |]; cbn [bind]; try reflexivity;
       destruct (py_get (used_indices row) rem'); reflexivity.
    + destruct (Z.of_nat (length (used_indices row)) =? 1); [|reflexivity].
      destruct (py_get (used_indices row) 0); reflexivity.
Qed.

Lemma skipn_cons_inv {A} : forall n (l : list A) x t, skipn n l = x :: t ->
  nthZ l n = Some x /\ skipn (S n) l = t /\ (n < length l)%nat.
Proof.
  induction n as [|n IH]; intros [|y l] x t H; cbn [skipn] in H; try discriminate.
  - injection H as -> ->. cbn [nthZ skipn length]. repeat split. lia.
  - destruct (IH l x t H) as (H1 & H2 & H3). cbn [nthZ length]. repeat split; [exact H1|exact H2|lia].
Qed.

Lemma skipn_nil_iff {A} n (l : list A) : skipn n l = [] <-> (length l <= n)%nat.
Proof.
  split; intro H.
  - pose proof (skipn_length n l) as E. rewrite H in E. cbn [length] in E. lia.
  - apply skipn_all2. exact H.
Qed.

Lemma py_get_nthZ {A} (l : list A) i x : 0 <= i -> nthZ l (Z.to_nat i) = Some x -> (Z.to_nat i < length l)%nat ->
  py_get l i = Ok x.
Proof.
  intros Hi H Hl. unfold py_get.
  destruct (i <? 0) eqn:E; [lia|].
  destruct ((i <? 0) || (Z.of_nat (length l) <=? i)) eqn:F; [lia|]. rewrite H. reflexivity.
Qed.

(* the bits read at location loc *)
Lemma bits_at (bits : list Z) loc b0 bits1 : 0 <= loc -> skipn (Z.to_nat loc) bits = b0 :: bits1 ->
  py_get bits loc = Ok b0 /\ skipn (Z.to_nat (loc + 1)) bits = bits1 /\ loc < Z.of_nat (length bits).
Proof.
  intros Hl H. destruct (skipn_cons_inv _ _ _ _ H) as (H1 & H2 & H3).
  split; [apply py_get_nthZ; assumption|]. split; [|lia].
  replace (Z.to_nat (loc + 1)) with (S (Z.to_nat loc)) by lia. exact H2.
Qed.

Lemma ef_choose_skipn sh v used (bits : list Z) loc b0 bits1 j rest' d :
  0 <= loc -> skipn (Z.to_nat loc) bits = b0 :: bits1 ->
  ef_choose sh v used b0 bits1 = Ok (j, (rest', d)) ->
  rest' = skipn (Z.to_nat (loc + d)) bits /\ 0 <= d.
Proof.
  intros Hl H HC. destruct (bits_at _ _ _ _ Hl H) as (_ & H1 & _).
  unfold ef_choose in HC.
  destruct (Z.of_nat (length used) =? 4).
  - destruct (shuffle_digit sh v used _) as [rem'| |]; cbn [bind] in HC; try discriminate.
    destruct (py_get used rem'); cbn [bind] in HC; try discriminate. injection HC as _ <- <-.
    split; [|lia]. destruct bits1 as [|b1 bits2].
    + symmetry. apply skipn_nil_iff. apply skipn_nil_iff in H1. lia.
    + assert (Hl1 : 0 <= loc + 1) by lia.
      destruct (bits_at _ _ _ _ Hl1 H1) as (_ & H2 & _). rewrite <- H2. f_equal. lia.
  - destruct (Z.of_nat (length used) =? 2).
    + destruct (shuffle_digit sh v used _) as [rem'| |]; cbn [bind] in HC; try discriminate.
      destruct (py_get used rem'); cbn [bind] in HC; try discriminate. injection HC as _ <- <-.
      split; [symmetry; exact H1|lia].
    + destruct (Z.of_nat (length used) =? 1); [|discriminate].
      destruct (py_get used 0); cbn [bind] in HC; try discriminate. injection HC as _ <- <-.
      split; [|lia]. rewrite Z.add_0_r. symmetry; exact H.
Qed.

Lemma ef_choose_in sh v used b0 bits1 j rest' d :
  ef_choose sh v used b0 bits1 = Ok (j, (rest', d)) -> In j used.
Proof.
  unfold ef_choose. intro HC.
  destruct (Z.of_nat (length used) =? 4).
  - destruct (shuffle_digit sh v used _) as [rem'| |]; cbn [bind] in HC; try discriminate.
    destruct (py_get used rem') eqn:E; cbn [bind] in HC; try discriminate. injection HC as <- _ _.
    eapply py_get_In; eauto.
  - destruct (Z.of_nat (length used) =? 2).
    + destruct (shuffle_digit sh v used _) as [rem'| |]; cbn [bind] in HC; try discriminate.
      destruct (py_get used rem') eqn:E; cbn [bind] in HC; try discriminate. injection HC as <- _ _.
      eapply py_get_In; eauto.
    + destruct (Z.of_nat (length used) =? 1); [|discriminate].
      destruct (py_get used 0) eqn:E; cbn [bind] in HC; try discriminate. injection HC as <- _ _.
      eapply py_get_In; eauto.
Qed.


(* ---- the pieces of the fast-mode loop of encode_def ------------------------------------------------------------------ *)
Definition ef_cond : expr := (ECmp CLt (EVar "location"%string) (EB1 BLen (EVar "binary_message"%string))).
Definition ef_used : stmt :=
 (SAssign (TVar "used_indices"%string) (EIndex (EB1 BNpWhere (ECmp CGe (EIndex (EVar "accessor"%string) (EVar "vertex_index"%string)) (EInt (0)))) (EInt (0)))).
Definition ef_radix : stmt := (SAssign (TVar "radix"%string) (EB1 BLen (EVar "used_indices"%string))).
Definition ef_shuffle : stmt :=
 (SIf (ENot (EB1 BIsNone (EVar "shuffles"%string)))
 (SAssign (TVar "remainder"%string) (EIndex (EB1 BNpArgsort (EIndex (EVar "shuffles"%string) (ETuple [(EVar "vertex_index"%string); (EVar "used_indices"%string)]))) (EVar "remainder"%string)))
 SSkip).
Definition ef_value : stmt := (SAssign (TVar "value"%string) (EIndex (EVar "used_indices"%string) (EVar "remainder"%string))).
Definition ef_rem4 : stmt :=
 (SIf (ECmp CLt (EBin Add (EVar "location"%string) (EInt (1))) (EB1 BLen (EVar "binary_message"%string)))
 (SAssign (TVar "remainder"%string) (EBin Add (EBin Mul (EIndex (EVar "binary_message"%string) (EVar "location"%string)) (EInt (2))) (EIndex (EVar "binary_message"%string) (EBin Add (EVar "location"%string) (EInt (1))))))
 (SAssign (TVar "remainder"%string) (EBin Mul (EIndex (EVar "binary_message"%string) (EVar "location"%string)) (EInt (2))))).
Definition ef_rem2 : stmt := (SAssign (TVar "remainder"%string) (EIndex (EVar "binary_message"%string) (EVar "location"%string))).
Definition ef_aug (d : Z) : stmt := (SAug (TVar "location"%string) Add (EInt d)).
Definition ef_rest (d : Z) : stmt := SSeq ef_shuffle (SSeq ef_value (ef_aug d)).
Definition ef_r4 : stmt := SSeq ef_rem4 (ef_rest 2).
Definition ef_r2 : stmt := SSeq ef_rem2 (ef_rest 1).
Definition ef_r1 : stmt := (SAssign (TVar "value"%string) (EIndex (EVar "used_indices"%string) (EInt (0)))).
Definition ef_ifs : stmt :=
 (SIf (ECmp CEq (EVar "radix"%string) (EInt (4))) ef_r4
 (SIf (ECmp CEq (EVar "radix"%string) (EInt (2))) ef_r2
 (SIf (ECmp CEq (EVar "radix"%string) (EInt (1))) ef_r1
 (SIf (ECmp CEq (EVar "radix"%string) (EInt (3)))
 (SRaise ValueError)
 (SRaise ValueError))))).
Definition ef_post : stmt :=
 (SSeq (SAssign (TTuple ["nucleotide"%string; "vertex_index"%string]) (ETuple [(EIndex (EVar "nucleotides"%string) (EVar "value"%string)); (EIndex (EIndex (EVar "accessor"%string) (EVar "vertex_index"%string)) (EVar "value"%string))]))
 (SSeq (SAug (TVar "dna_sequence"%string) Add (EIndex (EVar "nucleotides"%string) (EVar "value"%string)))
 (SSeq (SIf (EVar "need_path"%string)
 (SAppend "record_path"%string (EList [(EVar "vertex_index"%string); (EB1 BInt (ECmp CGt (EVar "radix"%string) (EInt (1))))]))
 SSkip)
 (SIf (EVar "verbose"%string)
 (SExpr (ETuple [(EBin Add (EVar "location"%string) (EInt (1))); (EB1 BLen (EVar "binary_message"%string))]))
 SSkip)))).
Definition ef_body : stmt := SSeq ef_used (SSeq ef_radix (SSeq ef_ifs ef_post)).
Definition ef_tail : stmt :=
 (SSeq (SIf (EVar "need_path"%string)
 (SAssign (TVar "record_path"%string) (EB1 BNpArray (EVar "record_path"%string)))
 SSkip)
 (SIf (ECmp CGt (EVar "vt_length"%string) (EInt (0)))
 (SSeq (SAssign (TVar "vt_check"%string) (ECall "set_vt"%string [(EVar "dna_sequence"%string); (EVar "vt_length"%string)]))
 (SIf (EVar "need_path"%string)
 (SReturn (ETuple [(EVar "dna_sequence"%string); (ECall "set_vt"%string [(EVar "dna_sequence"%string); (EVar "vt_length"%string)]); (EVar "record_path"%string)]))
 (SReturn (ETuple [(EVar "dna_sequence"%string); (EVar "vt_check"%string)]))))
 (SIf (EVar "need_path"%string)
 (SReturn (ETuple [(EVar "dna_sequence"%string); (EVar "record_path"%string)]))
 (SReturn (EVar "dna_sequence"%string))))).

(* the generated program is built from exactly these pieces *)
Definition ef_init : stmt :=
 (SAssign (TTuple ["monitor"%string; "record_path"%string; "vertex_index"%string; "dna_sequence"%string; "nucleotides"%string]) (ETuple [EOpaque; (EList []); (EVar "start_index"%string); (EStr []); (EStr [65; 67; 71; 84])])).
Definition ef_loc0 : stmt := (SAssign (TVar "location"%string) (EInt (0))).
Lemma encode_def_fast_shape : exists b,
  body encode_def =
  SSeq ef_init (SSeq (SIf (ENot (EVar "is_faster")) b (SSeq ef_loc0 (SWhile ef_cond ef_body))) ef_tail).
Proof. eexists. reflexivity. Qed.


Ltac step := cbn [exec eval lift seq rbind assign items bind_tuple builtin1_val builtin2_val binop_vals binop_scalar
                  cmp_vals cmp_scalar is_arr orb truthy mixes_bool type_is val_eqb negb].

Local Arguments builtin1_val !f !a /.
Local Arguments cmp_vals o !a !b /.
Local Arguments binop_vals o !a !b /.
Local Arguments truthy !v /.

Lemma len_varr l : builtin1_val BLen (varr l) = Ret (VInt (Z.of_nat (length l))).
Proof. unfold varr, builtin1_val. rewrite map_length. reflexivity. Qed.
Lemma index_tuple1 x : index_val (VTuple [x]) (VInt 0) = Ret x.
Proof. reflexivity. Qed.
Lemma isnone_table sh : builtin1_val BIsNone (v_table sh) = Ret (VBool (match sh with None => true | Some _ => false end)).
Proof. destruct sh; reflexivity. Qed.

Lemma fancy_index t n v used :
  table_shape n (Some t) -> 0 <= v < Z.of_nat n -> NoDup used -> Forall (fun j => 0 <= j < 4) used ->
  exists srow, py_get t v = Ok srow /\ index_val (varr2 t) (VTuple [VInt v; varr used]) = Ret (varr (pick srow used)) /\
               NoDup (pick srow used).
Proof.
  intros [Hl Hf] Hv Hn Hu. exists (nth (Z.to_nat v) t []).
  assert (Hr : length (nth (Z.to_nat v) t []) = 4%nat /\ NoDup (nth (Z.to_nat v) t [])).
  { rewrite Forall_forall in Hf. apply Hf. apply nth_In. lia. }
  destruct Hr as [H4 Hnd]. set (srow := nth (Z.to_nat v) t []) in *.
  assert (Hg : py_get t v = Ok srow) by (apply py_get_ok; lia).
  split; [exact Hg|split].
  - unfold index_val, varr2. rewrite py_get_map, Hg. unfold varr at 1 2.
    rewrite fancy_pick by (rewrite H4; exact Hu). reflexivity.
  - unfold pick. apply cp_nodup_map_nth; [exact Hnd|exact Hn|rewrite H4; exact Hu].
Qed.

Lemma used_indices_sign row :
  used_indices (map (fun b : bool => if b then 0 else -1) (map (fun x => 0 <=? x) row)) = used_indices row.
Proof. apply used_from_sign. Qed.

Section Fast.
  Variable ce : string -> list val -> res val.
  Variable fuel : nat.
  Variable bits : list Z.
  Variable acc : list (list Z).
  Variable sh : option (list (list Z)).
  Variable verbose : bool.
  Hypothesis Hacc : acc_shape acc.
  Hypothesis Hsh : table_shape (length acc) sh.

  (* shuffle the remainder, pick the column *)
  Lemma ef_sv_ok en v used rem :
    lookup "shuffles" en = Ret (v_table sh) -> lookup "vertex_index" en = Ret (VInt v) ->
    lookup "used_indices" en = Ret (varr used) -> lookup "remainder" en = Ret (VInt rem) ->
    0 <= v < Z.of_nat (length acc) -> NoDup used -> Forall (fun j => 0 <= j < 4) used ->
    match (rem' <- shuffle_digit sh v used rem ;; py_get used rem') with
    | Ok j => exists en', exec ce fuel (SSeq ef_shuffle ef_value) en = ONormal en' /\
                lookup "value" en' = Ret (VInt j) /\
                forall x, x <> "remainder" -> x <> "value" -> lookup x en' = lookup x en
    | Raise e => exec ce fuel (SSeq ef_shuffle ef_value) en = OExn e
    | OutOfFuel => False
    end.
  Proof.
    intros HS HV HU HR Hv Hnd Hu. unfold ef_shuffle, ef_value. step. rewrite HS. step. rewrite isnone_table.
    destruct sh as [t|].
    - destruct (fancy_index t _ v used Hsh Hv Hnd Hu) as (srow & Hg & Hi & Hp).
      step. rewrite HV, HU, HR. step. change (v_table (Some t)) with (varr2 t). rewrite Hi. step.
      rewrite (argsort_varr _ Hp). step. rewrite index_varr.
      unfold shuffle_digit. rewrite Hg. cbn [bind].
      destruct (py_get (argsort (pick srow used)) rem) as [rem'|e|] eqn:E; cbn [rz bind]; step.
      + lk. rewrite HU. step. rewrite index_varr. pose proof (py_get_exn used rem') as X.
        destruct (py_get used rem') as [j|e|]; cbn [rz]; step; [|reflexivity|contradiction].
        eexists. split; [reflexivity|]. split; [lk; reflexivity|]. intros x N1 N2. rewrite !lookup_update_other by assumption. reflexivity.
      + reflexivity.
      + pose proof (py_get_exn (argsort (pick srow used)) rem) as X. rewrite E in X. exact X.
    - step. rewrite HU, HR. step. rewrite index_varr. cbn [shuffle_digit bind].
      pose proof (py_get_exn used rem) as X.
      destruct (py_get used rem) as [j|e|]; cbn [rz]; step; [|reflexivity|contradiction].
      eexists. split; [reflexivity|]. split; [lk; reflexivity|]. intros x N1 N2. rewrite !lookup_update_other by assumption. reflexivity.
  Qed.

  Lemma exec_seq3 a b c en :
    exec ce fuel (SSeq a (SSeq b c)) en = seq (exec ce fuel (SSeq a b) en) (exec ce fuel c).
  Proof. cbn [exec]. destruct (exec ce fuel a en); reflexivity. Qed.

  Lemma ef_rest_ok d en loc v used rem :
    lookup "shuffles" en = Ret (v_table sh) -> lookup "vertex_index" en = Ret (VInt v) ->
    lookup "used_indices" en = Ret (varr used) -> lookup "remainder" en = Ret (VInt rem) ->
    lookup "location" en = Ret (VInt loc) ->
    0 <= v < Z.of_nat (length acc) -> NoDup used -> Forall (fun j => 0 <= j < 4) used ->
    match (rem' <- shuffle_digit sh v used rem ;; py_get used rem') with
    | Ok j => exists en', exec ce fuel (ef_rest d) en = ONormal en' /\
                lookup "value" en' = Ret (VInt j) /\ lookup "location" en' = Ret (VInt (loc + d)) /\
                forall x, x <> "remainder" -> x <> "value" -> x <> "location" -> lookup x en' = lookup x en
    | Raise e => exec ce fuel (ef_rest d) en = OExn e
    | OutOfFuel => False
    end.
  Proof.
    intros HS HV HU HR HL Hv Hnd Hu. pose proof (ef_sv_ok en v used rem HS HV HU HR Hv Hnd Hu) as H.
    unfold ef_rest. rewrite exec_seq3.
    destruct (rem' <- shuffle_digit sh v used rem ;; py_get used rem') as [j|e|]; [|rewrite H; reflexivity|exact H].
    destruct H as (en1 & E & HJ & HF). rewrite E. cbn [seq]. unfold ef_aug. step.
    rewrite HF by discriminate. rewrite HL. step.
    eexists. split; [reflexivity|]. split; [lk; exact HJ|]. split; [lk; reflexivity|].
    intros x N1 N2 N3. rewrite lookup_update_other by assumption. apply HF; assumption.
  Qed.

  Ltac fr HF := repeat match goal with |- context [lookup ?x _] => rewrite (HF x) by discriminate end.
  Ltac lks := repeat (lk; match goal with H : lookup _ _ = Ret _ |- _ => rewrite H end); lk.

  Lemma ef_ifs_ok en loc v used b0 bits1 :
    lookup "binary_message" en = Ret (varr bits) ->
    lookup "shuffles" en = Ret (v_table sh) -> lookup "vertex_index" en = Ret (VInt v) ->
    lookup "used_indices" en = Ret (varr used) -> lookup "radix" en = Ret (VInt (Z.of_nat (length used))) ->
    lookup "location" en = Ret (VInt loc) ->
    0 <= loc -> skipn (Z.to_nat loc) bits = b0 :: bits1 ->
    0 <= v < Z.of_nat (length acc) -> NoDup used -> Forall (fun j => 0 <= j < 4) used ->
    match ef_choose sh v used b0 bits1 with
    | Ok (j, (_, d)) => exists en', exec ce fuel ef_ifs en = ONormal en' /\
                lookup "value" en' = Ret (VInt j) /\ lookup "location" en' = Ret (VInt (loc + d)) /\
                forall x, x <> "remainder" -> x <> "value" -> x <> "location" -> lookup x en' = lookup x en
    | Raise e => exec ce fuel ef_ifs en = OExn e
    | OutOfFuel => False
    end.
  Proof.
    intros HB HS HV HU HX HL Hl Hsk Hv Hnd Hu.
    destruct (bits_at _ _ _ _ Hl Hsk) as (Hb0 & Hsk1 & Hlt).
    assert (FIN : forall d rem en1, 
      lookup "remainder" en1 = Ret (VInt rem) ->
      (forall x, x <> "remainder" -> lookup x en1 = lookup x en) ->
      forall (bs : list Z),
      match (rem' <- shuffle_digit sh v used rem ;; j <- py_get used rem' ;; Ok (j, (bs, d))) with
      | Ok (j, (_, d')) => exists en', exec ce fuel (ef_rest d) en1 = ONormal en' /\
                lookup "value" en' = Ret (VInt j) /\ lookup "location" en' = Ret (VInt (loc + d')) /\
                forall x, x <> "remainder" -> x <> "value" -> x <> "location" -> lookup x en' = lookup x en
      | Raise e => exec ce fuel (ef_rest d) en1 = OExn e
      | OutOfFuel => False
      end).
    { intros d rem en1 HR HF bs.
      pose proof (ef_rest_ok d en1 loc v used rem) as H. rewrite (HF "shuffles"), (HF "vertex_index"), (HF "used_indices"), (HF "location") in H by discriminate.
      specialize (H HS HV HU HR HL Hv Hnd Hu).
      destruct (shuffle_digit sh v used rem) as [rem'|e|]; cbn [bind] in *; [|exact H|exact H].
      destruct (py_get used rem') as [j|e|]; cbn [bind] in *; [|exact H|exact H].
      destruct H as (en' & E & H1 & H2 & H3). exists en'. repeat split; try assumption.
      intros x N1 N2 N3. rewrite H3 by assumption. apply HF; assumption. }
    unfold ef_ifs, ef_choose. rewrite exec_if. step. rewrite HX. step.
    destruct (Z.of_nat (length used) =? 4) eqn:E4.
    - unfold ef_r4. rewrite exec_seq. unfold ef_rem4. step. lks. step. rewrite len_varr. step.
      destruct bits1 as [|b1 bits2].
      + apply skipn_nil_iff in Hsk1.
        destruct (loc + 1 <? Z.of_nat (length bits)) eqn:EL; [lia|].
        step. rewrite index_varr, Hb0. cbn [rz]. step.
        apply FIN; [lk; reflexivity|]. intros x N. rewrite lookup_update_other by assumption. reflexivity.
      + assert (Hl1 : 0 <= loc + 1) by lia.
        destruct (bits_at _ _ _ _ Hl1 Hsk1) as (Hb1 & _ & Hlt1).
        destruct (loc + 1 <? Z.of_nat (length bits)) eqn:EL; [|lia].
        step. rewrite !index_varr, Hb0, Hb1. cbn [rz]. step.
        apply FIN; [lk; reflexivity|]. intros x N. rewrite lookup_update_other by assumption. reflexivity.
    - destruct (Z.of_nat (length used) =? 2) eqn:E2.
      + unfold ef_r2. rewrite exec_seq. unfold ef_rem2. step. lks. step. rewrite index_varr, Hb0. cbn [rz]. step.
        apply FIN; [lk; reflexivity|]. intros x N. rewrite lookup_update_other by assumption. reflexivity.
      + destruct (Z.of_nat (length used) =? 1) eqn:E1.
        * unfold ef_r1. step. lks. step. rewrite index_varr.
          pose proof (py_get_exn used 0) as X.
          destruct (py_get used 0) as [j|e|]; cbn [rz bind]; step; [|reflexivity|contradiction].
          eexists. split; [reflexivity|]. split; [lk; reflexivity|]. split; [lk; rewrite HL; do 2 f_equal; lia|].
          intros x N1 N2 N3. rewrite lookup_update_other by assumption. reflexivity.
        * destruct (Z.of_nat (length used) =? 3); reflexivity.
  Qed.

  Lemma acc_row v : 0 <= v < Z.of_nat (length acc) ->
    exists row, py_get acc v = Ok row /\ length row = 4%nat /\ Forall (fun x => -1 <= x < Z.of_nat (length acc)) row.
  Proof.
    intro Hv. exists (nth (Z.to_nat v) acc []). split; [apply py_get_ok; exact Hv|].
    unfold acc_shape in Hacc. rewrite Forall_forall in Hacc. apply Hacc. apply nth_In. lia.
  Qed.

  Lemma ef_body_ok en loc v dna b0 bits1 row :
    lookup "binary_message" en = Ret (varr bits) -> lookup "accessor" en = Ret (varr2 acc) ->
    lookup "shuffles" en = Ret (v_table sh) -> lookup "need_path" en = Ret (VBool false) ->
    lookup "verbose" en = Ret (VBool verbose) -> lookup "nucleotides" en = Ret (VStr [65; 67; 71; 84]) ->
    lookup "location" en = Ret (VInt loc) -> lookup "vertex_index" en = Ret (VInt v) ->
    lookup "dna_sequence" en = Ret (VStr dna) ->
    0 <= loc -> skipn (Z.to_nat loc) bits = b0 :: bits1 -> 0 <= v < Z.of_nat (length acc) ->
    py_get acc v = Ok row ->
    match ef_choose sh v (used_indices row) b0 bits1 with
    | Ok (j, (_, d)) =>
        exists en' nxt, exec ce fuel ef_body en = ONormal en' /\
          py_get row j = Ok nxt /\ 0 <= nxt < Z.of_nat (length acc) /\
          lookup "location" en' = Ret (VInt (loc + d)) /\ lookup "vertex_index" en' = Ret (VInt nxt) /\
          lookup "dna_sequence" en' = Ret (VStr (dna ++ [nuc_char j])) /\
          forall x, x <> "used_indices" -> x <> "radix" -> x <> "remainder" -> x <> "value" -> x <> "location" ->
                    x <> "nucleotide" -> x <> "vertex_index" -> x <> "dna_sequence" -> lookup x en' = lookup x en
    | Raise e => exec ce fuel ef_body en = OExn e
    | OutOfFuel => False
    end.
  Proof.
    intros HB HA HS HP HVb HN HL HV HD Hl Hsk Hv Hrow.
    destruct (acc_row v Hv) as (row' & Hrow' & H4 & Hent). rewrite Hrow in Hrow'. injection Hrow' as <-.
    assert (Hu : Forall (fun j => 0 <= j < 4) (used_indices row)).
    { apply Forall_forall. intros j Hj. apply used_in_row in Hj. rewrite H4 in Hj. lia. }
    unfold ef_body. rewrite exec_seq. unfold ef_used. step. lks. step. rewrite (index_varr2 _ _ _ Hrow). step.
    rewrite cmp_ge0. cbn [rbind]. rewrite where_bools. cbn [rbind]. rewrite index_tuple1. step.
    rewrite used_indices_sign.
    rewrite ?exec_seq. unfold ef_radix. step. lks. step. rewrite len_varr. step.
    rewrite ?exec_seq.
    match goal with |- context [exec ce fuel ef_ifs ?E] =>
      pose proof (ef_ifs_ok E loc v (used_indices row) b0 bits1) as H end.
    repeat (rewrite lookup_update_same in H || (rewrite lookup_update_other in H by discriminate)).
    specialize (H HB HS HV eq_refl eq_refl HL Hl Hsk Hv (used_nodup row) Hu).
    pose proof (ef_choose_in sh v (used_indices row) b0 bits1) as HIN.
    destruct (ef_choose sh v (used_indices row) b0 bits1) as [[j [rest' d]]|e|]; [|rewrite H; reflexivity|exact H].
    destruct H as (en1 & E & HJ & HL1 & HF). rewrite E. cbn [seq].
    specialize (HIN j rest' d eq_refl). pose proof HIN as HIN'. apply used_in_row in HIN'.
    destruct HIN' as (Hj4 & nxt & Hnxt & Hn0 & Hnin). rewrite H4 in Hj4.
    rewrite Forall_forall in Hent. specialize (Hent nxt Hnin). cbv beta in Hent.
    unfold ef_post. step. fr HF. lks. step.
    rewrite (index_nuc j Hj4). step. rewrite (index_varr2 _ _ _ Hrow). step. rewrite index_varr, Hnxt. cbn [rz]. step.
    lk. fr HF. lks. step. rewrite (index_nuc j Hj4). step.
    lk. fr HF. lks. step.
    lk. fr HF. lks. step.
    match goal with |- context [ONormal ?E] => set (en2 := E) end.
    exists en2, nxt.
    split.
    { destruct verbose; [|reflexivity]. step. rewrite len_varr. step. reflexivity. }
    split; [reflexivity|]. split; [lia|]. unfold en2.
    split; [lk; exact HL1|]. split; [lk; reflexivity|]. split; [lk; reflexivity|].
    intros x N1 N2 N3 N4 N5 N6 N7 N8. rewrite !lookup_update_other by assumption.
    rewrite HF by assumption. rewrite !lookup_update_other by assumption. reflexivity.
  Qed.


  Lemma ef_loop : forall mf rest n en loc v dna,
    lookup "binary_message" en = Ret (varr bits) -> lookup "accessor" en = Ret (varr2 acc) ->
    lookup "shuffles" en = Ret (v_table sh) -> lookup "need_path" en = Ret (VBool false) ->
    lookup "verbose" en = Ret (VBool verbose) -> lookup "nucleotides" en = Ret (VStr [65; 67; 71; 84]) ->
    lookup "location" en = Ret (VInt loc) -> lookup "vertex_index" en = Ret (VInt v) ->
    lookup "dna_sequence" en = Ret (VStr dna) ->
    0 <= loc -> rest = skipn (Z.to_nat loc) bits -> 0 <= v < Z.of_nat (length acc) -> (mf < n)%nat ->
    match encode_fast mf rest acc v sh with
    | Ok s => exists en', while_loop ce fuel ef_cond ef_body n en = ONormal en' /\
                lookup "dna_sequence" en' = Ret (VStr (dna ++ s)) /\
                lookup "need_path" en' = Ret (VBool false) /\
                lookup "vt_length" en' = lookup "vt_length" en
    | Raise e => while_loop ce fuel ef_cond ef_body n en = OExn e
    | OutOfFuel => True
    end.
  Proof.
    induction mf as [|f IH]; intros rest n en loc v dna HB HA HS HP HVb HN HL HV HD Hl Hsk Hv Hn;
      (destruct n as [|n]; [lia|]); cbn [while_loop]; unfold ef_cond; step; rewrite HL, HB; step;
      rewrite len_varr; step; fold ef_cond;
      (destruct rest as [|b0 bits1];
       [ symmetry in Hsk; apply skipn_nil_iff in Hsk;
         destruct (loc <? Z.of_nat (length bits)) eqn:EL; [lia|]; cbn [encode_fast];
         exists en; rewrite app_nil_r; auto
       | symmetry in Hsk; destruct (bits_at _ _ _ _ Hl Hsk) as (_ & _ & Hlt);
         destruct (loc <? Z.of_nat (length bits)) eqn:EL; [|lia] ]).
    - cbn [encode_fast]. exact I.
    - rewrite encode_fast_step.
      destruct (acc_row v Hv) as (row & Hrow & _). rewrite Hrow. cbn [bind].
      pose proof (ef_body_ok en loc v dna b0 bits1 row HB HA HS HP HVb HN HL HV HD Hl Hsk Hv Hrow) as H.
      pose proof (ef_choose_skipn sh v (used_indices row) bits loc b0 bits1) as HSK.
      destruct (ef_choose sh v (used_indices row) b0 bits1) as [[j [rest' d]]|e|]; cbn [bind fst snd];
        [|rewrite H; reflexivity|contradiction].
      destruct H as (en' & nxt & E & Hnxt & Hnr & HL' & HV' & HD' & HF). rewrite E, Hnxt. cbn [seq bind].
      destruct (HSK j rest' d Hl Hsk eq_refl) as [Hsk' Hd].
      assert (Hl' : 0 <= loc + d) by lia.
      assert (Hn' : (f < n)%nat) by lia.
      pose proof (IH rest' n en' (loc + d) nxt (dna ++ [nuc_char j])%list) as H.
      rewrite !HF in H by discriminate.
      specialize (H HB HA HS HP HVb HN HL' HV' HD' Hl' Hsk' Hnr Hn').
      destruct (encode_fast f rest' acc nxt sh) as [s|e|]; cbn [bind]; [|exact H|exact I].
      destruct H as (en'' & E' & H1 & H2 & H3). exists en''. rewrite <- app_assoc in H1. cbn [app] in H1.
      split; [exact E'|]. split; [exact H1|]. split; [exact H2|]. rewrite H3. apply HF; discriminate.
  Qed.

  Lemma ef_tail_ok en s vt :
    set_vt_callee ce fuel -> 0 <= vt -> (2 * Z.to_nat vt < fuel)%nat ->
    lookup "dna_sequence" en = Ret (VStr s) -> lookup "need_path" en = Ret (VBool false) ->
    lookup "vt_length" en = Ret (VInt vt) ->
    exec ce fuel ef_tail en =
    match (if 0 <? vt then chk <- set_vt s vt ;; Ok (s, Some chk) else Ok (s, None)) with
    | Ok r => OReturn (res_of_encode r)
    | Raise e => OExn e
    | OutOfFuel => OFuel
    end.
  Proof.
    intros Hset Hvt Hf HD HP HV. unfold ef_tail. step. rewrite HP. step. rewrite HV. step.
    destruct (0 <? vt) eqn:E; step; rewrite ?HD, ?HV, ?HP; step.
    - rewrite (Hset s vt) by lia. destruct (set_vt s vt) as [c|e|]; cbn [res_of_str bind]; step; try reflexivity.
      lk. rewrite HP. step. lk. rewrite HD. step. reflexivity.
    - reflexivity.
  Qed.
End Fast.

Lemma exec_assign ce fuel t e en : exec ce fuel (SAssign t e) en = lift (eval ce en e) (fun v => assign ce t v en).
Proof. reflexivity. Qed.

Ltac stepc := cbn [eval lift seq rbind assign items bind_tuple builtin1_val builtin2_val binop_vals binop_scalar
                   cmp_vals cmp_scalar is_arr orb truthy mixes_bool type_is val_eqb negb
                   lookup update String.eqb Ascii.eqb Bool.eqb].

(* both outcomes of the model at once *)
Lemma encode_fast_gen_both ce fuel bits acc v vt sh verbose mf :
  set_vt_callee ce fuel ->
  acc_shape acc -> 0 <= v < Z.of_nat (length acc) -> table_shape (length acc) sh ->
  0 <= vt -> (2 * Z.to_nat vt < fuel)%nat -> (mf < fuel)%nat ->
  match Coder.encode bits acc v true vt sh mf with
  | Ok r => run_fun ce fuel encode_def [varr bits; varr2 acc; VInt v; VBool true; VInt vt; v_table sh; VBool false; VBool verbose]
            = Ret (res_of_encode r)
  | Raise e => run_fun ce fuel encode_def [varr bits; varr2 acc; VInt v; VBool true; VInt vt; v_table sh; VBool false; VBool verbose]
            = Exn e
  | OutOfFuel => True
  end.
Proof.
  intros Hset Hacc Hv Hsh Hvt Hf Hmf.
  destruct encode_def_fast_shape as (b & EB). unfold run_fun. rewrite EB. cbn [params encode_def bind_params].
  rewrite exec_seq. unfold ef_init. rewrite exec_assign. stepc. rewrite exec_seq, exec_if. stepc.
  rewrite exec_seq. unfold ef_loc0. rewrite exec_assign. stepc. rewrite exec_while.
  match goal with |- context [while_loop ce fuel ef_cond ef_body fuel ?E] => set (en0 := E) end.
  pose proof (ef_loop ce fuel bits acc sh verbose Hacc Hsh mf bits fuel en0 0 v []
                eq_refl eq_refl eq_refl eq_refl eq_refl eq_refl eq_refl eq_refl eq_refl
                ltac:(lia) eq_refl Hv Hmf) as HL.
  unfold Coder.encode.
  destruct (encode_fast mf bits acc v sh) as [s|e|]; cbn [bind]; [|rewrite HL; reflexivity|exact I].
  destruct HL as (en' & EL & HD & HP & HVT). rewrite EL. cbn [seq app] in *.
  rewrite (ef_tail_ok ce fuel en' s vt Hset Hvt Hf HD HP HVT).
  destruct (if 0 <? vt then chk <- set_vt s vt ;; Ok (s, Some chk) else Ok (s, None)); cbn [bind]; first [reflexivity | exact I].
Qed.

Theorem encode_fast_gen_ok : forall ce fuel bits acc v vt sh verbose mf r,
  callees_ok ce fuel -> set_vt_callee ce fuel ->
  acc_shape acc -> 0 <= v < Z.of_nat (length acc) -> table_shape (length acc) sh ->
  Forall (fun a => 0 <= a <= 1) bits -> 0 <= vt -> (2 * Z.to_nat vt < fuel)%nat -> (mf < fuel)%nat ->
  Coder.encode bits acc v true vt sh mf = Ok r ->
  run_fun ce fuel encode_def [varr bits; varr2 acc; VInt v; VBool true; VInt vt; v_table sh; VBool false; VBool verbose]
  = Ret (res_of_encode r).
Proof.
  intros ce fuel bits acc v vt sh verbose mf r _ Hset Hacc Hv Hsh _ Hvt Hf Hmf HR.
  pose proof (encode_fast_gen_both ce fuel bits acc v vt sh verbose mf Hset Hacc Hv Hsh Hvt Hf Hmf) as H.
  rewrite HR in H. exact H.
Qed.

Theorem encode_fast_gen_raise : forall ce fuel bits acc v vt sh verbose mf e,
  callees_ok ce fuel -> set_vt_callee ce fuel ->
  acc_shape acc -> 0 <= v < Z.of_nat (length acc) -> table_shape (length acc) sh ->
  Forall (fun a => 0 <= a <= 1) bits -> 0 <= vt -> (2 * Z.to_nat vt < fuel)%nat -> (mf < fuel)%nat ->
  Coder.encode bits acc v true vt sh mf = Raise e ->
  run_fun ce fuel encode_def [varr bits; varr2 acc; VInt v; VBool true; VInt vt; v_table sh; VBool false; VBool verbose]
  = Exn e.
Proof.
  intros ce fuel bits acc v vt sh verbose mf e _ Hset Hacc Hv Hsh _ Hvt Hf Hmf HR.
  pose proof (encode_fast_gen_both ce fuel bits acc v vt sh verbose mf Hset Hacc Hv Hsh Hvt Hf Hmf) as H.
  rewrite HR in H. exact H.
Qed.

Print Assumptions encode_fast_gen_ok.
Print Assumptions encode_fast_gen_raise.
