(* EncodeFastGenProofs.v -- the regenerated encode (dsw/spiderweb.py), fast mode, computes Coder.encode.
   Compiled on every run of the checks against the freshly generated CoderGen.v / OperationGen.v (harness/regen.py, unit "coder"). *)
From Coq Require Import Lia ZifyBool.
From DSW Require Import MiniPy Bignum Convert Coder Spec MiniPyLemmas BignumProofs ConvertProofs.
From DSWGen Require Import OperationGen CoderGen CoderCallees OperationGenProofs.
Open Scope Z_scope.
Open Scope string_scope.
Ltac Zify.zify_post_hook ::= Z.to_euclidean_division_equations.
Local Open Scope Z_scope.

(* TARGET STATEMENTS   (is_faster = True, need_path = False; mf is the fuel of the MODEL's recursion, one unit per nucleotide)

Theorem encode_fast_gen_ok : forall ce fuel bits acc v vt sh verbose mf r,
  callees_ok ce fuel -> set_vt_callee ce fuel ->
  acc_shape acc -> 0 <= v < Z.of_nat (length acc) -> table_shape (length acc) sh ->
  Forall (fun a => 0 <= a <= 1) bits -> 0 <= vt -> (2 * Z.to_nat vt < fuel)%nat -> (mf < fuel)%nat ->
  Coder.encode bits acc v true vt sh mf = Ok r ->
  run_fun ce fuel encode_def [varr bits; varr2 acc; VInt v; VBool true; VInt vt; v_table sh; VBool false; VBool verbose]
  = Ret (res_of_encode r).

Theorem encode_fast_gen_raise : forall ce fuel bits acc v vt sh verbose mf e,
  (same hypotheses) ->
  Coder.encode bits acc v true vt sh mf = Raise e ->
  run_fun ce fuel encode_def [... same arguments ...] = Exn e.

   Notes: the while loop `while location < len(binary_message)` corresponds to Coder.encode_fast, whose list argument is the
   suffix of the bit list from `location` on (invariant: bits = done ++ rest, location = length done, except that after the
   last step at a 4-way vertex with one bit left location = length bits + 1 and rest = []: state the invariant as
   rest = skipn location bits).  One model fuel unit per iteration; MiniPy's while_loop needs one more unit than iterations
   (mf < fuel).  `where(accessor[vertex_index] >= 0)[0]` is varr (used_indices row); radix 4 / 2 / 1 / 3 / 0 are the branches;
   shuffles[vertex_index, used_indices] is the fancy index (pick srow used), argsort needs distinct keys (table_shape gives NoDup
   rows) and is Py.argsort.  The tail (set_vt, result pair) is as in normal mode.  If you need an extra hypothesis add the
   weakest one and report it.  If time is short, prove encode_fast_gen_ok first.
*)
