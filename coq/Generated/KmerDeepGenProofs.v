(* KmerDeepGenProofs.v -- the regenerated obtain_latters / obtain_formers / get_complete_accessor (dsw/graphized.py) compute Kmer.v's functions.
   Compiled on every run of the checks against the freshly generated GraphGen.v (harness/regen.py, unit "graph"). *)
From Coq Require Import Lia ZifyBool.
From DSW Require Import MiniPyG Graph Kmer Convert Spec MiniPyGLemmas KmerProofs GraphProofs.
From DSWGen Require Import GraphGen GraphRepr.
Open Scope Z_scope.
Open Scope string_scope.
Ltac Zify.zify_post_hook ::= Z.to_euclidean_division_equations.
Local Open Scope Z_scope.

(* Proved below, exactly as stated in the former TARGET STATEMENTS block:

     Theorem obtain_latters_gen : forall ce fuel current k,
       run_fun ce fuel obtain_latters_def [VInt current; VInt (Z.of_nat k)] = Ret (VList (map VInt (obtain_latters current k))).
     Theorem obtain_formers_gen : forall ce fuel current k, (1 <= k)%nat ->
       run_fun ce fuel obtain_formers_def [VInt current; VInt (Z.of_nat k)] = Ret (VList (map VInt (obtain_formers current k))).
        (for k = 0 the Python computes 4 ** -1, a float: outside the fragment; vm_compute of
         call_in graph_module 50 "obtain_formers" [VInt 7; VInt 0] gives Stuck, so 1 <= k stays)
     Theorem get_complete_accessor_gen : forall ce fuel k verbose,
       (forall current, ce "obtain_latters" [VInt current; VInt (Z.of_nat k)] = Ret (VList (map VInt (obtain_latters current k)))) ->
       run_fun ce fuel get_complete_accessor_def [VInt (Z.of_nat k); VBool verbose] = Ret (varr2 (get_complete_accessor k)).

   No while loop: any fuel.  The two four-iteration loops over range(len("ACGT")) are executed symbolically; the outer loop of
   get_complete_accessor is an induction over range(4^k) with the invariant "the first i rows are the obtain_latters rows, the
   rest are [-1;-1;-1;-1]" (acc_for).  The loop body is cut out of the generated term itself (acc_body). *)

Ltac step := cbn [exec eval lift seq rbind assign MiniPyG.lookup update bind_tuple items String.eqb Ascii.eqb Bool.eqb
  binop_vals binop_scalar cmp_vals cmp_scalar is_arr orb truthy builtin1_val builtin2_val index_val mixes_bool val_eqb
  andb negb to_int length chars map app for_loop].
Ltac setK := match goal with |- context [seq _ ?k] => let K := fresh "K" in set (K := k) end.

Lemma range4 : range3 0 4 1 = Ret [VInt 0; VInt 1; VInt 2; VInt 3].
Proof. reflexivity. Qed.

Lemma pow4_ltb k : (Z.of_nat k <? 0) = false.
Proof. lia. Qed.
Lemma pow4_eqb k : (4 ^ Z.of_nat k =? 0) = false.
Proof. pose proof (pow4_pos k) as H. unfold pow4 in H. lia. Qed.

Theorem obtain_latters_gen : forall ce fuel current k,
  run_fun ce fuel obtain_latters_def [VInt current; VInt (Z.of_nat k)] = Ret (VList (map VInt (obtain_latters current k))).
Proof.
  intros ce fuel current k. unfold run_fun. cbn [params bind_params body obtain_latters_def].
  rewrite exec_seq; setK; step; subst K.
  rewrite exec_seq; setK; step; subst K.
  rewrite exec_seq, exec_for; setK; step.
  change (Z.of_nat 4) with 4. rewrite range4. step.
  do 4 (change (Z.of_nat 4) with 4; rewrite ?pow4_ltb; step; rewrite ?pow4_eqb; step).
  subst K. step. reflexivity.
Qed.

Lemma pred_ltb k : (1 <= k)%nat -> (Z.of_nat k - 1 <? 0) = false.
Proof. lia. Qed.

Theorem obtain_formers_gen : forall ce fuel current k, (1 <= k)%nat ->
  run_fun ce fuel obtain_formers_def [VInt current; VInt (Z.of_nat k)] = Ret (VList (map VInt (obtain_formers current k))).
Proof.
  intros ce fuel current k Hk. unfold run_fun. cbn [params bind_params body obtain_formers_def].
  rewrite exec_seq; setK; step; subst K.
  rewrite exec_seq; setK; step; subst K.
  rewrite exec_seq, exec_for; setK; step.
  change (Z.of_nat 4) with 4. rewrite range4. step.
  do 4 (change (Z.of_nat 4) with 4; change (4 =? 0) with false; rewrite ?(pred_ltb k Hk); step).
  subst K. step.
  destruct k as [|k']; [lia|]. unfold obtain_formers, pow4_pred, pow4. cbn [map].
  replace (Z.of_nat (S k') - 1) with (Z.of_nat k') by lia. reflexivity.
Qed.


(* ---- get_complete_accessor ---- *)
Local Open Scope list_scope.
Lemma nthZ_app_mid {A} (pre : list A) x post : nthZ (pre ++ x :: post) (length pre) = Some x.
Proof. induction pre as [|y pre IH]; cbn [app length nthZ]; [reflexivity|exact IH]. Qed.

Lemma py_get_mid {A} (pre : list A) x post : py_get (pre ++ x :: post) (Z.of_nat (length pre)) = Ok x.
Proof.
  unfold py_get; cbv zeta. rewrite app_length. cbn [length].
  destruct (Z.of_nat (length pre) <? 0) eqn:E; [lia|].
  destruct ((Z.of_nat (length pre) <? 0) || (Z.of_nat (length pre + S (length post)) <=? Z.of_nat (length pre))) eqn:F; [lia|].
  rewrite Nat2Z.id, nthZ_app_mid. reflexivity.
Qed.

Lemma set_nth_mid {A} (pre : list A) x post y : set_nth (pre ++ x :: post) (length pre) y = pre ++ y :: post.
Proof. induction pre as [|z pre IH]; cbn [app length set_nth]; [reflexivity|rewrite IH; reflexivity]. Qed.

Lemma store2_mid pre row post j v :
  store2_val (VArr (pre ++ row :: post)) (VInt (Z.of_nat (length pre))) j v =
  row' <~ store_val row j v ;; Ret (VArr (pre ++ row' :: post)).
Proof.
  unfold store2_val; cbv zeta.
  destruct (Z.of_nat (length pre) <? 0) eqn:E; [lia|].
  rewrite app_length. cbn [length].
  destruct ((Z.of_nat (length pre) <? 0) || (Z.of_nat (length pre + S (length post)) <=? Z.of_nat (length pre))) eqn:F; [lia|].
  rewrite py_get_mid, Nat2Z.id.
  destruct (store_val row j v) as [row'| | |]; cbn [rbind]; try reflexivity.
  rewrite set_nth_mid. reflexivity.
Qed.

Definition ones_row : val := VArr [VInt 1; VInt 1; VInt 1; VInt 1].
Definition neg_row : val := VArr [VInt (-1); VInt (-1); VInt (-1); VInt (-1)].

Lemma neg_ones n :
  broadcast_int Sub false (VArr (repeat ones_row n)) 0 = Ret (VArr (repeat neg_row n)).
Proof.
  cbn [broadcast_int].
  assert (G : (fix go (l : list val) : res (list val) :=
             match l with [] => Ret [] | x :: t => y <~ broadcast_int Sub false x 0 ;; ys <~ go t ;; Ret (y :: ys) end)
            (repeat ones_row n) = Ret (repeat neg_row n)).
  { induction n as [|n IH]; cbn [repeat]; [reflexivity|]. rewrite IH. reflexivity. }
  rewrite G. reflexivity.
Qed.

Definition acc_body : stmt :=
  Eval cbv in match body get_complete_accessor_def with
  | SSeq _ (SSeq (SFor _ _ bd) _) => bd | _ => SSkip end.
Definition acc_final : stmt :=
  Eval cbv in match body get_complete_accessor_def with
  | SSeq _ (SSeq _ fin) => fin | _ => SSkip end.

Definition genv (k : nat) (verbose : bool) (rows : list val) (tail : env) : env :=
  ("observed_length", VInt (Z.of_nat k)) :: ("verbose", VBool verbose) :: ("accessor", VArr rows) :: ("monitor", VOpaque) :: tail.

Definition good_tail (tail : env) : Prop :=
  tail = [] \/ exists a b c d, tail = [("vertex_index", a); ("latters", b); ("position", c); ("latter_vertex_index", d)].

Lemma latters_4 v k : exists x0 x1 x2 x3, obtain_latters v k = [x0; x1; x2; x3].
Proof. unfold obtain_latters. cbn [map]. eauto. Qed.

Lemma store_row a0 a1 a2 a3 x :
  store_val (VArr [VInt a0; VInt a1; VInt a2; VInt a3]) (VInt 0) (VInt x) = Ret (VArr [VInt x; VInt a1; VInt a2; VInt a3]) /\
  store_val (VArr [VInt a0; VInt a1; VInt a2; VInt a3]) (VInt 1) (VInt x) = Ret (VArr [VInt a0; VInt x; VInt a2; VInt a3]) /\
  store_val (VArr [VInt a0; VInt a1; VInt a2; VInt a3]) (VInt 2) (VInt x) = Ret (VArr [VInt a0; VInt a1; VInt x; VInt a3]) /\
  store_val (VArr [VInt a0; VInt a1; VInt a2; VInt a3]) (VInt 3) (VInt x) = Ret (VArr [VInt a0; VInt a1; VInt a2; VInt x]).
Proof. repeat split; reflexivity. Qed.

Lemma enum4 (a b c d : val) : enumerate_from 0 [a; b; c; d] =
  [VTuple [VInt 0; a]; VTuple [VInt 1; b]; VTuple [VInt 2; c]; VTuple [VInt 3; d]].
Proof. reflexivity. Qed.

Lemma acc_body_step ce fuel k verbose pre post tail :
  (forall current, ce "obtain_latters" [VInt current; VInt (Z.of_nat k)] = Ret (VList (map VInt (obtain_latters current k)))) ->
  good_tail tail ->
  exists tail', good_tail tail' /\
  seq (assign ce (TVar "vertex_index") (VInt (Z.of_nat (length pre))) (genv k verbose (pre ++ neg_row :: post) tail))
      (exec ce fuel acc_body) =
  ONormal (genv k verbose (pre ++ varr (obtain_latters (Z.of_nat (length pre)) k) :: post) tail').
Proof.
  intros Hce Ht. destruct (latters_4 (Z.of_nat (length pre)) k) as (x0 & x1 & x2 & x3 & EL).
  eexists; split; [right; eauto|].
  destruct Ht as [->|(a & b & c & d & ->)]; unfold genv, acc_body; step; rewrite Hce, EL; step; rewrite enum4; unfold neg_row.
  all: do 4 (step; rewrite store2_mid;
             first [rewrite (proj1 (store_row _ _ _ _ _)) | rewrite (proj1 (proj2 (store_row _ _ _ _ _)))
                   | rewrite (proj1 (proj2 (proj2 (store_row _ _ _ _ _)))) | rewrite (proj2 (proj2 (proj2 (store_row _ _ _ _ _))))]).
  all: step; rewrite pow4_ltb; destruct verbose; step; reflexivity.
Qed.

Lemma zrange_up_from n : forall a, zrange_up n a 1 = map VInt (zrange_from a n).
Proof. induction n as [|n IH]; intro a; cbn [zrange_up zrange_from map]; [reflexivity|rewrite IH; reflexivity]. Qed.

Lemma acc_for ce fuel k verbose :
  (forall current, ce "obtain_latters" [VInt current; VInt (Z.of_nat k)] = Ret (VList (map VInt (obtain_latters current k)))) ->
  forall n pre tail, good_tail tail ->
  exists tail', good_tail tail' /\
  for_loop ce fuel (TVar "vertex_index") acc_body (zrange_up n (Z.of_nat (length pre)) 1)
    (genv k verbose (pre ++ repeat neg_row n) tail) =
  ONormal (genv k verbose (pre ++ map (fun v => varr (obtain_latters v k)) (zrange_from (Z.of_nat (length pre)) n)) tail').
Proof.
  intros Hce. induction n as [|n IH]; intros pre tail Ht.
  - exists tail; split; [exact Ht|]. reflexivity.
  - cbn [zrange_up repeat zrange_from map]. rewrite for_loop_cons.
    destruct (acc_body_step ce fuel k verbose pre (repeat neg_row n) tail Hce Ht) as (t1 & G1 & E1).
    rewrite E1. cbn [seq].
    destruct (IH (pre ++ [varr (obtain_latters (Z.of_nat (length pre)) k)]) t1 G1) as (t2 & G2 & E2).
    rewrite app_length in E2. cbn [length] in E2. rewrite <- !app_assoc in E2. cbn [app] in E2.
    replace (Z.of_nat (length pre + 1)) with (Z.of_nat (length pre) + 1) in E2 by lia.
    exists t2; split; [exact G2|exact E2].
Qed.

Theorem get_complete_accessor_gen : forall ce fuel k verbose,
  (forall current, ce "obtain_latters" [VInt current; VInt (Z.of_nat k)] = Ret (VList (map VInt (obtain_latters current k)))) ->
  run_fun ce fuel get_complete_accessor_def [VInt (Z.of_nat k); VBool verbose] = Ret (varr2 (get_complete_accessor k)).
Proof.
  intros ce fuel k verbose Hce. unfold run_fun. cbn [params bind_params body get_complete_accessor_def].
  rewrite exec_seq; setK; step. rewrite pow4_ltb. step.
  change (VArr (repeat (VInt 1) (Z.to_nat 4))) with ones_row. rewrite neg_ones. step. subst K.
  rewrite exec_seq, exec_for; setK; step. rewrite pow4_ltb. step.
  unfold range3. change (1 =? 0) with false. change (0 <? 1) with true. cbv iota.
  replace (Z.to_nat ((4 ^ Z.of_nat k - 0 + 1 - 1) / 1)) with (Z.to_nat (4 ^ Z.of_nat k)) by lia.
  step.
  destruct (acc_for ce fuel k verbose Hce (Z.to_nat (4 ^ Z.of_nat k)) [] [] (or_introl eq_refl)) as (t & G & E).
  unfold genv in E at 1. cbn [length app] in E. change (Z.of_nat 0) with 0 in E. unfold acc_body in E.
  rewrite E. cbn [seq]. subst K. unfold genv. step.
  unfold varr2, get_complete_accessor, vertices_of, zrange, pow4. rewrite map_map. reflexivity.
Qed.

Print Assumptions obtain_latters_gen.
Print Assumptions obtain_formers_gen.
Print Assumptions get_complete_accessor_gen.
