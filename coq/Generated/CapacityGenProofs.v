(* CapacityGenProofs.v -- approximate_capacity REGENERATED from dsw/graphized.py (CapacityGen.v, MiniPyC.v: binary64) computes what the
   model Capacity.approximate_capacity computes, float for float, for every tolerance float, every log2 function and every stream
   of random start vectors.
   Compiled on every run of the checks against the freshly generated CapacityGen.v (harness/regen.py, unit "capacity"). *)
From Coq Require Import Lia ZifyBool PrimFloat.
From DSW Require Import MiniPyC MiniPyCLemmas.
From DSW Require Capacity.
From DSWGen Require Import CapacityGen CapacityRepr.
Open Scope Z_scope.
Open Scope string_scope.
Local Open Scope Z_scope.
Local Open Scope list_scope.
Notation lookup := MiniPyC.lookup.

(* TARGET STATEMENT  (prove it with Qed exactly as stated; add [Print Assumptions] at the end of the file)

Theorem approximate_capacity_gen : forall ce fuel acc tolz tol L repeats maxit process verbose stream,
  externals_ok ce tolz tol L ->
  acc <> [] -> Forall (fun row => length row = 4%nat) acc ->
  Forall (Forall (fun x => x < Z.of_nat (length acc))) acc ->
  1 <= repeats ->
  (repeats = 1 \/ (Z.to_nat repeats <= length stream)%nat) ->
  Forall (fun s => length s = length acc) (firstn (Z.to_nat repeats) stream) ->
  (maxit + 3 <= fuel)%nat ->
  run_fun ce fuel approximate_capacity_def
          [varr2 acc; VInt tolz; VInt repeats; VInt (Z.of_nat maxit); VBool process; VBool verbose; v_stream stream]
  = match Capacity.approximate_capacity acc tol maxit (starts_of (length acc) repeats stream) with
    | Some r => Ret (capacity_result tol L repeats process r)
    | None => Fuel
    end.

   Notes.
   * The program (read CapacityGen.v): arc-less early return; ignore_positions = where(sum(accessor, axis=1) == -4)[0]
     (= rows with Capacity.dead_row); for each repeat: record.append([]); start vector = |next stream array| (SNextRandom pops
     "__rng__") or ones; start[ignore_positions] = 0.0 (= Capacity.zero_dead); `while True` (SWhileB, fuel = the run_fun fuel):
       eigenvector = zeros_like(last); for each COLUMN positions of accessor (BTranspose): available = where(positions >= 0);
       eigenvector[available] += last[positions[available]]   -- per vertex this adds its live entries left to right starting
       from 0.0, which is Capacity.row_sum (prove it by induction over the four columns; entries >= n would raise IndexError:
       excluded by the hypothesis; entries < -1 are simply not live in both);
       eigenvalue = max(eigenvector) (BNpMax on floats = fold_left fmaxf = Capacity.vec_max; acc <> [] so the vector is non-empty);
       normalise (/ eigenvalue when eigenvalue > 0, else * 0.0); record[-1].append(lg eigenvalue) (SAppendAt);
       from the second iteration on: relative error, queue.append, tolerance test, median fallback (BMedian = fmedianf, the same
       text as Capacity.fmedian on the queue IN THE ORDER OF THE CODE, which is the model's order), break when finished;
       last_eigenvalue, last_eigenvector, current = eigenvalue, eigenvector, current + 1.
     The model: Capacity.power_loop (fuel S (S maxit): never runs out, see Proofs/CapacityTermProofs.v: power_loop_terminates_partial;
     you may use it to know the model's result is Some) / repeats_loop / approximate_capacity.  The model keeps the raw eigenvalues;
     the program stores lg tol L of them: results = map (lg tol L) res, record = map (map (lg tol L)) recs.
   * verbose only evaluates tuples / dicts of already bound floats (BFmtFloat needs a VFloat; results[-1] exists when finished).
   * float facts you may need (x / y is Stuck in MiniPyC when y =? 0): (0 <? y) = true -> (y =? 0) = false.  Prove it from Coq's
     FloatAxioms (ltb_spec, eqb_spec: PrimFloat.ltb x y = SFltb (Prim2SF x) (Prim2SF y) ...) by case analysis on Prim2SF y -- the
     specification axioms of the primitive floats that the standard library declares are ACCEPTED for this unit (they will show
     in Print Assumptions), nothing else.  `fz 0` (float_of_int 0) is 0%float by reflexivity.  as_float (VInt (Z.of_nat ..)) is
     never needed: the int / int comparisons go through the integer branch.
   * Test the statement with Eval vm_compute FIRST (scratch file /verif/work/gendevc/CapacityScratch*.v, delete it afterwards):
     ce := fun f args => if f = "__pow__" then Ret (VFloat tol) else if f = "__log2__" then identity on the float, L := fun x => x,
     k = 1 accessors (4 rows), repeats 1 / 2 / 3 with explicit streams, maxit 0 / 1 / 2 / 5 / 500, process and verbose on and off, an
     arc-less accessor, a row summing to -4 that is not all -1 (e.g. [-1; -1; -2; 0] -- allowed by the hypotheses), entries -2.
     If the statement is false as given, add the WEAKEST extra hypothesis and report the counterexample.
   * Structure the proof: one lemma per statement of the loop body (stage lemmas on a symbolic environment: set / clearbody), a lemma
     for the column loop, a lemma "one while iteration = one unfolding of Capacity.power_loop", an induction on the model's fuel for
     the while loop (exec_while_b / while_loop_b of MiniPyCLemmas.v), an induction over the repeats for the outer for loop with the
     invariant results = map lg (model's res so far), record = ..., "__rng__" = the rest of the stream. *)
