(* CapacityGenProofs.v -- approximate_capacity REGENERATED from dsw/graphized.py (CapacityGen.v, MiniPyC.v: binary64) computes what the
   model Capacity.approximate_capacity computes, float for float, for every tolerance float, every log2 function and every stream
   of random start vectors.
   Compiled on every run of the checks against the freshly generated CapacityGen.v (harness/regen.py, unit "capacity"). *)
From Coq Require Import Lia ZifyBool PrimFloat.
From Coq Require Floats.
From DSW Require Import MiniPyC MiniPyCLemmas.
From DSW Require Capacity CapacityTermProofs.
From DSWGen Require Import CapacityGen CapacityRepr.
Open Scope Z_scope.
Open Scope string_scope.
Local Open Scope Z_scope.
Local Open Scope list_scope.
Notation lookup := MiniPyC.lookup.

(* STATUS: approximate_capacity_gen (end of file) is PROVED with Qed exactly as stated in the task, no extra hypothesis:

     Theorem approximate_capacity_gen : forall ce fuel acc tolz tol L repeats maxit process verbose stream,
       externals_ok ce tolz tol L ->
       acc <> [] -> Forall (fun row => length row = 4%nat) acc ->
       Forall (Forall (fun x => x < Z.of_nat (length acc))) acc ->
       1 <= repeats ->
       (repeats = 1 \/ (Z.to_nat repeats <= length stream)%nat) ->
       Forall (fun s => length s = length acc) (firstn (Z.to_nat repeats) stream) ->
       (maxit + 3 <= fuel)%nat ->
       run_fun ce fuel approximate_capacity_def
               [varr2 acc; VInt tolz; VInt repeats; VInt (Z.of_nat maxit); VBool process; VBool verbose; v_stream stream]
       = match Capacity.approximate_capacity acc tol maxit (starts_of (length acc) repeats stream) with
         | Some r => Ret (capacity_result tol L repeats process r)
         | None => Fuel
         end.

   Tested first with Eval vm_compute (tol = 2^-10, L x = 3 x; k = 1 accessors with arcs / without / a row summing to -4 that is not
   all -1 / entries -2 / a single vertex; repeats 1, 2, 3 with explicit streams incl. negative entries; maxit 0, 1, 2, 5, 50, 500;
   process and verbose on and off): equal everywhere.
   Print Assumptions: the primitive float / int63 declarations and FloatAxioms.ltb_spec, FloatAxioms.eqb_spec (used only in
   ltb_pos_neqb: 0 < y -> y is not 0, needed because x / y is Stuck in MiniPyC when y =? 0).  Nothing else.

   Structure.
   * The body is cut into its statements (s_early, s_ign, s_init, s_for = for .. obody, s_ret; obody = o1 .. o5, s_while;
     wbody = w1 .. w7; colbody; inner = i1 .. i7), computed from the generated term and tied back by body_eq, obody_eq, wbody_eq ..
     (all by reflexivity: a change of the generated term that keeps this skeleton re-checks).
   * Environments are only spoken about through lookup (the order of the bindings differs between first and later iterations);
     frame conditions are unch mods en en' (lookup unchanged outside mods); lku / lka resolve lookups through updates and unch.
   * exec_colbody: one column `eigenvector[available] += last[positions[available]]` = col_step (index_pos, binop_add_maps, store_pos,
     scatter_used; numpy.where lists distinct in-range positions: nodupb_used_from, used_indices_range, used_from_live);
     col_loop / exec_w2: the four columns (transpose_rows4) = Capacity.mat_vec (row_sum_fold).
   * exec_w1 .. exec_w7, exec_i1 .. exec_i7: one lemma per statement of the while body; exec_prefix, step_first (last = None),
     step_next (one unfolding of Capacity.power_loop: continue, or break with 1 - 2 results); while_run: induction on the model's fuel.
   * exec_o1 .. exec_o5, outer_tail, outer_step (feeds: the single-start mode leaves the stream alone, otherwise one array is
     popped per repeat), outer_loop (induction over the starts = Capacity.repeats_loop); exec_early, exec_ign
     (= Capacity.dead_row positions, store_zero_dead = Capacity.zero_dead), exec_ret; the model never returns None
     (CapacityTermProofs.repeats_loop_spec), which also gives results <> [] and record <> [] for the final median / record[0]. *)


(* ---- tactics ------------------------------------------------------------------------------------------------------------ *)
Ltac lk := repeat (rewrite lookup_update_same || (rewrite lookup_update_other by discriminate)).

(* ---- the one numerical fact: a positive float is not zero (from the specification axioms of Coq's primitive floats) ---------- *)
Lemma ltb_pos_neqb (y : float) : PrimFloat.ltb 0%float y = true -> PrimFloat.eqb y 0%float = false.
Proof.
  rewrite Floats.FloatAxioms.ltb_spec, Floats.FloatAxioms.eqb_spec.
  change (Floats.FloatOps.Prim2SF 0%float) with (Floats.SpecFloat.S754_zero false).
  destruct (Floats.FloatOps.Prim2SF y) as [s|s| |s m e]; cbn; try discriminate; destruct s; intros; try discriminate; reflexivity.
Qed.

(* ---- the float functions of the interpreter are the model's -------------------------------------------------------------- *)
Lemma fmaxf_eq a b : fmaxf a b = Capacity.fmax a b.
Proof. reflexivity. Qed.

Lemma finsertf_eq x l : finsertf x l = Capacity.finsert x l.
Proof. induction l as [|h t IH]; cbn [finsertf Capacity.finsert]; [reflexivity|rewrite IH; reflexivity]. Qed.

Lemma fsortf_eq l : fsortf l = Capacity.fsort l.
Proof.
  unfold fsortf, Capacity.fsort. generalize (@nil float) as a. induction l as [|x t IH]; intro a; cbn [fold_left]; [reflexivity|].
  rewrite finsertf_eq. apply IH.
Qed.

Lemma fmedianf_eq l : fmedianf l = Capacity.fmedian l.
Proof. unfold fmedianf, Capacity.fmedian. rewrite fsortf_eq. reflexivity. Qed.

Lemma fold_fmaxf t h : fold_left fmaxf t h = fold_left Capacity.fmax t h.
Proof. reflexivity. Qed.

(* ---- lists ---------------------------------------------------------------------------------------------------------------- *)
Lemma nthZ_nth {A} : forall (l : list A) n d, (n < length l)%nat -> nthZ l n = Some (nth n l d).
Proof.
  induction l as [|x t IH]; intros n d Hn; cbn [length] in Hn; [lia|].
  destruct n as [|n]; cbn [nthZ nth]; [reflexivity|]. apply IH. lia.
Qed.

Lemma py_get_ok {A} (l : list A) i d : 0 <= i < Z.of_nat (length l) -> py_get l i = Ok (nth (Z.to_nat i) l d).
Proof.
  intros Hi. unfold py_get. cbv zeta.
  destruct (i <? 0) eqn:E1; [lia|].
  destruct (Z.of_nat (length l) <=? i) eqn:E2; [lia|].
  rewrite ?E1. cbn [orb]. rewrite (nthZ_nth l _ d) by lia. reflexivity.
Qed.

Lemma py_get_last {A} (l : list A) x : py_get (l ++ [x]) (-1) = Ok x.
Proof.
  unfold py_get. cbv zeta. rewrite app_length. cbn [length]. change (-1 <? 0) with true. cbv iota.
  destruct ((-1 + Z.of_nat (length l + 1) <? 0) || (Z.of_nat (length l + 1) <=? -1 + Z.of_nat (length l + 1))) eqn:E; [lia|].
  replace (Z.to_nat (-1 + Z.of_nat (length l + 1))) with (length l) by lia.
  rewrite (nthZ_nth _ _ x) by (rewrite app_length; cbn [length]; lia).
  rewrite app_nth2, Nat.sub_diag by lia. reflexivity.
Qed.

Lemma set_nth_mid {A} (pre : list A) x y post : set_nth (pre ++ x :: post) (length pre) y = pre ++ y :: post.
Proof. induction pre as [|p pre IH]; cbn [app length set_nth]; [reflexivity|rewrite IH; reflexivity]. Qed.

Lemma set_nth_length {A} : forall (l : list A) i x, length (set_nth l i x) = length l.
Proof. induction l as [|y t IH]; intros [|i] x; cbn [set_nth length]; try reflexivity. rewrite IH. reflexivity. Qed.

Lemma map_res_map {A B C} (f : B -> res C) (h : A -> B) (k : A -> C) : forall l,
  (forall x, In x l -> f (h x) = Ret (k x)) -> map_res f (map h l) = Ret (map k l).
Proof.
  induction l as [|x t IH]; intros H; [reflexivity|].
  cbn [map map_res]. rewrite H by (left; reflexivity). cbn [rbind]. rewrite IH; [reflexivity|].
  intros y Hy. apply H. right. exact Hy.
Qed.

Lemma index_last l x : index_val (VList (l ++ [x])) (VInt (-1)) = Ret x.
Proof. unfold index_val. rewrite py_get_last. reflexivity. Qed.

Lemma store_last l x y : store_val (VList (l ++ [x])) (VInt (-1)) y = Ret (VList (l ++ [y])).
Proof.
  unfold store_val. cbv zeta. rewrite app_length. cbn [length]. change (-1 <? 0) with true. cbv iota.
  destruct ((-1 + Z.of_nat (length l + 1) <? 0) || (Z.of_nat (length l + 1) <=? -1 + Z.of_nat (length l + 1))) eqn:E; [lia|].
  replace (Z.to_nat (-1 + Z.of_nat (length l + 1))) with (length l) by lia.
  rewrite set_nth_mid. reflexivity.
Qed.

(* ---- float arrays ----------------------------------------------------------------------------------------------------------- *)
Lemma floats_of_map l : floats_of (map VFloat l) = Ret l.
Proof.
  unfold floats_of. rewrite (map_res_map _ VFloat (fun x => x)) by (intros; reflexivity). rewrite map_id. reflexivity.
Qed.

Lemma forallb_isfloat {A} (g : A -> float) l :
  forallb (fun x => match x with VFloat _ => true | _ => false end) (map (fun a => VFloat (g a)) l) = true.
Proof. induction l as [|x t IH]; [reflexivity|]. cbn [map forallb]. exact IH. Qed.

Lemma forallb_isfloat' l : forallb (fun x => match x with VFloat _ => true | _ => false end) (map VFloat l) = true.
Proof. apply (forallb_isfloat (fun x => x)). Qed.


Lemma index_tuple l idx : index_val (VArr l) (VTuple [VArr idx]) = index_val (VArr l) (VArr idx).
Proof. reflexivity. Qed.

Lemma store_tuple l idx v : store_val (VArr l) (VTuple [VArr idx]) v = store_val (VArr l) (VArr idx) v.
Proof. reflexivity. Qed.

(* a[positions]: the elements at the positions (an empty index array selects nothing) *)
Lemma index_pos {A} (f : A -> val) (d : A) l idx :
  Forall (fun j => 0 <= j < Z.of_nat (length l)) idx ->
  index_val (VArr (map f l)) (VArr (map VInt idx)) = Ret (VArr (map (fun j => f (nth (Z.to_nat j) l d)) idx)).
Proof.
  intro H. destruct idx as [|j0 t]; [reflexivity|].
  unfold index_val. cbn [map].
  change (VInt j0 :: map VInt t) with (map VInt (j0 :: t)).
  rewrite (map_res_map _ VInt (fun j => f (nth (Z.to_nat j) l d))); [reflexivity|].
  intros j Hj. rewrite Forall_forall in H. specialize (H j Hj).
  rewrite (py_get_ok _ _ (f d)) by (rewrite map_length; exact H). rewrite map_nth. reflexivity.
Qed.

Lemma binop_add_maps {A} (f g : A -> float) idx :
  binop_vals Add (VArr (map (fun j => VFloat (f j)) idx)) (VArr (map (fun j => VFloat (g j)) idx))
  = Ret (VArr (map (fun j => VFloat (f j + g j)%float) idx)).
Proof.
  unfold binop_vals.
  assert (E : zip_res (fun x y => match x, y with
                                   | VInt _, VInt _ | VFloat _, VFloat _ => binop_scalar Add x y
                                   | _, _ => Stuck end)
                (map (fun j => VFloat (f j)) idx) (map (fun j => VFloat (g j)) idx)
              = Ret (map (fun j => VFloat (f j + g j)%float) idx)).
  { induction idx as [|j t IH]; [reflexivity|]. cbn [map zip_res]. rewrite IH. reflexivity. }
  rewrite E. reflexivity.
Qed.

Lemma map_res_ints idx : map_res (fun x => match x with VInt j => Ret j | _ => Stuck end) (map VInt idx) = Ret idx.
Proof. rewrite (map_res_map _ VInt (fun x => x)) by (intros; reflexivity). rewrite map_id. reflexivity. Qed.

(* a[positions] = values on a float array *)
Lemma store_pos (h : Z -> float) l idx :
  forallb (fun x => match x with VFloat _ => true | _ => false end) l = true ->
  nodupb idx = true ->
  Forall (fun j => 0 <= j < Z.of_nat (length l)) idx ->
  store_val (VArr l) (VArr (map VInt idx)) (VArr (map (fun j => VFloat (h j)) idx))
  = Ret (VArr (fold_left (fun l j => set_nth l (Z.to_nat j) (VFloat (h j))) idx l)).
Proof.
  intros Hl Hn Hr. unfold store_val. rewrite Hl, forallb_isfloat, !map_length, Nat.eqb_refl. cbn [andb].
  rewrite map_res_ints. cbn [rbind]. rewrite Hn. clear Hl Hn.
  revert l Hr. induction idx as [|j t IH]; intros l Hr; [reflexivity|].
  cbn [map fold_left]. inversion Hr as [|? ? Hj Ht]; subst.
  destruct ((j <? 0) || (Z.of_nat (length l) <=? j)) eqn:E; [lia|].
  apply IH. rewrite set_nth_length. exact Ht.
Qed.

(* numpy.where lists distinct positions, all inside the array *)
Lemma used_from_bounds : forall row k j, In j (used_from row k) -> k <= j < k + Z.of_nat (length row).
Proof.
  induction row as [|x t IH]; intros k j H; [destruct H|]. cbn [used_from length] in *.
  destruct (0 <=? x).
  - destruct H as [<-|H]; [lia|]. apply IH in H. lia.
  - apply IH in H. lia.
Qed.

Lemma memZ_In x l : memZ x l = true -> In x l.
Proof.
  induction l as [|y t IH]; cbn [memZ]; [discriminate|]. intro H. apply orb_prop in H. destruct H as [H|H].
  - left. lia.
  - right. apply IH, H.
Qed.

Lemma nodupb_used_from : forall row k, nodupb (used_from row k) = true.
Proof.
  induction row as [|x t IH]; intro k; [reflexivity|]. cbn [used_from]. destruct (0 <=? x); [|apply IH].
  cbn [nodupb]. rewrite IH, andb_true_r. destruct (memZ k (used_from t (k + 1))) eqn:E; [|reflexivity].
  apply memZ_In, used_from_bounds in E. lia.
Qed.

Lemma used_indices_range row : Forall (fun j => 0 <= j < Z.of_nat (length row)) (used_indices row).
Proof. apply Forall_forall. intros j H. apply used_from_bounds in H. lia. Qed.

(* one column of the matrix-vector product: eigenvector[live] += last[entry[live]] *)
Definition col_step (last ev : list float) (col : list Z) : list float :=
  map (fun p => if 0 <=? snd p then (fst p + nth (Z.to_nat (snd p)) last 0)%float else fst p) (combine ev col).

Lemma scatter_used (last : list float) (h : Z -> float) : forall col ev pre,
  length ev = length col ->
  (forall i, (i < length col)%nat ->
     h (Z.of_nat (length pre + i)) = (nth i ev 0 + nth (Z.to_nat (nth i col 0%Z)) last 0)%float) ->
  fold_left (fun l j => set_nth l (Z.to_nat j) (VFloat (h j))) (used_from col (Z.of_nat (length pre))) (pre ++ map VFloat ev)
  = pre ++ map VFloat (col_step last ev col).
Proof.
  induction col as [|x col IH]; intros ev pre Hlen Hh.
  - destruct ev; [reflexivity|discriminate].
  - destruct ev as [|e ev]; [discriminate|]. cbn [length] in Hlen.
    unfold col_step. cbn [used_from combine map snd fst].
    assert (IH' : forall v, fold_left (fun l j => set_nth l (Z.to_nat j) (VFloat (h j))) (used_from col (Z.of_nat (length pre) + 1))
                   ((pre ++ [v]) ++ map VFloat ev) = (pre ++ [v]) ++ map VFloat (col_step last ev col)).
    { intro v. replace (Z.of_nat (length pre) + 1) with (Z.of_nat (length (pre ++ [v]))) by (rewrite app_length; cbn [length]; lia).
      apply IH; [lia|]. intros i Hi. rewrite app_length. cbn [length].
      replace (length pre + 1 + i)%nat with (length pre + S i)%nat by lia. rewrite Hh by (cbn [length]; lia). reflexivity. }
    destruct (0 <=? x) eqn:E.
    + cbn [fold_left]. rewrite Nat2Z.id, set_nth_mid.
      specialize (IH' (VFloat (h (Z.of_nat (length pre))))). rewrite <- !app_assoc in IH'. cbn [app] in IH'. rewrite IH'.
      replace (Z.of_nat (length pre)) with (Z.of_nat (length pre + 0)) by (f_equal; lia). rewrite Hh by (cbn [length]; lia).
      reflexivity.
    + specialize (IH' (VFloat e)). rewrite <- !app_assoc in IH'. cbn [app] in IH'. exact IH'.
Qed.

Lemma col_step_map {A} (last : list float) (g : A -> float) (c : A -> Z) (acc : list A) :
  col_step last (map g acc) (map c acc)
  = map (fun r => if 0 <=? c r then (g r + nth (Z.to_nat (c r)) last 0)%float else g r) acc.
Proof. unfold col_step. induction acc as [|r t IH]; [reflexivity|]. cbn [map combine fst snd]. rewrite IH. reflexivity. Qed.

Lemma col_step_length last ev col : length ev = length col -> length (col_step last ev col) = length ev.
Proof. intro H. unfold col_step. rewrite map_length, combine_length. lia. Qed.

Lemma used_from_live : forall row k j, In j (used_from row k) -> 0 <= nth (Z.to_nat (j - k)) row 0.
Proof.
  induction row as [|x t IH]; intros k j H; [destruct H|]. cbn [used_from] in H.
  assert (T : In j (used_from t (k + 1)) -> 0 <= nth (Z.to_nat (j - k)) (x :: t) 0).
  { intro H'. pose proof (used_from_bounds _ _ _ H') as B. apply IH in H'.
    replace (Z.to_nat (j - k)) with (S (Z.to_nat (j - (k + 1)))) by lia. exact H'. }
  destruct (0 <=? x) eqn:E; [|exact (T H)].
  destruct H as [<-|H]; [|exact (T H)]. rewrite Z.sub_diag. cbn [Z.to_nat nth]. lia.
Qed.

(* ---- NumPy primitives -------------------------------------------------------------------------------------------------------- *)
Lemma cmp_top_varr o row z : cmp_top o (varr row) (VInt z) = cmp_vals o (varr row) (VInt z).
Proof. destruct row as [|x t]; reflexivity. Qed.

Lemma cmp_ge0_varr row : cmp_vals CGe (varr row) (VInt 0) = Ret (VArr (map (fun x => VBool (0 <=? x)) row)).
Proof.
  unfold cmp_vals, varr.
  rewrite (map_res_map _ VInt (fun x => VBool (0 <=? x))); [reflexivity|]. intros x _. reflexivity.
Qed.

Lemma where_bools {A} (g : A -> bool) l :
  builtin1_val BNpWhere (VArr (map (fun x => VBool (g x)) l)) =
  Ret (VTuple [varr (used_indices (map (fun x => if g x then 0 else -1) l))]).
Proof.
  unfold builtin1_val. destruct l as [|a l]; [reflexivity|]. cbn [map].
  change (VBool (g a) :: map (fun x => VBool (g x)) l) with (map (fun x => VBool (g x)) (a :: l)).
  rewrite (map_res_map _ (fun x => VBool (g x)) g) by (intros; reflexivity). cbn [rbind].
  rewrite map_map. reflexivity.
Qed.

Lemma used_from_flag : forall row j, used_from (map (fun x => if 0 <=? x then 0 else -1) row) j = used_from row j.
Proof.
  induction row as [|x t IH]; intros j; [reflexivity|]. cbn [map used_from]. rewrite IH.
  destruct (0 <=? x); reflexivity.
Qed.

Lemma where_ge0 row : builtin1_val BNpWhere (VArr (map (fun x => VBool (0 <=? x)) row)) = Ret (VTuple [varr (used_indices row)]).
Proof. rewrite where_bools. unfold used_indices. rewrite used_from_flag. reflexivity. Qed.

(* ---- the statements of the generated body -------------------------------------------------------------------------------------- *)
Definition seq1 (s : stmt) : stmt := match s with SSeq a _ => a | _ => SSkip end.
Definition seq2 (s : stmt) : stmt := match s with SSeq _ b => b | _ => SSkip end.
Definition for_body (s : stmt) : stmt := match s with SFor _ _ b => b | _ => SSkip end.
Definition whileb_body (s : stmt) : stmt := match s with SWhileB _ b => b | _ => SSkip end.
Definition if_then (s : stmt) : stmt := match s with SIf _ a _ => a | _ => SSkip end.

Definition s_early := Eval cbv in seq1 (body approximate_capacity_def).
Definition s_ign := Eval cbv in seq1 (seq2 (body approximate_capacity_def)).
Definition s_init := Eval cbv in seq1 (seq2 (seq2 (body approximate_capacity_def))).
Definition s_for := Eval cbv in seq1 (seq2 (seq2 (seq2 (body approximate_capacity_def)))).
Definition s_ret := Eval cbv in seq2 (seq2 (seq2 (seq2 (body approximate_capacity_def)))).
Definition obody := Eval cbv in for_body s_for.
Definition o1 := Eval cbv in seq1 obody.                                  (* if verbose and repeats > 1: print *)
Definition o2 := Eval cbv in seq1 (seq2 obody).                           (* record.append([]) *)
Definition o3 := Eval cbv in seq1 (seq2 (seq2 obody)).                    (* the start vector *)
Definition o4 := Eval cbv in seq1 (seq2 (seq2 (seq2 obody))).             (* last_eigenvector[ignore_positions] = 0.0 *)
Definition o5 := Eval cbv in seq1 (seq2 (seq2 (seq2 (seq2 obody)))).      (* monitor, queue, last_eigenvalue, current = .. *)
Definition s_while := Eval cbv in seq2 (seq2 (seq2 (seq2 (seq2 obody)))).
Definition wbody := Eval cbv in whileb_body s_while.
Definition w1 := Eval cbv in seq1 wbody.                                  (* eigenvector = zeros_like(last_eigenvector) *)
Definition w2 := Eval cbv in seq1 (seq2 wbody).                           (* the column loop *)
Definition w3 := Eval cbv in seq1 (seq2 (seq2 wbody)).                    (* eigenvalue = max(eigenvector) *)
Definition w4 := Eval cbv in seq1 (seq2 (seq2 (seq2 wbody))).             (* normalisation *)
Definition w5 := Eval cbv in seq1 (seq2 (seq2 (seq2 (seq2 wbody)))).      (* record[-1].append(..) *)
Definition w6 := Eval cbv in seq1 (seq2 (seq2 (seq2 (seq2 (seq2 wbody))))).   (* if last_eigenvalue is not None: .. *)
Definition w7 := Eval cbv in seq2 (seq2 (seq2 (seq2 (seq2 (seq2 wbody))))).   (* last_eigenvalue, last_eigenvector, current = .. *)
Definition colbody := Eval cbv in for_body w2.
Definition c1 := Eval cbv in seq1 colbody.
Definition c2 := Eval cbv in seq2 colbody.
Definition inner := Eval cbv in if_then w6.
Definition i1 := Eval cbv in seq1 inner.                                  (* relative_error *)
Definition i2 := Eval cbv in seq1 (seq2 inner).                           (* queue.append(eigenvalue) *)
Definition i3 := Eval cbv in seq1 (seq2 (seq2 inner)).                    (* if verbose ..: monitor *)
Definition i4 := Eval cbv in seq1 (seq2 (seq2 (seq2 inner))).             (* is_finished = False *)
Definition i5 := Eval cbv in seq1 (seq2 (seq2 (seq2 (seq2 inner)))).      (* tolerance test *)
Definition i6 := Eval cbv in seq1 (seq2 (seq2 (seq2 (seq2 (seq2 inner))))).   (* median fallback *)
Definition i7 := Eval cbv in seq2 (seq2 (seq2 (seq2 (seq2 (seq2 inner))))).   (* if is_finished: .. break *)
Definition lg_expr := Eval cbv in match w5 with SAppendAt _ _ e => e | _ => ENone end.

Lemma body_eq : body approximate_capacity_def = SSeq s_early (SSeq s_ign (SSeq s_init (SSeq s_for s_ret))).
Proof. reflexivity. Qed.
Lemma s_for_eq : s_for = SFor (TVar "repeat") (EB1 BRange (EVar "repeats")) obody.
Proof. reflexivity. Qed.
Lemma obody_eq : obody = SSeq o1 (SSeq o2 (SSeq o3 (SSeq o4 (SSeq o5 s_while)))).
Proof. reflexivity. Qed.
Lemma s_while_eq : s_while = SWhileB (EBoolLit true) wbody.
Proof. reflexivity. Qed.
Lemma wbody_eq : wbody = SSeq w1 (SSeq w2 (SSeq w3 (SSeq w4 (SSeq w5 (SSeq w6 w7))))).
Proof. reflexivity. Qed.
Lemma w2_eq : w2 = SFor (TVar "positions") (EB1 BTranspose (EVar "accessor")) colbody.
Proof. reflexivity. Qed.
Lemma colbody_eq : colbody = SSeq c1 c2.
Proof. reflexivity. Qed.
Lemma w6_eq : w6 = SIf (ENot (EB1 BIsNone (EVar "last_eigenvalue"))) inner SSkip.
Proof. reflexivity. Qed.
Lemma inner_eq : inner = SSeq i1 (SSeq i2 (SSeq i3 (SSeq i4 (SSeq i5 (SSeq i6 i7))))).
Proof. reflexivity. Qed.

Lemma nth_vint j r : (j < length r)%nat -> nth j (map VInt r) VNone = VInt (nth j r 0).
Proof. intro H. rewrite (nth_indep _ VNone (VInt 0)) by (rewrite map_length; exact H). apply map_nth. Qed.

Lemma transpose_rows4 (a : list (list Z)) : a <> [] -> Forall (fun row => length row = 4%nat) a ->
  builtin1_val BTranspose (varr2 a) = Ret (VArr (map (fun j => varr (map (fun r => nth j r 0) a)) [0; 1; 2; 3]%nat)).
Proof.
  intros Hne Hrows. rewrite Forall_forall in Hrows.
  assert (E1 : map_res (fun r => match r with VArr l => Ret l | _ => Stuck end) (map varr a) = Ret (map (map VInt) a)).
  { apply map_res_map. intros; reflexivity. }
  assert (E4 : forall j, (j < 4)%nat -> VArr (map (fun r => nth j r VNone) (map (map VInt) a)) = varr (map (fun r => nth j r 0) a)).
  { intros j Hj. unfold varr. rewrite !map_map. f_equal. apply map_ext_in. intros r Hr. apply nth_vint.
    rewrite (Hrows r Hr). exact Hj. }
  destruct a as [|r0 t]; [contradiction|].
  assert (E2 : forallb (fun r => Nat.eqb (length r) (length (map VInt r0))) (map (map VInt) (r0 :: t)) = true).
  { apply forallb_forall. intros x Hx. apply in_map_iff in Hx. destruct Hx as [r [<- Hr]]. rewrite !map_length.
    rewrite (Hrows r Hr), (Hrows r0) by (left; reflexivity). reflexivity. }
  assert (E3 : length (map VInt r0) = 4%nat).
  { rewrite map_length. apply Hrows. left; reflexivity. }
  set (R := map (fun j => varr (map (fun r => nth j r 0) (r0 :: t))) [0; 1; 2; 3]%nat).
  unfold varr2. cbn [map]. unfold varr at 1. unfold builtin1_val.
  change (VArr (map VInt r0) :: map varr t) with (map varr (r0 :: t)).
  rewrite E1. cbn [rbind]. rewrite E2, E3. change (List.seq 0 4) with [0; 1; 2; 3]%nat. subst R. do 2 f_equal. apply map_ext_in. intros j Hj. apply E4.
  cbn [In] in Hj. lia.
Qed.

Lemma cmp_gt_ff a b : cmp_top CGt (VFloat a) (VFloat b) = Ret (VBool (PrimFloat.ltb b a)).
Proof. reflexivity. Qed.
Lemma cmp_lt_ff a b : cmp_top CLt (VFloat a) (VFloat b) = Ret (VBool (PrimFloat.ltb a b)).
Proof. reflexivity. Qed.
Lemma cmp_gt_f0 a : cmp_top CGt (VFloat a) (VInt 0) = Ret (VBool (PrimFloat.ltb 0%float a)).
Proof. reflexivity. Qed.
Lemma cmp_gt_ii a b : cmp_top CGt (VInt a) (VInt b) = Ret (VBool (b <? a)).
Proof. reflexivity. Qed.
Lemma cmp_lt_ii a b : cmp_top CLt (VInt a) (VInt b) = Ret (VBool (a <? b)).
Proof. reflexivity. Qed.

Lemma div_ff a b : PrimFloat.ltb 0%float b = true -> binop_vals TrueDiv (VFloat a) (VFloat b) = Ret (VFloat (a / b)%float).
Proof. intro H. unfold binop_vals, binop_scalar. cbn [has_float as_float rbind]. rewrite (ltb_pos_neqb b H). reflexivity. Qed.

Lemma div_arr l b : PrimFloat.ltb 0%float b = true ->
  binop_vals TrueDiv (vfloats l) (VFloat b) = Ret (vfloats (map (fun a => (a / b)%float) l)).
Proof.
  intro H. unfold binop_vals, vfloats.
  rewrite (map_res_map _ VFloat (fun a => VFloat (a / b)%float)).
  - rewrite map_map. reflexivity.
  - intros x _. unfold binop_scalar. cbn [has_float as_float rbind]. rewrite (ltb_pos_neqb b H). reflexivity.
Qed.

Lemma mul_arr l b : binop_vals Mul (vfloats l) (VFloat b) = Ret (vfloats (map (fun a => (a * b)%float) l)).
Proof.
  unfold binop_vals, vfloats.
  rewrite (map_res_map _ VFloat (fun a => VFloat (a * b)%float)).
  - rewrite map_map. reflexivity.
  - intros x _. reflexivity.
Qed.

Lemma map_const_len {A B C} (c : C) (l1 : list A) (l2 : list B) :
  length l1 = length l2 -> map (fun _ => c) l1 = map (fun _ => c) l2.
Proof.
  revert l2. induction l1 as [|x t IH]; intros [|y l2] H; try discriminate; [reflexivity|].
  cbn [map]. f_equal. apply IH. cbn [length] in H. lia.
Qed.

Lemma zeros_like_floats (x : list float) : x <> [] ->
  builtin1_val BZerosLike (vfloats x) = Ret (vfloats (map (fun _ => 0%float) x)).
Proof.
  intro H. destruct x as [|h t]; [contradiction|]. unfold vfloats, builtin1_val. cbn [map].
  change (VFloat h :: map VFloat t) with (map VFloat (h :: t)). rewrite floats_of_map. cbn [rbind]. rewrite map_map. reflexivity.
Qed.

Lemma np_max_floats (x : list float) : x <> [] -> builtin1_val BNpMax (vfloats x) = Ret (VFloat (Capacity.vec_max x)).
Proof.
  intro H. destruct x as [|h t]; [contradiction|]. unfold vfloats, builtin1_val. cbn [map].
  change (VFloat h :: map VFloat t) with (map VFloat (h :: t)). rewrite floats_of_map. reflexivity.
Qed.

Lemma blen_vflist (q : list float) : builtin1_val BLen (vflist q) = Ret (VInt (Z.of_nat (length q))).
Proof. unfold vflist, builtin1_val. rewrite map_length. reflexivity. Qed.

Lemma median_flist (q : list float) : q <> [] -> builtin1_val BMedian (vflist q) = Ret (VFloat (Capacity.fmedian q)).
Proof.
  intro H. unfold vflist, builtin1_val. rewrite floats_of_map. cbn [rbind]. rewrite fmedianf_eq.
  destruct q; [contradiction|reflexivity].
Qed.

(* a[positions] = 0.0 on a float array, positions from numpy.where *)
Lemma store_const (z : float) l idx :
  forallb (fun x => match x with VFloat _ => true | _ => false end) l = true ->
  Forall (fun j => 0 <= j < Z.of_nat (length l)) idx ->
  store_val (VArr l) (VArr (map VInt idx)) (VFloat z)
  = Ret (VArr (fold_left (fun l j => set_nth l (Z.to_nat j) (VFloat z)) idx l)).
Proof.
  intros Hl Hr. unfold store_val. rewrite Hl. clear Hl.
  revert l Hr. induction idx as [|j t IH]; intros l Hr; [reflexivity|].
  cbn [map fold_left]. inversion Hr as [|? ? Hj Ht]; subst.
  destruct (j <? 0) eqn:E0; [lia|].
  destruct ((j <? 0) || (Z.of_nat (length l) <=? j)) eqn:E; [lia|].
  apply IH. rewrite set_nth_length. exact Ht.
Qed.

Lemma scatter_const (z : float) {A} (d : A -> bool) : forall (a : list A) (ev : list float) pre,
  length ev = length a ->
  fold_left (fun l j => set_nth l (Z.to_nat j) (VFloat z)) (used_from (map (fun r => if d r then 0 else -1) a) (Z.of_nat (length pre)))
            (pre ++ map VFloat ev)
  = pre ++ map VFloat (map (fun rv => if d (fst rv) then z else snd rv) (combine a ev)).
Proof.
  induction a as [|r a IH]; intros ev pre Hlen.
  - destruct ev; [reflexivity|discriminate].
  - destruct ev as [|e ev]; [discriminate|]. cbn [length] in Hlen. cbn [map used_from combine fst snd].
    assert (IH' : forall v, fold_left (fun l j => set_nth l (Z.to_nat j) (VFloat z))
                   (used_from (map (fun r => if d r then 0 else -1) a) (Z.of_nat (length pre) + 1))
                   ((pre ++ [v]) ++ map VFloat ev)
                 = (pre ++ [v]) ++ map VFloat (map (fun rv => if d (fst rv) then z else snd rv) (combine a ev))).
    { intro v. replace (Z.of_nat (length pre) + 1) with (Z.of_nat (length (pre ++ [v]))) by (rewrite app_length; cbn [length]; lia).
      apply IH. lia. }
    destruct (d r).
    + change (0 <=? 0) with true. cbv iota. cbn [fold_left]. rewrite Nat2Z.id, set_nth_mid.
      specialize (IH' (VFloat z)). rewrite <- !app_assoc in IH'. exact IH'.
    + change (0 <=? -1) with false. cbv iota.
      specialize (IH' (VFloat e)). rewrite <- !app_assoc in IH'. exact IH'.
Qed.

Lemma used_flags_range {A} (d : A -> bool) (a : list A) :
  Forall (fun j => 0 <= j < Z.of_nat (length a)) (used_indices (map (fun r => if d r then 0 else -1) a)).
Proof. rewrite <- (map_length (fun r => if d r then 0 else -1) a). apply used_indices_range. Qed.

Lemma store_zero_dead (acc : list (list Z)) (s : list float) : length s = length acc ->
  store_val (vfloats s) (varr (used_indices (map (fun r => if Capacity.dead_row r then 0 else -1) acc))) (VFloat 0%float)
  = Ret (vfloats (Capacity.zero_dead acc s)).
Proof.
  intro H. unfold vfloats, varr. rewrite store_const.
  - unfold used_indices. pose proof (scatter_const 0%float Capacity.dead_row acc s [] H) as E.
    cbn [length app] in E. change (Z.of_nat 0) with 0 in E. rewrite E. reflexivity.
  - apply forallb_isfloat'.
  - rewrite map_length, H. apply used_flags_range.
Qed.

(* sum(accessor, axis=1) == -4 *)
Lemma sum_axis1 (acc : list (list Z)) : builtin1_val BNpSumAxis1 (varr2 acc) = Ret (varr (map sumZ acc)).
Proof.
  unfold builtin1_val, varr2.
  rewrite (map_res_map _ varr (fun r => VInt (sumZ r))).
  - cbn [rbind]. unfold varr. rewrite map_map. reflexivity.
  - intros r _. unfold varr. rewrite (map_res_map _ VInt (fun x => x)) by (intros; reflexivity). rewrite map_id. reflexivity.
Qed.

Lemma cmp_eq_varr l z : cmp_vals CEq (varr l) (VInt z) = Ret (VArr (map (fun x => VBool (x =? z)) l)).
Proof.
  unfold cmp_vals, varr. rewrite (map_res_map _ VInt (fun x => VBool (x =? z))); [reflexivity|]. intros x _. reflexivity.
Qed.

(* numpy.all(accessor == -1) *)
Lemma all_true_rows (acc : list (list Z)) :
  all_true (VArr (map (fun r => VArr (map (fun x => VBool (x =? -1)) r)) acc)) = Ret (Capacity.all_minus_one acc).
Proof.
  unfold Capacity.all_minus_one.
  assert (R : forall r, all_true (VArr (map (fun x => VBool (x =? -1)) r)) = Ret (forallb (fun e => e =? -1) r)).
  { induction r as [|x t IH]; [reflexivity|]. cbn [map forallb]. cbn [all_true] in IH |- *. rewrite IH. reflexivity. }
  induction acc as [|r t IH]; [reflexivity|].
  cbn [map forallb]. change (all_true (VArr (?a :: ?l))) with (b <~ all_true a ;; bs <~ all_true (VArr l) ;; Ret (b && bs)).
  rewrite R, IH. reflexivity.
Qed.

Lemma all_eq_m1 (acc : list (list Z)) : acc <> [] ->
  x <~ cmp_top CEq (varr2 acc) (VInt (-1)) ;; builtin1_val BNpAllAny x = Ret (VBool (Capacity.all_minus_one acc)).
Proof.
  intro H. destruct acc as [|r0 t]; [contradiction|]. unfold varr2. cbn [map]. unfold varr at 1. unfold cmp_top.
  change (VArr (map VInt r0) :: map varr t) with (map varr (r0 :: t)).
  rewrite (map_res_map _ varr (fun r => VArr (map (fun x => VBool (x =? -1)) r))).
  - cbn [rbind]. unfold builtin1_val. rewrite all_true_rows. reflexivity.
  - intros r _. fold (varr r). rewrite cmp_eq_varr. reflexivity.
Qed.

Lemma map_repeat' {A B} (f : A -> B) x n : map f (repeat x n) = repeat (f x) n.
Proof. induction n as [|n IH]; [reflexivity|]. cbn [repeat map]. rewrite IH. reflexivity. Qed.

Lemma map_res_const {A} (c : val) (f : A -> res val) : forall l, (forall x, f x = Ret c) -> map_res f l = Ret (repeat c (length l)).
Proof. intros l H. induction l as [|x t IH]; [reflexivity|]. cbn [map_res length repeat]. rewrite H, IH. reflexivity. Qed.

Lemma zrange_up_length n a st : length (zrange_up n a st) = n.
Proof. revert a. induction n as [|n IH]; intro a; [reflexivity|]. cbn [zrange_up length]. rewrite IH. reflexivity. Qed.

Lemma range_items r : 0 <= r -> builtin1_val BRange (VInt r) = Ret (VList (zrange_up (Z.to_nat r) 0 1)).
Proof.
  intro H. unfold builtin1_val, range3. change (1 =? 0) with false. change (0 <? 1) with true. cbv iota.
  replace ((r - 0 + 1 - 1) / 1) with r by (rewrite Z.div_1_r; lia). reflexivity.
Qed.

Lemma cmp_eq_ii a b : cmp_top CEq (VInt a) (VInt b) = Ret (VBool (a =? b)).
Proof. reflexivity. Qed.

Lemma len_row0 (a : list (list Z)) : a <> [] -> Forall (fun row => length row = 4%nat) a ->
  x <~ index_val (varr2 a) (VInt 0) ;; builtin1_val BLen x = Ret (VInt 4).
Proof.
  intros Hne Hr. destruct a as [|r0 t]; [contradiction|]. inversion Hr as [|? ? H0 _]; subst.
  unfold varr2, index_val. cbn [map]. rewrite (py_get_ok _ 0 VNone) by (cbn [length]; lia). cbn [Z.to_nat nth rbind].
  unfold varr, builtin1_val. rewrite map_length, H0. reflexivity.
Qed.

Lemma index_tuple1 x : index_val (VTuple [x]) (VInt 0) = Ret x.
Proof. reflexivity. Qed.

Lemma median_fmedianf (l : list float) : l <> [] -> builtin1_val BMedian (vflist l) = Ret (VFloat (fmedianf l)).
Proof. intro H. unfold vflist, builtin1_val. rewrite floats_of_map. cbn [rbind]. destruct l; [contradiction|reflexivity]. Qed.

Lemma index_head x l : index_val (VList (x :: l)) (VInt 0) = Ret x.
Proof. unfold index_val. rewrite (py_get_ok _ 0 VNone) by (cbn [length]; lia). reflexivity. Qed.

(* ---- frame conditions ---------------------------------------------------------------------------------------------------------- *)
Definition inb (x : string) (mods : list string) : bool := existsb (String.eqb x) mods.
Definition unch (mods : list string) (en en' : env) : Prop := forall x, inb x mods = false -> lookup x en' = lookup x en.

Lemma unch_refl mods en : unch mods en en.
Proof. intros x _. reflexivity. Qed.

Lemma unch_trans mods en1 en2 en3 : unch mods en1 en2 -> unch mods en2 en3 -> unch mods en1 en3.
Proof. intros H1 H2 x Hx. rewrite (H2 x Hx). apply H1, Hx. Qed.

Lemma inb_true_neq x y mods : inb x mods = false -> inb y mods = true -> x <> y.
Proof. intros H1 H2 E. subst y. rewrite H1 in H2. discriminate. Qed.

Lemma unch_update mods en en' y v : inb y mods = true -> unch mods en en' -> unch mods en (update y v en').
Proof.
  intros Hy H x Hx. rewrite lookup_update_other by (eapply inb_true_neq; eassumption). apply H, Hx.
Qed.

Lemma unch_weaken mods mods' en en' : (forall x, inb x mods = true -> inb x mods' = true) -> unch mods en en' -> unch mods' en en'.
Proof.
  intros Hs H x Hx. apply H. destruct (inb x mods) eqn:E; [|reflexivity]. rewrite (Hs x E) in Hx. discriminate.
Qed.

Lemma unch_sub mods mods' en en' : forallb (fun x => inb x mods') mods = true -> unch mods en en' -> unch mods' en en'.
Proof.
  intros H U. apply (unch_weaken mods); [|exact U]. intros x Hx. unfold inb in Hx. apply existsb_exists in Hx.
  destruct Hx as [y [Hy E]]. apply String.eqb_eq in E. subst y. rewrite forallb_forall in H. exact (H x Hy).
Qed.

Ltac unch_solve := repeat (apply unch_update; [reflexivity|]); first [apply unch_refl|assumption].
(* resolve the lookups of the goal down to the hypotheses *)
Ltac lku := repeat first [rewrite lookup_update_same | rewrite lookup_update_other by discriminate
                         | match goal with U : unch _ _ ?e |- context [lookup ?x ?e] => rewrite (U x) by reflexivity end].
Ltac lks := repeat (lku; match goal with H : lookup _ _ = Ret _ |- _ => rewrite H end); lku.
Ltac lka := lku; first [assumption|reflexivity].

Section Cap.
  Variable ce : string -> list val -> res val.
  Variable fuel : nat.
  Variable acc : list (list Z).
  Variables (tolz : Z) (tol : float) (L : float -> float) (maxit : nat) (repeats : Z) (process verbose : bool).
  Hypothesis Hce : externals_ok ce tolz tol L.
  Hypothesis Hne : acc <> [].
  Hypothesis Hrows : Forall (fun row => length row = 4%nat) acc.
  Hypothesis Hrange : Forall (Forall (fun x => x < Z.of_nat (length acc))) acc.

  (* ---- one column ---------------------------------------------------------------------------------------------------------- *)
  Lemma exec_colbody en last ev col :
    lookup "last_eigenvector" en = Ret (vfloats last) -> lookup "eigenvector" en = Ret (vfloats ev) ->
    lookup "positions" en = Ret (varr col) -> length ev = length col ->
    Forall (fun x => x < Z.of_nat (length last)) col ->
    exec ce fuel colbody en
    = ONormal (update "eigenvector" (vfloats (col_step last ev col)) (update "available" (VTuple [varr (used_indices col)]) en)).
  Proof.
    intros HL HE HP Hlen Hr. unfold colbody.
    cbn [exec eval]. rewrite HP. cbn [rbind]. rewrite cmp_top_varr, cmp_ge0_varr. cbn [rbind]. rewrite where_ge0.
    cbn [lift assign seq]. lks. cbn [lift rbind].
    assert (Hidx : Forall (fun j => 0 <= j < Z.of_nat (length ev)) (used_indices col)).
    { rewrite Hlen. apply used_indices_range. }
    unfold vfloats at 1 2. unfold varr at 1. rewrite index_tuple, (index_pos VFloat 0%float) by exact Hidx. cbn [lift].
    unfold varr at 1 2. rewrite index_tuple, (index_pos VInt 0) by (rewrite <- Hlen; exact Hidx). cbn [rbind].
    rewrite <- (map_map (fun j => nth (Z.to_nat j) col 0) VInt).
    unfold vfloats at 1. rewrite (index_pos VFloat 0%float).
    2:{ apply Forall_forall. intros x Hx. apply in_map_iff in Hx. destruct Hx as [j [<- Hj]].
        pose proof (used_from_live _ _ _ Hj) as H0. rewrite Z.sub_0_r in H0. split; [exact H0|].
        rewrite Forall_forall in Hr. apply used_from_bounds in Hj.
        assert (Hlt : (Z.to_nat j < length col)%nat) by lia.
        exact (Hr _ (nth_In col 0 Hlt)). }
    rewrite map_map. cbn [lift].
    rewrite (binop_add_maps (fun j => nth (Z.to_nat j) ev 0%float)
                            (fun j => nth (Z.to_nat (nth (Z.to_nat j) col 0)) last 0%float)). cbn [lift].
    unfold varr at 1. rewrite store_tuple.
    rewrite (store_pos (fun j => (nth (Z.to_nat j) ev 0 + nth (Z.to_nat (nth (Z.to_nat j) col 0%Z)) last 0)%float)).
    2:{ apply forallb_isfloat'. }
    2:{ apply nodupb_used_from. }
    2:{ rewrite map_length. exact Hidx. }
    cbn [lift]. unfold used_indices.
    rewrite (scatter_used last _ col ev [] Hlen).
    2:{ intros i Hi. cbn [length Nat.add]. rewrite Nat2Z.id. reflexivity. }
    reflexivity.
  Qed.

  (* ---- the column loop: the matrix-vector product ---------------------------------------------------------------------- *)
  Definition colv (j : nat) : list Z := map (fun r => nth j r 0) acc.

  Lemma transpose_acc : builtin1_val BTranspose (varr2 acc) = Ret (VArr (map (fun j => varr (colv j)) [0; 1; 2; 3]%nat)).
  Proof. apply transpose_rows4; assumption. Qed.

  Definition add_entry (last : list float) (r : list Z) (s : float) (j : nat) : float :=
    if 0 <=? nth j r 0 then (s + nth (Z.to_nat (nth j r 0%Z)) last 0)%float else s.

  Lemma colv_range j (last : list float) : length last = length acc -> Forall (fun x => x < Z.of_nat (length last)) (colv j).
  Proof.
    intro HL. unfold colv. apply Forall_forall. intros x Hx. apply in_map_iff in Hx. destruct Hx as [r [<- Hr]].
    rewrite HL. rewrite Forall_forall in Hrange. specialize (Hrange r Hr). rewrite Forall_forall in Hrange.
    destruct (nth_in_or_default j r 0) as [Hin|Hd]; [apply Hrange, Hin|]. rewrite Hd.
    destruct acc; [contradiction|cbn [length]; lia].
  Qed.

  Lemma col_loop (last : list float) : length last = length acc -> forall js en (g : list Z -> float),
    lookup "last_eigenvector" en = Ret (vfloats last) -> lookup "eigenvector" en = Ret (vfloats (map g acc)) ->
    exists en', for_loop ce fuel (TVar "positions") colbody (map (fun j => varr (colv j)) js) en = ONormal en' /\
      unch ["positions"; "available"; "eigenvector"] en en' /\
      lookup "eigenvector" en' = Ret (vfloats (map (fun r => fold_left (add_entry last r) js (g r)) acc)).
  Proof.
    intros HL js. induction js as [|j js IH]; intros en g H1 H2.
    - exists en. split; [reflexivity|]. split; [apply unch_refl|exact H2].
    - cbn [map for_loop assign seq].
      rewrite (exec_colbody _ last (map g acc) (colv j)); [| lka | lka | lka | unfold colv; rewrite !map_length; reflexivity
                                                          | apply colv_range, HL ].
      cbn [seq]. unfold colv at 2. rewrite col_step_map.
      match goal with |- context [for_loop _ _ _ _ _ ?e] => set (en1 := e) end.
      destruct (IH en1 (fun r => add_entry last r (g r) j)) as [en' [E [U HV]]].
      + unfold en1. lka.
      + unfold en1. lk. reflexivity.
      + exists en'. split; [exact E|]. split; [|exact HV].
        eapply unch_trans; [|exact U]. unfold en1. unch_solve.
  Qed.

  Lemma row_sum_fold last r : length r = 4%nat -> fold_left (add_entry last r) [0; 1; 2; 3]%nat 0%float = Capacity.row_sum last r.
  Proof.
    intro H. destruct r as [|a [|b [|c [|d [|]]]]]; try discriminate. reflexivity.
  Qed.

  Lemma exec_w2 en (last : list float) : length last = length acc ->
    lookup "accessor" en = Ret (varr2 acc) ->
    lookup "last_eigenvector" en = Ret (vfloats last) -> lookup "eigenvector" en = Ret (vfloats (map (fun _ => 0%float) acc)) ->
    exists en', exec ce fuel w2 en = ONormal en' /\
      unch ["positions"; "available"; "eigenvector"] en en' /\
      lookup "eigenvector" en' = Ret (vfloats (Capacity.mat_vec acc last)).
  Proof.
    intros HL HA H1 H2. rewrite w2_eq, exec_for. cbn [eval]. rewrite HA. cbn [rbind]. rewrite transpose_acc. cbn [lift items].
    destruct (col_loop last HL [0; 1; 2; 3]%nat en (fun _ => 0%float) H1 H2) as [en' [E [U HV]]].
    exists en'. split; [exact E|]. split; [exact U|]. rewrite HV. unfold Capacity.mat_vec. do 2 f_equal.
    apply map_ext_in. intros r Hr. apply row_sum_fold. rewrite Forall_forall in Hrows. exact (Hrows r Hr).
  Qed.

  (* ---- the statements of the while body ------------------------------------------------------------------------------------- *)
  Ltac ev := cbn [exec eval lift seq rbind assign items bind_tuple truthy binop_vals binop_scalar has_float as_float
                  mixes_bool is_arr orb andb negb forallb key_ok fst snd].

  Lemma exec_w1 en (x : list float) : lookup "last_eigenvector" en = Ret (vfloats x) -> length x = length acc ->
    exec ce fuel w1 en = ONormal (update "eigenvector" (vfloats (map (fun _ => 0%float) acc)) en).
  Proof.
    intros H Hl. unfold w1. ev. rewrite H. ev. rewrite zeros_like_floats.
    - ev. rewrite (map_const_len 0%float x acc Hl). reflexivity.
    - intro E. subst x. destruct acc; [contradiction|discriminate].
  Qed.

  Lemma exec_w3 en (v : list float) : lookup "eigenvector" en = Ret (vfloats v) -> v <> [] ->
    exec ce fuel w3 en = ONormal (update "eigenvalue" (VFloat (Capacity.vec_max v)) en).
  Proof. intros H Hv. unfold w3. ev. rewrite H. ev. rewrite np_max_floats by exact Hv. reflexivity. Qed.

  Definition normalise (v : list float) (lam : float) : list float :=
    if PrimFloat.ltb 0%float lam then map (fun a => (a / lam)%float) v else map (fun a => (a * 0)%float) v.

  Lemma exec_w4 en (v : list float) lam : lookup "eigenvector" en = Ret (vfloats v) -> lookup "eigenvalue" en = Ret (VFloat lam) ->
    exec ce fuel w4 en = ONormal (update "eigenvector" (vfloats (normalise v lam)) en).
  Proof.
    intros H1 H2. unfold w4, normalise. ev. rewrite H2. ev. rewrite cmp_gt_f0. ev.
    destruct (PrimFloat.ltb 0%float lam) eqn:E; ev; rewrite H1; ev; rewrite ?H2; ev.
    - rewrite div_arr by exact E. reflexivity.
    - rewrite mul_arr. reflexivity.
  Qed.

  Lemma eval_lg en lam : lookup "eigenvalue" en = Ret (VFloat lam) -> lookup "tolerance_level" en = Ret (VInt tolz) ->
    eval ce en lg_expr = Ret (VFloat (lg tol L lam)).
  Proof.
    intros H1 H2. unfold lg_expr, lg. ev. rewrite H1, H2. ev. rewrite (proj1 Hce). ev. rewrite cmp_gt_ff. ev.
    destruct (PrimFloat.ltb tol lam); ev; [|reflexivity]. rewrite ?H1. ev. apply (proj2 Hce).
  Qed.

  Lemma exec_w5 en lam pre r : lookup "eigenvalue" en = Ret (VFloat lam) -> lookup "tolerance_level" en = Ret (VInt tolz) ->
    lookup "record" en = Ret (VList (pre ++ [vflist r])) ->
    exec ce fuel w5 en = ONormal (update "record" (VList (pre ++ [vflist (r ++ [lg tol L lam])])) en).
  Proof.
    intros H1 H2 H3. unfold w5. fold lg_expr. cbn [exec]. rewrite H3. cbn [lift eval]. rewrite index_last. cbn [lift].
    rewrite (eval_lg en lam H1 H2). unfold vflist at 1. cbn [lift]. rewrite store_last. cbn [lift].
    unfold vflist. rewrite map_app. reflexivity.
  Qed.

  Definition rel_err (lam l0 : float) : float := if PrimFloat.ltb 0%float l0 then (abs (lam - l0) / l0)%float else 0%float.

  Lemma exec_i1 en lam l0 : lookup "eigenvalue" en = Ret (VFloat lam) -> lookup "last_eigenvalue" en = Ret (VFloat l0) ->
    exec ce fuel i1 en = ONormal (update "relative_error" (VFloat (rel_err lam l0)) en).
  Proof.
    intros H1 H2. unfold i1, rel_err. ev. rewrite H2. ev. rewrite cmp_gt_ff. ev.
    destruct (PrimFloat.ltb 0%float l0) eqn:E; ev; [|reflexivity].
    rewrite ?H1, ?H2. ev. cbn [builtin1_val]. ev. rewrite (ltb_pos_neqb l0 E). reflexivity.
  Qed.

  Lemma exec_i2 en lam q : lookup "eigenvalue" en = Ret (VFloat lam) -> lookup "queue" en = Ret (vflist q) ->
    exec ce fuel i2 en = ONormal (update "queue" (vflist (q ++ [lam])) en).
  Proof. intros H1 H2. unfold i2. ev. rewrite H2, H1. ev. unfold vflist. rewrite map_app. reflexivity. Qed.

  Lemma exec_i3 en lam rel c : lookup "verbose" en = Ret (VBool verbose) -> lookup "current" en = Ret (VInt c) ->
    lookup "maximum_iteration" en = Ret (VInt (Z.of_nat maxit)) ->
    lookup "eigenvalue" en = Ret (VFloat lam) -> lookup "relative_error" en = Ret (VFloat rel) ->
    exec ce fuel i3 en = ONormal en.
  Proof.
    intros H1 H2 H3 H4 H5. unfold i3. ev. rewrite H1. ev. destruct verbose; ev; [|reflexivity].
    rewrite H2, H3. ev. rewrite cmp_lt_ii. ev. destruct (c + 1 <? Z.of_nat maxit); ev; [|reflexivity].
    rewrite ?H2, ?H3, ?H4, ?H5. ev. cbn [builtin1_val]. ev. reflexivity.
  Qed.

  Lemma exec_i4 en : exec ce fuel i4 en = ONormal (update "is_finished" (VBool false) en).
  Proof. reflexivity. Qed.

  Lemma exec_i5 en rel lam rs : lookup "relative_error" en = Ret (VFloat rel) -> lookup "eigenvalue" en = Ret (VFloat lam) ->
    lookup "tolerance_level" en = Ret (VInt tolz) -> lookup "results" en = Ret (VList rs) ->
    exec ce fuel i5 en = ONormal (if PrimFloat.ltb rel tol
                                  then update "is_finished" (VBool true) (update "results" (VList (rs ++ [VFloat (lg tol L lam)])) en)
                                  else en).
  Proof.
    intros H1 H2 H3 H4. unfold i5. fold lg_expr. cbn [exec eval]. rewrite H1, H3. ev. rewrite (proj1 Hce). ev.
    rewrite cmp_lt_ff. ev. destruct (PrimFloat.ltb rel tol); [|reflexivity].
    cbn [exec]. rewrite H4, (eval_lg en lam H2 H3). ev. reflexivity.
  Qed.

  Lemma exec_i6 en (q : list float) rs : lookup "queue" en = Ret (vflist q) -> q <> [] ->
    lookup "maximum_iteration" en = Ret (VInt (Z.of_nat maxit)) ->
    lookup "tolerance_level" en = Ret (VInt tolz) -> lookup "results" en = Ret (VList rs) ->
    exec ce fuel i6 en = ONormal (if Nat.ltb maxit (length q)
                                  then update "is_finished" (VBool true)
                                         (update "results" (VList (rs ++ [VFloat (lg tol L (Capacity.fmedian q))]))
                                            (update "eigenvalue" (VFloat (Capacity.fmedian q)) en))
                                  else en).
  Proof.
    intros H1 Hq H2 H3 H4. unfold i6. fold lg_expr. cbn [exec eval]. rewrite H1, H2. ev. rewrite blen_vflist. ev. rewrite cmp_gt_ii. ev.
    replace (Z.of_nat maxit <? Z.of_nat (length q)) with (Nat.ltb maxit (length q))
      by (destruct (Nat.ltb maxit (length q)) eqn:E; [apply Nat.ltb_lt in E|apply Nat.ltb_ge in E]; lia).
    destruct (Nat.ltb maxit (length q)); [|reflexivity].
    ev. rewrite median_flist by exact Hq. ev. lk. rewrite H4.
    rewrite (eval_lg _ (Capacity.fmedian q)) by (lk; first [reflexivity|assumption]). ev. reflexivity.
  Qed.

  Lemma exec_i7 en (fin : bool) rs x : lookup "is_finished" en = Ret (VBool fin) -> lookup "verbose" en = Ret (VBool verbose) ->
    lookup "maximum_iteration" en = Ret (VInt (Z.of_nat maxit)) ->
    (fin = true -> lookup "results" en = Ret (VList (rs ++ [VFloat x]))) ->
    exec ce fuel i7 en = if fin then OBreak en else ONormal en.
  Proof.
    intros H1 H2 H3 H4. unfold i7. ev. rewrite H1. ev. destruct fin; [|reflexivity]. ev. rewrite H2. ev.
    destruct verbose; ev; [|reflexivity]. rewrite H3, (H4 eq_refl). ev. rewrite index_last. ev. cbn [builtin1_val]. ev. reflexivity.
  Qed.

  Lemma exec_w7 en lam (v : list float) c : lookup "eigenvalue" en = Ret (VFloat lam) -> lookup "eigenvector" en = Ret (vfloats v) ->
    lookup "current" en = Ret (VInt c) ->
    exec ce fuel w7 en = ONormal (update "current" (VInt (c + 1)) (update "last_eigenvector" (vfloats v)
                                    (update "last_eigenvalue" (VFloat lam) en))).
  Proof. intros H1 H2 H3. unfold w7. ev. rewrite H1, H2, H3. ev. reflexivity. Qed.

  (* ---- one iteration of the while loop ------------------------------------------------------------------------------------------ *)
  Definition ign : list Z := used_indices (map (fun r => if Capacity.dead_row r then 0 else -1) acc).
  Definition lgs (l : list float) : val := vflist (map (lg tol L) l).

  Definition frame (en : env) : Prop :=
    lookup "accessor" en = Ret (varr2 acc) /\ lookup "tolerance_level" en = Ret (VInt tolz) /\
    lookup "repeats" en = Ret (VInt repeats) /\ lookup "maximum_iteration" en = Ret (VInt (Z.of_nat maxit)) /\
    lookup "process" en = Ret (VBool process) /\ lookup "verbose" en = Ret (VBool verbose) /\
    lookup "ignore_positions" en = Ret (varr ign).
  Definition base (en : env) (rng : list (list float)) (res : list float) : Prop :=
    frame en /\ lookup "__rng__" en = Ret (v_stream rng) /\ lookup "results" en = Ret (lgs res).
  Definition St (en : env) rng res (recs : list (list float)) : Prop :=
    base en rng res /\ lookup "record" en = Ret (VList (map lgs recs)).
  Definition winv (en : env) rng res (recs : list (list float)) (x : list float) (last : option float) (queue record : list float)
             (c : Z) : Prop :=
    base en rng res /\ lookup "record" en = Ret (VList (map lgs recs ++ [lgs (rev record)])) /\
    lookup "last_eigenvector" en = Ret (vfloats x) /\ length x = length acc /\
    lookup "last_eigenvalue" en = Ret (match last with None => VNone | Some l => VFloat l end) /\
    lookup "queue" en = Ret (vflist queue) /\ lookup "current" en = Ret (VInt c).

  Lemma normalise_length v lam : length (normalise v lam) = length v.
  Proof. unfold normalise. destruct (PrimFloat.ltb 0%float lam); apply map_length. Qed.

  Lemma mat_vec_length (x : list float) : length (Capacity.mat_vec acc x) = length acc.
  Proof. apply map_length. Qed.

  Lemma exec_prefix en (x : list float) pre r :
    lookup "accessor" en = Ret (varr2 acc) -> lookup "tolerance_level" en = Ret (VInt tolz) ->
    lookup "last_eigenvector" en = Ret (vfloats x) -> length x = length acc ->
    lookup "record" en = Ret (VList (pre ++ [vflist r])) ->
    exists en1,
      (forall k, exec ce fuel (SSeq w1 (SSeq w2 (SSeq w3 (SSeq w4 (SSeq w5 k))))) en = exec ce fuel k en1) /\
      unch ["eigenvector"; "positions"; "available"; "eigenvalue"; "record"] en en1 /\
      lookup "eigenvector" en1 = Ret (vfloats (normalise (Capacity.mat_vec acc x) (Capacity.vec_max (Capacity.mat_vec acc x)))) /\
      lookup "eigenvalue" en1 = Ret (VFloat (Capacity.vec_max (Capacity.mat_vec acc x))) /\
      lookup "record" en1 = Ret (VList (pre ++ [vflist (r ++ [lg tol L (Capacity.vec_max (Capacity.mat_vec acc x))])])).
  Proof.
    intros HA HT HL Hlen HR.
    set (v := Capacity.mat_vec acc x). set (lam := Capacity.vec_max v).
    destruct (exec_w2 (update "eigenvector" (vfloats (map (fun _ => 0%float) acc)) en) x Hlen) as [en_b [E2 [U2 HV2]]];
      [lka|lka|lka|]. fold v in HV2.
    assert (Hv : v <> []).
    { intro E. apply (f_equal (@length float)) in E. unfold v in E. rewrite mat_vec_length in E.
      destruct acc; [contradiction|discriminate]. }
    eexists. split; [|split; [|split; [|split]]].
    - intro k. rewrite (exec_seq _ _ w1), (exec_w1 en x HL Hlen). cbn [seq].
      rewrite (exec_seq _ _ w2), E2. cbn [seq].
      rewrite (exec_seq _ _ w3), (exec_w3 en_b v HV2 Hv). cbn [seq]. fold lam.
      rewrite (exec_seq _ _ w4), (exec_w4 _ v lam) by lka. cbn [seq].
      rewrite (exec_seq _ _ w5), (exec_w5 _ lam pre r) by lka. cbn [seq]. reflexivity.
    - repeat (apply unch_update; [reflexivity|]). eapply unch_trans; [|eapply unch_sub; [|exact U2]]; [|reflexivity].
      apply unch_update; [reflexivity|apply unch_refl].
    - lka.
    - lka.
    - lka.
  Qed.

  Ltac split_all := repeat match goal with |- _ /\ _ => split end.

  Lemma wbody_split en en1 :
    (forall k, exec ce fuel (SSeq w1 (SSeq w2 (SSeq w3 (SSeq w4 (SSeq w5 k))))) en = exec ce fuel k en1) ->
    exec ce fuel wbody en = seq (exec ce fuel w6 en1) (exec ce fuel w7).
  Proof. intro H. rewrite wbody_eq, H. reflexivity. Qed.

  Lemma step_first en rng res recs x queue record c :
    winv en rng res recs x None queue record c ->
    exists en', exec ce fuel wbody en = ONormal en' /\
      winv en' rng res recs (normalise (Capacity.mat_vec acc x) (Capacity.vec_max (Capacity.mat_vec acc x)))
           (Some (Capacity.vec_max (Capacity.mat_vec acc x))) queue (Capacity.vec_max (Capacity.mat_vec acc x) :: record) (c + 1).
  Proof.
    intros (((F1 & F2 & F3 & F4 & F5 & F6 & F7) & B1 & B2) & W1 & W2 & W3 & W4 & W5 & W6).
    destruct (exec_prefix en x (map lgs recs) (map (lg tol L) (rev record)) F1 F2 W2 W3 W1) as [en1 [E1 [U1 [P1 [P2 P3]]]]].
    set (lam := Capacity.vec_max (Capacity.mat_vec acc x)) in *.
    set (v' := normalise (Capacity.mat_vec acc x) lam) in *.
    eexists. split.
    - rewrite (wbody_split en en1 E1). rewrite w6_eq, exec_if. cbn [eval]. lks. cbn [rbind builtin1_val negb truthy lift exec seq].
      rewrite (exec_w7 en1 lam v' c) by lka. reflexivity.
    - unfold winv, base, frame. split_all; try lka.
      + lku. rewrite P3. cbn [rev]. unfold lgs. rewrite map_app. reflexivity.
      + unfold v'. rewrite normalise_length. apply mat_vec_length.
  Qed.

  Lemma step_next en rng res recs x l0 queue record c :
    winv en rng res recs x (Some l0) queue record c ->
    let v := Capacity.mat_vec acc x in
    let lam := Capacity.vec_max v in
    let rel := rel_err lam l0 in
    let queue' := queue ++ [lam] in
    let over := Nat.ltb maxit (length queue') in
    if PrimFloat.ltb rel tol || over
    then exists en', exec ce fuel wbody en = OBreak en' /\
           St en' rng (res ++ (if PrimFloat.ltb rel tol then [lam] else []) ++ (if over then [Capacity.fmedian queue'] else []))
              (recs ++ [rev (lam :: record)])
    else exists en', exec ce fuel wbody en = ONormal en' /\
           winv en' rng res recs (normalise v lam) (Some lam) queue' (lam :: record) (c + 1).
  Proof.
    intros (((F1 & F2 & F3 & F4 & F5 & F6 & F7) & B1 & B2) & W1 & W2 & W3 & W4 & W5 & W6). intros v lam rel queue' over.
    destruct (exec_prefix en x (map lgs recs) (map (lg tol L) (rev record)) F1 F2 W2 W3 W1) as [en1 [E1 [U1 [P1 [P2 P3]]]]].
    fold v in P1, P2, P3. fold lam in P1, P2, P3.
    assert (EX : exec ce fuel wbody en = seq (exec ce fuel inner en1) (exec ce fuel w7)).
    { rewrite (wbody_split en en1 E1). rewrite w6_eq, exec_if. cbn [eval]. lks. cbn [rbind builtin1_val negb truthy lift]. reflexivity. }
    rewrite EX. clear EX E1.
    rewrite inner_eq.
    rewrite (exec_seq _ _ i1), (exec_i1 en1 lam l0) by lka. cbn [seq]. fold rel.
    rewrite (exec_seq _ _ i2), (exec_i2 _ lam queue) by lka. cbn [seq]. fold queue'.
    rewrite (exec_seq _ _ i3), (exec_i3 _ lam rel c) by lka. cbn [seq].
    rewrite (exec_seq _ _ i4), exec_i4. cbn [seq].
    rewrite (exec_seq _ _ i5), (exec_i5 _ rel lam (map VFloat (map (lg tol L) res))) by lka. cbn [seq].
    assert (Hq : queue' <> []) by (unfold queue'; destruct queue; discriminate).
    destruct (PrimFloat.ltb rel tol) eqn:Erel;
      [rewrite (exec_seq _ _ i6), (exec_i6 _ queue' (map VFloat (map (lg tol L) res) ++ [VFloat (lg tol L lam)])) by first [exact Hq|lka]
      |rewrite (exec_seq _ _ i6), (exec_i6 _ queue' (map VFloat (map (lg tol L) res))) by first [exact Hq|lka]];
      cbn [seq]; fold over; destruct over eqn:Eover; cbn [orb].
    - rewrite (exec_i7 _ true (map VFloat (map (lg tol L) res) ++ [VFloat (lg tol L lam)]) (lg tol L (Capacity.fmedian queue')))
        by (intros; lka). cbn [seq].
      eexists. split; [reflexivity|]. unfold St, base, frame. split_all; try lka.
      + lku. unfold lgs, vflist. rewrite !map_app. cbn [map app]. rewrite <- app_assoc. reflexivity.
      + lku. rewrite P3. cbn [rev]. unfold lgs. rewrite ?map_app. cbn [map]. rewrite ?map_app. reflexivity.
    - rewrite (exec_i7 _ true (map VFloat (map (lg tol L) res)) (lg tol L lam)) by (intros; lka). cbn [seq].
      eexists. split; [reflexivity|]. unfold St, base, frame. split_all; try lka.
      + lku. unfold lgs, vflist. rewrite !map_app. cbn [map app]. reflexivity.
      + lku. rewrite P3. cbn [rev]. unfold lgs. rewrite ?map_app. cbn [map]. rewrite ?map_app. reflexivity.
    - rewrite (exec_i7 _ true (map VFloat (map (lg tol L) res)) (lg tol L (Capacity.fmedian queue'))) by (intros; lka). cbn [seq].
      eexists. split; [reflexivity|]. unfold St, base, frame. split_all; try lka.
      + lku. unfold lgs, vflist. rewrite !map_app. cbn [map app]. reflexivity.
      + lku. rewrite P3. cbn [rev]. unfold lgs. rewrite ?map_app. cbn [map]. rewrite ?map_app. reflexivity.
    - rewrite (exec_i7 _ false [] 0%float) by (intros; try discriminate; lka). cbn [seq].
      rewrite (exec_w7 _ lam (normalise v lam) c) by lka.
      eexists. split; [reflexivity|]. unfold winv, base, frame. split_all; try lka.
      + lku. rewrite P3. cbn [rev]. unfold lgs. rewrite map_app. reflexivity.
      + rewrite normalise_length. apply mat_vec_length.
  Qed.

  (* ---- the while loop is Capacity.power_loop -------------------------------------------------------------------------------------- *)
  Lemma while_run : forall f m en rng res recs x last queue record c r rc,
    (f <= m)%nat -> winv en rng res recs x last queue record c ->
    Capacity.power_loop f acc tol maxit x last queue record = Some (r, rc) ->
    exists en', while_loop_b ce fuel (EBoolLit true) wbody m en = ONormal en' /\ St en' rng (res ++ r) (recs ++ [rc]).
  Proof.
    induction f as [|f IH]; intros m en rng res recs x last queue record c r rc Hm HI HP; [discriminate|].
    destruct m as [|m]; [lia|]. rewrite while_loop_b_S. cbn [eval lift truthy].
    cbn [Capacity.power_loop] in HP. cbv zeta in HP.
    destruct last as [l0|].
    - pose proof (step_next en rng res recs x l0 queue record c HI) as S. cbv zeta in S. unfold rel_err in S.
      revert S HP. match goal with |- (if ?b then _ else _) -> _ => destruct b eqn:EC end; intros S HP.
      + destruct S as [en' [E HS]]. rewrite E. cbn [loop_seq]. injection HP as <- <-. exists en'. split; [reflexivity|exact HS].
      + destruct S as [en' [E HS]]. rewrite E. cbn [loop_seq]. eapply IH; [lia|exact HS|exact HP].
    - destruct (step_first en rng res recs x queue record c HI) as [en' [E HS]]. rewrite E. cbn [loop_seq].
      eapply IH; [lia|exact HS|exact HP].
  Qed.

  (* ---- one repeat ---------------------------------------------------------------------------------------------------------------- *)
  Lemma exec_o1 en : lookup "verbose" en = Ret (VBool verbose) -> lookup "repeats" en = Ret (VInt repeats) ->
    exec ce fuel o1 en = ONormal en.
  Proof.
    intros H1 H2. unfold o1. ev. rewrite H1. ev. destruct verbose; ev; [|reflexivity]. rewrite H2. ev. rewrite cmp_gt_ii. ev.
    destruct (1 <? repeats); reflexivity.
  Qed.

  Lemma exec_o2 en rs : lookup "record" en = Ret (VList rs) ->
    exec ce fuel o2 en = ONormal (update "record" (VList (rs ++ [VList []])) en).
  Proof. intro H. unfold o2. ev. rewrite H. ev. reflexivity. Qed.

  Lemma blen_acc : builtin1_val BLen (varr2 acc) = Ret (VInt (Z.of_nat (length acc))).
  Proof. unfold builtin1_val, varr2. rewrite map_length. reflexivity. Qed.

  Lemma exec_o3_ones en : lookup "repeats" en = Ret (VInt repeats) -> repeats = 1 -> lookup "accessor" en = Ret (varr2 acc) ->
    exec ce fuel o3 en = ONormal (update "last_eigenvector" (vfloats (map abs (Capacity.ones (length acc)))) en).
  Proof.
    intros H1 H2 H3. unfold o3. ev. rewrite H1. ev. rewrite cmp_gt_ii. subst repeats. change (1 <? 1) with false. ev.
    rewrite H3. ev. rewrite blen_acc. ev. unfold builtin1_val. rewrite Nat2Z.id. ev.
    unfold vfloats, Capacity.ones. rewrite !map_repeat'. reflexivity.
  Qed.

  Lemma exec_o3_rand en (x0 : list float) rng' : lookup "repeats" en = Ret (VInt repeats) -> 1 < repeats ->
    lookup "accessor" en = Ret (varr2 acc) -> lookup "__rng__" en = Ret (v_stream (x0 :: rng')) -> length x0 = length acc ->
    exec ce fuel o3 en = ONormal (update "last_eigenvector" (vfloats (map abs x0)) (update "__rand__" (vfloats x0)
                                    (update "__rng__" (v_stream rng') en))).
  Proof.
    intros H1 H2 H3 H4 H5. unfold o3. ev. rewrite H1. ev. rewrite cmp_gt_ii.
    destruct (1 <? repeats) eqn:E; [|lia]. ev. rewrite H3. ev. rewrite blen_acc. ev. rewrite H4. ev.
    unfold v_stream. cbn [map]. unfold vfloats at 1. rewrite forallb_isfloat', map_length, H5, Z.eqb_refl. cbn [andb seq].
    ev. lk. ev. unfold builtin1_val. rewrite floats_of_map. ev. unfold vfloats. rewrite map_map. reflexivity.
  Qed.

  Lemma exec_o4 en (s : list float) : lookup "ignore_positions" en = Ret (varr ign) -> lookup "last_eigenvector" en = Ret (vfloats s) ->
    length s = length acc ->
    exec ce fuel o4 en = ONormal (update "last_eigenvector" (vfloats (Capacity.zero_dead acc s)) en).
  Proof. intros H1 H2 H3. unfold o4. ev. rewrite H1, H2. ev. unfold ign. rewrite store_zero_dead by exact H3. reflexivity. Qed.

  Lemma exec_o5 en : exec ce fuel o5 en = ONormal (update "current" (VInt 0) (update "last_eigenvalue" VNone (update "queue" (VList [])
                                                    (update "monitor" VOpaque en)))).
  Proof. reflexivity. Qed.

  Lemma zero_dead_length (s : list float) : length s = length acc -> length (Capacity.zero_dead acc s) = length acc.
  Proof. intro H. unfold Capacity.zero_dead. rewrite map_length, combine_length. lia. Qed.

  Lemma outer_tail en rng res recs (s : list float) r rc :
    (S (S maxit) <= fuel)%nat -> base en rng res -> lookup "record" en = Ret (VList (map lgs recs ++ [VList []])) ->
    lookup "last_eigenvector" en = Ret (vfloats s) -> length s = length acc ->
    Capacity.power_loop (S (S maxit)) acc tol maxit (Capacity.zero_dead acc s) None [] [] = Some (r, rc) ->
    exists en', exec ce fuel (SSeq o4 (SSeq o5 s_while)) en = ONormal en' /\ St en' rng (res ++ r) (recs ++ [rc]).
  Proof.
    intros Hf ((F1 & F2 & F3 & F4 & F5 & F6 & F7) & B1 & B2) HR HL Hlen HP.
    rewrite (exec_seq _ _ o4), (exec_o4 en s F7 HL Hlen). cbn [seq].
    rewrite (exec_seq _ _ o5), exec_o5. cbn [seq]. rewrite s_while_eq, exec_while_b.
    eapply while_run; [exact Hf| |exact HP].
    unfold winv, base, frame. split_all; try lka. apply zero_dead_length, Hlen.
  Qed.

  Definition feeds (rng starts rng' : list (list float)) : Prop :=
    (repeats = 1 /\ Forall (fun s => s = Capacity.ones (length acc)) starts /\ rng' = rng) \/
    (1 < repeats /\ rng = starts ++ rng' /\ Forall (fun s : list float => length s = length acc) starts).

  Lemma outer_step en rng res recs x0 rest rng' r rc :
    (S (S maxit) <= fuel)%nat -> St en rng res recs -> feeds rng (x0 :: rest) rng' ->
    Capacity.power_loop (S (S maxit)) acc tol maxit (Capacity.zero_dead acc (map abs x0)) None [] [] = Some (r, rc) ->
    exists en' rng1, exec ce fuel obody en = ONormal en' /\ St en' rng1 (res ++ r) (recs ++ [rc]) /\ feeds rng1 rest rng'.
  Proof.
    intros Hf (((F1 & F2 & F3 & F4 & F5 & F6 & F7) & B1 & B2) & R1) HF HP.
    rewrite obody_eq. rewrite (exec_seq _ _ o1), (exec_o1 en F6 F3). cbn [seq].
    rewrite (exec_seq _ _ o2), (exec_o2 en _ R1). cbn [seq]. rewrite (exec_seq _ _ o3).
    destruct HF as [(Hr & Hs & ->)|(Hr & -> & Hs)].
    - inversion Hs as [|? ? Hx0 Hrest]; subst x0.
      rewrite exec_o3_ones by lka. cbn [seq].
      match goal with |- context [exec ce fuel (SSeq o4 _) ?e] =>
        destruct (outer_tail e rng res recs (map abs (Capacity.ones (length acc))) r rc Hf) as [en' [E HS]] end.
      + unfold base, frame. split_all; lka.
      + lka.
      + lka.
      + rewrite map_length. apply repeat_length.
      + exact HP.
      + exists en', rng. split; [exact E|]. split; [exact HS|]. left. split; [exact Hr|]. split; [exact Hrest|reflexivity].
    - inversion Hs as [|? ? Hx0 Hrest]; subst.
      rewrite (exec_o3_rand _ x0 (rest ++ rng')) by first [lka|lia]. cbn [seq].
      match goal with |- context [exec ce fuel (SSeq o4 _) ?e] =>
        destruct (outer_tail e (rest ++ rng') res recs (map abs x0) r rc Hf) as [en' [E HS]] end.
      + unfold base, frame. split_all; lka.
      + lka.
      + lka.
      + rewrite map_length. exact Hx0.
      + exact HP.
      + exists en', (rest ++ rng'). split; [exact E|]. split; [exact HS|]. right. split; [exact Hr|]. split; [reflexivity|exact Hrest].
  Qed.

  Lemma outer_loop : forall starts vs en rng res recs rng' r rcs,
    (S (S maxit) <= fuel)%nat -> length vs = length starts -> St en rng res recs -> feeds rng starts rng' ->
    Capacity.repeats_loop acc tol maxit starts = Some (r, rcs) ->
    exists en', for_loop ce fuel (TVar "repeat") obody vs en = ONormal en' /\ St en' rng' (res ++ r) (recs ++ rcs).
  Proof.
    induction starts as [|x0 rest IH]; intros vs en rng res recs rng' r rcs Hf Hl HS HF HR.
    - destruct vs; [|discriminate]. cbn [Capacity.repeats_loop] in HR. injection HR as <- <-. rewrite !app_nil_r.
      exists en. split; [reflexivity|].
      destruct HF as [(_ & _ & ->)|(_ & -> & _)]; exact HS.
    - destruct vs as [|v vs]; [discriminate|]. cbn [length] in Hl. cbn [Capacity.repeats_loop] in HR.
      destruct (Capacity.power_loop (S (S maxit)) acc tol maxit (Capacity.zero_dead acc (map abs x0)) None [] []) as [[r1 rc]|] eqn:HP;
        [|discriminate].
      destruct (Capacity.repeats_loop acc tol maxit rest) as [[r2 rcs2]|] eqn:HR2; [|discriminate].
      injection HR as <- <-.
      rewrite for_loop_cons. cbn [assign seq].
      destruct (outer_step (update "repeat" v en) rng res recs x0 rest rng' r1 rc Hf) as [en1 [rng1 [E [HS1 HF1]]]].
      + destruct HS as (((F1 & F2 & F3 & F4 & F5 & F6 & F7) & B1 & B2) & R1). unfold St, base, frame. split_all; lka.
      + exact HF.
      + exact HP.
      + rewrite E. cbn [seq].
        destruct (IH vs en1 rng1 (res ++ r1) (recs ++ [rc]) rng' r2 rcs2 Hf ltac:(lia) HS1 HF1 eq_refl) as [en' [E' HS']].
        exists en'. split; [exact E'|]. rewrite <- !app_assoc in HS'. exact HS'.
  Qed.

  (* ---- before and after the repeats ---------------------------------------------------------------------------------------------- *)
  Lemma exec_early en : lookup "accessor" en = Ret (varr2 acc) -> lookup "process" en = Ret (VBool process) ->
    lookup "repeats" en = Ret (VInt repeats) -> 0 <= repeats ->
    exec ce fuel s_early en = if Capacity.all_minus_one acc then OReturn (capacity_result tol L repeats process None) else ONormal en.
  Proof.
    intros H1 H2 H3 Hr. unfold s_early. cbn [exec eval]. rewrite H1. cbn [rbind]. rewrite (all_eq_m1 acc Hne). ev.
    destruct (Capacity.all_minus_one acc); [|reflexivity]. rewrite H2. ev. unfold capacity_result.
    destruct process; [|reflexivity]. cbn [eval]. rewrite H3. cbn [rbind]. rewrite cmp_eq_ii. ev.
    destruct (repeats =? 1); [reflexivity|]. cbn [eval]. rewrite ?H3. cbn [rbind]. rewrite (range_items repeats Hr). ev.
    rewrite (map_res_const (VList [VFloat 0%float])) by (intros; reflexivity). rewrite zrange_up_length. reflexivity.
  Qed.

  Lemma exec_ign en : lookup "accessor" en = Ret (varr2 acc) ->
    exec ce fuel s_ign en = ONormal (update "ignore_positions" (varr ign) en).
  Proof.
    intro H. unfold s_ign. cbn [exec eval]. rewrite H. cbn [rbind]. rewrite sum_axis1. cbn [rbind].
    rewrite (len_row0 acc Hne Hrows). cbn [rbind binop_vals binop_scalar has_float]. change (0 - 4) with (-4).
    rewrite cmp_top_varr, cmp_eq_varr. cbn [rbind]. rewrite where_bools. cbn [rbind]. rewrite index_tuple1. cbn [lift assign].
    rewrite map_map. reflexivity.
  Qed.

  Lemma exec_init en : exec ce fuel s_init en = ONormal (update "record" (VList []) (update "results" (VList []) en)).
  Proof. reflexivity. Qed.

  Lemma exec_ret en rng res recs : St en rng res recs -> res <> [] -> recs <> [] ->
    exec ce fuel s_ret en = OReturn (capacity_result tol L repeats process (Some (res, recs))).
  Proof.
    intros (((F1 & F2 & F3 & F4 & F5 & F6 & F7) & B1 & B2) & R1) Hres Hrecs. unfold s_ret. ev. rewrite F5. ev.
    assert (Hm : map (lg tol L) res <> []) by (destruct res; [contradiction|discriminate]).
    unfold capacity_result. destruct process; cbn [exec eval]; rewrite ?F3, ?B2, ?R1; cbn [rbind].
    - rewrite cmp_eq_ii. ev. destruct (repeats =? 1); cbn [eval]; rewrite ?B2, ?R1; unfold lgs at 1; cbn [rbind];
        rewrite (median_fmedianf _ Hm); cbn [rbind lift]; [|reflexivity].
      destruct recs as [|rc0 recs']; [contradiction|]. cbn [map hd]. rewrite index_head. reflexivity.
    - unfold lgs. rewrite (median_fmedianf _ Hm). reflexivity.
  Qed.
End Cap.

Theorem approximate_capacity_gen : forall ce fuel acc tolz tol L repeats maxit process verbose stream,
  externals_ok ce tolz tol L ->
  acc <> [] -> Forall (fun row => length row = 4%nat) acc ->
  Forall (Forall (fun x => x < Z.of_nat (length acc))) acc ->
  1 <= repeats ->
  (repeats = 1 \/ (Z.to_nat repeats <= length stream)%nat) ->
  Forall (fun s => length s = length acc) (firstn (Z.to_nat repeats) stream) ->
  (maxit + 3 <= fuel)%nat ->
  run_fun ce fuel approximate_capacity_def
          [varr2 acc; VInt tolz; VInt repeats; VInt (Z.of_nat maxit); VBool process; VBool verbose; v_stream stream]
  = match Capacity.approximate_capacity acc tol maxit (starts_of (length acc) repeats stream) with
    | Some r => Ret (capacity_result tol L repeats process r)
    | None => Fuel
    end.
Proof.
  intros ce fuel acc tolz tol L repeats maxit process verbose stream Hce Hne Hrows Hrange Hrep Hstream Hlens Hfuel.
  unfold run_fun. rewrite body_eq. cbn [params approximate_capacity_def bind_params].
  set (en0 := [("accessor", varr2 acc); ("tolerance_level", VInt tolz); ("repeats", VInt repeats);
               ("maximum_iteration", VInt (Z.of_nat maxit)); ("process", VBool process); ("verbose", VBool verbose);
               ("__rng__", v_stream stream)]).
  rewrite exec_seq, (exec_early ce fuel acc tol L repeats process Hne en0) by first [reflexivity|lia].
  unfold Capacity.approximate_capacity. destruct (Capacity.all_minus_one acc); [reflexivity|]. cbn [seq].
  rewrite exec_seq, (exec_ign ce fuel acc Hne Hrows en0) by reflexivity. cbn [seq].
  rewrite exec_seq, exec_init. cbn [seq].
  set (starts := starts_of (length acc) repeats stream).
  destruct (CapacityTermProofs.repeats_loop_spec acc tol maxit starts) as (res & recs & ER & Hlr & Hls).
  rewrite ER.
  assert (Hst : length starts = Z.to_nat repeats /\
                feeds acc repeats stream starts (if repeats =? 1 then stream else skipn (Z.to_nat repeats) stream)).
  { unfold starts, starts_of, feeds. destruct (repeats =? 1) eqn:E.
    - assert (repeats = 1) by lia. subst repeats. split; [reflexivity|]. left. split; [reflexivity|].
      split; [repeat constructor|reflexivity].
    - assert (Hk : (Z.to_nat repeats <= length stream)%nat) by (destruct Hstream; [lia|assumption]).
      split; [apply firstn_length_le, Hk|]. right. split; [lia|]. split; [symmetry; apply firstn_skipn|exact Hlens]. }
  destruct Hst as [Hlen HF].
  rewrite exec_seq, s_for_eq, exec_for. cbn [eval]. 
  match goal with |- context [for_loop _ _ _ _ _ ?e] => set (en1 := e) end.
  assert (E1 : lookup "repeats" en1 = Ret (VInt repeats)) by reflexivity. rewrite E1. cbn [rbind].
  rewrite (range_items repeats) by lia. cbn [lift items].
  destruct (outer_loop ce fuel acc tolz tol L maxit repeats process verbose Hce Hne Hrows Hrange
              starts (zrange_up (Z.to_nat repeats) 0 1) en1 stream [] []
              (if repeats =? 1 then stream else skipn (Z.to_nat repeats) stream) res recs) as [en' [E HS]].
  - lia.
  - rewrite zrange_up_length. symmetry. exact Hlen.
  - unfold St, base, frame, en1, en0. repeat match goal with |- _ /\ _ => split end; reflexivity.
  - exact HF.
  - exact ER.
  - rewrite E. cbn [seq]. cbn [app] in HS.
    rewrite (exec_ret ce fuel acc tolz tol L maxit repeats process verbose en' _ res recs HS).
    + reflexivity.
    + intro E0. subst res. cbn [length] in Hls. lia.
    + intro E0. subst recs. cbn [length] in Hlr. lia.
Qed.

Print Assumptions approximate_capacity_gen.
