(* RepairRepr.v -- how the data of the repair model (Repair.v) appears as MiniPyR values, and what the proofs about the
   regenerated path_matching / repair_dna (RepairGen.v) assume of the two callees that live in other modules. *)
From DSW Require Import MiniPyR Repair Coder Convert MiniPyRLemmas.
Open Scope Z_scope.
Open Scope string_scope.
Local Open Scope Z_scope.

(* a repair record ((kind, location, nucleotide), repaired string): kind 0 / 1 / 2 is "S" / "I" / "D" *)
Definition kind_char (kd : Z) : Z := if kd =? 0 then 83 else if kd =? 1 then 73 else 68.
Definition v_record (occ : Z) (r : record) : val :=
  match r with (kd, nuc, s) => VTuple [VTuple [VStr [kind_char kd]; VInt occ; VStr [nuc]]; VStr s] end.
Definition v_optstr' (o : option (list Z)) : val := match o with Some s => VStr s | None => VNone end.

Definition res_of_matching (occ : Z) (r : result (list record * Z)) : res val :=
  match r with
  | Ok (recs, visited) => Ret (VTuple [VList (map (v_record occ) recs); VInt visited])
  | Raise e => Exn e | OutOfFuel => Fuel
  end.
Definition res_of_repair (r : result (list (list Z) * (Z * bool * Z * Z))) : res val :=
  match r with
  | Ok (cands, (d, flag, count, visited)) =>
      Ret (VTuple [VList (map VStr cands); VTuple [VInt d; VBool flag; VInt count; VInt visited]])
  | Raise e => Exn e | OutOfFuel => Fuel
  end.

(* dna_to_number (dsw/operation.py, integer path) and set_vt (dsw/spiderweb.py), as the operation and coder units prove them *)
Definition repair_callees_ok (ce : string -> list val -> res val) : Prop :=
  (forall s, ce "dna_to_number" [VStr s; VBool false] =
             match dna_to_number_int s with Ok n => Ret (VInt n) | Raise e => Exn e | OutOfFuel => Fuel end)
  /\ (forall s n, 1 <= n -> ce "set_vt" [VStr s; VInt n] =
             match set_vt s n with Ok r => Ret (VStr r) | Raise e => Exn e | OutOfFuel => Fuel end).
