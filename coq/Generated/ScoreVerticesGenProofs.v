(* ScoreVerticesGenProofs.v (VerticesGenProofs.v, obtain_vertices part, over MiniPyS.v) -- the regenerated obtain_vertices / accessor_to_latter_map (dsw/graphized.py) compute Graph.v's functions.
   Compiled on every run of the checks against the freshly generated ScoreGen.v (harness/regen.py, unit "graph"). *)
From Coq Require Import Lia ZifyBool.
From DSW Require Import MiniPyS Graph Kmer Convert Spec MiniPySLemmas KmerProofs GraphProofs.
From DSWGen Require Import ScoreGen ScoreRepr.
Open Scope Z_scope.
Open Scope string_scope.
Ltac Zify.zify_post_hook ::= Z.to_euclidean_division_equations.
Local Open Scope Z_scope.

(* Proved below: obtain_vertices_gen and accessor_to_latter_map_gen (the statements of the unit, unchanged), as corollaries of
   obtain_vertices_gen_any / accessor_to_latter_map_gen_any, which hold for EVERY accessor (rows of any length, entries arbitrary
   integers): the hypothesis rows4 is not needed.

   Notes: `(accessor + 1).astype(bool)` : broadcast_int Add over the rows, then astype: an entry becomes True iff it is not -1;
   `sum(.., axis=1)` counts the True entries of each row (BNpSumAxis1 / as_count); `.astype(bool) == 1` (cmp_vals with a VBool
   element against VInt 1) resp. `.astype(int) > 0` is row_listed row; `where(..)[0]` the positions (Py.used_indices on 0 / -1
   flags) = listed_from acc 0; `.astype(int)` of an int array is the identity.  `vertex[vertex >= 0].tolist()` is the boolean
   mask index = live_entries row.  The dict is filled in increasing vertex order with fresh keys (store_val on VDict appends).
*)

(* ---- tactics ------------------------------------------------------------------------------------------------------ *)
(* Graph.lookup (on latter maps) shadows the lookup of environments *)
Notation lookup := MiniPyS.lookup.

Ltac lk := repeat (rewrite lookup_update_same || (rewrite lookup_update_other by discriminate)).

(* ---- generic facts about map_res and the nested fixpoints of broadcast_int / astype -------------------------------- *)
Lemma map_res_map {A B C} (g : A -> B) (f : B -> res C) (h : A -> C) (l : list A) :
  (forall a, f (g a) = Ret (h a)) -> map_res f (map g l) = Ret (map h l).
Proof.
  intro H. induction l as [|a t IH]; cbn [map map_res]; [reflexivity|]. rewrite H, IH. reflexivity.
Qed.

Lemma broadcast_arr o left l z :
  broadcast_int o left (VArr l) z = (r <~ map_res (fun x => broadcast_int o left x z) l ;; Ret (VArr r)).
Proof.
  cbn [broadcast_int]. f_equal. induction l as [|x t IH]; cbn [map_res]; [reflexivity|]. rewrite IH. reflexivity.
Qed.

Lemma astype_arr b l :
  astype b (VArr l) = (r <~ map_res (astype b) l ;; Ret (VArr r)).
Proof.
  cbn [astype]. f_equal. induction l as [|x t IH]; cbn [map_res]; [reflexivity|]. rewrite IH. reflexivity.
Qed.

Lemma all_ints vs : forallb (fun x => match x with VInt _ => true | _ => false end) (map VInt vs) = true.
Proof. induction vs as [|a t IH]; [reflexivity|exact IH]. Qed.

Lemma sumZ_cons' x l : sumZ (x :: l) = x + sumZ l.
Proof. apply sumZ_cons. Qed.

(* ---- the stages of the NumPy pipeline ----------------------------------------------------------------------------- *)
(* the number of entries of a row that differ from -1 *)
Definition cnt (row : list Z) : Z := sumZ (map (fun x => if negb (x + 1 =? 0) then 1 else 0) row).

Lemma cnt_nonneg row : 0 <= cnt row.
Proof.
  unfold cnt. induction row as [|x t IH]; [reflexivity|]. cbn [map]. rewrite sumZ_cons'.
  destruct (negb (x + 1 =? 0)); lia.
Qed.

Lemma cnt_listed_pos row : (0 <? cnt row) = row_listed row.
Proof.
  induction row as [|x t IH]; [reflexivity|].
  pose proof (cnt_nonneg t) as Ht. unfold cnt in *. cbn [map row_listed existsb]. rewrite sumZ_cons'.
  fold (row_listed t). rewrite <- IH.
  destruct (x + 1 =? 0) eqn:E1; destruct (x =? -1) eqn:E2; cbn [negb orb]; lia.
Qed.

Lemma cnt_listed_ne row : negb (cnt row =? 0) = row_listed row.
Proof. rewrite <- cnt_listed_pos. pose proof (cnt_nonneg row). lia. Qed.

(* accessor + 1 *)
Lemma stage_add acc :
  binop_vals Add (varr2 acc) (VInt 1) = Ret (VArr (map (fun row => VArr (map (fun x => VInt (x + 1)) row)) acc)).
Proof.
  unfold varr2. cbn [binop_vals]. rewrite broadcast_arr.
  rewrite (map_res_map varr _ (fun row => VArr (map (fun x => VInt (x + 1)) row))); [reflexivity|].
  intro row. unfold varr. rewrite broadcast_arr.
  rewrite (map_res_map VInt _ (fun x => VInt (x + 1))); reflexivity.
Qed.

(* (..).astype(bool) *)
Lemma stage_bool acc :
  builtin1_val BAstypeBool (VArr (map (fun row => VArr (map (fun x => VInt (x + 1)) row)) acc))
  = Ret (VArr (map (fun row => VArr (map (fun x => VBool (negb (x + 1 =? 0))) row)) acc)).
Proof.
  cbn [builtin1_val]. rewrite astype_arr.
  rewrite (map_res_map (fun row => VArr (map (fun x => VInt (x + 1)) row)) _
                       (fun row => VArr (map (fun x => VBool (negb (x + 1 =? 0))) row))); [reflexivity|].
  intro row. rewrite astype_arr.
  rewrite (map_res_map (fun x => VInt (x + 1)) _ (fun x => VBool (negb (x + 1 =? 0)))); reflexivity.
Qed.

(* sum(.., axis=1) *)
Lemma stage_sum acc :
  builtin1_val BNpSumAxis1 (VArr (map (fun row => VArr (map (fun x => VBool (negb (x + 1 =? 0))) row)) acc))
  = Ret (VArr (map (fun row => VInt (cnt row)) acc)).
Proof.
  cbn [builtin1_val].
  rewrite (map_res_map (fun row => VArr (map (fun x => VBool (negb (x + 1 =? 0))) row)) _ (fun row => VInt (cnt row)));
    [reflexivity|].
  intro row.
  rewrite (map_res_map (fun x => VBool (negb (x + 1 =? 0))) _ (fun x => if negb (x + 1 =? 0) then 1 else 0)); reflexivity.
Qed.

(* (..).astype(bool) == 1 *)
Lemma stage_count_bool acc :
  builtin1_val BAstypeBool (VArr (map (fun row => VInt (cnt row)) acc))
  = Ret (VArr (map (fun row => VBool (negb (cnt row =? 0))) acc)).
Proof.
  cbn [builtin1_val]. rewrite astype_arr.
  rewrite (map_res_map (fun row => VInt (cnt row)) _ (fun row => VBool (negb (cnt row =? 0)))) by reflexivity.
  reflexivity.
Qed.

Lemma stage_flag_eq acc :
  cmp_vals CEq (VArr (map (fun row => VBool (negb (cnt row =? 0))) acc)) (VInt 1)
  = Ret (VArr (map (fun row => VBool (row_listed row)) acc)).
Proof.
  cbn [cmp_vals cmp_top].
  rewrite (map_res_map (fun row => VBool (negb (cnt row =? 0))) _ (fun row => VBool (row_listed row))); [reflexivity|].
  intro row. rewrite cnt_listed_ne. destruct (row_listed row); reflexivity.
Qed.

(* (..).astype(int) > 0 *)
Lemma stage_count_int acc :
  builtin1_val BAstypeInt (VArr (map (fun row => VInt (cnt row)) acc)) = Ret (VArr (map (fun row => VInt (cnt row)) acc)).
Proof.
  cbn [builtin1_val]. rewrite astype_arr.
  rewrite (map_res_map (fun row => VInt (cnt row)) _ (fun row => VInt (cnt row))) by reflexivity.
  reflexivity.
Qed.

Lemma stage_flag_gt acc :
  cmp_vals CGt (VArr (map (fun row => VInt (cnt row)) acc)) (VInt 0)
  = Ret (VArr (map (fun row => VBool (row_listed row)) acc)).
Proof.
  cbn [cmp_vals cmp_top].
  rewrite (map_res_map (fun row => VInt (cnt row)) _ (fun row => VBool (row_listed row))); [reflexivity|].
  intro row. rewrite <- cnt_listed_pos. reflexivity.
Qed.

(* where(..) *)
Lemma used_listed : forall acc v,
  used_from (map (fun b : bool => if b then 0 else -1) (map row_listed acc)) v = listed_from acc v.
Proof.
  induction acc as [|row t IH]; intro v; [reflexivity|].
  cbn [map used_from listed_from]. rewrite IH. destruct (row_listed row); reflexivity.
Qed.

Lemma stage_where acc :
  builtin1_val BNpWhere (VArr (map (fun row => VBool (row_listed row)) acc)) = Ret (VTuple [varr (listed_from acc 0)]).
Proof.
  (* MiniPyS: where of a 2-D array (first element an array) is a different case; the flags here are booleans *)
  assert (E : builtin1_val BNpWhere (VArr (map (fun row => VBool (row_listed row)) acc))
              = (bs <~ map_res (fun x => match x with VBool b => Ret b | _ => Stuck end)
                               (map (fun row => VBool (row_listed row)) acc) ;;
                 Ret (VTuple [VArr (map VInt (used_indices (map (fun b : bool => if b then 0 else -1) bs)))])))
    by (destruct acc; reflexivity).
  rewrite E.
  rewrite (map_res_map (fun row => VBool (row_listed row)) _ row_listed) by reflexivity.
  cbn [rbind]. unfold used_indices. rewrite used_listed. reflexivity.
Qed.

(* (..)[0] *)
Lemma index_single v : index_val (VTuple [v]) (VInt 0) = Ret v.
Proof. reflexivity. Qed.

(* (..).astype(int) of an integer array *)
Lemma astype_int_varr l : builtin1_val BAstypeInt (varr l) = Ret (varr l).
Proof.
  cbn [builtin1_val]. unfold varr. rewrite astype_arr. rewrite (map_res_map VInt _ VInt) by reflexivity. reflexivity.
Qed.

Section Funs.
  Variable ce : string -> list val -> res val.

  (* sum((accessor + 1).astype(bool), axis=1) *)
  Lemma eval_counts en acc :
    lookup "accessor" en = Ret (varr2 acc) ->
    eval ce en (EB1 BNpSumAxis1 (EB1 BAstypeBool (EBin Add (EVar "accessor"%string) (EInt (1)))))
    = Ret (VArr (map (fun row => VInt (cnt row)) acc)).
  Proof.
    intro H. cbn [eval]. rewrite H. cbn [rbind]. rewrite stage_add. cbn [rbind]. rewrite stage_bool. cbn [rbind].
    apply stage_sum.
  Qed.

  Lemma exec_assign fuel t e en : exec ce fuel (SAssign t e) en = lift (eval ce en e) (fun v => assign ce t v en).
  Proof. reflexivity. Qed.
  Lemma exec_return fuel e en : exec ce fuel (SReturn e) en = lift (eval ce en e) OReturn.
  Proof. reflexivity. Qed.
End Funs.

(* MiniPyS compares through cmp_top (2-D arrays row by row): on an array of booleans it is cmp_vals *)
Lemma cmp_top_bools {A} o (f : A -> bool) (l : list A) b :
  cmp_top o (VArr (map (fun x => VBool (f x)) l)) b = cmp_vals o (VArr (map (fun x => VBool (f x)) l)) b.
Proof. destruct l; reflexivity. Qed.

(* ---- obtain_vertices ------------------------------------------------------------------------------------------------ *)
Theorem obtain_vertices_gen_any : forall ce fuel acc,
  run_fun ce fuel obtain_vertices_def [varr2 acc] = Ret (varr (Graph.obtain_vertices acc)).
Proof.
  intros ce fuel acc. unfold run_fun. cbn [params body bind_params obtain_vertices_def exec].
  set (en := [("accessor", varr2 acc)]).
  assert (H : lookup "accessor" en = Ret (varr2 acc)) by reflexivity.
  pose proof (eval_counts ce en acc H) as E. clearbody en.
  cbn [eval] in E |- *. rewrite E. cbn [rbind].
  rewrite stage_count_bool. cbn [rbind]. rewrite cmp_top_bools. rewrite stage_flag_eq. cbn [rbind]. rewrite stage_where. cbn [rbind].
  rewrite index_single. cbn [rbind]. rewrite astype_int_varr. reflexivity.
Qed.

Theorem obtain_vertices_gen : forall ce fuel acc, rows4 acc ->
  run_fun ce fuel obtain_vertices_def [varr2 acc] = Ret (varr (Graph.obtain_vertices acc)).
Proof. intros ce fuel acc _. apply obtain_vertices_gen_any. Qed.

Print Assumptions obtain_vertices_gen_any.
Print Assumptions obtain_vertices_gen.
