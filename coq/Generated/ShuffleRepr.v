(* ShuffleRepr.v -- how the data of create_random_shuffles (Shuffle.v) appears as MiniPyD values, and what the theorems about the
   regenerated function (ShuffleGen.v) assume of NumPy's generator: numpy.random.shuffle applies SOME permutation to each row (the
   stream "__rng__" lists them), numpy.random.seed(x) returns None for the seed at hand (or raises). *)
From Coq Require Import Sorting.Permutation.
From DSW Require Import MiniPyD MiniPyDLemmas.
From DSW Require Shuffle.
Open Scope Z_scope.
Open Scope string_scope.
Local Open Scope Z_scope.

(* the permutations numpy.random.shuffle will apply, in order: the hidden parameter "__rng__" *)
Definition v_perms (s : list (list Z)) : val := VList (map vints s).
(* position k of the shuffled row holds row[p_k] *)
Definition apply_perm (p row : list Z) : list Z := map (fun j => nth (Z.to_nat j) row 0) p.
(* p is a permutation of 0 .. 3 (the check MiniPyD.permute_row makes) *)
Definition perm4_ok (p : list Z) : bool :=
  Nat.eqb (length p) 4 && nodupb p && forallb (fun j => (0 <=? j) && (j <? 4)) p.
(* the i-th row shuffle under the stream (rows beyond the stream are left alone: never used by the theorems) *)
Definition stream_shuffle (stream : list (list Z)) (i : nat) (row : list Z) : list Z :=
  match nth_error stream i with Some p => apply_perm p row | None => row end.
(* numpy.random.seed accepts the seed at hand and None *)
Definition seed_ok (ce : string -> list val -> res val) (seed : val) : Prop :=
  ce "__seed__" [seed] = Ret VNone /\ ce "__seed__" [VNone] = Ret VNone.
