(* VerticesGenProofs.v -- the regenerated obtain_vertices / accessor_to_latter_map (dsw/graphized.py) compute Graph.v's functions.
   Compiled on every run of the checks against the freshly generated GraphGen.v (harness/regen.py, unit "graph"). *)
From Coq Require Import Lia ZifyBool.
From DSW Require Import MiniPyG Graph Kmer Convert Spec MiniPyGLemmas KmerProofs GraphProofs.
From DSWGen Require Import GraphGen GraphRepr.
Open Scope Z_scope.
Open Scope string_scope.
Ltac Zify.zify_post_hook ::= Z.to_euclidean_division_equations.
Local Open Scope Z_scope.

(* Proved below: obtain_vertices_gen and accessor_to_latter_map_gen (the statements of the unit, unchanged), as corollaries of
   obtain_vertices_gen_any / accessor_to_latter_map_gen_any, which hold for EVERY accessor (rows of any length, entries arbitrary
   integers): the hypothesis rows4 is not needed.

   Notes: `(accessor + 1).astype(bool)` : broadcast_int Add over the rows, then astype: an entry becomes True iff it is not -1;
   `sum(.., axis=1)` counts the True entries of each row (BNpSumAxis1 / as_count); `.astype(bool) == 1` (cmp_vals with a VBool
   element against VInt 1) resp. `.astype(int) > 0` is row_listed row; `where(..)[0]` the positions (Py.used_indices on 0 / -1
   flags) = listed_from acc 0; `.astype(int)` of an int array is the identity.  `vertex[vertex >= 0].tolist()` is the boolean
   mask index = live_entries row.  The dict is filled in increasing vertex order with fresh keys (store_val on VDict appends).
*)

(* ---- tactics ------------------------------------------------------------------------------------------------------ *)
(* Graph.lookup (on latter maps) shadows the lookup of environments *)
Notation lookup := MiniPyG.lookup.

Ltac lk := repeat (rewrite lookup_update_same || (rewrite lookup_update_other by discriminate)).

(* ---- generic facts about map_res and the nested fixpoints of broadcast_int / astype -------------------------------- *)
Lemma map_res_map {A B C} (g : A -> B) (f : B -> res C) (h : A -> C) (l : list A) :
  (forall a, f (g a) = Ret (h a)) -> map_res f (map g l) = Ret (map h l).
Proof.
  intro H. induction l as [|a t IH]; cbn [map map_res]; [reflexivity|]. rewrite H, IH. reflexivity.
Qed.

Lemma broadcast_arr o left l z :
  broadcast_int o left (VArr l) z = (r <~ map_res (fun x => broadcast_int o left x z) l ;; Ret (VArr r)).
Proof.
  cbn [broadcast_int]. f_equal. induction l as [|x t IH]; cbn [map_res]; [reflexivity|]. rewrite IH. reflexivity.
Qed.

Lemma astype_arr b l :
  astype b (VArr l) = (r <~ map_res (astype b) l ;; Ret (VArr r)).
Proof.
  cbn [astype]. f_equal. induction l as [|x t IH]; cbn [map_res]; [reflexivity|]. rewrite IH. reflexivity.
Qed.

Lemma all_ints vs : forallb (fun x => match x with VInt _ => true | _ => false end) (map VInt vs) = true.
Proof. induction vs as [|a t IH]; [reflexivity|exact IH]. Qed.

Lemma sumZ_cons' x l : sumZ (x :: l) = x + sumZ l.
Proof. apply sumZ_cons. Qed.

(* ---- the stages of the NumPy pipeline ----------------------------------------------------------------------------- *)
(* the number of entries of a row that differ from -1 *)
Definition cnt (row : list Z) : Z := sumZ (map (fun x => if negb (x + 1 =? 0) then 1 else 0) row).

Lemma cnt_nonneg row : 0 <= cnt row.
Proof.
  unfold cnt. induction row as [|x t IH]; [reflexivity|]. cbn [map]. rewrite sumZ_cons'.
  destruct (negb (x + 1 =? 0)); lia.
Qed.

Lemma cnt_listed_pos row : (0 <? cnt row) = row_listed row.
Proof.
  induction row as [|x t IH]; [reflexivity|].
  pose proof (cnt_nonneg t) as Ht. unfold cnt in *. cbn [map row_listed existsb]. rewrite sumZ_cons'.
  fold (row_listed t). rewrite <- IH.
  destruct (x + 1 =? 0) eqn:E1; destruct (x =? -1) eqn:E2; cbn [negb orb]; lia.
Qed.

Lemma cnt_listed_ne row : negb (cnt row =? 0) = row_listed row.
Proof. rewrite <- cnt_listed_pos. pose proof (cnt_nonneg row). lia. Qed.

(* accessor + 1 *)
Lemma stage_add acc :
  binop_vals Add (varr2 acc) (VInt 1) = Ret (VArr (map (fun row => VArr (map (fun x => VInt (x + 1)) row)) acc)).
Proof.
  unfold varr2. cbn [binop_vals]. rewrite broadcast_arr.
  rewrite (map_res_map varr _ (fun row => VArr (map (fun x => VInt (x + 1)) row))); [reflexivity|].
  intro row. unfold varr. rewrite broadcast_arr.
  rewrite (map_res_map VInt _ (fun x => VInt (x + 1))); reflexivity.
Qed.

(* (..).astype(bool) *)
Lemma stage_bool acc :
  builtin1_val BAstypeBool (VArr (map (fun row => VArr (map (fun x => VInt (x + 1)) row)) acc))
  = Ret (VArr (map (fun row => VArr (map (fun x => VBool (negb (x + 1 =? 0))) row)) acc)).
Proof.
  cbn [builtin1_val]. rewrite astype_arr.
  rewrite (map_res_map (fun row => VArr (map (fun x => VInt (x + 1)) row)) _
                       (fun row => VArr (map (fun x => VBool (negb (x + 1 =? 0))) row))); [reflexivity|].
  intro row. rewrite astype_arr.
  rewrite (map_res_map (fun x => VInt (x + 1)) _ (fun x => VBool (negb (x + 1 =? 0)))); reflexivity.
Qed.

(* sum(.., axis=1) *)
Lemma stage_sum acc :
  builtin1_val BNpSumAxis1 (VArr (map (fun row => VArr (map (fun x => VBool (negb (x + 1 =? 0))) row)) acc))
  = Ret (VArr (map (fun row => VInt (cnt row)) acc)).
Proof.
  cbn [builtin1_val].
  rewrite (map_res_map (fun row => VArr (map (fun x => VBool (negb (x + 1 =? 0))) row)) _ (fun row => VInt (cnt row)));
    [reflexivity|].
  intro row.
  rewrite (map_res_map (fun x => VBool (negb (x + 1 =? 0))) _ (fun x => if negb (x + 1 =? 0) then 1 else 0)); reflexivity.
Qed.

(* (..).astype(bool) == 1 *)
Lemma stage_count_bool acc :
  builtin1_val BAstypeBool (VArr (map (fun row => VInt (cnt row)) acc))
  = Ret (VArr (map (fun row => VBool (negb (cnt row =? 0))) acc)).
Proof.
  cbn [builtin1_val]. rewrite astype_arr.
  rewrite (map_res_map (fun row => VInt (cnt row)) _ (fun row => VBool (negb (cnt row =? 0)))) by reflexivity.
  reflexivity.
Qed.

Lemma stage_flag_eq acc :
  cmp_vals CEq (VArr (map (fun row => VBool (negb (cnt row =? 0))) acc)) (VInt 1)
  = Ret (VArr (map (fun row => VBool (row_listed row)) acc)).
Proof.
  cbn [cmp_vals].
  rewrite (map_res_map (fun row => VBool (negb (cnt row =? 0))) _ (fun row => VBool (row_listed row))); [reflexivity|].
  intro row. rewrite cnt_listed_ne. destruct (row_listed row); reflexivity.
Qed.

(* (..).astype(int) > 0 *)
Lemma stage_count_int acc :
  builtin1_val BAstypeInt (VArr (map (fun row => VInt (cnt row)) acc)) = Ret (VArr (map (fun row => VInt (cnt row)) acc)).
Proof.
  cbn [builtin1_val]. rewrite astype_arr.
  rewrite (map_res_map (fun row => VInt (cnt row)) _ (fun row => VInt (cnt row))) by reflexivity.
  reflexivity.
Qed.

Lemma stage_flag_gt acc :
  cmp_vals CGt (VArr (map (fun row => VInt (cnt row)) acc)) (VInt 0)
  = Ret (VArr (map (fun row => VBool (row_listed row)) acc)).
Proof.
  cbn [cmp_vals].
  rewrite (map_res_map (fun row => VInt (cnt row)) _ (fun row => VBool (row_listed row))); [reflexivity|].
  intro row. rewrite <- cnt_listed_pos. reflexivity.
Qed.

(* where(..) *)
Lemma used_listed : forall acc v,
  used_from (map (fun b : bool => if b then 0 else -1) (map row_listed acc)) v = listed_from acc v.
Proof.
  induction acc as [|row t IH]; intro v; [reflexivity|].
  cbn [map used_from listed_from]. rewrite IH. destruct (row_listed row); reflexivity.
Qed.

Lemma stage_where acc :
  builtin1_val BNpWhere (VArr (map (fun row => VBool (row_listed row)) acc)) = Ret (VTuple [varr (listed_from acc 0)]).
Proof.
  cbn [builtin1_val].
  rewrite (map_res_map (fun row => VBool (row_listed row)) _ row_listed) by reflexivity.
  cbn [rbind]. unfold used_indices. rewrite used_listed. reflexivity.
Qed.

(* (..)[0] *)
Lemma index_single v : index_val (VTuple [v]) (VInt 0) = Ret v.
Proof. reflexivity. Qed.

(* (..).astype(int) of an integer array *)
Lemma astype_int_varr l : builtin1_val BAstypeInt (varr l) = Ret (varr l).
Proof.
  cbn [builtin1_val]. unfold varr. rewrite astype_arr. rewrite (map_res_map VInt _ VInt) by reflexivity. reflexivity.
Qed.

Section Funs.
  Variable ce : string -> list val -> res val.

  (* sum((accessor + 1).astype(bool), axis=1) *)
  Lemma eval_counts en acc :
    lookup "accessor" en = Ret (varr2 acc) ->
    eval ce en (EB1 BNpSumAxis1 (EB1 BAstypeBool (EBin Add (EVar "accessor"%string) (EInt (1)))))
    = Ret (VArr (map (fun row => VInt (cnt row)) acc)).
  Proof.
    intro H. cbn [eval]. rewrite H. cbn [rbind]. rewrite stage_add. cbn [rbind]. rewrite stage_bool. cbn [rbind].
    apply stage_sum.
  Qed.

  Lemma exec_assign fuel t e en : exec ce fuel (SAssign t e) en = lift (eval ce en e) (fun v => assign ce t v en).
  Proof. reflexivity. Qed.
  Lemma exec_return fuel e en : exec ce fuel (SReturn e) en = lift (eval ce en e) OReturn.
  Proof. reflexivity. Qed.
End Funs.

(* ---- obtain_vertices ------------------------------------------------------------------------------------------------ *)
Theorem obtain_vertices_gen_any : forall ce fuel acc,
  run_fun ce fuel obtain_vertices_def [varr2 acc] = Ret (varr (Graph.obtain_vertices acc)).
Proof.
  intros ce fuel acc. unfold run_fun. cbn [params body bind_params obtain_vertices_def exec].
  set (en := [("accessor", varr2 acc)]).
  assert (H : lookup "accessor" en = Ret (varr2 acc)) by reflexivity.
  pose proof (eval_counts ce en acc H) as E. clearbody en.
  cbn [eval] in E |- *. rewrite E. cbn [rbind].
  rewrite stage_count_bool. cbn [rbind]. rewrite stage_flag_eq. cbn [rbind]. rewrite stage_where. cbn [rbind].
  rewrite index_single. cbn [rbind]. rewrite astype_int_varr. reflexivity.
Qed.

Theorem obtain_vertices_gen : forall ce fuel acc, rows4 acc ->
  run_fun ce fuel obtain_vertices_def [varr2 acc] = Ret (varr (Graph.obtain_vertices acc)).
Proof. intros ce fuel acc _. apply obtain_vertices_gen_any. Qed.

(* ---- accessor_to_latter_map: one row ------------------------------------------------------------------------------------ *)
Lemma nthZ_nth {A} (l : list A) d : forall i, (i < length l)%nat -> nthZ l i = Some (nth i l d).
Proof.
  induction l as [|x t IH]; intros i Hi; [cbn [length] in Hi; lia|].
  destruct i as [|j]; [reflexivity|]. cbn [nthZ nth]. apply IH. cbn [length] in Hi. lia.
Qed.

Lemma py_get_nth {A} (l : list A) d i : 0 <= i < Z.of_nat (length l) -> py_get l i = Ok (nth (Z.to_nat i) l d).
Proof.
  intro H. unfold py_get. cbv zeta. destruct (i <? 0) eqn:E1; [lia|].
  destruct ((i <? 0) || (Z.of_nat (length l) <=? i)) eqn:E2; [lia|].
  rewrite (nthZ_nth l d) by lia. reflexivity.
Qed.

(* accessor[location] *)
Lemma index_row acc l : 0 <= l < Z.of_nat (length acc) -> index_val (varr2 acc) (VInt l) = Ret (varr (get_row acc l)).
Proof.
  intro H. unfold varr2. cbn [index_val].
  rewrite (py_get_nth (map varr acc) (varr empty_row)) by (rewrite map_length; exact H).
  rewrite map_nth. reflexivity.
Qed.

(* vertex >= 0 *)
Lemma cmp_ge0 row : cmp_vals CGe (varr row) (VInt 0) = Ret (VArr (map (fun x => VBool (0 <=? x)) row)).
Proof.
  unfold varr. cbn [cmp_vals]. rewrite (map_res_map VInt _ (fun x => VBool (0 <=? x))); reflexivity.
Qed.

(* vertex[mask] *)
Lemma mask_filter row :
  map snd (filter fst (combine (map (fun x => 0 <=? x) row) (map VInt row))) = map VInt (live_entries row).
Proof.
  unfold live_entries. induction row as [|x t IH]; [reflexivity|].
  cbn [map combine filter fst]. destruct (0 <=? x); cbn [map snd]; rewrite IH; reflexivity.
Qed.

Lemma index_mask row :
  index_val (varr row) (VArr (map (fun x => VBool (0 <=? x)) row)) = Ret (varr (live_entries row)).
Proof.
  unfold varr. cbn [index_val]. rewrite !map_length, Nat.eqb_refl. cbn [negb].
  rewrite (map_res_map (fun x => VBool (0 <=? x)) _ (fun x => 0 <=? x)) by reflexivity.
  cbn [rbind]. rewrite mask_filter. reflexivity.
Qed.

(* (..).tolist() *)
Lemma tolist_varr l : builtin1_val BTolist (varr l) = Ret (vints l).
Proof. unfold varr, vints. cbn [builtin1_val]. rewrite all_ints. reflexivity. Qed.

(* latter_map[location] = .. with a fresh key *)
Lemma store_fresh m l vs :
  Forall (fun kv => fst kv < l) m ->
  store_val (v_lmap m) (VInt l) (vints vs) = Ret (v_lmap (m ++ [(l, vs)])%list).
Proof.
  intro H. unfold v_lmap. cbn [store_val key_ok]. do 2 f_equal.
  induction m as [|[k w] t IH]; [reflexivity|].
  inversion H as [|? ? Hk Ht]; subst. cbn [fst] in Hk.
  specialize (IH Ht). cbn [map app fst snd]. change (val_eqb (VInt l) (VInt k)) with (l =? k).
  destruct (l =? k) eqn:E; [lia|]. rewrite IH. reflexivity.
Qed.

(* ---- accessor_to_latter_map: the loop --------------------------------------------------------------------------------- *)
(* ascending from a lower bound *)
Fixpoint incr_from (lo : Z) (ls : list Z) : Prop :=
  match ls with [] => True | l :: t => lo <= l /\ incr_from (l + 1) t end.

Lemma listed_incr : forall acc v, incr_from v (listed_from acc v).
Proof.
  assert (G : forall ls a b, a <= b -> incr_from b ls -> incr_from a ls).
  { intros [|l t] a b Hab H; [exact I|]. cbn [incr_from] in *. split; [lia|apply H]. }
  induction acc as [|row t IH]; intro v; [exact I|].
  cbn [listed_from]. destruct (row_listed row).
  - cbn [incr_from]. split; [lia|apply IH].
  - apply (G _ v (v + 1)); [lia|apply IH].
Qed.

Lemma listed_bound : forall acc v, Forall (fun l => l < v + Z.of_nat (length acc)) (listed_from acc v).
Proof.
  induction acc as [|row t IH]; intro v; [constructor|].
  assert (T : Forall (fun l => l < v + Z.of_nat (length (row :: t))) (listed_from t (v + 1))).
  { eapply Forall_impl; [|apply IH]. cbn [length]. intros a Ha. lia. }
  cbn [listed_from]. destruct (row_listed row); [constructor; [cbn [length]; lia|exact T]|exact T].
Qed.

(* the pairs of the listed vertices are the model's latter map *)
Lemma lmap_of_listed : forall suf pre,
  map (fun l => (l, live_entries (get_row (pre ++ suf)%list l))) (listed_from suf (Z.of_nat (length pre)))
  = lmap_from suf (Z.of_nat (length pre)).
Proof.
  induction suf as [|row t IH]; intro pre; [reflexivity|].
  cbn [listed_from lmap_from].
  assert (E : Z.of_nat (length pre) + 1 = Z.of_nat (length (pre ++ [row])%list)) by (rewrite app_length; cbn [length]; lia).
  assert (R : map (fun l => (l, live_entries (get_row (pre ++ row :: t)%list l))) (listed_from t (Z.of_nat (length pre) + 1))
              = lmap_from t (Z.of_nat (length pre) + 1)).
  { rewrite E. rewrite <- (IH (pre ++ [row])%list). rewrite <- app_assoc. reflexivity. }
  destruct (row_listed row); [|exact R].
  cbn [map]. rewrite R. do 2 f_equal.
  unfold get_row. rewrite Nat2Z.id. rewrite app_nth2 by lia. rewrite Nat.sub_diag. reflexivity.
Qed.

Lemma lmap_of_listed0 acc :
  map (fun l => (l, live_entries (get_row acc l))) (listed_from acc 0) = lmap_from acc 0.
Proof. exact (lmap_of_listed acc []). Qed.

Section Loop.
  Variable ce : string -> list val -> res val.
  Variable acc : accessor.
  Variable verbose : bool.
  Variable locs : list Z.

  Definition Inv (m : lmap) (en : env) : Prop :=
    lookup "accessor" en = Ret (varr2 acc) /\ lookup "verbose" en = Ret (VBool verbose) /\
    lookup "locations" en = Ret (varr locs) /\ lookup "latter_map" en = Ret (v_lmap m).

  Definition loop_body : stmt :=
    (SSeq (SAssign (TVar "vertex"%string) (EIndex (EVar "accessor"%string) (EVar "location"%string)))
    (SSeq (SAssign (TIndex "latter_map"%string (EVar "location"%string)) (EB1 BTolist (EIndex (EVar "vertex"%string) (ECmp CGe (EVar "vertex"%string) (EInt (0))))))
    (SIf (EVar "verbose"%string)
    (SExpr (ETuple [(EBin Add (EVar "index"%string) (EInt (1))); (EB1 BLen (EVar "locations"%string))]))
    SSkip))).

  Lemma body_step fuel m en i l :
    Inv m en -> 0 <= l < Z.of_nat (length acc) -> Forall (fun kv => fst kv < l) m ->
    exists en', seq (assign ce (TTuple ["index"; "location"]) (VTuple [VInt i; VInt l]) en) (exec ce fuel loop_body) = ONormal en'
                /\ Inv (m ++ [(l, live_entries (get_row acc l))])%list en'.
  Proof.
    intros (H1 & H2 & H3 & H4) Hl Hm.
    cbn [assign items lift bind_tuple seq]. unfold loop_body.
    set (en1 := update "location" (VInt l) (update "index" (VInt i) en)).
    assert (A1 : lookup "accessor" en1 = Ret (varr2 acc)) by (unfold en1; lk; exact H1).
    assert (A2 : lookup "verbose" en1 = Ret (VBool verbose)) by (unfold en1; lk; exact H2).
    assert (A3 : lookup "locations" en1 = Ret (varr locs)) by (unfold en1; lk; exact H3).
    assert (A4 : lookup "latter_map" en1 = Ret (v_lmap m)) by (unfold en1; lk; exact H4).
    assert (A5 : lookup "location" en1 = Ret (VInt l)) by (unfold en1; lk; reflexivity).
    assert (A6 : lookup "index" en1 = Ret (VInt i)) by (unfold en1; lk; reflexivity).
    clearbody en1.
    rewrite exec_seq. cbn [exec eval]. rewrite A1, A5. cbn [rbind]. rewrite (index_row acc l Hl). cbn [lift assign seq].
    set (en2 := update "vertex" (varr (get_row acc l)) en1).
    assert (B1 : lookup "accessor" en2 = Ret (varr2 acc)) by (unfold en2; lk; exact A1).
    assert (B2 : lookup "verbose" en2 = Ret (VBool verbose)) by (unfold en2; lk; exact A2).
    assert (B3 : lookup "locations" en2 = Ret (varr locs)) by (unfold en2; lk; exact A3).
    assert (B4 : lookup "latter_map" en2 = Ret (v_lmap m)) by (unfold en2; lk; exact A4).
    assert (B5 : lookup "location" en2 = Ret (VInt l)) by (unfold en2; lk; exact A5).
    assert (B6 : lookup "index" en2 = Ret (VInt i)) by (unfold en2; lk; exact A6).
    assert (B7 : lookup "vertex" en2 = Ret (varr (get_row acc l))) by (unfold en2; lk; reflexivity).
    clearbody en2.
    rewrite B7. cbn [rbind]. rewrite cmp_ge0. cbn [rbind]. rewrite index_mask. cbn [rbind]. rewrite tolist_varr.
    cbn [lift eval]. rewrite B5. cbn [lift]. rewrite B4. cbn [lift]. rewrite (store_fresh m l _ Hm). cbn [lift seq].
    set (m' := (m ++ [(l, live_entries (get_row acc l))])%list).
    set (en3 := update "latter_map" (v_lmap m') en2).
    assert (C1 : lookup "accessor" en3 = Ret (varr2 acc)) by (unfold en3; lk; exact B1).
    assert (C2 : lookup "verbose" en3 = Ret (VBool verbose)) by (unfold en3; lk; exact B2).
    assert (C3 : lookup "locations" en3 = Ret (varr locs)) by (unfold en3; lk; exact B3).
    assert (C4 : lookup "latter_map" en3 = Ret (v_lmap m')) by (unfold en3; lk; reflexivity).
    assert (C6 : lookup "index" en3 = Ret (VInt i)) by (unfold en3; lk; exact B6).
    clearbody en3.
    exists en3. split; [|repeat split; assumption].
    rewrite C2. cbn [lift truthy]. destruct verbose; [|reflexivity].
    rewrite C6, C3. reflexivity.
  Qed.

  Lemma loop_run fuel : forall ls i m en,
    Inv m en -> Forall (fun l => l < Z.of_nat (length acc)) ls ->
    forall lo, 0 <= lo -> incr_from lo ls -> Forall (fun kv => fst kv < lo) m ->
    exists en', for_loop ce fuel (TTuple ["index"; "location"]) loop_body (enumerate_from i (map VInt ls)) en = ONormal en'
                /\ Inv (m ++ map (fun l => (l, live_entries (get_row acc l))) ls)%list en'.
  Proof.
    induction ls as [|l t IH]; intros i m en HI Hb lo Hlo Hinc Hm.
    - exists en. split; [reflexivity|]. cbn [map]. rewrite app_nil_r. exact HI.
    - inversion Hb as [|? ? Hl Ht]; subst. destruct Hinc as [Hlo' Hinc].
      assert (Hm' : Forall (fun kv => fst kv < l) m) by (eapply Forall_impl; [|exact Hm]; cbn beta; intros; lia).
      destruct (body_step fuel m en i l HI ltac:(lia) Hm') as (en' & E & HI').
      cbn [map enumerate_from]. rewrite for_loop_cons, E. cbn [seq].
      destruct (IH (i + 1) _ en' HI' Ht (l + 1) ltac:(lia) Hinc) as (en'' & E' & HI'').
      { apply Forall_app. split; [eapply Forall_impl; [|exact Hm']; cbn beta; intros; lia|].
        constructor; [cbn [fst]; lia|constructor]. }
      exists en''. split; [exact E'|]. cbn [map]. rewrite <- app_assoc in HI''. exact HI''.
  Qed.
End Loop.

(* ---- accessor_to_latter_map ------------------------------------------------------------------------------------------- *)
Theorem accessor_to_latter_map_gen_any : forall ce fuel acc verbose,
  run_fun ce fuel accessor_to_latter_map_def [varr2 acc; VBool verbose] = Ret (v_lmap (Graph.accessor_to_latter_map acc)).
Proof.
  intros ce fuel acc verbose. unfold run_fun. cbn [params body bind_params accessor_to_latter_map_def].
  rewrite exec_seq, exec_assign.
  cbn [eval lookup String.eqb Ascii.eqb Bool.eqb rbind forallb].
  change (builtin1_val BLen (varr2 acc)) with (Ret (VInt (Z.of_nat (length (map varr acc))))).
  cbn [rbind lift assign items bind_tuple update seq String.eqb Ascii.eqb Bool.eqb].
  set (en := [("accessor", varr2 acc); ("verbose", VBool verbose); ("latter_map", VDict []); ("monitor", VOpaque);
              ("total", VInt (Z.of_nat (length (map varr acc))))]).
  rewrite exec_seq, exec_assign.
  assert (H : lookup "accessor" en = Ret (varr2 acc)) by reflexivity.
  pose proof (eval_counts ce en acc H) as E.
  cbn [eval] in E |- *. rewrite E. cbn [rbind].
  rewrite stage_count_int. cbn [rbind]. rewrite stage_flag_gt. cbn [rbind]. rewrite stage_where. cbn [rbind].
  rewrite index_single. cbn [lift assign seq].
  set (locs := listed_from acc 0).
  set (en0 := update "locations" (varr locs) en).
  assert (HI : Inv acc verbose locs [] en0) by (repeat split; reflexivity).
  clearbody en0. clear E H en.
  rewrite exec_seq, exec_for. cbn [eval]. destruct HI as (H1 & H2 & H3 & H4). rewrite H3.
  cbn [rbind builtin1_val items lift]. unfold varr at 1. cbn [items rbind lift].
  destruct (loop_run ce acc verbose locs fuel locs 0 [] en0 (conj H1 (conj H2 (conj H3 H4)))) with (lo := 0)
    as (en' & EL & (_ & _ & _ & HL)).
  - apply (listed_bound acc 0).
  - lia.
  - apply listed_incr.
  - constructor.
  - fold loop_body. rewrite EL. cbn [seq]. rewrite exec_return. cbn [eval]. rewrite HL. cbn [lift app].
    unfold locs. rewrite lmap_of_listed0. reflexivity.
Qed.

Theorem accessor_to_latter_map_gen : forall ce fuel acc verbose, rows4 acc ->
  run_fun ce fuel accessor_to_latter_map_def [varr2 acc; VBool verbose] = Ret (v_lmap (Graph.accessor_to_latter_map acc)).
Proof. intros ce fuel acc verbose _. apply accessor_to_latter_map_gen_any. Qed.

Print Assumptions obtain_vertices_gen.
Print Assumptions accessor_to_latter_map_gen.
