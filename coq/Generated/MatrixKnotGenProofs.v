(* MatrixKnotGenProofs.v -- ties the knot for the matrix conversions REGENERATED from the current source (MatrixGen.matrix_module =
   [accessor_to_adjacency_matrix; adjacency_matrix_to_accessor; obtain_latters], run by MiniPyM.call_in_ext with an external
   environment for "__list_of_set__") and restates the matrix half of C14 (and C13_legal_from_matrix) for the source text.
   Compiled on every run of the checks against the freshly generated MatrixGen.v (harness/regen.py, unit "matrix"). *)
From Coq Require Import Lia ZifyBool Sorting.Sorted Sorting.Permutation.
From DSW Require Import MiniPyM MiniPyMEnc Graph Kmer Spec GraphSpec MiniPyMLemmas KmerProofs GraphProofs ReprProofs LegalProofs.
From DSWGen Require Import MatrixGen MatrixRepr MatrixKmerGenProofs ToMatrixGenProofs FromMatrixGenProofs.
Open Scope Z_scope.
Open Scope string_scope.
Ltac Zify.zify_post_hook ::= Z.to_euclidean_division_equations.
Local Open Scope Z_scope.
Local Open Scope list_scope.
Notation lookup := MiniPyM.lookup.

(* running a function of the regenerated module, with the external environment ext *)
Definition py7 (ext : string -> list val -> res val) (fuel : nat) (f : string) (args : list val) : res val :=
  call_in_ext ext matrix_module fuel f args.

(* STATUS: every target statement of the file is proved below with Qed, exactly as it was stated in the former TARGET STATEMENTS
   block (no statement was changed, nothing is left in a comment):
     Part A  ext_sorted_ok, py7_to_matrix, py7_from_matrix;
     Part B  C14_matrix_content_source, C14_matrix_roundtrip_source, C14_matrix_reject_source, C13_legal_from_matrix_source.
   matrix_module = [accessor_to_adjacency_matrix; adjacency_matrix_to_accessor; obtain_latters]; call_in_ext resolves a name and
   runs it with the REST of the list as callees (mod_after "<name>"), and a name that is in no entry is answered by ext: that is
   how set_order_ok goes from ext to the callee environment of adjacency_matrix_to_accessor (tail_list_of_set). *)

(* ==== Part A: the knot ============================================================================================== *)
(* ---- the executable environment of the cross-check meets the assumption ---- *)
Lemma insert_sortedZ_in : forall x s y, In y (insert_sortedZ x s) <-> y = x \/ In y s.
Proof.
  intros x s y. induction s as [|h t IH]; cbn [insert_sortedZ].
  - cbn [In]. intuition.
  - destruct (x <? h) eqn:E1; [cbn [In]; intuition|].
    destruct (x =? h) eqn:E2.
    + assert (x = h) as -> by lia. cbn [In]. intuition.
    + cbn [In]. rewrite IH. intuition.
Qed.

Lemma insert_sortedZ_perm : forall x s, ~ In x s -> Permutation (insert_sortedZ x s) (x :: s).
Proof.
  intros x s. induction s as [|h t IH]; intro Hn; cbn [insert_sortedZ].
  - apply Permutation_refl.
  - destruct (x <? h) eqn:E1; [apply Permutation_refl|].
    destruct (x =? h) eqn:E2.
    + exfalso. apply Hn. left. lia.
    + eapply perm_trans; [apply perm_skip, IH; intro Hi; apply Hn; right; exact Hi|]. apply perm_swap.
Qed.

Lemma insert_sortedZ_sorted : forall x s, StronglySorted Z.lt s -> StronglySorted Z.lt (insert_sortedZ x s).
Proof.
  intros x s. induction s as [|h t IH]; intro Hs; cbn [insert_sortedZ].
  - constructor; constructor.
  - inversion Hs as [|h' t' Ht Hh]; subst.
    destruct (x <? h) eqn:E1.
    + constructor; [exact Hs|]. constructor; [lia|].
      rewrite Forall_forall in *. intros y Hy. specialize (Hh y Hy). lia.
    + destruct (x =? h) eqn:E2; [exact Hs|].
      constructor; [apply IH; exact Ht|].
      rewrite Forall_forall in *. intros y Hy. apply insert_sortedZ_in in Hy. destruct Hy as [-> | Hy]; [lia|].
      apply Hh; exact Hy.
Qed.

Definition ord_sorted (l : list Z) : list Z := fold_right insert_sortedZ [] l.

Lemma ord_sorted_in : forall l y, In y (ord_sorted l) <-> In y l.
Proof.
  intros l y. induction l as [|x t IH]; cbn [ord_sorted fold_right]; [tauto|].
  fold (ord_sorted t). rewrite insert_sortedZ_in, IH. cbn [In]. intuition.
Qed.

Lemma ord_sorted_perm : forall l, NoDup l -> Permutation (ord_sorted l) l.
Proof.
  intros l Hnd. induction Hnd as [|x t Hx Hnd IH]; cbn [ord_sorted fold_right]; [apply perm_nil|].
  fold (ord_sorted t). eapply perm_trans; [apply insert_sortedZ_perm|apply perm_skip; exact IH].
  rewrite ord_sorted_in. exact Hx.
Qed.

Lemma ord_sorted_sorted : forall l, StronglySorted Z.lt (ord_sorted l).
Proof.
  intro l. induction l as [|x t IH]; cbn [ord_sorted fold_right]; [constructor|].
  apply insert_sortedZ_sorted. exact IH.
Qed.

Lemma map_res_ints : forall l,
  map_res (fun x => match x with VInt z => Ret z | _ => Stuck end) (map VInt l) = Ret l.
Proof.
  intro l. induction l as [|x t IH]; cbn [map map_res rbind]; [reflexivity|]. rewrite IH. reflexivity.
Qed.

Theorem ext_sorted_ok : set_order_ok ext_sorted.
Proof.
  exists ord_sorted. split; [|split].
  - intros l _. unfold ext_sorted, v_intset. change (String.eqb "__list_of_set__" "__list_of_set__") with true. cbv iota.
    rewrite map_res_ints. cbn [rbind]. reflexivity.
  - intros l Hnd. apply ord_sorted_perm; exact Hnd.
  - intros l b _ _ _. apply ord_sorted_sorted.
Qed.

(* ---- the callees of a function of the module: what follows it in the list ---- *)
Fixpoint mod_after (f : string) (m : module) : module :=
  match m with
  | [] => []
  | (g, _) :: rest => if String.eqb f g then rest else mod_after f rest
  end.

Ltac knot := unfold py7, matrix_module; cbn [call_in_ext mod_after String.eqb Ascii.eqb Bool.eqb]; reflexivity.

Definition to_matrix_tail : module :=
  [("adjacency_matrix_to_accessor", adjacency_matrix_to_accessor_def); ("obtain_latters", obtain_latters_def)].
Definition from_matrix_tail : module := [("obtain_latters", obtain_latters_def)].

Lemma mod_after_to_matrix : mod_after "accessor_to_adjacency_matrix" matrix_module = to_matrix_tail.
Proof. reflexivity. Qed.
Lemma mod_after_from_matrix : mod_after "adjacency_matrix_to_accessor" matrix_module = from_matrix_tail.
Proof. reflexivity. Qed.

Lemma py7_to_matrix_unfold ext fuel args :
  py7 ext fuel "accessor_to_adjacency_matrix" args
  = run_fun (call_in_ext ext to_matrix_tail fuel) fuel accessor_to_adjacency_matrix_def args.
Proof. unfold to_matrix_tail. knot. Qed.

Lemma py7_from_matrix_unfold ext fuel args :
  py7 ext fuel "adjacency_matrix_to_accessor" args
  = run_fun (call_in_ext ext from_matrix_tail fuel) fuel adjacency_matrix_to_accessor_def args.
Proof. unfold from_matrix_tail. knot. Qed.

Lemma tail_obtain_latters_unfold ext fuel args :
  call_in_ext ext from_matrix_tail fuel "obtain_latters" args
  = run_fun (call_in_ext ext (mod_after "obtain_latters" from_matrix_tail) fuel) fuel obtain_latters_def args.
Proof. unfold from_matrix_tail. cbn [call_in_ext mod_after String.eqb Ascii.eqb Bool.eqb]. reflexivity. Qed.

(* "__list_of_set__" is not a name of the module: the external environment answers *)
Lemma tail_list_of_set ext fuel args :
  call_in_ext ext from_matrix_tail fuel "__list_of_set__" args = ext "__list_of_set__" args.
Proof. unfold from_matrix_tail. cbn [call_in_ext String.eqb Ascii.eqb Bool.eqb]. reflexivity. Qed.

Lemma tail_set_order_ok ext fuel : set_order_ok ext -> set_order_ok (call_in_ext ext from_matrix_tail fuel).
Proof.
  intros (ord & Hext & Hperm & Hsort). exists ord. split; [|split; assumption].
  intros l Hnd. rewrite tail_list_of_set. apply Hext; exact Hnd.
Qed.

Theorem py7_to_matrix : forall ext fuel acc w maxlen verbose, acc <> [] -> Forall (fun row => length row = w) acc ->
  py7 ext fuel "accessor_to_adjacency_matrix" [varr2 acc; VInt (Z.of_nat maxlen); VBool verbose]
  = res_of_mat (Graph.accessor_to_adjacency_matrix acc maxlen).
Proof.
  intros ext fuel acc w maxlen verbose Hne Hw. rewrite py7_to_matrix_unfold.
  apply (accessor_to_adjacency_matrix_gen _ fuel acc w maxlen verbose Hne Hw).
Qed.

Theorem py7_from_matrix : forall ext fuel m k verbose, set_order_ok ext -> (1 <= k)%nat -> length m = Z.to_nat (pow4 k) ->
  py7 ext fuel "adjacency_matrix_to_accessor" [varr2 m; VBool verbose] = res_of_acc (Graph.adjacency_matrix_to_accessor m).
Proof.
  intros ext fuel m k verbose Hext Hk Hlen. rewrite py7_from_matrix_unfold.
  apply (adjacency_matrix_to_accessor_gen _ fuel m k verbose); [apply tail_set_order_ok; exact Hext| |exact Hk|exact Hlen].
  intro cur. rewrite tail_obtain_latters_unfold. apply obtain_latters_gen.
Qed.

(* ==== Part B: C14 (matrix half) and C13_legal_from_matrix for the source text ======================================= *)
Lemma legal_nonempty : forall k acc, legal k acc -> acc <> [].
Proof.
  intros k acc [Hlen _] ->. pose proof (pow4_pos k) as Hp. cbn [length] in Hlen. lia.
Qed.

Lemma legal_rows4 : forall k acc, legal k acc -> Forall (fun row => length row = 4%nat) acc.
Proof. intros k acc [_ [H4 _]]. exact H4. Qed.

Theorem C14_matrix_content_source : forall ext fuel k acc maxlen verbose, legal k acc -> (k < maxlen)%nat ->
  exists M, py7 ext fuel "accessor_to_adjacency_matrix" [varr2 acc; VInt (Z.of_nat maxlen); VBool verbose] = Ret (varr2 M)
    /\ length M = Z.to_nat (pow4 k) /\
    forall u v, 0 <= u < pow4 k -> 0 <= v < pow4 k ->
      (nth (Z.to_nat v) (nth (Z.to_nat u) M []) 0 = 1 <-> exists j, 0 <= j < 4 /\ entry acc u j = v) /\
      (nth (Z.to_nat v) (nth (Z.to_nat u) M []) 0 = 1 \/ nth (Z.to_nat v) (nth (Z.to_nat u) M []) 0 = 0).
Proof.
  intros ext fuel k acc maxlen verbose HL Hk.
  destruct (matrix_content k acc maxlen HL Hk) as (M & HM & Hlen & Hcell).
  exists M. split; [|split; [exact Hlen|exact Hcell]].
  rewrite (py7_to_matrix ext fuel acc 4%nat maxlen verbose (legal_nonempty k acc HL) (legal_rows4 k acc HL)).
  rewrite HM. reflexivity.
Qed.

Theorem C14_matrix_roundtrip_source : forall ext fuel k acc maxlen verbose, set_order_ok ext -> (1 <= k)%nat -> legal k acc ->
  (k < maxlen)%nat ->
  exists M, py7 ext fuel "accessor_to_adjacency_matrix" [varr2 acc; VInt (Z.of_nat maxlen); VBool verbose] = Ret (varr2 M)
         /\ py7 ext fuel "adjacency_matrix_to_accessor" [varr2 M; VBool verbose] = Ret (varr2 acc).
Proof.
  intros ext fuel k acc maxlen verbose Hext Hk1 HL Hk.
  destruct (matrix_content k acc maxlen HL Hk) as (M & HM & Hlen & _).
  destruct (matrix_roundtrip k acc maxlen Hk1 HL Hk) as (M' & HM' & Hback).
  assert (M' = M) as -> by congruence.
  exists M. split.
  - rewrite (py7_to_matrix ext fuel acc 4%nat maxlen verbose (legal_nonempty k acc HL) (legal_rows4 k acc HL)).
    rewrite HM. reflexivity.
  - rewrite (py7_from_matrix ext fuel M k verbose Hext Hk1 Hlen). rewrite Hback. reflexivity.
Qed.

Theorem C14_matrix_reject_source : forall ext fuel k M verbose, set_order_ok ext -> (1 <= k)%nat -> length M = Z.to_nat (pow4 k) ->
  (exists u v, 0 <= u < pow4 k /\ 0 <= v /\ nth (Z.to_nat v) (nth (Z.to_nat u) M []) 0 = 1 /\ ~ In v (obtain_latters u k)) ->
  py7 ext fuel "adjacency_matrix_to_accessor" [varr2 M; VBool verbose] = Exn ValueError.
Proof.
  intros ext fuel k M verbose Hext Hk1 Hlen Hbad.
  rewrite (py7_from_matrix ext fuel M k verbose Hext Hk1 Hlen).
  rewrite (matrix_reject k M Hk1 Hlen Hbad). reflexivity.
Qed.

(* the model returns or raises ValueError on a 4^k-row matrix: never out of fuel, no other exception *)
Lemma matrix_rows_outcome : forall k rows s,
  (exists acc, matrix_rows rows s k = Ok acc) \/ matrix_rows rows s k = Raise ValueError.
Proof.
  intros k rows. induction rows as [|r t IH]; intro s; cbn [matrix_rows].
  - left. exists []. reflexivity.
  - destruct (forallb (fun x => memZ x (obtain_latters s k)) (ones_from r 0)); [|right; reflexivity].
    destruct (IH (s + 1)) as [[a Ha] | Hr]; rewrite ?Ha, ?Hr; cbn [Py.bind].
    + left. eexists. reflexivity.
    + right. reflexivity.
Qed.

(* whatever the source returns for a 4^k-row matrix is a legal accessor, and it returns or raises ValueError: never stuck *)
Theorem C13_legal_from_matrix_source : forall ext fuel k M verbose, set_order_ok ext -> (1 <= k)%nat -> length M = Z.to_nat (pow4 k) ->
  (exists acc, py7 ext fuel "adjacency_matrix_to_accessor" [varr2 M; VBool verbose] = Ret (varr2 acc) /\ legal k acc)
  \/ py7 ext fuel "adjacency_matrix_to_accessor" [varr2 M; VBool verbose] = Exn ValueError.
Proof.
  intros ext fuel k M verbose Hext Hk1 Hlen.
  rewrite (py7_from_matrix ext fuel M k verbose Hext Hk1 Hlen).
  destruct (matrix_rows_outcome (log4 (Z.of_nat (length M))) M 0) as [[acc Hacc] | Hr];
    unfold Graph.adjacency_matrix_to_accessor in *.
  - left. exists acc. rewrite Hacc. split; [reflexivity|].
    apply (matrix_to_accessor_legal k M acc Hk1 Hlen). exact Hacc.
  - right. rewrite Hr. reflexivity.
Qed.

Print Assumptions ext_sorted_ok.
Print Assumptions py7_to_matrix.
Print Assumptions py7_from_matrix.
Print Assumptions C14_matrix_content_source.
Print Assumptions C14_matrix_roundtrip_source.
Print Assumptions C14_matrix_reject_source.
Print Assumptions C13_legal_from_matrix_source.
