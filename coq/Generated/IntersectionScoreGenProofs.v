(* IntersectionScoreGenProofs.v -- the regenerated calculate_intersection_score (dsw/graphized.py) computes Score.calculate_intersection_score.
   Compiled on every run of the checks against the freshly generated ScoreGen.v (harness/regen.py, unit "score"). *)
From Coq Require Import Lia ZifyBool.
From DSW Require Import MiniPyS Graph Kmer Score Spec GraphSpec MiniPySLemmas KmerProofs GraphProofs ReprProofs ScoreProofs.
From DSWGen Require Import ScoreGen ScoreRepr.
Open Scope Z_scope.
Open Scope string_scope.
Ltac Zify.zify_post_hook ::= Z.to_euclidean_division_equations.
Local Open Scope Z_scope.
Local Open Scope list_scope.
Notation lookup := MiniPyS.lookup.

(* TARGET STATEMENTS: calculate_intersection_score_gen -- proved at the end of this file exactly as stated (value and exception,
   relative to a callee obtain_leaf_vertices that behaves as LeavesGenProofs.leaves_map_gen states; NoDup keys).

   Notes.  * `list(latter_map.keys())` = keys m; the loop over enumerate(currents) = Score.score_keys over m (NoDup keys:
   latter_map[current_index] is the entry of that key -- dict_get finds the FIRST binding, as Graph.lookup does; with a duplicated
   key the statement is false: m = [(1,[3;2]); (1,[0])], k = 1).
   * mutate_branches: one obtain_leaf_vertices call per successor (callee hypothesis; depth = k - 1 >= 0), a list of arrays.
   * `combinations(range(len(mutate_branches)), 2)` = BCombinations2 = Score.pairs_of on positions; `len(union1d(a, b))` =
   Score.union_len (BUnion1d builds the sorted duplicate-free union: length_sort_uniq relates its length to dedupZ).
   * `scores[current_index, latter_map[current_index][one] % 4] += score` is SAug on TIndex2 = Score.add_score (aug_pure:
   IndexError for a vertex outside the table, negative wraps; column l mod 4 in 0..3; invariant: rows of four entries).
   * has_insertion: `former_index in latter_map` / `latter_map[former_index]` = Graph.lookup; has_deletion: delete_branch is a LIST
   holding one array, union1d flattens it (the VList [VArr _] case of BUnion1d); `del delete_branch` is SDelVar.
   * the model may Raise IndexError (add_score): res_of_scores covers it; the additions of one vertex are made in the model's
   order (subst ++ insert ++ delete), every loop being a step-by-step fold (loop_fold) that stops at the first exception.
   * proof style: invariants through lookup; every piece of program has a frame (the variables it may write), so that the facts
   about all other variables carry over (vctx_frame, rctx_frame, octx_frame).  All loops are indexed by POSITIONS
   (List.seq 0 n), which is how the program reads mutate_branches[i] and latter_map[current_index][i]. *)

(* ---- tactics ------------------------------------------------------------------------------------------------------ *)
Ltac lk := repeat (rewrite lookup_update_same || (rewrite lookup_update_other by discriminate)).
Ltac ev := cbn [eval lift seq rbind assign items bind_tuple truthy negb].

(* ---- (1) len(union1d(a, b)) = union_len ----------------------------------------------------------------------------- *)
Fixpoint ssorted (l : list Z) : Prop :=
  match l with [] => True | x :: t => Forall (fun y => x < y) t /\ ssorted t end.

Lemma memZ_insert y x l : memZ y (insert_sortedZ x l) = (y =? x) || memZ y l.
Proof.
  induction l as [|h t IH]; cbn [insert_sortedZ memZ]; [reflexivity|].
  destruct (x <? h) eqn:E1; cbn [memZ]; [reflexivity|].
  destruct (x =? h) eqn:E2; cbn [memZ].
  - apply Z.eqb_eq in E2. subst h. destruct (y =? x), (memZ y t); reflexivity.
  - rewrite IH. destruct (y =? x), (y =? h), (memZ y t); reflexivity.
Qed.

Lemma memZ_sort_uniq y l : memZ y (sort_uniqZ l) = memZ y l.
Proof.
  induction l as [|x t IH]; [reflexivity|].
  unfold sort_uniqZ in *. cbn [fold_right memZ]. rewrite memZ_insert, IH. reflexivity.
Qed.

Lemma Forall_insert (P : Z -> Prop) x l : Forall P l -> P x -> Forall P (insert_sortedZ x l).
Proof.
  induction l as [|h t IH]; intros HF Hx; cbn [insert_sortedZ]; [constructor; [exact Hx|constructor]|].
  inversion HF as [|? ? Hh Ht]; subst.
  destruct (x <? h); [constructor; assumption|]. destruct (x =? h); [exact HF|].
  constructor; [exact Hh|apply IH; assumption].
Qed.

Lemma ssorted_insert x l : ssorted l -> ssorted (insert_sortedZ x l).
Proof.
  induction l as [|h t IH]; intros HS; cbn [insert_sortedZ ssorted]; [split; [constructor|exact I]|].
  destruct HS as [HF HS].
  destruct (x <? h) eqn:E1.
  - cbn [ssorted]. split; [|split; assumption].
    constructor; [lia|]. eapply Forall_impl; [|exact HF]. cbv beta. intros; lia.
  - destruct (x =? h) eqn:E2; [cbn [ssorted]; split; assumption|].
    cbn [ssorted]. split; [apply Forall_insert; [exact HF|lia]|apply IH; exact HS].
Qed.

Lemma ssorted_sort_uniq l : ssorted (sort_uniqZ l).
Proof.
  induction l as [|x t IH]; [exact I|]. unfold sort_uniqZ in *. cbn [fold_right]. apply ssorted_insert, IH.
Qed.

Lemma memZ_above x l : Forall (fun y => x < y) l -> memZ x l = false.
Proof.
  induction l as [|h t IH]; intro HF; cbn [memZ]; [reflexivity|].
  inversion HF as [|? ? Hh Ht]; subst. rewrite (IH Ht). replace (x =? h) with false by lia. reflexivity.
Qed.

Lemma length_insert x l : ssorted l ->
  length (insert_sortedZ x l) = if memZ x l then length l else S (length l).
Proof.
  induction l as [|h t IH]; intros HS; cbn [insert_sortedZ memZ]; [reflexivity|].
  destruct HS as [HF HS].
  destruct (x <? h) eqn:E1.
  - replace (x =? h) with false by lia. cbn [orb].
    rewrite memZ_above; [reflexivity|]. eapply Forall_impl; [|exact HF]. cbv beta. intros; lia.
  - destruct (x =? h) eqn:E2; cbn [orb]; [reflexivity|].
    cbn [length]. rewrite (IH HS). destruct (memZ x t); reflexivity.
Qed.

Lemma length_sort_uniq l : length (sort_uniqZ l) = length (dedupZ l).
Proof.
  induction l as [|x t IH]; [reflexivity|].
  cbn [dedupZ]. change (sort_uniqZ (x :: t)) with (insert_sortedZ x (sort_uniqZ t)).
  rewrite length_insert by apply ssorted_sort_uniq. rewrite memZ_sort_uniq.
  destruct (memZ x t); cbn [length]; rewrite IH; reflexivity.
Qed.

Lemma flat_ints_varr l : flat_ints (varr l) = Ret l.
Proof.
  unfold varr. cbn [flat_ints].
  induction l as [|x t IH]; cbn [map]; [reflexivity|]. cbn [flat_ints rbind]. rewrite IH. reflexivity.
Qed.

Lemma len_varr l : builtin1_val BLen (varr l) = Ret (VInt (Z.of_nat (length l))).
Proof. unfold varr. cbn [builtin1_val]. rewrite map_length. reflexivity. Qed.

Lemma union_varr a b : builtin2_val BUnion1d (varr a) (varr b) = Ret (varr (sort_uniqZ (a ++ b))).
Proof.
  change (builtin2_val BUnion1d (varr a) (varr b))
    with (x <~ flat_ints (varr a) ;; y <~ flat_ints (varr b) ;; Ret (VArr (map VInt (sort_uniqZ (x ++ y))))).
  rewrite !flat_ints_varr. reflexivity.
Qed.

(* the second argument a LIST holding one array: NumPy flattens it *)
Lemma union_varr_list a b : builtin2_val BUnion1d (varr a) (VList [varr b]) = Ret (varr (sort_uniqZ (a ++ b))).
Proof.
  change (builtin2_val BUnion1d (varr a) (VList [varr b]))
    with (x <~ flat_ints (varr a) ;; y <~ flat_ints (varr b) ;; Ret (VArr (map VInt (sort_uniqZ (x ++ y))))).
  rewrite !flat_ints_varr. reflexivity.
Qed.

Lemma len_union a b :
  (x <~ builtin2_val BUnion1d (varr a) (varr b) ;; builtin1_val BLen x) = Ret (VInt (union_len a b)).
Proof. rewrite union_varr. cbn [rbind]. rewrite len_varr, length_sort_uniq. reflexivity. Qed.

Lemma len_union_list a b :
  (x <~ builtin2_val BUnion1d (varr a) (VList [varr b]) ;; builtin1_val BLen x) = Ret (VInt (union_len a b)).
Proof. rewrite union_varr_list. cbn [rbind]. rewrite len_varr, length_sort_uniq. reflexivity. Qed.

(* ---- indexing ------------------------------------------------------------------------------------------------------- *)
Lemma py_get_map {A B} (f : A -> B) l i :
  py_get (map f l) i = match py_get l i with Ok x => Ok (f x) | Raise e => Raise e | OutOfFuel => OutOfFuel end.
Proof.
  unfold py_get. rewrite map_length.
  set (j := if i <? 0 then i + Z.of_nat (length l) else i).
  destruct ((j <? 0) || (Z.of_nat (length l) <=? j)); [reflexivity|].
  generalize (Z.to_nat j) as n. induction l as [|x t IH]; intro n; cbn [map nthZ]; [reflexivity|].
  destruct n as [|n]; [reflexivity|apply IH].
Qed.

Lemma py_get_in {A} (l : list A) w d : 0 <= w < Z.of_nat (length l) -> py_get l w = Ok (nth (Z.to_nat w) l d).
Proof.
  intro H. unfold py_get. replace (w <? 0) with false by lia.
  replace ((w <? 0) || (Z.of_nat (length l) <=? w)) with false by lia.
  rewrite (nthZ_nth _ l (Z.to_nat w) d) by lia. reflexivity.
Qed.

Lemma py_get_nth {A} (l : list A) i d : (i < length l)%nat -> py_get l (Z.of_nat i) = Ok (nth i l d).
Proof. intro H. rewrite (py_get_in l (Z.of_nat i) d) by lia. rewrite Nat2Z.id. reflexivity. Qed.

Lemma index_list_map {A} (f : A -> val) l i d : (i < length l)%nat ->
  index_val (VList (map f l)) (VInt (Z.of_nat i)) = Ret (f (nth i l d)).
Proof. intro H. unfold index_val. rewrite py_get_map, (py_get_nth l i d H). reflexivity. Qed.

Lemma index_varr2 sc v :
  index_val (varr2 sc) (VInt v) = match py_get sc v with Ok r => Ret (varr r) | _ => Exn IndexError end.
Proof. unfold varr2, index_val. rewrite py_get_map. destruct (py_get sc v); reflexivity. Qed.

Lemma dict_get_lmap m v :
  dict_get (VInt v) (map (fun kv : Z * list Z => (VInt (fst kv), VList (map VInt (snd kv)))) m)
  = match Graph.lookup m v with Some ls => Some (vints ls) | None => None end.
Proof.
  induction m as [|[k ls] t IH]; cbn [map dict_get Graph.lookup fst snd val_eqb]; [reflexivity|].
  rewrite (Z.eqb_sym v k). destruct (k =? v); [reflexivity|exact IH].
Qed.

Lemma in_lmap m v :
  cmp_top CIn (VInt v) (v_lmap m) = Ret (VBool (match Graph.lookup m v with Some _ => true | None => false end)).
Proof.
  unfold v_lmap, cmp_top, cmp_vals, cmp_scalar. cbn [key_ok]. rewrite dict_get_lmap. destruct (Graph.lookup m v); reflexivity.
Qed.

Lemma index_lmap m v ls : Graph.lookup m v = Some ls -> index_val (v_lmap m) (VInt v) = Ret (vints ls).
Proof. intro E. unfold v_lmap, index_val. cbn [key_ok]. rewrite dict_get_lmap, E. reflexivity. Qed.

Lemma lookup_nodup m : NoDup (map fst m) -> forall k ls, In (k, ls) m -> Graph.lookup m k = Some ls.
Proof.
  induction m as [|[k0 ls0] t IH]; intros HN k ls Hin; [contradiction|].
  cbn [map fst] in HN. inversion HN as [|? ? Hnot HN']; subst. cbn [Graph.lookup].
  destruct Hin as [E|Hin].
  - injection E as -> ->. rewrite Z.eqb_refl. reflexivity.
  - destruct (k0 =? k) eqn:E; [|apply IH; assumption].
    apply Z.eqb_eq in E. subst k0. exfalso. apply Hnot. change k with (fst (k, ls)). apply in_map. exact Hin.
Qed.

(* ---- (2) scores[v, col] += x = add_score ---------------------------------------------------------------------------- *)
Definition rows4s (sc : scores_t) : Prop := Forall (fun r => length r = 4%nat) sc.

Lemma map_set_nth {A B} (f : A -> B) l i x : set_nth (map f l) i (f x) = map f (set_nth l i x).
Proof.
  revert i. induction l as [|y t IH]; intro i; [destruct i; reflexivity|].
  destruct i as [|i]; cbn [map set_nth]; [reflexivity|]. rewrite IH. reflexivity.
Qed.

Lemma add_score_rows4 sc v col x sc' : add_score sc v col x = Ok sc' -> rows4s sc -> rows4s sc'.
Proof.
  unfold add_score. set (n := Z.of_nat (length sc)). set (w := if v <? 0 then v + n else v).
  destruct ((w <? 0) || (n <=? w)) eqn:E; [discriminate|]. intros H HR. injection H as <-.
  apply Forall_set_nth; [exact HR|]. rewrite set_nth_length.
  unfold rows4s in HR. rewrite Forall_forall in HR. apply HR. apply nth_In. lia.
Qed.

Lemma aug_pure sc cur col x (k : val -> outcome) : rows4s sc -> 0 <= col < 4 ->
  lift (index_val (varr2 sc) (VInt cur)) (fun row => lift (index_val row (VInt col)) (fun old =>
    lift (binop_vals Add old (VInt x)) (fun v => lift (store2_val (varr2 sc) (VInt cur) (VInt col) v) k)))
  = match add_score sc cur col x with Ok sc' => k (varr2 sc') | Raise e => OExn e | OutOfFuel => OFuel end.
Proof.
  intros HR Hc. unfold add_score. rewrite index_varr2. unfold store2_val. unfold varr2 at 1. cbv beta iota. rewrite map_length.
  unfold py_get at 1.
  set (n := Z.of_nat (length sc)). set (w := if cur <? 0 then cur + n else cur).
  destruct ((w <? 0) || (n <=? w)) eqn:E; [reflexivity|].
  rewrite (nthZ_nth _ sc (Z.to_nat w) [0; 0; 0; 0]) by lia.
  set (row := nth (Z.to_nat w) sc [0; 0; 0; 0]).
  assert (Hrow : length row = 4%nat).
  { unfold rows4s in HR. rewrite Forall_forall in HR. apply HR. apply nth_In. lia. }
  rewrite py_get_map, (py_get_in sc w [0; 0; 0; 0]) by lia. fold row.
  destruct row as [|a [|b [|c [|d [|? ?]]]]]; try discriminate Hrow.
  assert (C : col = 0 \/ col = 1 \/ col = 2 \/ col = 3) by lia.
  cbn [lift]. set (rows := map varr sc).
  destruct C as [->|[->|[->| ->]]]; cbn -[Z.add]; subst rows; unfold varr2; rewrite <- map_set_nth; reflexivity.
Qed.

(* ---- frames: the variables a piece of program may write ---------------------------------------------------------------- *)
Definition mem_s (x : string) (W : list string) : bool := existsb (String.eqb x) W.
Definition frame (W : list string) (en en' : env) : Prop := forall x, mem_s x W = false -> lookup x en' = lookup x en.

Lemma frame_refl W en : frame W en en.
Proof. intros x _. reflexivity. Qed.

Lemma frame_trans W en1 en2 en3 : frame W en1 en2 -> frame W en2 en3 -> frame W en1 en3.
Proof. intros H1 H2 x Hx. rewrite (H2 x Hx). apply H1, Hx. Qed.

Lemma frame_upd W y v en en' : mem_s y W = true -> frame W en en' -> frame W en (update y v en').
Proof.
  intros Hy HF x Hx. rewrite lookup_update_other; [apply HF, Hx|]. intro E. subst x. congruence.
Qed.

Lemma mem_s_incl W W' x : forallb (fun y => mem_s y W') W = true -> mem_s x W' = false -> mem_s x W = false.
Proof.
  induction W as [|a t IH]; intros HI Hx; [reflexivity|].
  cbn [forallb] in HI. apply andb_prop in HI. destruct HI as [Ha Ht].
  unfold mem_s. cbn [existsb]. fold (mem_s x t). rewrite (IH Ht Hx).
  destruct (String.eqb x a) eqn:E; [|reflexivity]. apply String.eqb_eq in E. subst a. congruence.
Qed.

Lemma frame_incl W W' en en' : forallb (fun y => mem_s y W') W = true -> frame W en en' -> frame W' en en'.
Proof. intros HI HF x Hx. apply HF. exact (mem_s_incl W W' x HI Hx). Qed.

Lemma lookup_filter_other x y en : x <> y ->
  lookup x (filter (fun kv : string * val => negb (String.eqb y (fst kv))) en) = lookup x en.
Proof.
  intro N. induction en as [|[z w] t IH]; [reflexivity|]. cbn [filter fst].
  destruct (String.eqb y z) eqn:E; cbn [negb MiniPyS.lookup].
  - apply String.eqb_eq in E. subst z.
    destruct (String.eqb x y) eqn:F; [apply String.eqb_eq in F; contradiction|exact IH].
  - destruct (String.eqb x z); [reflexivity|exact IH].
Qed.

Lemma frame_del W y en en' : mem_s y W = true -> frame W en en' ->
  frame W en (filter (fun kv : string * val => negb (String.eqb y (fst kv))) en').
Proof.
  intros Hy HF x Hx. rewrite lookup_filter_other; [apply HF, Hx|]. intro E. subst x. congruence.
Qed.

Ltac fr := repeat first [apply frame_refl | assumption | apply frame_upd; [reflexivity|]].

(* ---- list facts ----------------------------------------------------------------------------------------------------- *)
Lemma map_nth_seq {A} (l : list A) d : map (fun i => nth i l d) (List.seq 0 (length l)) = l.
Proof.
  induction l as [|x t IH]; [reflexivity|]. cbn [length List.seq map nth]. f_equal.
  rewrite <- seq_shift, map_map. exact IH.
Qed.

Lemma flat_map_map {A B C} (F : B -> list C) (G : A -> B) l : flat_map F (map G l) = flat_map (fun x => F (G x)) l.
Proof. induction l as [|x t IH]; cbn [map flat_map]; [reflexivity|]. rewrite IH. reflexivity. Qed.

Lemma map_flat_map {A B} (f : A -> B) l : map f l = flat_map (fun x => [f x]) l.
Proof. induction l as [|x t IH]; cbn [map flat_map app]; [reflexivity|]. rewrite IH. reflexivity. Qed.

Lemma pairs_of_map {A B} (h : A -> B) l : pairs_of (map h l) = map (fun p => (h (fst p), h (snd p))) (pairs_of l).
Proof.
  induction l as [|x t IH]; cbn [map pairs_of]; [reflexivity|].
  rewrite map_app, !map_map, IH. reflexivity.
Qed.

Lemma pairs_pos_of {A} (l : list A) : pairs_pos l = pairs_of l.
Proof. induction l as [|x t IH]; cbn [pairs_pos pairs_of]; [reflexivity|]. rewrite IH. reflexivity. Qed.

Lemma zrange_up_seq n s : zrange_up n s 1 = map (fun i => VInt (s + Z.of_nat i)) (List.seq 0 n).
Proof.
  revert s. induction n as [|n IH]; intro s; [reflexivity|]. cbn [zrange_up List.seq map].
  f_equal; [f_equal; lia|]. rewrite IH, <- seq_shift, map_map. apply map_ext. intro i. f_equal. lia.
Qed.

Lemma enumerate_seq {A} (f : A -> val) d l s :
  enumerate_from s (map f l) = map (fun i => VTuple [VInt (s + Z.of_nat i); f (nth i l d)]) (List.seq 0 (length l)).
Proof.
  revert s. induction l as [|x t IH]; intro s; [reflexivity|]. cbn [map enumerate_from length List.seq nth].
  f_equal; [do 3 f_equal; lia|]. rewrite IH, <- seq_shift, map_map. apply map_ext. intro i.
  cbn [nth]. do 3 f_equal. lia.
Qed.

Lemma range_len n : builtin1_val BRange (VInt (Z.of_nat n)) = Ret (VList (map (fun i => VInt (Z.of_nat i)) (List.seq 0 n))).
Proof.
  unfold builtin1_val, range3. change (1 =? 0) with false. change (0 <? 1) with true. cbn [rbind].
  replace ((Z.of_nat n - 0 + 1 - 1) / 1) with (Z.of_nat n) by lia. rewrite Nat2Z.id, zrange_up_seq. reflexivity.
Qed.

(* ---- the model as folds ---------------------------------------------------------------------------------------------- *)
Fixpoint fold_res {A} (G : A -> scores_t -> result scores_t) (xs : list A) (sc : scores_t) : result scores_t :=
  match xs with [] => Ok sc | x :: t => s <- G x sc ;; fold_res G t s end.

Lemma add_all_app sc v a b : add_all sc v (a ++ b) = (s <- add_all sc v a ;; add_all s v b).
Proof.
  revert sc. induction a as [|[c x] t IH]; intro sc; cbn [app add_all bind]; [reflexivity|].
  destruct (add_score sc v c x); cbn [bind]; [apply IH|reflexivity|reflexivity].
Qed.

Lemma fold_res_items {A} (F : A -> list (Z * Z)) cur xs sc :
  fold_res (fun x s => add_all s cur (F x)) xs sc = add_all sc cur (flat_map F xs).
Proof.
  revert sc. induction xs as [|x t IH]; intro sc; cbn [fold_res flat_map]; [reflexivity|].
  rewrite add_all_app. destruct (add_all sc cur (F x)); cbn [bind]; [apply IH|reflexivity|reflexivity].
Qed.

Lemma fold_res_map {A B} (G : B -> scores_t -> result scores_t) (g : A -> B) xs sc :
  fold_res G (map g xs) sc = fold_res (fun x => G (g x)) xs sc.
Proof.
  revert sc. induction xs as [|x t IH]; intro sc; cbn [map fold_res]; [reflexivity|].
  destruct (G (g x) sc); cbn [bind]; [apply IH|reflexivity|reflexivity].
Qed.

Lemma bind_ok {A} (r : result A) : (s <- r ;; Ok s) = r.
Proof. destruct r; reflexivity. Qed.

Lemma add_all_rows4 v items : forall sc sc', add_all sc v items = Ok sc' -> rows4s sc -> rows4s sc'.
Proof.
  induction items as [|[c x] t IH]; intros sc sc' H HR; cbn [add_all] in H; [injection H as <-; exact HR|].
  destruct (add_score sc v c x) as [s| |] eqn:E; cbn [bind] in H; try discriminate.
  apply (IH s sc' H). exact (add_score_rows4 _ _ _ _ _ E HR).
Qed.

Lemma add_score_fuel sc v c x : add_score sc v c x <> OutOfFuel.
Proof. unfold add_score. destruct (_ || _); discriminate. Qed.

Lemma add_all_fuel v items : forall sc, add_all sc v items <> OutOfFuel.
Proof.
  induction items as [|[c x] t IH]; intro sc; cbn [add_all]; [discriminate|].
  destruct (add_score sc v c x) eqn:E; cbn [bind]; [apply IH|discriminate|destruct (add_score_fuel _ _ _ _ E)].
Qed.

Lemma score_keys_fuel m depth ins del : forall todo sc, score_keys m todo depth ins del sc <> OutOfFuel.
Proof.
  induction todo as [|[cur lats] t IH]; intro sc; cbn [score_keys]; [discriminate|].
  destruct (add_all sc cur _) eqn:E; cbn [bind]; [apply IH|discriminate|destruct (add_all_fuel _ _ _ E)].
Qed.

Lemma score_keys_fold m depth ins del todo sc :
  score_keys m todo depth ins del sc
  = fold_res (fun kv s => add_all s (fst kv) (vertex_scores m depth ins del (fst kv) (snd kv))) todo sc.
Proof.
  revert sc. induction todo as [|[cur lats] t IH]; intro sc; cbn [score_keys fold_res fst snd]; [reflexivity|].
  destruct (add_all sc cur _); cbn [bind]; [apply IH|reflexivity|reflexivity].
Qed.

(* vertex_scores over positions *)
Lemma vertex_scores_pos m depth ins del cur (g : nat -> Z) (ps : list nat) :
  vertex_scores m depth ins del cur (map g ps) =
  flat_map (fun p => let l1 := g (fst p) in let l2 := g (snd p) in
                     let s := union_len (leaves_map depth m [l1]) (leaves_map depth m [l2]) in [(l1 mod 4, s); (l2 mod 4, s)])
           (pairs_of ps)
  ++ (if ins then flat_map (fun i => match Graph.lookup m (g i) with
                                    | Some ls => flat_map (fun l2 => [(g i mod 4, union_len (leaves_map depth m [g i]) (leaves_map depth m [l2]))]) ls
                                    | None => [] end) ps else [])
  ++ (if del then flat_map (fun i => [(g i mod 4, union_len (leaves_map depth m [g i]) (leaves_map depth m [cur]))]) ps else []).
Proof.
  unfold vertex_scores. rewrite map_map. f_equal; [|f_equal].
  - rewrite pairs_of_map, flat_map_map. reflexivity.
  - destruct ins; [|reflexivity]. rewrite flat_map_map. apply flat_map_ext. intro i.
    destruct (Graph.lookup m (g i)); [apply map_flat_map|reflexivity].
  - destruct del; [|reflexivity]. rewrite map_map. apply map_flat_map.
Qed.

(* ---- outcomes against results of the model --------------------------------------------------------------------------- *)
Definition lres (o : outcome) (r : result scores_t) (P : env -> scores_t -> Prop) : Prop :=
  match r with
  | Ok sc' => exists en', o = ONormal en' /\ P en' sc'
  | Raise e => o = OExn e
  | OutOfFuel => True
  end.

Lemma lres_seq o1 r1 (P1 : env -> scores_t -> Prop) k f P2 :
  lres o1 r1 P1 -> (forall en1 sc1, P1 en1 sc1 -> lres (k en1) (f sc1) P2) -> lres (seq o1 k) (bind r1 f) P2.
Proof.
  intros H1 H2. destruct r1 as [sc1|e|]; cbn [lres bind] in *.
  - destruct H1 as (en1 & -> & HP). cbn [seq]. apply H2, HP.
  - rewrite H1. reflexivity.
  - exact I.
Qed.

Lemma lres_weaken o r (P Q : env -> scores_t -> Prop) :
  lres o r P -> (forall en sc, P en sc -> Q en sc) -> lres o r Q.
Proof.
  intros H HPQ. destruct r as [sc|e|]; cbn [lres] in *; [|exact H|exact I].
  destruct H as (en' & E & HP). exists en'. split; [exact E|apply HPQ, HP].
Qed.

Definition post (W : list string) (en en' : env) (sc' : scores_t) : Prop :=
  frame W en en' /\ lookup "scores" en' = Ret (varr2 sc') /\ rows4s sc'.

Lemma post_trans W en en1 en2 sc1 sc2 : post W en en1 sc1 -> post W en1 en2 sc2 -> post W en en2 sc2.
Proof. intros (F1 & _ & _) (F2 & S2 & R2). split; [exact (frame_trans _ _ _ _ F1 F2)|split; assumption]. Qed.

Lemma post_incl W W' en en' sc' : forallb (fun y => mem_s y W') W = true -> post W en en' sc' -> post W' en en' sc'.
Proof. intros HI (F & S & R). split; [exact (frame_incl _ _ _ _ HI F)|split; assumption]. Qed.

Lemma mod4 l : binop_vals Mod (VInt l) (VInt 4) = Ret (VInt (l mod 4)).
Proof. reflexivity. Qed.

Lemma map_repeat_ {A B} (f : A -> B) x n : map f (repeat x n) = repeat (f x) n.
Proof. induction n as [|n IH]; cbn [repeat map]; [reflexivity|]. rewrite IH. reflexivity. Qed.

Lemma zeros2 r : builtin2_val BNpZeros2 (VInt r) (VInt 4) = Ret (varr2 (repeat [0; 0; 0; 0] (Z.to_nat r))).
Proof. cbn [builtin2_val]. unfold varr2. rewrite map_repeat_. reflexivity. Qed.

Section Score.
  Variable ce : string -> list val -> res val.
  Variable m : lmap.
  Variable depth : nat.
  Hypothesis ce_leaf : forall v,
    ce "obtain_leaf_vertices" [VInt v; VInt (Z.of_nat depth); VNone; v_lmap m] = Ret (varr (leaves_map depth m [v])).

  (* [exec] one statement at a time without unfolding the loops *)
  Lemma exec_assign fuel t e en : exec ce fuel (SAssign t e) en = lift (eval ce en e) (fun v => assign ce t v en).
  Proof. reflexivity. Qed.
  Lemma exec_return fuel e en : exec ce fuel (SReturn e) en = lift (eval ce en e) OReturn.
  Proof. reflexivity. Qed.
  Lemma exec_skip fuel en : exec ce fuel SSkip en = ONormal en.
  Proof. reflexivity. Qed.
  Lemma exec_expr fuel e en : exec ce fuel (SExpr e) en = lift (eval ce en e) (fun _ => ONormal en).
  Proof. reflexivity. Qed.
  Lemma exec_append fuel x e en :
    exec ce fuel (SAppend x e) en =
    lift (lookup x en) (fun a => lift (eval ce en e) (fun v =>
      match a with VList l => ONormal (update x (VList (l ++ [v])) en) | _ => OStuck end)).
  Proof. reflexivity. Qed.
  Lemma exec_delvar fuel x en :
    exec ce fuel (SDelVar x) en =
    lift (lookup x en) (fun _ => ONormal (filter (fun kv => negb (String.eqb x (fst kv))) en)).
  Proof. reflexivity. Qed.
  Lemma exec_aug2 fuel x i j o e en :
    exec ce fuel (SAug (TIndex2 x i j) o e) en =
    lift (lookup x en) (fun a => lift (eval ce en i) (fun iv => lift (eval ce en j) (fun jv =>
    lift (index_val a iv) (fun row => lift (index_val row jv) (fun old =>
    lift (eval ce en e) (fun b => lift (binop_vals o old b) (fun v => lift (store2_val a iv jv v) (fun a' =>
      ONormal (update x a' en))))))))).
  Proof. reflexivity. Qed.
  Lemma eval_b1 en f a : eval ce en (EB1 f a) = (x <~ eval ce en a ;; builtin1_val f x).
  Proof. reflexivity. Qed.
  Lemma eval_b2 en f a b : eval ce en (EB2 f a b) = (x <~ eval ce en a ;; y <~ eval ce en b ;; builtin2_val f x y).
  Proof. reflexivity. Qed.
  Ltac ex := repeat first [rewrite exec_seq | rewrite exec_assign | rewrite exec_if | rewrite exec_for
                          | rewrite exec_return | rewrite exec_skip | rewrite exec_expr | rewrite exec_append
                          | rewrite exec_delvar | rewrite exec_aug2].
  Ltac evc := cbn [eval lift seq rbind assign items bind_tuple truthy negb MiniPyS.lookup update String.eqb Ascii.eqb Bool.eqb].

  Definition lv (l : Z) : list Z := leaves_map depth m [l].
  Definition mbv (ls : list Z) : val := VList (map (fun l => varr (lv l)) ls).
  Definition nuc : val := VStr [65; 67; 71; 84].

  Lemma len_nuc : builtin1_val BLen nuc = Ret (VInt 4).
  Proof. reflexivity. Qed.

  (* what the statements of one vertex read *)
  Definition vctx (en : env) (cur : Z) (lats : list Z) (sc : scores_t) : Prop :=
    lookup "latter_map" en = Ret (v_lmap m) /\ lookup "depth" en = Ret (VInt (Z.of_nat depth)) /\
    lookup "nucleotides" en = Ret nuc /\ lookup "current_index" en = Ret (VInt cur) /\
    lookup "mutate_branches" en = Ret (mbv lats) /\ lookup "scores" en = Ret (varr2 sc) /\
    Graph.lookup m cur = Some lats /\ rows4s sc.

  Lemma vctx_frame W en en' cur lats sc sc' :
    mem_s "latter_map" W = false -> mem_s "depth" W = false -> mem_s "nucleotides" W = false ->
    mem_s "current_index" W = false -> mem_s "mutate_branches" W = false ->
    vctx en cur lats sc -> post W en en' sc' -> vctx en' cur lats sc'.
  Proof.
    intros W1 W2 W3 W4 W5 (H1 & H2 & H3 & H4 & H5 & H6 & H7 & H8) (HF & HS & HR).
    unfold vctx. rewrite (HF _ W1), (HF _ W2), (HF _ W3), (HF _ W4), (HF _ W5). tauto.
  Qed.

  Lemma vctx_post W en cur lats sc : vctx en cur lats sc -> post W en en sc.
  Proof. intros (H1 & H2 & H3 & H4 & H5 & H6 & H7 & H8). split; [apply frame_refl|split; assumption]. Qed.

  (* ---- scores[current_index, latter_map[current_index][ivar] % len(nucleotides)] += score ---------------------------- *)
  Definition aug_on (ivar : string) : stmt :=
    SAug (TIndex2 "scores" (EVar "current_index")
            (EBin Mod (EIndex (EIndex (EVar "latter_map") (EVar "current_index")) (EVar ivar)) (EB1 BLen (EVar "nucleotides"))))
         Add (EVar "score").

  Lemma aug_stmt fuel ivar en cur lats sc i x :
    vctx en cur lats sc -> (i < length lats)%nat ->
    lookup ivar en = Ret (VInt (Z.of_nat i)) -> lookup "score" en = Ret (VInt x) ->
    lres (exec ce fuel (aug_on ivar) en) (add_score sc cur (nth i lats 0 mod 4) x)
      (fun en' sc' => en' = update "scores" (varr2 sc') en /\ rows4s sc').
  Proof.
    intros (Hlm & Hd & Hn & Hc & Hmb & Hsc & HL & HR) Hi Hiv Hs.
    unfold aug_on. rewrite exec_aug2. rewrite Hsc. ev. rewrite Hc. ev. rewrite Hlm. ev.
    rewrite (index_lmap m cur lats HL). ev. rewrite Hiv. ev.
    unfold vints. rewrite (index_list_map VInt lats i 0 Hi). ev. rewrite Hn. ev. rewrite len_nuc. ev.
    rewrite mod4. ev. rewrite Hs. cbn [lift].
    rewrite aug_pure by (auto; lia).
    destruct (add_score sc cur (nth i lats 0 mod 4) x) as [sc'|e|] eqn:E; cbn [lres]; [|reflexivity|exact I].
    exists (update "scores" (varr2 sc') en). split; [reflexivity|]. split; [reflexivity|].
    exact (add_score_rows4 _ _ _ _ _ E HR).
  Qed.

  Lemma eval_mb_index en cur lats sc ivar j :
    vctx en cur lats sc -> lookup ivar en = Ret (VInt (Z.of_nat j)) -> (j < length lats)%nat ->
    eval ce en (EIndex (EVar "mutate_branches") (EVar ivar)) = Ret (varr (lv (nth j lats 0))).
  Proof.
    intros (Hlm & Hd & Hn & Hc & Hmb & Hsc & HL & HR) Hiv Hj. ev. rewrite Hmb. ev. rewrite Hiv. ev.
    unfold mbv. apply (index_list_map (fun l => varr (lv l)) lats j 0 Hj).
  Qed.

  (* ---- score = len(union1d(mutate_branches[ivar], e2)) ----------------------------------------------------------------- *)
  Definition score_of (ivar : string) (e2 : expr) : stmt :=
    SAssign (TVar "score") (EB1 BLen (EB2 BUnion1d (EIndex (EVar "mutate_branches") (EVar ivar)) e2)).

  Lemma score_stmt fuel ivar e2 en cur lats sc i b :
    vctx en cur lats sc -> (i < length lats)%nat -> lookup ivar en = Ret (VInt (Z.of_nat i)) ->
    (eval ce en e2 = Ret (varr b) \/ eval ce en e2 = Ret (VList [varr b])) ->
    exec ce fuel (score_of ivar e2) en = ONormal (update "score" (VInt (union_len (lv (nth i lats 0)) b)) en).
  Proof.
    intros V Hi Hiv He. unfold score_of. rewrite exec_assign.
    rewrite eval_b1, eval_b2, (eval_mb_index en cur lats sc ivar i V Hiv Hi).
    destruct He as [He|He]; rewrite He; cbn [rbind].
    - rewrite len_union. reflexivity.
    - rewrite len_union_list. reflexivity.
  Qed.

  (* one "score = ..; scores[..] += score" pair *)
  Lemma score_aug fuel ivar e2 en cur lats sc i b :
    vctx en cur lats sc -> (i < length lats)%nat -> lookup ivar en = Ret (VInt (Z.of_nat i)) -> ivar <> "score" ->
    (eval ce en e2 = Ret (varr b) \/ eval ce en e2 = Ret (VList [varr b])) ->
    lres (exec ce fuel (SSeq (score_of ivar e2) (aug_on ivar)) en)
         (add_score sc cur (nth i lats 0 mod 4) (union_len (lv (nth i lats 0)) b))
         (fun en' sc' => en' = update "scores" (varr2 sc') (update "score" (VInt (union_len (lv (nth i lats 0)) b)) en)
                         /\ rows4s sc').
  Proof.
    intros V Hi Hiv Hne He. rewrite exec_seq, (score_stmt fuel ivar e2 en cur lats sc i b V Hi Hiv He). cbn [seq].
    apply aug_stmt; [|exact Hi| |].
    - apply (vctx_frame ["score"; "scores"] en _ cur lats sc sc); try reflexivity; [exact V|].
      destruct V as (H1 & H2 & H3 & H4 & H5 & H6 & H7 & H8).
      split; [fr|]. split; [lk; exact H6|exact H8].
    - rewrite lookup_update_other by exact Hne. exact Hiv.
    - apply lookup_update_same.
  Qed.

  (* ---- a for loop whose iterations are steps of a fold of the model --------------------------------------------------- *)
  Lemma loop_fold {A} fuel W t bd (G : A -> scores_t -> result scores_t) (V : A -> val) (Pre : env -> scores_t -> Prop) :
    (forall en sc, Pre en sc -> lookup "scores" en = Ret (varr2 sc) /\ rows4s sc) ->
    (forall en en' sc sc', Pre en sc -> post W en en' sc' -> Pre en' sc') ->
    forall xs,
    (forall x en sc, In x xs -> Pre en sc ->
       lres (seq (assign ce t (V x) en) (exec ce fuel bd)) (G x sc) (post W en)) ->
    forall en sc, Pre en sc ->
      lres (for_loop ce fuel t bd (map V xs) en) (fold_res G xs sc) (post W en).
  Proof.
    intros HS HP. induction xs as [|x xs IH]; intros Hstep en sc HPre; cbn [map for_loop fold_res].
    - exists en. split; [reflexivity|]. destruct (HS _ _ HPre) as [H1 H2]. split; [apply frame_refl|split; assumption].
    - apply (lres_seq _ _ (post W en)); [apply Hstep; [left; reflexivity|exact HPre]|].
      intros en1 sc1 P1. apply (lres_weaken _ _ (post W en1)).
      + apply IH; [intros y en2 sc2 Hy; apply Hstep; right; exact Hy|exact (HP _ _ _ _ HPre P1)].
      + intros en2 sc2 P2. exact (post_trans _ _ _ _ _ _ P1 P2).
  Qed.

  Lemma loop_items {A} fuel W t bd cur (F : A -> list (Z * Z)) (V : A -> val) (Pre : env -> scores_t -> Prop) :
    (forall en sc, Pre en sc -> lookup "scores" en = Ret (varr2 sc) /\ rows4s sc) ->
    (forall en en' sc sc', Pre en sc -> post W en en' sc' -> Pre en' sc') ->
    forall xs,
    (forall x en sc, In x xs -> Pre en sc ->
       lres (seq (assign ce t (V x) en) (exec ce fuel bd)) (add_all sc cur (F x)) (post W en)) ->
    forall en sc, Pre en sc ->
      lres (for_loop ce fuel t bd (map V xs) en) (add_all sc cur (flat_map F xs)) (post W en).
  Proof.
    intros HS HP xs Hstep en sc HPre. rewrite <- fold_res_items.
    apply (loop_fold fuel W t bd (fun x s => add_all s cur (F x)) V Pre HS HP xs Hstep en sc HPre).
  Qed.

  Lemma vctx_scores en cur lats sc : vctx en cur lats sc -> lookup "scores" en = Ret (varr2 sc) /\ rows4s sc.
  Proof. intros (H1 & H2 & H3 & H4 & H5 & H6 & H7 & H8). split; assumption. Qed.

  (* ---- substitution: the pairs of branches ------------------------------------------------------------------------------ *)
  Definition sub_body : stmt :=
    SSeq (score_of "one" (EIndex (EVar "mutate_branches") (EVar "two"))) (SSeq (aug_on "one") (aug_on "two")).
  Definition WB := ["one"; "two"; "score"; "scores"].
  Definition sub_items (lats : list Z) (p : nat * nat) : list (Z * Z) :=
    let l1 := nth (fst p) lats 0 in let l2 := nth (snd p) lats 0 in
    let s := union_len (lv l1) (lv l2) in [(l1 mod 4, s); (l2 mod 4, s)].
  Definition vpair (p : nat * nat) : val := VTuple [VInt (Z.of_nat (fst p)); VInt (Z.of_nat (snd p))].

  Lemma sub_step fuel en cur lats sc p :
    vctx en cur lats sc -> (fst p < length lats)%nat -> (snd p < length lats)%nat ->
    lres (seq (assign ce (TTuple ["one"; "two"]) (vpair p) en) (exec ce fuel sub_body))
         (add_all sc cur (sub_items lats p)) (post WB en).
  Proof.
    destruct p as [i j]. cbn [fst snd]. intros V Hi Hj. unfold vpair. cbn [fst snd]. ev.
    set (en1 := update "two" (VInt (Z.of_nat j)) (update "one" (VInt (Z.of_nat i)) en)).
    assert (P1 : post WB en en1 sc).
    { destruct (vctx_scores _ _ _ _ V) as [H6 H8]. split; [unfold en1; fr|]. split; [unfold en1; lk; exact H6|exact H8]. }
    assert (V1 : vctx en1 cur lats sc) by (apply (vctx_frame WB en _ cur lats sc sc); try reflexivity; assumption).
    assert (H1 : lookup "one" en1 = Ret (VInt (Z.of_nat i))) by (unfold en1; lk; reflexivity).
    assert (H2 : lookup "two" en1 = Ret (VInt (Z.of_nat j))) by (unfold en1; lk; reflexivity).
    clearbody en1. unfold sub_body. rewrite exec_seq.
    rewrite (score_stmt fuel "one" _ en1 cur lats sc i (lv (nth j lats 0)) V1 Hi H1)
      by (left; exact (eval_mb_index en1 cur lats sc "two" j V1 H2 Hj)).
    cbn [seq]. unfold sub_items. cbn [fst snd add_all].
    set (s := union_len (lv (nth i lats 0)) (lv (nth j lats 0))).
    set (en2 := update "score" (VInt s) en1).
    assert (P2 : post WB en1 en2 sc).
    { destruct (vctx_scores _ _ _ _ V1) as [H6 H8]. split; [unfold en2; fr|]. split; [unfold en2; lk; exact H6|exact H8]. }
    assert (V2 : vctx en2 cur lats sc) by (apply (vctx_frame WB en1 _ cur lats sc sc); try reflexivity; assumption).
    assert (H1' : lookup "one" en2 = Ret (VInt (Z.of_nat i))) by (unfold en2; lk; exact H1).
    assert (H2' : lookup "two" en2 = Ret (VInt (Z.of_nat j))) by (unfold en2; lk; exact H2).
    assert (H3' : lookup "score" en2 = Ret (VInt s)) by (unfold en2; lk; reflexivity).
    clearbody en2. rewrite exec_seq.
    apply (lres_seq _ _ (fun en' sc' => en' = update "scores" (varr2 sc') en2 /\ rows4s sc')).
    - apply aug_stmt; [exact V2|exact Hi|exact H1'|exact H3'].
    - intros en3 sc3 [-> R3]. rewrite bind_ok.
      assert (P3 : post WB en2 (update "scores" (varr2 sc3) en2) sc3).
      { split; [fr|]. split; [lk; reflexivity|exact R3]. }
      assert (V3 : vctx (update "scores" (varr2 sc3) en2) cur lats sc3)
        by (apply (vctx_frame WB en2 _ cur lats sc sc3); try reflexivity; assumption).
      apply (lres_weaken _ _ (fun en' sc' => en' = update "scores" (varr2 sc') (update "scores" (varr2 sc3) en2) /\ rows4s sc')).
      + apply aug_stmt; [exact V3|exact Hj|lk; exact H2'|lk; exact H3'].
      + intros en4 sc4 [-> R4]. apply (post_trans _ _ _ _ _ _ P1). apply (post_trans _ _ _ _ _ _ P2).
        apply (post_trans _ _ _ _ _ _ P3). split; [fr|]. split; [lk; reflexivity|exact R4].
  Qed.

  Lemma sub_loop fuel cur lats ps en sc :
    vctx en cur lats sc -> Forall (fun p => (fst p < length lats)%nat /\ (snd p < length lats)%nat) ps ->
    lres (for_loop ce fuel (TTuple ["one"; "two"]) sub_body (map vpair ps) en)
         (add_all sc cur (flat_map (sub_items lats) ps)) (post WB en).
  Proof.
    intros V HF.
    apply (loop_items fuel WB _ _ cur (sub_items lats) vpair (fun en sc => vctx en cur lats sc)); [| | |exact V].
    - intros en0 sc0. apply vctx_scores.
    - intros en0 en' sc0 sc' V0 P0. apply (vctx_frame WB en0 _ cur lats sc0 sc'); try reflexivity; assumption.
    - intros p en0 sc0 Hp V0. rewrite Forall_forall in HF. destruct (HF p Hp) as [Hi Hj]. apply sub_step; assumption.
  Qed.

  (* ---- insertion ------------------------------------------------------------------------------------------------------ *)
  Definition leaf_call (x : string) : expr :=
    ECall "obtain_leaf_vertices" [EVar x; EVar "depth"; ENone; EVar "latter_map"].
  Definition ins_inner : stmt :=
    SSeq (SAssign (TVar "insert_branch") (leaf_call "latter_index"))
         (SSeq (score_of "index" (EVar "insert_branch")) (aug_on "index")).
  Definition ins_body : stmt :=
    SIf (ECmp CIn (EVar "former_index") (EVar "latter_map"))
        (SFor (TVar "latter_index") (EIndex (EVar "latter_map") (EVar "former_index")) ins_inner)
        SSkip.
  Definition WC2 := ["latter_index"; "insert_branch"; "score"; "scores"].
  Definition WC := ["index"; "former_index"; "latter_index"; "insert_branch"; "score"; "scores"].
  Definition ins_items (lats : list Z) (i : nat) : list (Z * Z) :=
    let l := nth i lats 0 in
    match Graph.lookup m l with
    | Some ls => flat_map (fun l2 => [(l mod 4, union_len (lv l) (lv l2))]) ls
    | None => []
    end.

  Lemma eval_leaf_call en x v :
    lookup x en = Ret (VInt v) -> lookup "depth" en = Ret (VInt (Z.of_nat depth)) -> lookup "latter_map" en = Ret (v_lmap m) ->
    eval ce en (leaf_call x) = Ret (varr (lv v)).
  Proof. intros Hx Hd Hlm. unfold leaf_call. cbn [eval]. rewrite Hx, Hd, Hlm. cbn [rbind]. apply ce_leaf. Qed.

  Lemma ins_step fuel en cur lats sc i l2 :
    vctx en cur lats sc -> lookup "index" en = Ret (VInt (Z.of_nat i)) -> (i < length lats)%nat ->
    lres (seq (assign ce (TVar "latter_index") (VInt l2) en) (exec ce fuel ins_inner))
         (add_all sc cur [(nth i lats 0 mod 4, union_len (lv (nth i lats 0)) (lv l2))]) (post WC2 en).
  Proof.
    intros V Hix Hi. ev. unfold ins_inner. rewrite exec_seq, exec_assign.
    pose proof V as (Hlm & Hd & Hn & Hc & Hmb & Hsc & HL & HR).
    rewrite (eval_leaf_call _ "latter_index" l2) by (lk; auto). cbn [lift assign seq].
    set (en2 := update "insert_branch" (varr (lv l2)) (update "latter_index" (VInt l2) en)).
    assert (P2 : post WC2 en en2 sc).
    { split; [unfold en2; fr|]. split; [unfold en2; lk; exact Hsc|exact HR]. }
    assert (V2 : vctx en2 cur lats sc) by (apply (vctx_frame WC2 en _ cur lats sc sc); try reflexivity; assumption).
    assert (H1 : lookup "index" en2 = Ret (VInt (Z.of_nat i))) by (unfold en2; lk; exact Hix).
    assert (H2 : lookup "insert_branch" en2 = Ret (varr (lv l2))) by (unfold en2; lk; reflexivity).
    clearbody en2. cbn [add_all]. rewrite bind_ok.
    eapply lres_weaken; [apply (score_aug fuel "index" (EVar "insert_branch") en2 cur lats sc i (lv l2) V2 Hi H1);
                         [discriminate|left; exact H2]|].
    intros en3 sc3 [-> R3]. apply (post_trans _ _ _ _ _ _ P2). split; [fr|]. split; [lk; reflexivity|exact R3].
  Qed.

  Definition vins (lats : list Z) (i : nat) : val := VTuple [VInt (Z.of_nat i); VInt (nth i lats 0)].

  Lemma ins_outer_step fuel en cur lats sc i :
    vctx en cur lats sc -> (i < length lats)%nat ->
    lres (seq (assign ce (TTuple ["index"; "former_index"]) (vins lats i) en) (exec ce fuel ins_body))
         (add_all sc cur (ins_items lats i)) (post WC en).
  Proof.
    intros V Hi. unfold vins. ev.
    set (l := nth i lats 0).
    set (en1 := update "former_index" (VInt l) (update "index" (VInt (Z.of_nat i)) en)).
    pose proof V as (Hlm & Hd & Hn & Hc & Hmb & Hsc & HL & HR).
    assert (P1 : post WC en en1 sc).
    { split; [unfold en1; fr|]. split; [unfold en1; lk; exact Hsc|exact HR]. }
    assert (V1 : vctx en1 cur lats sc) by (apply (vctx_frame WC en _ cur lats sc sc); try reflexivity; assumption).
    assert (H1 : lookup "index" en1 = Ret (VInt (Z.of_nat i))) by (unfold en1; lk; reflexivity).
    assert (H2 : lookup "former_index" en1 = Ret (VInt l)) by (unfold en1; lk; reflexivity).
    clearbody en1. pose proof V1 as (Hlm1 & Hd1 & Hn1 & Hc1 & Hmb1 & Hsc1 & _ & _).
    unfold ins_body. rewrite exec_if. cbn [eval]. rewrite H2, Hlm1. cbn [rbind]. rewrite in_lmap. cbn [lift truthy].
    unfold ins_items. fold l. destruct (Graph.lookup m l) as [ls|] eqn:EL.
    - rewrite exec_for. cbn [eval]. rewrite H2, Hlm1. cbn [rbind]. rewrite (index_lmap m l ls EL). unfold vints. cbn [lift items].
      eapply lres_weaken.
      + apply (loop_items fuel WC2 _ _ cur (fun l2 => [(l mod 4, union_len (lv l) (lv l2))]) VInt
                 (fun en sc => vctx en cur lats sc /\ lookup "index" en = Ret (VInt (Z.of_nat i)))); [| | |split; assumption].
        * intros en0 sc0 [V0 _]. exact (vctx_scores _ _ _ _ V0).
        * intros en0 en' sc0 sc' [V0 I0] P0. split.
          -- apply (vctx_frame WC2 en0 _ cur lats sc0 sc'); try reflexivity; assumption.
          -- destruct P0 as (F0 & _ & _). rewrite (F0 "index") by reflexivity. exact I0.
        * intros l2 en0 sc0 _ [V0 I0]. apply ins_step; assumption.
      + intros en2 sc2 P2. apply (post_trans _ _ _ _ _ _ P1). apply (post_incl WC2 WC); [reflexivity|exact P2].
    - rewrite exec_skip. cbn [add_all lres]. exists en1. split; [reflexivity|exact P1].
  Qed.

  (* ---- deletion --------------------------------------------------------------------------------------------------------- *)
  Definition del_body : stmt := SSeq (score_of "index" (EVar "delete_branch")) (aug_on "index").
  Definition WD := ["index"; "score"; "scores"].
  Definition del_items (cur : Z) (lats : list Z) (i : nat) : list (Z * Z) :=
    [(nth i lats 0 mod 4, union_len (lv (nth i lats 0)) (lv cur))].

  Lemma del_step fuel en cur lats sc i :
    vctx en cur lats sc -> lookup "delete_branch" en = Ret (VList [varr (lv cur)]) -> (i < length lats)%nat ->
    lres (seq (assign ce (TVar "index") (VInt (Z.of_nat i)) en) (exec ce fuel del_body))
         (add_all sc cur (del_items cur lats i)) (post WD en).
  Proof.
    intros V Hdb Hi. ev.
    set (en1 := update "index" (VInt (Z.of_nat i)) en).
    pose proof V as (Hlm & Hd & Hn & Hc & Hmb & Hsc & HL & HR).
    assert (P1 : post WD en en1 sc).
    { split; [unfold en1; fr|]. split; [unfold en1; lk; exact Hsc|exact HR]. }
    assert (V1 : vctx en1 cur lats sc) by (apply (vctx_frame WD en _ cur lats sc sc); try reflexivity; assumption).
    assert (H1 : lookup "index" en1 = Ret (VInt (Z.of_nat i))) by (unfold en1; lk; reflexivity).
    assert (H2 : lookup "delete_branch" en1 = Ret (VList [varr (lv cur)])) by (unfold en1; lk; exact Hdb).
    clearbody en1. unfold del_body, del_items. cbn [add_all]. rewrite bind_ok.
    eapply lres_weaken; [apply (score_aug fuel "index" (EVar "delete_branch") en1 cur lats sc i (lv cur) V1 Hi H1);
                         [discriminate|right; exact H2]|].
    intros en3 sc3 [-> R3]. apply (post_trans _ _ _ _ _ _ P1). split; [fr|]. split; [lk; reflexivity|exact R3].
  Qed.

  (* ---- mutate_branches ---------------------------------------------------------------------------------------------------- *)
  Definition mb_body : stmt := SAppend "mutate_branches" (leaf_call "latter_index").
  Definition WA := ["latter_index"; "mutate_branches"].

  Lemma mb_loop fuel : forall ls pre en,
    lookup "latter_map" en = Ret (v_lmap m) -> lookup "depth" en = Ret (VInt (Z.of_nat depth)) ->
    lookup "mutate_branches" en = Ret (mbv pre) ->
    exists en', for_loop ce fuel (TVar "latter_index") mb_body (map VInt ls) en = ONormal en'
      /\ frame WA en en' /\ lookup "mutate_branches" en' = Ret (mbv (pre ++ ls)).
  Proof.
    induction ls as [|l t IH]; intros pre en Hlm Hd Hmb.
    - exists en. rewrite app_nil_r. split; [reflexivity|split; [apply frame_refl|exact Hmb]].
    - cbn [map for_loop]. unfold mb_body at 1. ev. rewrite exec_append. lk. rewrite Hmb.
      rewrite (eval_leaf_call _ "latter_index" l) by (lk; auto). unfold mbv at 1. cbn [lift seq].
      set (en1 := update "mutate_branches" _ (update "latter_index" (VInt l) en)).
      assert (F1 : frame WA en en1) by (unfold en1; fr).
      destruct (IH (pre ++ [l]) en1) as (en' & EL & F' & HM').
      + rewrite (F1 "latter_map") by reflexivity. exact Hlm.
      + rewrite (F1 "depth") by reflexivity. exact Hd.
      + unfold en1. lk. unfold mbv. rewrite map_app. reflexivity.
      + exists en'. split; [exact EL|]. split; [exact (frame_trans _ _ _ _ F1 F')|]. rewrite <- app_assoc in HM'. exact HM'.
  Qed.

  (* ---- one vertex ----------------------------------------------------------------------------------------------------------- *)
  Lemma vertex_scores_seq ins del cur lats :
    vertex_scores m depth ins del cur lats =
    flat_map (sub_items lats) (pairs_of (List.seq 0 (length lats)))
    ++ (if ins then flat_map (ins_items lats) (List.seq 0 (length lats)) else [])
    ++ (if del then flat_map (del_items cur lats) (List.seq 0 (length lats)) else []).
  Proof.
    transitivity (vertex_scores m depth ins del cur (map (fun i => nth i lats 0) (List.seq 0 (length lats)))).
    - rewrite map_nth_seq. reflexivity.
    - rewrite vertex_scores_pos. reflexivity.
  Qed.

  Lemma len_list l : builtin1_val BLen (VList l) = Ret (VInt (Z.of_nat (length l))).
  Proof. reflexivity. Qed.

  Lemma eval_range_len en lats : lookup "mutate_branches" en = Ret (mbv lats) ->
    eval ce en (EB1 BRange (EB1 BLen (EVar "mutate_branches")))
    = Ret (VList (map (fun i => VInt (Z.of_nat i)) (List.seq 0 (length lats)))).
  Proof.
    intro H. rewrite !eval_b1. cbn [eval]. rewrite H. unfold mbv. cbn [rbind]. rewrite len_list. cbn [rbind].
    rewrite map_length. apply range_len.
  Qed.

  (* the inner loops write these *)
  Definition WI := ["latter_index"; "one"; "two"; "score"; "index"; "former_index"; "insert_branch"; "delete_branch"; "scores"].
  (* the flags, the counter and the key list: read, never written by the inner loops *)
  Definition rctx (en : env) (ins del verbose : bool) (i : Z) (cs : list val) : Prop :=
    lookup "has_insertion" en = Ret (VBool ins) /\ lookup "has_deletion" en = Ret (VBool del) /\
    lookup "verbose" en = Ret (VBool verbose) /\ lookup "current" en = Ret (VInt i) /\ lookup "currents" en = Ret (VList cs).

  Lemma rctx_frame en en' ins del verbose i cs : rctx en ins del verbose i cs -> frame WI en en' -> rctx en' ins del verbose i cs.
  Proof.
    intros (H1 & H2 & H3 & H4 & H5) HF. unfold rctx.
    rewrite (HF "has_insertion"), (HF "has_deletion"), (HF "verbose"), (HF "current"), (HF "currents") by reflexivity. tauto.
  Qed.

  Definition sub_for : stmt :=
    SFor (TTuple ["one"; "two"]) (EB1 BCombinations2 (EB1 BRange (EB1 BLen (EVar "mutate_branches")))) sub_body.
  Definition ins_if : stmt :=
    SIf (EVar "has_insertion")
        (SFor (TTuple ["index"; "former_index"]) (EB1 BEnumerate (EIndex (EVar "latter_map") (EVar "current_index"))) ins_body)
        SSkip.
  Definition del_if : stmt :=
    SIf (EVar "has_deletion")
        (SSeq (SAssign (TVar "delete_branch") (EList [leaf_call "current_index"]))
        (SSeq (SFor (TVar "index") (EB1 BRange (EB1 BLen (EVar "mutate_branches"))) del_body)
              (SDelVar "delete_branch")))
        SSkip.
  Definition verbose_if : stmt :=
    SIf (EVar "verbose") (SExpr (ETuple [EBin Add (EVar "current") (EInt 1); EB1 BLen (EVar "currents")])) SSkip.

  Lemma sub_for_ok fuel en cur lats sc : vctx en cur lats sc ->
    lres (exec ce fuel sub_for en) (add_all sc cur (flat_map (sub_items lats) (pairs_of (List.seq 0 (length lats))))) (post WI en).
  Proof.
    intro V. pose proof V as (Hlm & Hd & Hn & Hc & Hmb & Hsc & HL & HR).
    unfold sub_for. rewrite exec_for, eval_b1, (eval_range_len en lats Hmb). cbn [rbind builtin1_val items lift].
    rewrite pairs_pos_of, pairs_of_map, map_map.
    apply (lres_weaken _ _ (post WB en)).
    - apply (sub_loop fuel cur lats (pairs_of (List.seq 0 (length lats))) en sc V).
      rewrite Forall_forall. intros [i j] Hp. apply pairs_of_In in Hp. destruct Hp as [H1 H2].
      apply in_seq in H1. apply in_seq in H2. cbn [fst snd]. lia.
    - intros en' sc'. apply (post_incl WB WI). reflexivity.
  Qed.

  Lemma ins_if_ok fuel en cur lats sc (ins : bool) : vctx en cur lats sc -> lookup "has_insertion" en = Ret (VBool ins) ->
    lres (exec ce fuel ins_if en)
         (add_all sc cur (if ins then flat_map (ins_items lats) (List.seq 0 (length lats)) else [])) (post WI en).
  Proof.
    intros V Hins. pose proof V as (Hlm & Hd & Hn & Hc & Hmb & Hsc & HL & HR).
    unfold ins_if. rewrite exec_if. cbn [eval]. rewrite Hins. cbn [lift truthy]. destruct ins.
    - rewrite exec_for, eval_b1. cbn [eval]. rewrite Hlm, Hc. cbn [rbind]. rewrite (index_lmap m cur lats HL). unfold vints.
      cbn [rbind builtin1_val items lift]. rewrite (enumerate_seq VInt 0).
      apply (lres_weaken _ _ (post WC en)).
      + apply (loop_items fuel WC _ _ cur (ins_items lats) (vins lats) (fun en sc => vctx en cur lats sc)); [| | |exact V].
        * intros en0 sc0. apply vctx_scores.
        * intros en0 en' sc0 sc' V0 P0. apply (vctx_frame WC en0 _ cur lats sc0 sc'); try reflexivity; assumption.
        * intros i en0 sc0 Hi V0. apply in_seq in Hi. apply ins_outer_step; [exact V0|lia].
      + intros en' sc'. apply (post_incl WC WI). reflexivity.
    - rewrite exec_skip. cbn [add_all lres]. exists en. split; [reflexivity|]. exact (vctx_post WI en cur lats sc V).
  Qed.

  Lemma del_if_ok fuel en cur lats sc (del : bool) : vctx en cur lats sc -> lookup "has_deletion" en = Ret (VBool del) ->
    lres (exec ce fuel del_if en)
         (add_all sc cur (if del then flat_map (del_items cur lats) (List.seq 0 (length lats)) else [])) (post WI en).
  Proof.
    intros V Hdel. pose proof V as (Hlm & Hd & Hn & Hc & Hmb & Hsc & HL & HR).
    unfold del_if. rewrite exec_if. cbn [eval]. rewrite Hdel. cbn [lift truthy]. destruct del.
    - rewrite exec_seq, exec_assign. cbn [eval]. rewrite (eval_leaf_call en "current_index" cur Hc Hd Hlm).
      cbn [rbind lift assign seq].
      set (en1 := update "delete_branch" (VList [varr (lv cur)]) en).
      assert (P1 : post WI en en1 sc).
      { split; [unfold en1; fr|]. split; [unfold en1; lk; exact Hsc|exact HR]. }
      assert (V1 : vctx en1 cur lats sc) by (apply (vctx_frame WI en _ cur lats sc sc); try reflexivity; assumption).
      assert (H1 : lookup "delete_branch" en1 = Ret (VList [varr (lv cur)])) by (unfold en1; lk; reflexivity).
      clearbody en1. pose proof V1 as (Hlm1 & Hd1 & Hn1 & Hc1 & Hmb1 & Hsc1 & _ & _).
      rewrite exec_seq, exec_for, (eval_range_len en1 lats Hmb1). cbn [lift items].
      rewrite <- (bind_ok (add_all sc cur _)).
      apply (lres_seq _ _ (post WD en1)).
      + apply (loop_items fuel WD _ _ cur (del_items cur lats) (fun i => VInt (Z.of_nat i))
                 (fun en sc => vctx en cur lats sc /\ lookup "delete_branch" en = Ret (VList [varr (lv cur)])));
          [| | |split; assumption].
        * intros en0 sc0 [V0 _]. exact (vctx_scores _ _ _ _ V0).
        * intros en0 en' sc0 sc' [V0 D0] P0. split.
          -- apply (vctx_frame WD en0 _ cur lats sc0 sc'); try reflexivity; assumption.
          -- destruct P0 as (F0 & _ & _). rewrite (F0 "delete_branch") by reflexivity. exact D0.
        * intros i en0 sc0 Hi [V0 D0]. apply in_seq in Hi. apply del_step; [exact V0|exact D0|lia].
      + intros en2 sc2 P2. rewrite exec_delvar. pose proof P2 as (F2 & S2 & R2).
        rewrite (F2 "delete_branch") by reflexivity. rewrite H1. cbn [lift lres].
        eexists. split; [reflexivity|]. apply (post_trans _ _ _ _ _ _ P1).
        split; [|split; [|exact R2]].
        * apply frame_del; [reflexivity|]. apply (frame_incl WD WI); [reflexivity|exact F2].
        * rewrite lookup_filter_other by discriminate. exact S2.
    - rewrite exec_skip. cbn [add_all lres]. exists en. split; [reflexivity|]. exact (vctx_post WI en cur lats sc V).
  Qed.

  Lemma verbose_if_ok fuel en (verbose : bool) i cs :
    lookup "verbose" en = Ret (VBool verbose) -> lookup "current" en = Ret (VInt i) -> lookup "currents" en = Ret (VList cs) ->
    exec ce fuel verbose_if en = ONormal en.
  Proof.
    intros Hv Hi Hcs. unfold verbose_if. rewrite exec_if. cbn [eval]. rewrite Hv. cbn [lift truthy].
    destruct verbose; [|apply exec_skip].
    rewrite exec_expr. cbn [eval]. rewrite Hi, Hcs. reflexivity.
  Qed.

  Definition rest_body : stmt := SSeq sub_for (SSeq ins_if (SSeq del_if verbose_if)).

  Lemma vertex_rest fuel en cur lats sc ins del verbose i cs :
    vctx en cur lats sc -> rctx en ins del verbose i cs ->
    lres (exec ce fuel rest_body en) (add_all sc cur (vertex_scores m depth ins del cur lats)) (post WI en).
  Proof.
    intros V R. rewrite vertex_scores_seq, add_all_app. unfold rest_body. rewrite exec_seq.
    apply (lres_seq _ _ (post WI en)); [apply sub_for_ok; exact V|].
    intros en1 sc1 P1.
    assert (V1 : vctx en1 cur lats sc1) by (apply (vctx_frame WI en _ cur lats sc sc1); try reflexivity; assumption).
    assert (R1 : rctx en1 ins del verbose i cs) by (apply (rctx_frame en); [exact R|apply P1]).
    apply (lres_weaken _ _ (post WI en1)); [|intros en' sc'; apply (post_trans _ _ _ _ _ _ P1)].
    rewrite add_all_app, exec_seq.
    apply (lres_seq _ _ (post WI en1)); [apply ins_if_ok; [exact V1|apply R1]|].
    intros en2 sc2 P2.
    assert (V2 : vctx en2 cur lats sc2) by (apply (vctx_frame WI en1 _ cur lats sc1 sc2); try reflexivity; assumption).
    assert (R2 : rctx en2 ins del verbose i cs) by (apply (rctx_frame en1); [exact R1|apply P2]).
    apply (lres_weaken _ _ (post WI en2)); [|intros en' sc'; apply (post_trans _ _ _ _ _ _ P2)].
    rewrite exec_seq. rewrite <- (bind_ok (add_all sc2 cur _)).
    apply (lres_seq _ _ (post WI en2)); [apply del_if_ok; [exact V2|apply R2]|].
    intros en3 sc3 P3.
    assert (R3 : rctx en3 ins del verbose i cs) by (apply (rctx_frame en2); [exact R2|apply P3]).
    destruct R3 as (_ & _ & Hv & Hi & Hcs).
    rewrite (verbose_if_ok fuel en3 verbose i cs Hv Hi Hcs). cbn [lres].
    exists en3. split; [reflexivity|exact P3].
  Qed.

  Definition vertex_body : stmt :=
    SSeq (SAssign (TVar "mutate_branches") (EList []))
    (SSeq (SFor (TVar "latter_index") (EIndex (EVar "latter_map") (EVar "current_index")) mb_body) rest_body).

  (* everything one iteration of the outer loop writes *)
  Definition WV := ["current"; "current_index"; "mutate_branches"; "latter_index"; "one"; "two"; "score"; "index"; "former_index";
                    "insert_branch"; "delete_branch"; "scores"].
  Definition octx (en : env) (ins del verbose : bool) (cs : list val) (sc : scores_t) : Prop :=
    lookup "latter_map" en = Ret (v_lmap m) /\ lookup "depth" en = Ret (VInt (Z.of_nat depth)) /\
    lookup "nucleotides" en = Ret nuc /\ lookup "has_insertion" en = Ret (VBool ins) /\
    lookup "has_deletion" en = Ret (VBool del) /\ lookup "verbose" en = Ret (VBool verbose) /\
    lookup "currents" en = Ret (VList cs) /\ lookup "scores" en = Ret (varr2 sc) /\ rows4s sc.

  Lemma octx_frame en en' ins del verbose cs sc sc' :
    octx en ins del verbose cs sc -> post WV en en' sc' -> octx en' ins del verbose cs sc'.
  Proof.
    intros (H1 & H2 & H3 & H4 & H5 & H6 & H7 & H8 & H9) (HF & HS & HR). unfold octx.
    rewrite (HF "latter_map"), (HF "depth"), (HF "nucleotides"), (HF "has_insertion"), (HF "has_deletion"),
      (HF "verbose"), (HF "currents") by reflexivity. tauto.
  Qed.

  Lemma vertex_step fuel en ins del verbose cs sc i cur lats :
    octx en ins del verbose cs sc -> Graph.lookup m cur = Some lats ->
    lres (seq (assign ce (TTuple ["current"; "current_index"]) (VTuple [VInt i; VInt cur]) en) (exec ce fuel vertex_body))
         (add_all sc cur (vertex_scores m depth ins del cur lats)) (post WV en).
  Proof.
    intros (Hlm & Hd & Hn & Hi & Hde & Hv & Hcs & Hsc & HR) HL. ev.
    unfold vertex_body. rewrite exec_seq, exec_assign. cbn [eval rbind lift assign seq].
    rewrite exec_seq, exec_for. cbn [eval]. lk. rewrite Hlm. cbn [rbind]. rewrite (index_lmap m cur lats HL).
    unfold vints. cbn [lift items].
    set (en1 := update "mutate_branches" (VList []) (update "current_index" (VInt cur) (update "current" (VInt i) en))).
    assert (F1 : frame WV en en1) by (unfold en1; fr).
    destruct (mb_loop fuel lats [] en1) as (en2 & EL & F2 & HM2).
    - rewrite (F1 "latter_map") by reflexivity. exact Hlm.
    - rewrite (F1 "depth") by reflexivity. exact Hd.
    - unfold en1. lk. reflexivity.
    - rewrite EL. cbn [seq app] in *.
      assert (F2' : frame WV en en2).
      { apply (frame_trans _ _ _ _ F1). apply (frame_incl WA WV); [reflexivity|exact F2]. }
      assert (S2 : lookup "scores" en2 = Ret (varr2 sc)).
      { rewrite (F2 "scores") by reflexivity. unfold en1. lk. exact Hsc. }
      assert (V2 : vctx en2 cur lats sc).
      { unfold vctx. rewrite (F2' "latter_map"), (F2' "depth"), (F2' "nucleotides") by reflexivity.
        rewrite (F2 "current_index") by reflexivity. unfold en1. lk. tauto. }
      assert (R2 : rctx en2 ins del verbose i cs).
      { unfold rctx. rewrite (F2' "has_insertion"), (F2' "has_deletion"), (F2' "verbose"), (F2' "currents") by reflexivity.
        rewrite (F2 "current") by reflexivity. unfold en1. lk. tauto. }
      clearbody en1.
      apply (lres_weaken _ _ (post WI en2)); [exact (vertex_rest fuel en2 cur lats sc ins del verbose i cs V2 R2)|].
      intros en3 sc3 (F3 & S3 & R3). split; [|split; assumption].
      apply (frame_trans _ _ _ _ F2'). apply (frame_incl WI WV); [reflexivity|exact F3].
  Qed.

  Lemma outer_loop fuel en ins del verbose cs sc :
    NoDup (map fst m) -> octx en ins del verbose cs sc ->
    lres (for_loop ce fuel (TTuple ["current"; "current_index"]) vertex_body
            (enumerate_from 0 (map (fun kv : Z * list Z => VInt (fst kv)) m)) en)
         (score_keys m m depth ins del sc) (post WV en).
  Proof.
    intros HN O. rewrite (enumerate_seq (fun kv : Z * list Z => VInt (fst kv)) (0, []) m 0), score_keys_fold.
    set (G := fun (kv : Z * list Z) s => add_all s (fst kv) (vertex_scores m depth ins del (fst kv) (snd kv))).
    assert (E : fold_res G m sc = fold_res (fun i => G (nth i m (0, []))) (List.seq 0 (length m)) sc).
    { rewrite <- (fold_res_map G (fun i => nth i m (0, []))), map_nth_seq. reflexivity. }
    rewrite E.
    apply (loop_fold fuel WV _ _ (fun i => G (nth i m (0, []))) _ (fun en sc => octx en ins del verbose cs sc)); [| | |exact O].
    - intros en0 sc0 (H1 & H2 & H3 & H4 & H5 & H6 & H7 & H8 & H9). split; assumption.
    - intros en0 en' sc0 sc'. apply octx_frame.
    - intros i en0 sc0 Hi O0. apply in_seq in Hi. unfold G. destruct (nth i m (0, [])) as [cur lats] eqn:EN. cbn [fst snd].
      apply (vertex_step fuel en0 ins del verbose cs sc0 _ cur lats O0).
      apply (lookup_nodup m HN). rewrite <- EN. apply nth_In. lia.
  Qed.

  Lemma body_eq : body calculate_intersection_score_def =
    SSeq (SAssign (TVar "nucleotides") (EStr [65; 67; 71; 84]))
    (SSeq (SAssign (TTuple ["currents"; "depth"; "monitor"])
             (ETuple [EB1 BList (EB1 BKeys (EVar "latter_map")); EBin Sub (EVar "observed_length") (EInt 1); EOpaque]))
    (SSeq (SAssign (TVar "scores") (EB2 BNpZeros2 (EBin Pow (EB1 BLen (EVar "nucleotides")) (EVar "observed_length"))
                                                  (EB1 BLen (EVar "nucleotides"))))
    (SSeq (SFor (TTuple ["current"; "current_index"]) (EB1 BEnumerate (EVar "currents")) vertex_body)
          (SReturn (EVar "scores"))))).
  Proof. reflexivity. Qed.

  Lemma pow_val k : binop_vals Pow (VInt 4) (VInt (Z.of_nat k)) = Ret (VInt (pow4 k)).
  Proof. cbn [binop_vals binop_scalar]. replace (Z.of_nat k <? 0) with false by lia. reflexivity. Qed.

  Lemma score_gen_sec fuel k ins del verbose : (1 <= k)%nat -> depth = (k - 1)%nat -> NoDup (map fst m) ->
    run_fun ce fuel calculate_intersection_score_def [v_lmap m; VInt (Z.of_nat k); VBool ins; VBool del; VBool verbose]
    = res_of_scores (Score.calculate_intersection_score m k ins del).
  Proof.
    intros Hk Hdep HN. unfold run_fun. rewrite body_eq. cbn [params bind_params calculate_intersection_score_def].
    rewrite exec_seq, exec_assign. evc. rewrite exec_seq, exec_assign. evc. unfold v_lmap at 1. cbn [builtin1_val rbind items].
    change (binop_vals Sub (VInt (Z.of_nat k)) (VInt 1)) with (Ret (VInt (Z.of_nat k - 1))).
    replace (Z.of_nat k - 1) with (Z.of_nat depth) by lia. evc.
    rewrite exec_seq, exec_assign. evc.
    change (builtin1_val BLen (VStr [65; 67; 71; 84])) with (Ret (VInt 4)). evc.
    rewrite pow_val. evc. rewrite zeros2. evc.
    rewrite exec_seq, exec_for. evc. cbn [builtin1_val items rbind lift]. rewrite map_map. cbn [fst].
    match goal with |- context [for_loop ce fuel _ _ _ ?E] => set (en0 := E) end.
    set (sc0 := repeat [0; 0; 0; 0] (Z.to_nat (pow4 k))).
    assert (O : octx en0 ins del verbose (map (fun x : Z * list Z => VInt (fst x)) m) sc0).
    { unfold octx, en0. repeat (split; [reflexivity|]).
      unfold rows4s, sc0. rewrite Forall_forall. intros r Hr. apply repeat_spec in Hr. subst r. reflexivity. }
    pose proof (outer_loop fuel en0 ins del verbose _ sc0 HN O) as HL.
    unfold calculate_intersection_score. rewrite <- Hdep. fold sc0.
    destruct (score_keys m m depth ins del sc0) as [sc'|e|] eqn:ES; cbn [lres res_of_scores] in *.
    - destruct HL as (en' & EL & (F & S & R)). rewrite EL. cbn [seq]. rewrite exec_return. cbn [eval]. rewrite S. reflexivity.
    - rewrite HL. reflexivity.
    - destruct (score_keys_fuel _ _ _ _ _ _ ES).
  Qed.
End Score.

(* ---- the target statement ----------------------------------------------------------------------------------------------- *)
Theorem calculate_intersection_score_gen : forall ce fuel m k ins del verbose,
  (forall v d, 0 <= d -> ce "obtain_leaf_vertices" [VInt v; VInt d; VNone; v_lmap m] = Ret (varr (leaves_map (Z.to_nat d) m [v]))) ->
  (1 <= k)%nat -> NoDup (map fst m) ->
  run_fun ce fuel calculate_intersection_score_def [v_lmap m; VInt (Z.of_nat k); VBool ins; VBool del; VBool verbose]
  = res_of_scores (Score.calculate_intersection_score m k ins del).
Proof.
  intros ce fuel m k ins del verbose Hce Hk HN.
  apply (score_gen_sec ce m (k - 1)%nat); [|exact Hk|reflexivity|exact HN].
  intro v. rewrite (Hce v (Z.of_nat (k - 1))) by lia. rewrite Nat2Z.id. reflexivity.
Qed.

Print Assumptions calculate_intersection_score_gen.
