(* EncodeNormalGenProofs.v -- the regenerated encode (dsw/spiderweb.py), arbitrary-precision mode, computes Coder.encode.
   Compiled on every run of the checks against the freshly generated CoderGen.v / OperationGen.v (harness/regen.py, unit "coder"). *)
From Coq Require Import Lia ZifyBool.
From DSW Require Import MiniPy Bignum Convert Coder Spec MiniPyLemmas BignumProofs ConvertProofs.
From DSWGen Require Import OperationGen CoderGen OperationGenProofs CoderCallees.   (* CoderCallees last: its callees_ok (not the one of OperationGenProofs) is the one the statements mean *)
Open Scope Z_scope.
Open Scope string_scope.
Ltac Zify.zify_post_hook ::= Z.to_euclidean_division_equations.
Local Open Scope Z_scope.

From Coq Require Import Sorted.
From DSW Require Import ShuffleProofs WalkProofs CoderProofs.

(* Proved here (is_faster = False, need_path = False; mf is the fuel of the MODEL's recursion, one unit per nucleotide):
     encode_normal_gen_ok, encode_normal_gen_raise   (both are corollaries of encode_normal_gen_both).
   Decomposition: (a) en_cmp_ge0 / en_where: where(accessor[v] >= 0)[0] = varr (used_indices row);
   (b) en_fancy / en_argsort / en_exec_shuf: the shuffled digit = Coder.shuffle_digit (table_shape gives NoDup keys);
   (c) en_body_step: one iteration of the loop body = enc_step (one step of Coder.encode_normal, en_encode_normal_step);
   (d) en_loop: the while loop = Coder.encode_normal, by induction on the model's fuel, invariant enc_inv stated through lookup;
   (e) en_run_unfold (head: bit_to_number callee, total_state) and en_exec_final (tail: set_vt callee, result shape). *)

(* ---- tactics ------------------------------------------------------------------------------------------------------ *)
Ltac lk := repeat (rewrite lookup_update_same || (rewrite lookup_update_other by discriminate)).
Ltac step := cbn [exec eval lift seq rbind assign items bind_tuple builtin1_val builtin2_val binop_vals binop_scalar
                  cmp_vals cmp_scalar is_arr orb truthy mixes_bool type_is].

(* ---- list access: py_get against the index of MiniPy ------------------------------------------------------------- *)
Lemma en_nthZ_map {A B} (f : A -> B) : forall l n, nthZ (map f l) n = option_map f (nthZ l n).
Proof.
  induction l as [|x t IH]; intros n; [destruct n; reflexivity|].
  destruct n as [|n]; cbn [map nthZ option_map]; [reflexivity|apply IH].
Qed.

Lemma en_py_get_map {A B} (f : A -> B) l i :
  py_get (map f l) i = match py_get l i with Ok x => Ok (f x) | Raise e => Raise e | OutOfFuel => OutOfFuel end.
Proof.
  unfold py_get. rewrite map_length. cbv zeta.
  destruct ((_ <? 0) || _); [reflexivity|].
  rewrite en_nthZ_map. destruct (nthZ l _); reflexivity.
Qed.

Lemma en_nthZ_in {A} : forall (l : list A) n x, nthZ l n = Some x -> In x l.
Proof.
  induction l as [|y t IH]; intros n x H; [destruct n; discriminate|].
  destruct n as [|n]; cbn [nthZ] in H; [injection H as <-; left; reflexivity|right; eapply IH; exact H].
Qed.

Lemma en_py_get_cases {A} (l : list A) i :
  (exists x, py_get l i = Ok x /\ In x l) \/ py_get l i = Raise IndexError.
Proof.
  unfold py_get. cbv zeta. destruct ((_ <? 0) || _); [right; reflexivity|].
  destruct (nthZ l _) as [x|] eqn:E; [left; exists x; split; [reflexivity|eapply en_nthZ_in; exact E]|right; reflexivity].
Qed.

Lemma en_index_arr l i :
  index_val (varr l) (VInt i) = match py_get l i with Ok x => Ret (VInt x) | _ => Exn IndexError end.
Proof. unfold varr, index_val. rewrite en_py_get_map. destruct (py_get l i); reflexivity. Qed.

Lemma en_index_arr2 a i :
  index_val (varr2 a) (VInt i) = match py_get a i with Ok r => Ret (varr r) | _ => Exn IndexError end.
Proof. unfold varr2, index_val. rewrite en_py_get_map. destruct (py_get a i); reflexivity. Qed.

Lemma en_len_arr l : builtin1_val BLen (varr l) = Ret (VInt (Z.of_nat (length l))).
Proof. unfold varr, builtin1_val. rewrite map_length. reflexivity. Qed.

Lemma en_len_dstr l : builtin1_val BLen (dstr l) = Ret (VInt (Z.of_nat (length l))).
Proof. unfold dstr, builtin1_val. rewrite map_length. reflexivity. Qed.

Lemma en_index_nuc r : 0 <= r < 4 -> index_val (VStr [65; 67; 71; 84]) (VInt r) = Ret (VStr [nuc_char r]).
Proof.
  intro H. assert (C : r = 0 \/ r = 1 \/ r = 2 \/ r = 3) by lia.
  destruct C as [->|[->|[->| ->]]]; reflexivity.
Qed.

Lemma en_cmp_ne_zero d : cmp_vals CNe (dstr d) (VStr [48]) = Ret (VBool (negb (is_zero_str d))).
Proof.
  unfold dstr, cmp_vals, cmp_scalar, mixes_bool, is_arr, val_eqb; cbn [orb]. do 3 f_equal.
  destruct d as [|x [|y t]]; cbn [map listZ_eqb is_zero_str]; [reflexivity| |].
  - unfold dchr. rewrite andb_true_r. destruct (48 + x =? 48) eqn:E; destruct x; try reflexivity; lia.
  - rewrite andb_false_r. destruct x; reflexivity.
Qed.

(* ---- (a) where(row >= 0)[0] ------------------------------------------------------------------------------------- *)
Lemma en_cmp_ge0 row : cmp_vals CGe (varr row) (VInt 0) = Ret (VArr (map (fun x => VBool (0 <=? x)) row)).
Proof.
  unfold varr, cmp_vals.
  assert (E : map_res (fun x => match x with VInt _ => cmp_scalar CGe x (VInt 0) | _ => Stuck end) (map VInt row)
              = Ret (map (fun x => VBool (0 <=? x)) row)).
  { induction row as [|a t IH]; cbn [map map_res]; [reflexivity|]. rewrite IH. reflexivity. }
  rewrite E. reflexivity.
Qed.

Lemma en_used_from_sign : forall row k,
  used_from (map (fun b : bool => if b then 0 else -1) (map (fun x => 0 <=? x) row)) k = used_from row k.
Proof.
  induction row as [|a t IH]; intro k; cbn [map used_from]; [reflexivity|].
  rewrite IH. destruct (0 <=? a); reflexivity.
Qed.

Lemma en_where row :
  builtin1_val BNpWhere (VArr (map (fun x => VBool (0 <=? x)) row)) = Ret (VTuple [varr (used_indices row)]).
Proof.
  unfold builtin1_val.
  assert (E : map_res (fun x => match x with VBool b => Ret b | _ => Stuck end) (map (fun x => VBool (0 <=? x)) row)
              = Ret (map (fun x => 0 <=? x) row)).
  { induction row as [|a t IH]; cbn [map map_res]; [reflexivity|]. rewrite IH. reflexivity. }
  rewrite E. cbn [rbind]. unfold used_indices. rewrite en_used_from_sign. reflexivity.
Qed.

Lemma en_index_tuple0 x : index_val (VTuple [x]) (VInt 0) = Ret x.
Proof. reflexivity. Qed.

(* ---- (b) shuffles[vertex_index, used_indices], argsort ---------------------------------------------------------- *)
Lemma en_unwrap_ints l : map_res (fun x => match x with VInt z => Ret z | _ => Stuck end) (map VInt l) = Ret l.
Proof. induction l as [|a t IH]; cbn [map map_res]; [reflexivity|]. rewrite IH. reflexivity. Qed.

Lemma en_memZ_notin x l : ~ In x l -> memZ x l = false.
Proof.
  induction l as [|y t IH]; intro H; cbn [memZ]; [reflexivity|].
  rewrite IH by (intro; apply H; right; assumption).
  destruct (x =? y) eqn:E; [exfalso; apply H; left; lia|reflexivity].
Qed.

Lemma en_nodupb l : NoDup l -> nodupb l = true.
Proof.
  induction 1 as [|x t Hx Ht IH]; cbn [nodupb]; [reflexivity|].
  rewrite (en_memZ_notin x t Hx), IH. reflexivity.
Qed.

Lemma en_argsort ks : NoDup ks -> builtin1_val BNpArgsort (varr ks) = Ret (varr (argsort ks)).
Proof.
  intro H. unfold varr, builtin1_val. rewrite en_unwrap_ints. cbn [rbind]. rewrite (en_nodupb ks H). reflexivity.
Qed.

Lemma en_fancy t v srow used : py_get t v = Ok srow ->
  Forall (fun j => 0 <= j < Z.of_nat (length srow)) used ->
  index_val (varr2 t) (VTuple [VInt v; varr used]) = Ret (varr (pick srow used)).
Proof.
  intros Hg Hu. unfold varr2, index_val. unfold varr at 1. rewrite en_py_get_map, Hg. unfold varr at 1.
  assert (E : map_res (fun c => match c with
                                | VInt j => match py_get (map VInt srow) j with Ok v0 => Ret v0 | _ => Exn IndexError end
                                | _ => Stuck end) (map VInt used) = Ret (map VInt (pick srow used))).
  { induction Hu as [|j u Hj Hu IH]; cbn [map map_res pick]; [reflexivity|].
    fold (pick srow u). rewrite IH. rewrite en_py_get_map, (py_get_ok srow j (-1) Hj). reflexivity. }
  rewrite E. reflexivity.
Qed.

Lemma en_sorted_nodup (l : list Z) : StronglySorted Z.lt l -> NoDup l.
Proof. intro H. rewrite <- (map_id l). exact (strict_sorted_nodup (fun u : Z => u) l H). Qed.

(* ---- facts about a row of the accessor ---------------------------------------------------------------------------- *)
Lemma en_row_facts (acc : list (list Z)) row : acc_shape acc -> In row acc ->
  let used := used_indices row in
  NoDup used /\ Forall (fun j => 0 <= j < 4) used /\ (length used <= 4)%nat /\
  forall j, In j used -> exists nxt, py_get row j = Ok nxt /\ 0 <= nxt < Z.of_nat (length acc).
Proof.
  intros HA HI. unfold acc_shape in HA. rewrite Forall_forall in HA. destruct (HA row HI) as [HL HR].
  destruct (used_indices_spec row HL) as [HS HU]. cbv zeta.
  split; [apply en_sorted_nodup; exact HS|].
  split; [apply Forall_forall; intros j Hj; apply HU in Hj; lia|].
  split; [unfold used_indices; rewrite <- HL; apply used_from_len|].
  intros j Hj. apply HU in Hj. destruct Hj as [Hj Hn].
  exists (nth (Z.to_nat j) row (-1)). split; [apply py_get_ok; rewrite HL; lia|].
  rewrite Forall_forall in HR. specialize (HR (nth (Z.to_nat j) row (-1)) ltac:(apply nth_In; lia)). lia.
Qed.

(* one iteration of the model's loop: (new quotient, next vertex, column) *)
Definition enc_step (q : list Z) (acc : accessor) (v : Z) (sh : option (list (list Z))) : result (list Z * Z * Z) :=
  row <- py_get acc v ;;
  let used := used_indices row in
  match used with
  | [] => Raise ValueError
  | [j] => nxt <- py_get row j ;; Ok (q, nxt, j)
  | _ => let '(q', rem) := calculus_division q (Z.of_nat (length used)) in
         rem' <- shuffle_digit sh v used rem ;;
         j <- py_get used rem' ;;
         nxt <- py_get row j ;; Ok (q', nxt, j)
  end.

Lemma en_encode_normal_step f q acc v sh :
  encode_normal (S f) q acc v sh =
  if is_zero_str q then Ok [] else
  x <- enc_step q acc v sh ;;
  let '(q', nxt, j) := x in rest <- encode_normal f q' acc nxt sh ;; Ok (nuc_char j :: rest).
Proof.
  cbn [encode_normal]. destruct (is_zero_str q); [reflexivity|]. unfold enc_step.
  destruct (py_get acc v) as [row| |]; cbn [bind]; try reflexivity.
  destruct (used_indices row) as [|j [|j2 t]]; [reflexivity| |].
  - destruct (py_get row j); reflexivity.
  - destruct (calculus_division q _) as [q' rem].
    destruct (shuffle_digit sh v (j :: j2 :: t) rem) as [rem'| |]; cbn [bind]; try reflexivity.
    destruct (py_get (j :: j2 :: t) rem') as [j'| |]; cbn [bind]; try reflexivity.
    destruct (py_get row j'); reflexivity.
Qed.

(* ---- the loop of the program ---------------------------------------------------------------------------------------- *)
Definition enc_cond : expr := (ECmp CNe (EVar "quotient"%string) (EStr [48])).
Definition enc_s_used : stmt :=
 (SAssign (TVar "used_indices"%string) (EIndex (EB1 BNpWhere (ECmp CGe (EIndex (EVar "accessor"%string) (EVar "vertex_index"%string)) (EInt (0)))) (EInt (0)))).
Definition enc_s_div : stmt :=
 (SAssign (TTuple ["quotient"%string; "remainder"%string]) (ECall "calculus_division"%string [(EVar "quotient"%string); (EB1 BStr (EB1 BLen (EVar "used_indices"%string)))])).
Definition enc_s_int : stmt := (SAssign (TVar "remainder"%string) (EB1 BInt (EVar "remainder"%string))).
Definition enc_s_shuf : stmt :=
 (SIf (ENot (EB1 BIsNone (EVar "shuffles"%string)))
 (SAssign (TVar "remainder"%string) (EIndex (EB1 BNpArgsort (EIndex (EVar "shuffles"%string) (ETuple [(EVar "vertex_index"%string); (EVar "used_indices"%string)]))) (EVar "remainder"%string)))
 SSkip).
Definition enc_s_val : stmt :=
 (SSeq (SAssign (TVar "value"%string) (EIndex (EVar "used_indices"%string) (EVar "remainder"%string)))
 (SIf (EVar "need_path"%string)
 (SAppend "record_path"%string (EList [(EVar "vertex_index"%string); (EInt (1))]))
 SSkip)).
Definition enc_s_many : stmt := (SSeq enc_s_div (SSeq enc_s_int (SSeq enc_s_shuf enc_s_val))).
Definition enc_s_one : stmt :=
 (SSeq (SAssign (TVar "value"%string) (EIndex (EVar "used_indices"%string) (EInt (0))))
 (SIf (EVar "need_path"%string)
 (SAppend "record_path"%string (EList [(EVar "vertex_index"%string); (EInt (0))]))
 SSkip)).
Definition enc_s_branch : stmt :=
 (SIf (ECmp CGt (EB1 BLen (EVar "used_indices"%string)) (EInt (1)))
   enc_s_many
 (SIf (ECmp CEq (EB1 BLen (EVar "used_indices"%string)) (EInt (1)))
   enc_s_one
 (SRaise ValueError))).
Definition enc_s_tail : stmt :=
 (SSeq (SAssign (TTuple ["nucleotide"%string; "vertex_index"%string]) (ETuple [(EIndex (EVar "nucleotides"%string) (EVar "value"%string)); (EIndex (EIndex (EVar "accessor"%string) (EVar "vertex_index"%string)) (EVar "value"%string))]))
 (SSeq (SAug (TVar "dna_sequence"%string) Add (EVar "nucleotide"%string))
 (SIf (EVar "verbose"%string)
 (SIf (ECmp CNe (EVar "quotient"%string) (EStr [48]))
 (SExpr (ETuple [(EBin Sub (EVar "total_state"%string) (EB1 BLen (EVar "quotient"%string))); (EVar "total_state"%string)]))
 (SExpr (ETuple [(EVar "total_state"%string); (EVar "total_state"%string)])))
 SSkip))).
Definition enc_body : stmt := SSeq enc_s_used (SSeq enc_s_branch enc_s_tail).

Section Enc.
  Variable ce : string -> list val -> res val.
  Variable fuel : nat.
  Hypothesis Hce : callees_ok ce fuel.
  Variable acc : list (list Z).
  Variable sh : option (list (list Z)).
  Variable verbose : bool.
  Variables vt ts : Z.
  Hypothesis HA : acc_shape acc.
  Hypothesis HT : table_shape (length acc) sh.

  Lemma en_ce_div : forall ds b, digits_ok ds -> 0 <= b <= 9 ->
     ce "calculus_division" [dstr ds; dstr [b]] =
     Ret (VTuple [dstr (fst (calculus_division ds b)); dstr [snd (calculus_division ds b)]]).
  Proof. exact (proj1 (proj2 Hce)). Qed.

  (* the part of the environment the loop depends on *)
  Definition enc_inv (q : list Z) (v : Z) (strand : list Z) (en : env) : Prop :=
    lookup "quotient" en = Ret (dstr q) /\
    lookup "accessor" en = Ret (varr2 acc) /\
    lookup "vertex_index" en = Ret (VInt v) /\
    lookup "shuffles" en = Ret (v_table sh) /\
    lookup "need_path" en = Ret (VBool false) /\
    lookup "nucleotides" en = Ret (VStr [65; 67; 71; 84]) /\
    lookup "dna_sequence" en = Ret (VStr strand) /\
    lookup "verbose" en = Ret (VBool verbose) /\
    lookup "total_state" en = Ret (VInt ts) /\
    lookup "vt_length" en = Ret (VInt vt).

  Lemma en_exec_used en v row :
    lookup "accessor" en = Ret (varr2 acc) -> lookup "vertex_index" en = Ret (VInt v) -> py_get acc v = Ok row ->
    exec ce fuel enc_s_used en = ONormal (update "used_indices" (varr (used_indices row)) en).
  Proof.
    intros H1 H2 H3. unfold enc_s_used. cbn [exec eval lift rbind]. rewrite H1, H2. cbn [rbind]. rewrite en_index_arr2, H3. cbn [rbind].
    rewrite en_cmp_ge0. cbn [rbind]. rewrite en_where. cbn [rbind]. rewrite en_index_tuple0. reflexivity.
  Qed.

  Lemma en_exec_tail en q v row j nxt strand :
    enc_inv q v strand en -> lookup "value" en = Ret (VInt j) -> 0 <= j < 4 ->
    py_get acc v = Ok row -> py_get row j = Ok nxt ->
    exists en', exec ce fuel enc_s_tail en = ONormal en' /\ enc_inv q nxt (strand ++ [nuc_char j]) en'.
  Proof.
    intros (I1 & I2 & I3 & I4 & I5 & I6 & I7 & I8 & I9 & I10) HV Hj Hrow Hnxt.
    unfold enc_s_tail. step. rewrite I6, HV, I2, I3. step. rewrite (en_index_nuc j Hj). step.
    rewrite en_index_arr2, Hrow. step. rewrite en_index_arr, Hnxt. step. lk. rewrite I7. step. lk. rewrite I8. step.
    exists (update "dna_sequence" (VStr (strand ++ [nuc_char j]))
             (update "vertex_index" (VInt nxt) (update "nucleotide" (VStr [nuc_char j]) en))). split.
    - destruct verbose; [|reflexivity]. rewrite I1, I9. cbn [rbind lift]. rewrite en_cmp_ne_zero. cbn [lift truthy].
      destruct (negb (is_zero_str q)); unfold dstr; cbn [rbind lift binop_vals binop_scalar]; reflexivity.
    - unfold enc_inv. lk. repeat split; assumption.
  Qed.

  (* the single-successor branch *)
  Lemma en_exec_one en q v strand j :
    enc_inv q v strand en -> lookup "used_indices" en = Ret (varr [j]) ->
    exec ce fuel enc_s_one en = ONormal (update "value" (VInt j) en).
  Proof.
    intros (I1 & I2 & I3 & I4 & I5 & I6 & I7 & I8 & I9 & I10) HU.
    unfold enc_s_one. step. rewrite HU. step. rewrite en_index_arr. change (py_get [j] 0) with (Ok j). step. lk.
    rewrite I5. step. reflexivity.
  Qed.

  Ltac st := cbn [exec eval lift seq rbind assign items bind_tuple].

  Lemma en_exec_div en q used rest :
    lookup "quotient" en = Ret (dstr q) -> lookup "used_indices" en = Ret (varr used) ->
    canonical q -> 2 <= Z.of_nat (length used) <= 4 ->
    let qr := calculus_division q (Z.of_nat (length used)) in
    exec ce fuel (SSeq enc_s_div (SSeq enc_s_int rest)) en =
      exec ce fuel rest (update "remainder" (VInt (snd qr)) (update "remainder" (dstr [snd qr]) (update "quotient" (dstr (fst qr)) en)))
    /\ canonical (fst qr) /\ 0 <= snd qr < Z.of_nat (length used).
  Proof.
    intros I1 HU HC Hn. set (n := Z.of_nat (length used)) in *. cbv zeta.
    destruct (div_correct q n HC ltac:(lia)) as (HQ & _ & HR).
    destruct (calculus_division q n) as [q' rem] eqn:ED. cbn [fst snd] in *.
    assert (Hrem : 0 <= rem < n) by lia.
    split; [|split; assumption].
    unfold enc_s_div, enc_s_int. st. rewrite I1, HU. st. rewrite en_len_arr. st. fold n.
    change (builtin1_val BStr (VInt n)) with (to_str (VInt n)). rewrite (to_str_digit n) by lia. st.
    change (VStr [dchr n]) with (dstr [n]).
    rewrite en_ce_div by (try apply canonical_ok; auto; lia). rewrite ED. cbn [fst snd]. st. lk. st.
    change (builtin1_val BInt (dstr [rem])) with (to_int (VStr [dchr rem])). rewrite (to_int_digit rem) by lia. st.
    reflexivity.
  Qed.

  Lemma en_exec_shuf en v used rem :
    lookup "shuffles" en = Ret (v_table sh) -> lookup "vertex_index" en = Ret (VInt v) ->
    lookup "used_indices" en = Ret (varr used) -> lookup "remainder" en = Ret (VInt rem) ->
    0 <= v < Z.of_nat (length acc) -> NoDup used -> Forall (fun j => 0 <= j < 4) used ->
    match shuffle_digit sh v used rem with
    | Ok rem' => exists en', exec ce fuel enc_s_shuf en = ONormal en' /\ lookup "remainder" en' = Ret (VInt rem') /\
                   forall x, x <> "remainder" -> lookup x en' = lookup x en
    | Raise e => exec ce fuel enc_s_shuf en = OExn e
    | OutOfFuel => True
    end.
  Proof.
    intros I4 I3 HU HR Hv UN UF. unfold enc_s_shuf. st. rewrite I4. st.
    destruct sh as [t|]; cbn [shuffle_digit v_table].
    - change (builtin1_val BIsNone (varr2 t)) with (Ret (VBool false)). cbn [rbind truthy lift negb].
      st. rewrite I3, HU, HR. cbn [v_table rbind].
      destruct HT as [HTl HTf]. rewrite Forall_forall in HTf.
      assert (Eg : py_get t v = Ok (nth (Z.to_nat v) t [])) by (apply py_get_ok; lia).
      destruct (HTf (nth (Z.to_nat v) t []) ltac:(apply nth_In; lia)) as [SL SN].
      set (srow := nth (Z.to_nat v) t []) in *. rewrite Eg. cbn [bind].
      rewrite (en_fancy t v srow used Eg) by (rewrite SL; exact UF). cbn [rbind].
      rewrite en_argsort by (apply cp_nodup_map_nth; [exact SN|exact UN|rewrite SL; exact UF]). cbn [rbind].
      rewrite en_index_arr.
      destruct (en_py_get_cases (argsort (pick srow used)) rem) as [(r' & E2 & _)|E2]; rewrite E2; cbn [lift]; [|reflexivity].
      eexists. split; [reflexivity|]. split; [lk; reflexivity|]. intros x Hx. rewrite lookup_update_other by exact Hx. reflexivity.
    - change (builtin1_val BIsNone VNone) with (Ret (VBool true)). cbn [rbind truthy lift negb].
      exists en. split; [reflexivity|]. split; [exact HR|]. intros; reflexivity.
  Qed.

  Lemma en_exec_val en used rem :
    lookup "used_indices" en = Ret (varr used) -> lookup "remainder" en = Ret (VInt rem) ->
    lookup "need_path" en = Ret (VBool false) ->
    exec ce fuel enc_s_val en = match py_get used rem with Ok j => ONormal (update "value" (VInt j) en) | _ => OExn IndexError end.
  Proof.
    intros HU HR I5. unfold enc_s_val. st. rewrite HU, HR. st. rewrite en_index_arr.
    destruct (py_get used rem) as [j| |]; cbn [lift seq]; try reflexivity.
    lk. rewrite I5. reflexivity.
  Qed.

  Lemma en_exec_branch en used :
    lookup "used_indices" en = Ret (varr used) ->
    exec ce fuel enc_s_branch en =
    if 1 <? Z.of_nat (length used) then exec ce fuel enc_s_many en
    else if Z.of_nat (length used) =? 1 then exec ce fuel enc_s_one en else OExn ValueError.
  Proof.
    intro HU. unfold enc_s_branch. rewrite !exec_if. cbn [eval]. rewrite HU. cbn [rbind]. rewrite en_len_arr.
    cbn [rbind cmp_vals cmp_scalar mixes_bool is_arr orb lift truthy val_eqb].
    destruct (1 <? Z.of_nat (length used)); [reflexivity|].
    destruct (Z.of_nat (length used) =? 1); reflexivity.
  Qed.

  (* (c) one iteration of the loop body against one step of the model *)
  Lemma en_body_step en q v strand :
    enc_inv q v strand en -> canonical q -> 0 <= v < Z.of_nat (length acc) ->
    match enc_step q acc v sh with
    | Ok (q', nxt, j) => exists en', exec ce fuel enc_body en = ONormal en' /\ enc_inv q' nxt (strand ++ [nuc_char j]) en' /\
                           canonical q' /\ 0 <= nxt < Z.of_nat (length acc)
    | Raise e => exec ce fuel enc_body en = OExn e
    | OutOfFuel => True
    end.
  Proof.
    intros HI HC Hv. pose proof HI as (I1 & I2 & I3 & I4 & I5 & I6 & I7 & I8 & I9 & I10).
    assert (Eg : py_get acc v = Ok (nth (Z.to_nat v) acc [])) by (apply py_get_ok; lia).
    assert (Hrow : In (nth (Z.to_nat v) acc []) acc) by (apply nth_In; lia).
    set (row := nth (Z.to_nat v) acc []) in *.
    unfold enc_step. rewrite Eg. cbn [bind].
    unfold enc_body. rewrite exec_seq, (en_exec_used en v row I2 I3 Eg). cbn [seq]. rewrite exec_seq.
    set (en1 := update "used_indices" (varr (used_indices row)) en).
    assert (HI1 : enc_inv q v strand en1) by (unfold enc_inv, en1; lk; exact HI).
    assert (HU1 : lookup "used_indices" en1 = Ret (varr (used_indices row))) by (unfold en1; lk; reflexivity).
    rewrite (en_exec_branch en1 _ HU1).
    destruct (en_row_facts acc row HA Hrow) as (UN & UF & UL & UX).
    destruct (used_indices row) as [|j [|j2 t]] eqn:EU.
    - reflexivity.
    - cbn [length]. change (1 <? Z.of_nat 1) with false. change (Z.of_nat 1 =? 1) with true. cbv iota.
      rewrite (en_exec_one en1 q v strand j HI1 HU1). cbn [seq].
      destruct (UX j ltac:(left; reflexivity)) as (nxt & En & Hn). rewrite En. cbn [bind].
      destruct (en_exec_tail (update "value" (VInt j) en1) q v row j nxt strand) as (en' & EX & HI');
        [unfold enc_inv; lk; exact HI1|lk; reflexivity|inversion UF; assumption|exact Eg|exact En|].
      exists en'. split; [exact EX|split; [exact HI'|split; [exact HC|exact Hn]]].
    - set (used := j :: j2 :: t) in *.
      assert (Hlen : 2 <= Z.of_nat (length used) <= 4) by (unfold used in *; cbn [length] in *; lia).
      replace (1 <? Z.of_nat (length used)) with true by lia.
      unfold enc_s_many. destruct HI1 as (J1 & J2 & J3 & J4 & J5 & J6 & J7 & J8 & J9 & J10).
      destruct (en_exec_div en1 q used (SSeq enc_s_shuf enc_s_val) J1 HU1 HC Hlen) as (EX1 & HQ & HR).
      rewrite EX1. clear EX1. destruct (calculus_division q (Z.of_nat (length used))) as [q' rem]. cbn [fst snd] in *.
      set (en2 := update "remainder" (VInt rem) (update "remainder" (dstr [rem]) (update "quotient" (dstr q') en1))).
      rewrite exec_seq.
      assert (HI2 : enc_inv q' v strand en2) by (unfold enc_inv, en2; lk; repeat split; assumption).
      assert (HU2 : lookup "used_indices" en2 = Ret (varr used)) by (unfold en2; lk; exact HU1).
      assert (HR2 : lookup "remainder" en2 = Ret (VInt rem)) by (unfold en2; lk; reflexivity).
      destruct HI2 as (K1 & K2 & K3 & K4 & K5 & K6 & K7 & K8 & K9 & K10).
      pose proof (en_exec_shuf en2 v used rem K4 K3 HU2 HR2 Hv UN UF) as SH.
      destruct (shuffle_digit sh v used rem) as [rem'|e|]; cbn [bind]; [|rewrite SH; reflexivity|exact I].
      destruct SH as (en3 & EX3 & HR3 & HF3). rewrite EX3. cbn [seq].
      rewrite (en_exec_val en3 used rem') by (try exact HR3; rewrite HF3 by discriminate; assumption).
      destruct (en_py_get_cases used rem') as [(j' & Ej & Hj)|Ej]; rewrite Ej; cbn [bind seq]; [|reflexivity].
      destruct (UX j' Hj) as (nxt & En & Hn). rewrite En. cbn [bind].
      rewrite Forall_forall in UF.
      destruct (en_exec_tail (update "value" (VInt j') en3) q' v row j' nxt strand) as (en' & EX & HI');
        [unfold enc_inv; lk; rewrite !HF3 by discriminate; repeat split; assumption|lk; reflexivity
        |apply UF; exact Hj|exact Eg|exact En|].
      exists en'. split; [exact EX|split; [exact HI'|split; [exact HQ|exact Hn]]].
  Qed.

  (* (d) the loop, by induction on the fuel of the model *)
  Lemma en_while_unfold n en q : lookup "quotient" en = Ret (dstr q) ->
    while_loop ce fuel enc_cond enc_body (S n) en =
    if is_zero_str q then ONormal en else seq (exec ce fuel enc_body en) (while_loop ce fuel enc_cond enc_body n).
  Proof.
    intro I1. cbn [while_loop]. unfold enc_cond at 1. cbn [eval]. rewrite I1. cbn [rbind]. rewrite en_cmp_ne_zero.
    cbn [lift truthy]. destruct (is_zero_str q); reflexivity.
  Qed.

  Lemma en_loop : forall mf q v strand n en,
    enc_inv q v strand en -> canonical q -> 0 <= v < Z.of_nat (length acc) -> (mf < n)%nat ->
    match encode_normal mf q acc v sh with
    | Ok rest => exists en', while_loop ce fuel enc_cond enc_body n en = ONormal en' /\
                   exists q' v', enc_inv q' v' (strand ++ rest) en'
    | Raise e => while_loop ce fuel enc_cond enc_body n en = OExn e
    | OutOfFuel => True
    end.
  Proof.
    induction mf as [|mf IH]; intros q v strand n en HI HC Hv Hn; (destruct n as [|n]; [lia|]);
      rewrite (en_while_unfold n en q (proj1 HI)).
    - cbn [encode_normal]. destruct (is_zero_str q); [|exact I].
      exists en. split; [reflexivity|]. exists q, v. rewrite app_nil_r. exact HI.
    - rewrite en_encode_normal_step. destruct (is_zero_str q).
      { exists en. split; [reflexivity|]. exists q, v. rewrite app_nil_r. exact HI. }
      pose proof (en_body_step en q v strand HI HC Hv) as BS.
      destruct (enc_step q acc v sh) as [[[q' nxt] j]|e|]; cbn [bind]; [|rewrite BS; reflexivity|exact I].
      destruct BS as (en1 & EX & HI1 & HC1 & Hv1). rewrite EX. cbn [seq].
      specialize (IH q' nxt (strand ++ [nuc_char j])%list n en1 HI1 HC1 Hv1 ltac:(lia)).
      destruct (encode_normal mf q' acc nxt sh) as [rest|e|]; cbn [bind]; [|exact IH|exact I].
      destruct IH as (en' & EW & q'' & v'' & HI''). exists en'. split; [exact EW|]. exists q'', v''.
      rewrite <- app_assoc in HI''. exact HI''.
  Qed.

  (* (e) the tail: the check sequence and the shape of the result *)
  Definition enc_s_final : stmt :=
   (SSeq (SIf (EVar "need_path"%string)
   (SAssign (TVar "record_path"%string) (EB1 BNpArray (EVar "record_path"%string)))
   SSkip)
   (SIf (ECmp CGt (EVar "vt_length"%string) (EInt (0)))
   (SSeq (SAssign (TVar "vt_check"%string) (ECall "set_vt"%string [(EVar "dna_sequence"%string); (EVar "vt_length"%string)]))
   (SIf (EVar "need_path"%string)
   (SReturn (ETuple [(EVar "dna_sequence"%string); (ECall "set_vt"%string [(EVar "dna_sequence"%string); (EVar "vt_length"%string)]); (EVar "record_path"%string)]))
   (SReturn (ETuple [(EVar "dna_sequence"%string); (EVar "vt_check"%string)]))))
   (SIf (EVar "need_path"%string)
   (SReturn (ETuple [(EVar "dna_sequence"%string); (EVar "record_path"%string)]))
   (SReturn (EVar "dna_sequence"%string))))).

  Lemma en_exec_final en q v s :
    set_vt_callee ce fuel -> enc_inv q v s en -> 0 <= vt -> (2 * Z.to_nat vt < fuel)%nat ->
    exec ce fuel enc_s_final en =
    match (if 0 <? vt then chk <- set_vt s vt ;; Ok (s, Some chk) else Ok (s, None)) with
    | Ok r => OReturn (res_of_encode r) | Raise e => OExn e | OutOfFuel => OFuel
    end.
  Proof.
    intros HS (I1 & I2 & I3 & I4 & I5 & I6 & I7 & I8 & I9 & I10) Hvt Hf.
    unfold enc_s_final. st. rewrite I5. cbn [truthy lift seq]. rewrite I10. st.
    cbn [truthy lift cmp_vals cmp_scalar mixes_bool is_arr orb].
    destruct (0 <? vt) eqn:E.
    - st. rewrite I7. st. rewrite (HS s vt) by lia.
      destruct (set_vt s vt) as [chk|e|]; cbn [res_of_str bind lift seq]; try reflexivity.
      lk. rewrite I5. cbn [truthy lift]. st. lk. rewrite I7. st. reflexivity.
    - st. rewrite I5, I7. reflexivity.
  Qed.
End Enc.

(* ---- the whole function --------------------------------------------------------------------------------------------- *)
Lemma en_exec_assign ce fuel t e en : exec ce fuel (SAssign t e) en = lift (eval ce en e) (fun v => assign ce t v en).
Proof. reflexivity. Qed.

Ltac evc := cbn [eval lift seq rbind assign items bind_tuple truthy lookup update String.eqb Ascii.eqb Bool.eqb negb].

Definition enc_env0 (bits : list Z) (acc : list (list Z)) (v vt : Z) (sh : option (list (list Z))) (verbose : bool) : env :=
  [("binary_message", varr bits); ("accessor", varr2 acc); ("start_index", VInt v);
   ("is_faster", VBool false); ("vt_length", VInt vt); ("shuffles", v_table sh); ("need_path", VBool false);
   ("verbose", VBool verbose); ("monitor", VOpaque); ("record_path", VList []); ("vertex_index", VInt v);
   ("dna_sequence", VStr []); ("nucleotides", VStr [65; 67; 71; 84]); ("quotient", dstr (bit_to_number_str bits));
   ("total_state", VInt (Z.of_nat (length (bit_to_number_str bits))))].

Lemma en_run_unfold ce fuel bits acc v vt sh verbose :
  callees_ok ce fuel -> Forall (fun a => 0 <= a <= 1) bits ->
  run_fun ce fuel encode_def [varr bits; varr2 acc; VInt v; VBool false; VInt vt; v_table sh; VBool false; VBool verbose] =
  match seq (while_loop ce fuel enc_cond enc_body fuel (enc_env0 bits acc v vt sh verbose)) (exec ce fuel enc_s_final) with
  | ONormal _ => Ret VNone | OReturn r => Ret r | OExn e => Exn e | OFuel => Fuel | OStuck => Stuck
  end.
Proof.
  intros Hce HB.
  unfold run_fun. cbn [params body bind_params encode_def].
  rewrite exec_seq, en_exec_assign. evc.
  rewrite exec_seq, exec_if. evc.
  rewrite exec_seq, en_exec_assign. evc.
  rewrite (proj1 Hce bits verbose) by (eapply Forall_impl; [|exact HB]; cbv beta; intros; lia).
  evc. rewrite exec_seq, en_exec_assign. evc. rewrite en_len_dstr. evc.
  rewrite exec_while. reflexivity.
Qed.

Lemma encode_normal_gen_both : forall ce fuel bits acc v vt sh verbose mf,
  callees_ok ce fuel -> set_vt_callee ce fuel ->
  acc_shape acc -> 0 <= v < Z.of_nat (length acc) -> table_shape (length acc) sh ->
  Forall (fun a => 0 <= a <= 1) bits -> 0 <= vt -> (2 * Z.to_nat vt < fuel)%nat -> (mf < fuel)%nat ->
  match Coder.encode bits acc v false vt sh mf with
  | Ok r => run_fun ce fuel encode_def [varr bits; varr2 acc; VInt v; VBool false; VInt vt; v_table sh; VBool false; VBool verbose]
            = Ret (res_of_encode r)
  | Raise e => run_fun ce fuel encode_def [varr bits; varr2 acc; VInt v; VBool false; VInt vt; v_table sh; VBool false; VBool verbose]
            = Exn e
  | OutOfFuel => True
  end.
Proof.
  intros ce fuel bits acc v vt sh verbose mf Hce HS HA Hv HT HB Hvt Hf Hmf.
  rewrite (en_run_unfold ce fuel bits acc v vt sh verbose Hce HB).
  assert (HC : canonical (bit_to_number_str bits)).
  { apply bit_to_number_str_spec. unfold bits_ok, bit. eapply Forall_impl; [|exact HB]. cbv beta. intros; lia. }
  set (ts := Z.of_nat (length (bit_to_number_str bits))).
  assert (HI : enc_inv acc sh verbose vt ts (bit_to_number_str bits) v [] (enc_env0 bits acc v vt sh verbose))
    by (unfold enc_inv, enc_env0; repeat split; reflexivity).
  pose proof (en_loop ce fuel Hce acc sh verbose vt ts HA HT mf (bit_to_number_str bits) v [] fuel _ HI HC Hv Hmf) as LP.
  unfold encode. cbv iota.
  destruct (encode_normal mf (bit_to_number_str bits) acc v sh) as [s|e|]; cbn [bind]; [|rewrite LP; reflexivity|exact I].
  destruct LP as (en' & EW & q' & v' & HI'). rewrite EW. cbn [seq app] in *.
  rewrite (en_exec_final ce fuel acc sh verbose vt ts en' q' v' s HS HI' Hvt Hf).
  destruct (0 <? vt); [|reflexivity].
  destruct (set_vt s vt); reflexivity.
Qed.

Theorem encode_normal_gen_ok : forall ce fuel bits acc v vt sh verbose mf r,
  callees_ok ce fuel -> set_vt_callee ce fuel ->
  acc_shape acc -> 0 <= v < Z.of_nat (length acc) -> table_shape (length acc) sh ->
  Forall (fun a => 0 <= a <= 1) bits -> 0 <= vt -> (2 * Z.to_nat vt < fuel)%nat -> (mf < fuel)%nat ->
  Coder.encode bits acc v false vt sh mf = Ok r ->
  run_fun ce fuel encode_def [varr bits; varr2 acc; VInt v; VBool false; VInt vt; v_table sh; VBool false; VBool verbose]
  = Ret (res_of_encode r).
Proof.
  intros ce fuel bits acc v vt sh verbose mf r Hce HS HA Hv HT HB Hvt Hf Hmf HE.
  pose proof (encode_normal_gen_both ce fuel bits acc v vt sh verbose mf Hce HS HA Hv HT HB Hvt Hf Hmf) as H.
  rewrite HE in H. exact H.
Qed.

Theorem encode_normal_gen_raise : forall ce fuel bits acc v vt sh verbose mf e,
  callees_ok ce fuel -> set_vt_callee ce fuel ->
  acc_shape acc -> 0 <= v < Z.of_nat (length acc) -> table_shape (length acc) sh ->
  Forall (fun a => 0 <= a <= 1) bits -> 0 <= vt -> (2 * Z.to_nat vt < fuel)%nat -> (mf < fuel)%nat ->
  Coder.encode bits acc v false vt sh mf = Raise e ->
  run_fun ce fuel encode_def [varr bits; varr2 acc; VInt v; VBool false; VInt vt; v_table sh; VBool false; VBool verbose]
  = Exn e.
Proof.
  intros ce fuel bits acc v vt sh verbose mf e Hce HS HA Hv HT HB Hvt Hf Hmf HE.
  pose proof (encode_normal_gen_both ce fuel bits acc v vt sh verbose mf Hce HS HA Hv HT HB Hvt Hf Hmf) as H.
  rewrite HE in H. exact H.
Qed.

Print Assumptions encode_normal_gen_ok.
Print Assumptions encode_normal_gen_raise.
