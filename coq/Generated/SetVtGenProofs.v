(* SetVtGenProofs.v -- the regenerated set_vt (dsw/spiderweb.py) computes Coder.set_vt.
   Compiled on every run of the checks against the freshly generated CoderGen.v / OperationGen.v (harness/regen.py, unit "coder"). *)
From Coq Require Import Lia ZifyBool.
From DSW Require Import MiniPy Bignum Convert Coder Spec MiniPyLemmas BignumProofs ConvertProofs.
(* CoderCallees is imported LAST: OperationGenProofs has its own (one-argument) callees_ok, which would shadow CoderCallees.callees_ok *)
From DSWGen Require Import OperationGen CoderGen OperationGenProofs CoderCallees.
Open Scope Z_scope.
Open Scope string_scope.
Ltac Zify.zify_post_hook ::= Z.to_euclidean_division_equations.
Local Open Scope Z_scope.

(* Proved below: set_vt_gen (the statement of the unit, unchanged).
   Notes: `array([nucleotides.index(c) for c in dna_sequence], dtype=int)` is a comprehension with BIndexOf on the str "ACGT"
   (ValueError on the first foreign character = Convert.nuc_values) wrapped by BNpArray; `values[1:] - values[:-1] > 0` is the
   element-wise difference of two slices (zip_res; equal lengths) compared with 0 (cmp_vals on VArr/VInt), `where(..)[0]` the
   positions of the True entries (BNpWhere uses Py.used_indices on 0 / -1 flags), `sum(..)` BNpSum -- together
   Coder.ascent_sum vs 0 (prove a lemma by induction on vs with a generalised start position; mind the empty and one-element
   cases: values[1:] and values[:-1] are then both empty).  `len(nucleotides) ** (vt_length - 1)` is 4 ^ (n - 1) (n >= 1, so the
   exponent is >= 0).  number_to_dna is the callee (sixth conjunct of callees_ok) and needs fuel_int vt_value < fuel, which follows
   from vt_value < 4 ^ (n - 1) and 2 * Z.to_nat n < fuel (Convert.fuel_int n = S (Z.to_nat (Z.log2_up (n + 1)))); OperationGenProofs has
   fuel_int_bound.  For n >= 1 the model's branch `n =? 0` is false.
*)

(* ---- tactics ------------------------------------------------------------------------------------------------------ *)
Ltac lk := repeat (rewrite lookup_update_same || (rewrite lookup_update_other by discriminate)).

(* ---- slices ------------------------------------------------------------------------------------------------------- *)
Lemma clampZ_mid n i : 0 <= i <= n -> clampZ n i = i.
Proof.
  intro H. unfold clampZ. destruct (i <? 0) eqn:E1; [lia|]. rewrite E1.
  destruct (n <? i) eqn:E2; lia.
Qed.

Lemma clampZ_neg n i : i < 0 -> 0 <= i + n -> clampZ n i = i + n.
Proof.
  intros H1 H2. unfold clampZ. destruct (i <? 0) eqn:E1; [|lia].
  destruct (i + n <? 0) eqn:E2; [lia|]. destruct (n <? i + n) eqn:E3; lia.
Qed.

Lemma py_slice_tail {A} (l : list A) : py_slice l 1 (Z.of_nat (length l)) = tl l.
Proof.
  destruct l as [|a t]; [reflexivity|].
  unfold py_slice. cbv zeta. set (n := Z.of_nat (length (a :: t))).
  assert (Hn : n = Z.of_nat (length t) + 1) by (unfold n; cbn [length]; lia).
  rewrite !clampZ_mid by lia.
  destruct (n <=? 1) eqn:E6.
  - destruct t; [reflexivity|cbn [length] in Hn; lia].
  - replace (Z.to_nat 1) with 1%nat by lia. cbn [skipn tl]. apply firstn_all2. lia.
Qed.

Lemma py_slice_init {A} (l : list A) : py_slice l 0 (-1) = removelast l.
Proof.
  destruct l as [|a t]; [reflexivity|].
  unfold py_slice. cbv zeta. set (n := Z.of_nat (length (a :: t))).
  assert (Hn : n = Z.of_nat (length t) + 1) by (unfold n; cbn [length]; lia).
  rewrite (clampZ_mid n 0) by lia. rewrite (clampZ_neg n (-1)) by lia.
  destruct (-1 + n <=? 0) eqn:E6.
  - destruct t; [reflexivity|cbn [length] in Hn; lia].
  - replace (Z.to_nat 0) with 0%nat by lia. cbn [skipn]. rewrite removelast_firstn_len. f_equal. cbn [length]. lia.
Qed.

(* ---- the element-wise stages -------------------------------------------------------------------------------------- *)
Lemma map_res_map {A B C} (g : A -> B) (f : B -> res C) (h : A -> C) (l : list A) :
  (forall a, f (g a) = Ret (h a)) -> map_res f (map g l) = Ret (map h l).
Proof.
  intro H. induction l as [|a t IH]; cbn [map map_res]; [reflexivity|]. rewrite H, IH. reflexivity.
Qed.

(* values[1:] - values[:-1] *)
Fixpoint diffs (vs : list Z) : list Z :=
  match vs with
  | a :: ((b :: _) as t) => (b - a) :: diffs t
  | _ => []
  end.

Lemma zip_diffs_cons (f : val -> val -> res val) :
  (forall x y, f (VInt x) (VInt y) = Ret (VInt (x - y))) ->
  forall t a, zip_res f (map VInt t) (removelast (VInt a :: map VInt t)) = Ret (map VInt (diffs (a :: t))).
Proof.
  intro H. induction t as [|b t IH]; intro a; [reflexivity|].
  change (removelast (VInt a :: map VInt (b :: t))) with (VInt a :: removelast (VInt b :: map VInt t)).
  cbn [map zip_res]. rewrite H, IH. reflexivity.
Qed.

Lemma zip_diffs (f : val -> val -> res val) vs :
  (forall x y, f (VInt x) (VInt y) = Ret (VInt (x - y))) ->
  zip_res f (tl (map VInt vs)) (removelast (map VInt vs)) = Ret (map VInt (diffs vs)).
Proof.
  intro H. destruct vs as [|a t]; [reflexivity|]. cbn [map tl]. apply (zip_diffs_cons f H).
Qed.

Lemma fold_add_acc l : forall c, fold_left Z.add l c = c + fold_left Z.add l 0.
Proof.
  induction l as [|y t IH]; intro c; cbn [fold_left]; [lia|]. rewrite (IH (c + y)), (IH (0 + y)). lia.
Qed.

Lemma sumZ_cons' x l : sumZ (x :: l) = x + sumZ l.
Proof. unfold sumZ. cbn [fold_left]. rewrite fold_add_acc. lia. Qed.

(* sum(where(d > 0)[0]) over the differences = the sum of the ascent positions *)
Lemma where_sum : forall vs i,
  sumZ (used_from (map (fun b : bool => if b then 0 else -1) (map (fun d => 0 <? d) (diffs vs))) i) = ascent_sum vs i.
Proof.
  induction vs as [|a t IH]; intro i; [reflexivity|].
  destruct t as [|b t']; [reflexivity|].
  change (diffs (a :: b :: t')) with ((b - a) :: diffs (b :: t')).
  change (ascent_sum (a :: b :: t') i) with ((if a <? b then i else 0) + ascent_sum (b :: t') (i + 1)).
  cbn [map used_from]. rewrite <- IH.
  destruct (0 <? b - a) eqn:E1; destruct (a <? b) eqn:E2; try lia.
  - change (0 <=? 0) with true. cbv iota. rewrite sumZ_cons'. reflexivity.
  - change (0 <=? -1) with false. cbv iota. lia.
Qed.

(* ---- the comprehension [nucleotides.index(c) for c in dna_sequence] ------------------------------------------------- *)
Lemma index_nuc c :
  match indexZ c [65; 67; 71; 84] with Some i => Ret (VInt (Z.of_nat i)) | None => Exn ValueError end =
  match nuc_index c with Some v => Ret (VInt v) | None => Exn ValueError end.
Proof.
  unfold nuc_index. cbn [indexZ].
  destruct (c =? 65); [reflexivity|]. destruct (c =? 67); [reflexivity|].
  destruct (c =? 71); [reflexivity|]. destruct (c =? 84); reflexivity.
Qed.

Definition res_of_result {A B} (f : A -> B) (r : result A) : res B :=
  match r with Ok a => Ret (f a) | Raise e => Exn e | OutOfFuel => Fuel end.

Lemma comp_nuc ce en s :
  lookup "nucleotides" en = Ret (VStr [65; 67; 71; 84]) ->
  map_res (fun v => eval ce (update "nucleotide" v en) (EB2 BIndexOf (EVar "nucleotides") (EVar "nucleotide"))) (chars s)
  = res_of_result (map VInt) (nuc_values s).
Proof.
  intro H. unfold chars. induction s as [|c t IH]; [reflexivity|].
  cbn [map map_res nuc_values]. rewrite IH.
  assert (E : eval ce (update "nucleotide" (VStr [c]) en) (EB2 BIndexOf (EVar "nucleotides") (EVar "nucleotide")) =
              match nuc_index c with Some v => Ret (VInt v) | None => Exn ValueError end).
  { cbn [eval]. lk. rewrite H. cbn [rbind builtin2_val str_index]. apply index_nuc. }
  rewrite E. destruct (nuc_index c) as [v|]; [|reflexivity].
  cbn [rbind]. destruct (nuc_values t); reflexivity.
Qed.

Lemma get_nuc j : 0 <= j < 4 -> py_get [65; 67; 71; 84] j = Ok (nuc_char j).
Proof.
  intro H. assert (C : j = 0 \/ j = 1 \/ j = 2 \/ j = 3) by lia.
  destruct C as [->|[->|[->| ->]]]; reflexivity.
Qed.

Lemma all_ints vs : forallb (fun x => match x with VInt _ => true | _ => false end) (map VInt vs) = true.
Proof. induction vs as [|a t IH]; [reflexivity|exact IH]. Qed.

(* ---- the function ------------------------------------------------------------------------------------------------- *)
Ltac step := cbn [eval lift seq rbind assign items bind_tuple builtin1_val builtin2_val binop_vals binop_scalar cmp_vals
                  cmp_scalar is_arr orb truthy mixes_bool slice_val opt_int to_int index_val].

Section SetVt.
  Variable ce : string -> list val -> res val.

  Lemma exec_assign fuel t e en : exec ce fuel (SAssign t e) en = lift (eval ce en e) (fun v => assign ce t v en).
  Proof. reflexivity. Qed.
  Lemma exec_return fuel e en : exec ce fuel (SReturn e) en = lift (eval ce en e) OReturn.
  Proof. reflexivity. Qed.
  Lemma eval_EB1 en f a : eval ce en (EB1 f a) = (x <~ eval ce en a ;; builtin1_val f x).
  Proof. reflexivity. Qed.
  Lemma eval_EComp en bd x it :
    eval ce en (EComp bd x it) =
    (src <~ eval ce en it ;; l <~ items src ;; vs <~ map_res (fun v => eval ce (update x v en) bd) l ;; Ret (VList vs)).
  Proof. reflexivity. Qed.
  Lemma eval_EVar en x : eval ce en (EVar x) = lookup x en.
  Proof. reflexivity. Qed.

  (* values = array([nucleotides.index(nucleotide) for nucleotide in dna_sequence], dtype=int) *)
  Lemma eval_values en s :
    lookup "nucleotides" en = Ret (VStr [65; 67; 71; 84]) -> lookup "dna_sequence" en = Ret (VStr s) ->
    eval ce en (EB1 BNpArray (EComp (EB2 BIndexOf (EVar "nucleotides"%string) (EVar "nucleotide"%string)) "nucleotide"%string
                                    (EVar "dna_sequence"%string)))
    = res_of_result varr (nuc_values s).
  Proof.
    intros H1 H2. rewrite eval_EB1, eval_EComp, eval_EVar, H2. cbn [rbind items].
    rewrite (comp_nuc ce en s H1). destruct (nuc_values s) as [vs|e|]; cbn [res_of_result rbind]; try reflexivity.
    cbn [builtin1_val]. rewrite all_ints. reflexivity.
  Qed.

  (* int(sum(where((values[1:] - values[:-1]) > 0)[0])) % (len(nucleotides) ** (vt_length - 1)) *)
  Lemma eval_vt_value en vs n :
    lookup "values" en = Ret (varr vs) -> lookup "nucleotides" en = Ret (VStr [65; 67; 71; 84]) ->
    lookup "vt_length" en = Ret (VInt n) -> 1 <= n ->
    eval ce en (EBin Mod (EB1 BInt (EB1 BNpSum (EIndex (EB1 BNpWhere (ECmp CGt (EBin Sub (ESlice (EVar "values"%string) (Some (EInt (1))) None) (ESlice (EVar "values"%string) None (Some (EInt (-1))))) (EInt (0)))) (EInt (0))))) (EBin Pow (EB1 BLen (EVar "nucleotides"%string)) (EBin Sub (EVar "vt_length"%string) (EInt (1)))))
    = Ret (VInt (ascent_sum vs 0 mod 4 ^ (n - 1))).
  Proof.
    intros H1 H2 H3 Hn. cbn [eval]. rewrite H1, H2, H3. unfold varr. step.
    rewrite py_slice_tail, py_slice_init. rewrite zip_diffs by reflexivity. step.
    rewrite (map_res_map VInt _ (fun d => VBool (0 <? d))) by reflexivity. step.
    rewrite (map_res_map (fun d => VBool (0 <? d)) _ (fun d => 0 <? d)) by reflexivity. step.
    match goal with |- context [py_get [?v] 0] => change (py_get [v] 0) with (Ok v) end. step.
    rewrite (map_res_map VInt _ (fun z => z)) by reflexivity. rewrite map_id. step.
    unfold used_indices. rewrite where_sum.
    destruct (n - 1 <? 0) eqn:E; [lia|]. step.
    change (Z.of_nat (length [65; 67; 71; 84])) with 4.
    assert (Hp : 0 < 4 ^ (n - 1)) by (apply Z.pow_pos_nonneg; lia).
    destruct (4 ^ (n - 1) =? 0) eqn:E0; [lia|]. reflexivity.
  Qed.

  (* int(sum(values)) % len(nucleotides) *)
  Lemma eval_vt_flag en vs :
    lookup "values" en = Ret (varr vs) -> lookup "nucleotides" en = Ret (VStr [65; 67; 71; 84]) ->
    eval ce en (EBin Mod (EB1 BInt (EB1 BNpSum (EVar "values"%string))) (EB1 BLen (EVar "nucleotides"%string)))
    = Ret (VInt (sumZ vs mod 4)).
  Proof.
    intros H1 H2. cbn [eval]. rewrite H1, H2. unfold varr. step.
    rewrite (map_res_map VInt _ (fun z => z)) by reflexivity. rewrite map_id. step.
    change (Z.of_nat (length [65; 67; 71; 84])) with 4. change (4 =? 0) with false. reflexivity.
  Qed.

  (* nucleotides[vt_flag] + number_to_dna(decimal_number=int(vt_value), dna_length=vt_length - 1) *)
  Lemma eval_result en flag v n r :
    lookup "nucleotides" en = Ret (VStr [65; 67; 71; 84]) -> lookup "vt_flag" en = Ret (VInt flag) ->
    lookup "vt_value" en = Ret (VInt v) -> lookup "vt_length" en = Ret (VInt n) ->
    0 <= flag < 4 -> ce "number_to_dna" [VInt v; VInt (n - 1)] = Ret (VStr r) ->
    eval ce en (EBin Add (EIndex (EVar "nucleotides"%string) (EVar "vt_flag"%string)) (ECall "number_to_dna"%string [(EB1 BInt (EVar "vt_value"%string)); (EBin Sub (EVar "vt_length"%string) (EInt (1)))]))
    = Ret (VStr (nuc_char flag :: r)).
  Proof.
    intros H1 H2 H3 H4 Hf Hc. cbn [eval]. rewrite H1, H2, H3, H4. step. rewrite (get_nuc flag Hf). step.
    rewrite Hc. step. reflexivity.
  Qed.
End SetVt.

Theorem set_vt_gen : forall ce fuel s n, callees_ok ce fuel -> 1 <= n -> (2 * Z.to_nat n < fuel)%nat ->
  run_fun ce fuel set_vt_def [VStr s; VInt n] = res_of_str (set_vt s n).
Proof.
  intros ce fuel s n HC Hn Hf. destruct HC as (_ & _ & _ & _ & _ & ce_dna).
  unfold run_fun. cbn [params body bind_params set_vt_def].
  rewrite exec_seq, exec_assign. step. cbn [update].
  rewrite exec_seq, exec_assign. rewrite (eval_values ce _ s) by reflexivity.
  unfold set_vt. destruct (nuc_values s) as [vs|e|]; cbn [res_of_result lift seq bind res_of_str assign update String.eqb Ascii.eqb Bool.eqb];
    try reflexivity.
  rewrite exec_seq, exec_assign. rewrite (eval_vt_value ce _ vs n) by (reflexivity || exact Hn).
  cbn [lift seq assign update String.eqb Ascii.eqb Bool.eqb].
  rewrite exec_seq, exec_assign. rewrite (eval_vt_flag ce _ vs) by reflexivity.
  cbn [lift seq assign update String.eqb Ascii.eqb Bool.eqb].
  destruct (n =? 0) eqn:E0; [lia|].
  assert (Hp : 0 < 4 ^ (n - 1)) by (apply Z.pow_pos_nonneg; lia).
  set (v := ascent_sum vs 0 mod 4 ^ (n - 1)).
  assert (Hv : 0 <= v < 4 ^ (n - 1)) by (unfold v; apply Z.mod_pos_bound; exact Hp).
  destruct (number_to_dna_int_render v (n - 1) ltac:(lia) Hv) as (r & Er & _).
  rewrite Er. cbn [bind res_of_str].
  assert (Hfuel : (fuel_int v < fuel)%nat).
  { assert (Hb : 0 <= v < 2 ^ Z.of_nat (2 * (Z.to_nat n - 1))).
    { replace (Z.of_nat (2 * (Z.to_nat n - 1))) with (2 * (n - 1)) by lia.
      rewrite Z.pow_mul_r by lia. exact Hv. }
    pose proof (fuel_int_bound _ _ Hb). lia. }
  rewrite exec_return.
  rewrite (eval_result ce _ (sumZ vs mod 4) v n r) by
    (reflexivity || (apply Z.mod_pos_bound; lia) || (apply ce_dna; assumption)).
  reflexivity.
Qed.

Print Assumptions set_vt_gen.
