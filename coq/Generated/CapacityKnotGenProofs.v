From DSW Require Import MiniPyC.
