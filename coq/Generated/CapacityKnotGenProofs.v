(* CapacityKnotGenProofs.v -- approximate_capacity REGENERATED from the current source, run as a module with its external functions
   (MiniPyC.call_in_ext: "__pow__" and "__log2__" are answered by ext), and C17's theorems restated for the source text.
   Compiled on every run of the checks against the freshly generated CapacityGen.v (harness/regen.py, unit "capacity"). *)
From Coq Require Import Lia ZifyBool PrimFloat.
From DSW Require Import MiniPyC MiniPyCLemmas Py Kmer Graph Spec GraphSpec CapacitySpec Thresholds.
From DSW Require Capacity.
From DSW.Proofs Require Import CapacityProofs CapacityFloatProofs CapacityTermProofs.
From DSWGen Require Import CapacityGen CapacityRepr CapacityGenProofs.
Open Scope Z_scope.
Open Scope string_scope.
Local Open Scope Z_scope.
Local Open Scope list_scope.
Notation lookup := MiniPyC.lookup.

(* running the regenerated module with the external environment ext *)
Definition py8 (ext : string -> list val -> res val) (fuel : nat) (f : string) (args : list val) : res val :=
  call_in_ext ext capacity_module fuel f args.
(* the arguments of a call: accessor, tolerance_level, repeats, maximum_iteration, process, verbose, and the stream of arrays
   numpy.random.random will return *)
Definition cap_args (acc : list (list Z)) (tolz repeats : Z) (maxit : nat) (process verbose : bool) (stream : list (list float)) :=
  [varr2 acc; VInt tolz; VInt repeats; VInt (Z.of_nat maxit); VBool process; VBool verbose; v_stream stream].
(* the inputs the theorems are about: a NumPy accessor (non-empty, four columns, entries below the number of rows), at least one
   repeat, and a stream that holds enough arrays of the right length when the start is random *)
Definition cap_inputs (acc : list (list Z)) (repeats : Z) (stream : list (list float)) : Prop :=
  acc <> [] /\ Forall (fun row => length row = 4%nat) acc /\ Forall (Forall (fun x => x < Z.of_nat (length acc))) acc
  /\ 1 <= repeats /\ (repeats = 1 \/ (Z.to_nat repeats <= length stream)%nat)
  /\ Forall (fun s => length s = length acc) (firstn (Z.to_nat repeats) stream).

(* STATUS: all target statements proved with Qed, exactly as stated (no change):
     py8_approximate_capacity, C17_returns_source, C17_arcless_source, C17_le_four_source, C17_regular_source.
   approximate_capacity_gen (CapacityGenProofs.v) carries no hypothesis beyond externals_ok / cap_inputs / the fuel bound. *)

(* capacity_module has one entry; its callee environment is call_in_ext ext [] fuel = ext, by computation (and eta) *)
Lemma py8_unfold ext fuel args :
  py8 ext fuel "approximate_capacity" args = run_fun ext fuel approximate_capacity_def args.
Proof. unfold py8, capacity_module. cbn [call_in_ext String.eqb Ascii.eqb Bool.eqb]. reflexivity. Qed.

Theorem py8_approximate_capacity : forall ext fuel acc tolz tol L repeats maxit process verbose stream,
  externals_ok ext tolz tol L -> cap_inputs acc repeats stream -> (maxit + 3 <= fuel)%nat ->
  py8 ext fuel "approximate_capacity" (cap_args acc tolz repeats maxit process verbose stream)
  = match Capacity.approximate_capacity acc tol maxit (starts_of (length acc) repeats stream) with
    | Some r => Ret (capacity_result tol L repeats process r)
    | None => Fuel
    end.
Proof.
  intros ext fuel acc tolz tol L repeats maxit process verbose stream Hext (Hne & Hrows & Hrange & Hrep & Hstream & Hlens) Hfuel.
  rewrite py8_unfold. unfold cap_args.
  exact (approximate_capacity_gen ext fuel acc tolz tol L repeats maxit process verbose stream
           Hext Hne Hrows Hrange Hrep Hstream Hlens Hfuel).
Qed.

(* the source always returns: never stuck, never out of fuel, never an exception -- C17_terminates *)
Theorem C17_returns_source : forall ext fuel acc tolz tol L repeats maxit process verbose stream,
  externals_ok ext tolz tol L -> cap_inputs acc repeats stream -> (maxit + 3 <= fuel)%nat ->
  exists r, Capacity.approximate_capacity acc tol maxit (starts_of (length acc) repeats stream) = Some r
    /\ py8 ext fuel "approximate_capacity" (cap_args acc tolz repeats maxit process verbose stream)
       = Ret (capacity_result tol L repeats process r).
Proof.
  intros ext fuel acc tolz tol L repeats maxit process verbose stream Hext Hin Hfuel.
  destruct (approximate_capacity_terminates acc tol maxit (starts_of (length acc) repeats stream)) as [r Hr].
  exists r. split; [exact Hr|].
  rewrite (py8_approximate_capacity ext fuel acc tolz tol L repeats maxit process verbose stream Hext Hin Hfuel), Hr.
  reflexivity.
Qed.

(* an arc-less graph gives 0.0 -- C17_arcless *)
Theorem C17_arcless_source : forall ext fuel acc tolz tol L repeats maxit verbose stream,
  externals_ok ext tolz tol L -> cap_inputs acc repeats stream -> (maxit + 3 <= fuel)%nat ->
  Capacity.all_minus_one acc = true ->
  py8 ext fuel "approximate_capacity" (cap_args acc tolz repeats maxit false verbose stream) = Ret (VFloat 0%float).
Proof.
  intros ext fuel acc tolz tol L repeats maxit verbose stream Hext Hin Hfuel Hall.
  rewrite (py8_approximate_capacity ext fuel acc tolz tol L repeats maxit false verbose stream Hext Hin Hfuel).
  rewrite (capacity_arcless acc tol maxit _ Hall). reflexivity.
Qed.

Lemma unit_float_one : unit_float 1%float.
Proof. split; reflexivity. Qed.

Lemma ones_unit n : Forall unit_float (Capacity.ones n).
Proof. unfold Capacity.ones. induction n as [|n IH]; cbn [repeat]; constructor; [exact unit_float_one|exact IH]. Qed.

Lemma Forall_firstn' {A} (P : A -> Prop) : forall n l, Forall P l -> Forall P (firstn n l).
Proof.
  induction n as [|n IH]; intros l H; [constructor|]. destruct H as [|x l Hx Hl]; cbn [firstn]; constructor; auto.
Qed.

Lemma starts_of_unit n repeats stream : Forall (Forall unit_float) stream -> Forall (Forall unit_float) (starts_of n repeats stream).
Proof.
  intro H. unfold starts_of. destruct (repeats =? 1).
  - constructor; [apply ones_unit|constructor].
  - apply Forall_firstn'. exact H.
Qed.

Lemma starts_of_length acc repeats stream : cap_inputs acc repeats stream ->
  (1 <= length (starts_of (length acc) repeats stream))%nat.
Proof.
  intros (_ & _ & _ & Hrep & Hstream & _). unfold starts_of. destruct (repeats =? 1) eqn:E; [cbn [length]; lia|].
  destruct Hstream as [H1|Hk]; [lia|]. rewrite firstn_length_le by exact Hk. lia.
Qed.

(* what is reported is the median of lg of eigenvalue estimates that are all <= 4: with log2 for L the capacity is at most 2 --
   C17_le_four; the random start vectors lie in [0, 1] *)
Theorem C17_le_four_source : forall ext fuel acc tolz tol L repeats maxit verbose stream,
  externals_ok ext tolz tol L -> cap_inputs acc repeats stream -> (maxit + 3 <= fuel)%nat ->
  Forall (Forall unit_float) stream -> Capacity.all_minus_one acc = false ->
  exists res, py8 ext fuel "approximate_capacity" (cap_args acc tolz repeats maxit false verbose stream)
              = Ret (VFloat (fmedianf (map (lg tol L) res)))
    /\ res <> [] /\ Forall (fun lam => PrimFloat.leb lam 4 = true) res.
Proof.
  intros ext fuel acc tolz tol L repeats maxit verbose stream Hext Hin Hfuel Hunit Hall.
  set (starts := starts_of (length acc) repeats stream).
  destruct (approximate_capacity_terminates acc tol maxit starts) as [r Hr].
  assert (Hsome : exists res recs, r = Some (res, recs)).
  { unfold Capacity.approximate_capacity in Hr. rewrite Hall in Hr.
    destruct (Capacity.repeats_loop acc tol maxit starts) as [[res recs]|]; [|discriminate].
    injection Hr as <-. exists res, recs. reflexivity. }
  destruct Hsome as (res & recs & ->).
  exists res. split; [|split].
  - rewrite (py8_approximate_capacity ext fuel acc tolz tol L repeats maxit false verbose stream Hext Hin Hfuel).
    fold starts. rewrite Hr. reflexivity.
  - destruct (approximate_capacity_results acc tol maxit starts res recs Hr) as [_ [Hlo _]].
    pose proof (starts_of_length acc repeats stream Hin) as Hlen. fold starts in Hlen.
    intro E. subst res. cbn [length] in Hlo. lia.
  - destruct Hin as (_ & Hrows & _).
    apply (capacity_le_four acc tol maxit starts res recs); [| apply starts_of_unit; exact Hunit | exact Hr].
    eapply Forall_impl; [|exact Hrows]. intros row Hrow. cbv beta in Hrow. lia.
Qed.

Lemma fmedianf_single x : fmedianf [x] = x.
Proof. reflexivity. Qed.

(* single start on a graph in which every live vertex has exactly d live successors: the estimate is exactly d -- C17_regular *)
Theorem C17_regular_source : forall ext fuel acc d tolz tol L maxit verbose stream,
  externals_ok ext tolz tol L -> cap_inputs acc 1 stream -> (maxit + 3 <= fuel)%nat ->
  shaped acc -> 1 <= d <= 4 -> (1 <= maxit)%nat -> (0 <? tol)%float = true ->
  (exists v, in_range acc v /\ live_row acc v = true) ->
  (forall v, in_range acc v -> live_row acc v = true -> live_succ_count acc v = d) ->
  py8 ext fuel "approximate_capacity" (cap_args acc tolz 1 maxit false verbose stream) = Ret (VFloat (lg tol L (fz d))).
Proof.
  intros ext fuel acc d tolz tol L maxit verbose stream Hext Hin Hfuel Hsh Hd Hmax Htol Hlive Hreg.
  rewrite (py8_approximate_capacity ext fuel acc tolz tol L 1 maxit false verbose stream Hext Hin Hfuel).
  change (starts_of (length acc) 1 stream) with [Capacity.ones (length acc)].
  rewrite (capacity_regular acc d tol maxit Hsh Hd Hmax Htol Hlive Hreg).
  unfold capacity_result. cbn [map]. rewrite fmedianf_single. reflexivity.
Qed.

Print Assumptions py8_approximate_capacity.
Print Assumptions C17_returns_source.
Print Assumptions C17_arcless_source.
Print Assumptions C17_le_four_source.
Print Assumptions C17_regular_source.
