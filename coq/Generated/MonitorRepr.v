(* MonitorRepr.v -- what the theorem about the regenerated Monitor.__call__ (MonitorGen.v) assumes of its inputs and of its EXTERNAL
   functions (the clock), in the vocabulary of Proofs/CapacityFloatProofs.v (FIN f: f is a finite binary64; RV f: its real value). *)
From Coq Require Import Reals PrimFloat.
From DSW Require Import MiniPyE MiniPyELemmas.
From DSW.Proofs Require Import CapacityFloatProofs.
Open Scope Z_scope.
Open Scope string_scope.
Local Open Scope Z_scope.

(* ASSUMPTION on the clock: datetime.now() returns SOME value; (datetime.now() - t).total_seconds() is a finite float e with
   |e| <= 2^40 seconds (about 35 000 years), whatever t is *)
Definition clock_ok (ce : string -> list val -> res val) (e : float) : Prop :=
  (exists t, ce "__now__" [] = Ret t) /\ (forall a, ce "__elapsed__" [a] = Ret (VFloat e))
  /\ FIN e /\ (Rabs (RV e) <= 1099511627776)%R.

(* the `extra` argument: None, or a dict from plain strs (printable ASCII without quote and backslash) to ints or plain strs *)
Definition plain (s : list Z) : bool := forallb (fun c => negb ((c =? 39) || (c =? 92)) && (32 <=? c) && (c <? 127)) s.
Definition extra_ok (v : val) : Prop :=
  v = VNone \/ exists d, v = VDict d /\ Forall (fun kv => match kv with
                                                           | (VStr k, VInt _) => plain k = true
                                                           | (VStr k, VStr w) => plain k = true /\ plain w = true
                                                           | _ => False end) d.
