(* KmerGenProofs.v -- the definitions REGENERATED from the current Python source of obtain_latters / obtain_formers
   (KmerGen.v, written by harness/translate.py on every run) are equal to the hand-written model the theorems are about.
   The proofs are deliberately robust: they only use ring normalisation under div / mod / pow, so that a rewrite of the Python
   that keeps the arithmetic meaning still proves, and one that changes it does not. *)
From Coq Require Import ZArith List Lia.
From DSW Require Import Py Kmer.
From DSWGen Require Import KmerGen.
Import ListNotations.
Open Scope Z_scope.

Ltac arith_eq :=
  repeat match goal with
         | |- ?a mod ?b = ?c mod ?d => f_equal
         | |- ?a / ?b = ?c / ?d => f_equal
         | |- ?a ^ ?b = ?c ^ ?d => f_equal
         | |- ?a + ?b = ?c + ?d => first [ring | f_equal]
         | |- ?a * ?b = ?c * ?d => first [ring | f_equal]
         | |- ?a - ?b = ?c - ?d => first [ring | f_equal]
         end; try ring; try lia.

Lemma pow4_pred_Z : forall k : nat, pow4_pred k = 4 ^ (Z.of_nat k - 1).
Proof.
  intros [|k]; [reflexivity|]. unfold pow4_pred, pow4. f_equal. lia.
Qed.

Theorem obtain_latters_regenerated : forall current (k : nat),
  obtain_latters_gen current (Z.of_nat k) = obtain_latters current k.
Proof.
  intros current k. unfold obtain_latters_gen, obtain_latters, pow4. apply map_ext. intros j. arith_eq.
Qed.

Theorem obtain_formers_regenerated : forall current (k : nat),
  obtain_formers_gen current (Z.of_nat k) = obtain_formers current k.
Proof.
  intros current k. unfold obtain_formers_gen, obtain_formers. rewrite pow4_pred_Z. apply map_ext. intros j. arith_eq.
Qed.

Print Assumptions obtain_latters_regenerated.
Print Assumptions obtain_formers_regenerated.
