(* ShuffleGenProofs.v -- create_random_shuffles REGENERATED from dsw/spiderweb.py (ShuffleGen.v, MiniPyD.v) computes what the model
   Shuffle.create_random_shuffles computes, for every stream of row permutations and every seed NumPy accepts; a seed it rejects
   makes the function raise what numpy.random.seed raises.
   Compiled on every run of the checks against the freshly generated ShuffleGen.v (harness/regen.py, unit "shuffle"). *)
From Coq Require Import Lia ZifyBool Sorting.Permutation.
From DSW Require Import MiniPyD MiniPyDLemmas Kmer KmerProofs.
From DSW Require Shuffle.
From DSWGen Require Import ShuffleGen ShuffleRepr.
Open Scope Z_scope.
Open Scope string_scope.
Local Open Scope Z_scope.
Local Open Scope list_scope.
Notation lookup := MiniPyD.lookup.

(* STATUS: both targets proved with Qed exactly as stated (no hypothesis added, nothing left open):

     Theorem create_random_shuffles_gen : forall ce fuel k seed verbose stream,
       seed_ok ce seed -> (Z.to_nat (pow4 k) <= length stream)%nat ->
       Forall (fun p => perm4_ok p = true) (firstn (Z.to_nat (pow4 k)) stream) ->
       run_fun ce fuel create_random_shuffles_def [VInt (Z.of_nat k); seed; VBool verbose; v_perms stream]
       = Ret (varr2 (Shuffle.create_random_shuffles k (stream_shuffle stream))).
     Theorem create_random_shuffles_gen_raise : forall ce fuel k seed verbose stream e,
       ce "__seed__" [seed] = Exn e ->
       run_fun ce fuel create_random_shuffles_def [VInt (Z.of_nat k); seed; VBool verbose; v_perms stream] = Exn e.

   Checked with vm_compute before proving (k = 0, 1, 2; verbose true / false; a stream longer than 4^k; ce "__seed__" = Ret VNone):
   program = model.  The hypotheses are needed: k = 1 with a stream of 3 permutations, k = 0 with the empty stream, or a fourth
   item [0;1;2;2] make the program Stuck.  An item beyond position 4^k (e.g. [7]) is never looked at.
   Shape: shuffle_prefix (the zeros table and the three column stores: every row [0;1;2;3]; store_column_repeat), sh_body_step
   (one SShuffleRow + the verbose tuple; permute_id, store_row_mid), sh_for (induction over range(4^k): the first i rows are
   apply_perm p_i [0;1;2;3], the rest [0;1;2;3], "__rng__" = v_perms (skipn i stream)), model_rows (the model's rows are those).
   The pieces sh_rest / sh_body are cut out of the generated term itself.  No while loop: any fuel.
   Print Assumptions: MiniPyD.val has the constructor VFloat and the interpreter computes with Coq's primitive floats, so Print
   Assumptions of run_fun / val / create_random_shuffles_def THEMSELVES lists the kernel primitives PrimFloat.* / PrimInt63.*
   (declarations of the kernel, no assumed proposition of the standard library, nothing declared by /verif); the two
   theorems list exactly that set and nothing else. *)

Ltac step := cbn [exec eval lift seq rbind assign MiniPyD.lookup update bind_tuple items String.eqb Ascii.eqb Bool.eqb
  binop_vals binop_scalar has_float cmp_top cmp_vals cmp_scalar is_arr orb truthy builtin1_val builtin2_val index_val mixes_bool
  val_eqb andb negb length map app for_loop].
Ltac setK := match goal with |- context [seq _ ?k] => let K := fresh "K" in set (K := k) end.

Lemma pow4_ltb k : (Z.of_nat k <? 0) = false.
Proof. lia. Qed.

(* ---- list facts ---- *)
Lemma nthZ_app_mid {A} (pre : list A) x post : nthZ (pre ++ x :: post) (length pre) = Some x.
Proof. induction pre as [|y pre IH]; cbn [app length nthZ]; [reflexivity|exact IH]. Qed.

Lemma py_get_mid {A} (pre : list A) x post : py_get (pre ++ x :: post) (Z.of_nat (length pre)) = Ok x.
Proof.
  unfold py_get; cbv zeta. rewrite app_length. cbn [length].
  destruct (Z.of_nat (length pre) <? 0) eqn:E; [lia|].
  destruct ((Z.of_nat (length pre) <? 0) || (Z.of_nat (length pre + S (length post)) <=? Z.of_nat (length pre))) eqn:F; [lia|].
  rewrite Nat2Z.id, nthZ_app_mid. reflexivity.
Qed.

Lemma set_nth_mid {A} (pre : list A) x post y : set_nth (pre ++ x :: post) (length pre) y = pre ++ y :: post.
Proof. induction pre as [|z pre IH]; cbn [app length set_nth]; [reflexivity|rewrite IH; reflexivity]. Qed.

Lemma map_res_ints p : map_res (fun x => match x with VInt j => Ret j | _ => Stuck end) (map VInt p) = Ret p.
Proof. induction p as [|x p IH]; cbn [map map_res rbind]; [reflexivity|rewrite IH; reflexivity]. Qed.

Lemma forallb_ints p : forallb (fun x => match x with VInt _ => true | _ => false end) (map VInt p) = true.
Proof. induction p as [|x p IH]; cbn [map forallb andb]; [reflexivity|exact IH]. Qed.

(* ---- the column stores ---- *)
Lemma store_column_repeat l n c z :
  0 <= c < Z.of_nat (length l) -> forallb (fun x => match x with VInt _ => true | _ => false end) l = true ->
  store_column (VArr (repeat (VArr l) n)) (VInt c) (VInt z) = Ret (VArr (repeat (VArr (set_nth l (Z.to_nat c) (VInt z))) n)).
Proof.
  intros Hc Hl. unfold store_column.
  match goal with |- rbind (map_res ?f _) _ = _ => set (F := f) end.
  assert (G : map_res F (repeat (VArr l) n) = Ret (repeat (VArr (set_nth l (Z.to_nat c) (VInt z))) n)).
  { induction n as [|n IH]; cbn [repeat map_res]; [reflexivity|]. rewrite IH.
    assert (E : F (VArr l) = Ret (VArr (set_nth l (Z.to_nat c) (VInt z)))).
    { unfold F. cbv zeta. destruct (c <? 0) eqn:E1; [lia|].
      destruct ((c <? 0) || (Z.of_nat (length l) <=? c)) eqn:E2; [lia|]. rewrite Hl. reflexivity. }
    rewrite E. reflexivity. }
  rewrite G. reflexivity.
Qed.

(* ---- the row shuffle ---- *)
Lemma perm4_range p j : perm4_ok p = true -> In j p -> 0 <= j < 4.
Proof.
  unfold perm4_ok. intros H Hj. apply andb_prop in H. destruct H as [_ H].
  rewrite forallb_forall in H. specialize (H j Hj). lia.
Qed.

Lemma perm4_length p : perm4_ok p = true -> length p = 4%nat.
Proof.
  unfold perm4_ok. intros H. apply andb_prop in H. destruct H as [H _]. apply andb_prop in H. destruct H as [H _].
  apply Nat.eqb_eq in H. exact H.
Qed.

Lemma permute_id p : perm4_ok p = true ->
  permute_row [VInt 0; VInt 1; VInt 2; VInt 3] (map VInt p) = Ret (map VInt (apply_perm p [0; 1; 2; 3])).
Proof.
  intro H. unfold permute_row. rewrite map_res_ints. cbn [rbind length]. change (Z.of_nat 4) with 4.
  change (Nat.eqb (length p) 4 && nodupb p && forallb (fun j => (0 <=? j) && (j <? 4)) p) with (perm4_ok p).
  rewrite H. f_equal. unfold apply_perm. rewrite map_map. apply map_ext_in. intros j Hj.
  pose proof (perm4_range p j H Hj) as R.
  assert (C : j = 0 \/ j = 1 \/ j = 2 \/ j = 3) by lia.
  destruct C as [->|[->|[->| ->]]]; reflexivity.
Qed.

Lemma store_row_mid pre row post vs :
  forallb (fun x => match x with VInt _ => true | _ => false end) row = true ->
  forallb (fun x => match x with VInt _ => true | _ => false end) vs = true ->
  length vs = length row ->
  store_val (VArr (pre ++ VArr row :: post)) (VInt (Z.of_nat (length pre))) (VList vs) = Ret (VArr (pre ++ VArr vs :: post)).
Proof.
  intros Hr Hv Hl. unfold store_val. cbv beta iota zeta.
  destruct (Z.of_nat (length pre) <? 0) eqn:E; [lia|].
  rewrite app_length. cbn [length].
  destruct ((Z.of_nat (length pre) <? 0) || (Z.of_nat (length pre + S (length post)) <=? Z.of_nat (length pre))) eqn:F; [lia|].
  rewrite Nat2Z.id, nthZ_app_mid, Hr, Hv, Hl, Nat.eqb_refl. cbn [andb]. rewrite set_nth_mid. reflexivity.
Qed.

Definition id_row : val := VArr [VInt 0; VInt 1; VInt 2; VInt 3].

(* the program from random.seed(random_seed) on and the loop body: cut out of the generated term *)
Definition sh_rest : stmt :=
  Eval cbv in match body create_random_shuffles_def with
  | SSeq _ (SSeq _ (SSeq _ (SSeq _ (SSeq _ rest)))) => rest | _ => SSkip end.
Definition sh_body : stmt :=
  Eval cbv in match sh_rest with
  | SSeq _ (SSeq _ (SSeq (SFor _ _ bd) _)) => bd | _ => SSkip end.
Definition env1 (k : nat) (seed : val) (verbose : bool) (rng : val) (rows : list val) : env :=
  [("observed_length", VInt (Z.of_nat k)); ("random_seed", seed); ("verbose", VBool verbose); ("__rng__", rng);
   ("nucleotides", VStr [65; 67; 71; 84]); ("shuffles", VArr rows)].
Definition genv (k : nat) (seed : val) (verbose : bool) (rng : val) (rows : list val) (tail : env) : env :=
  ("observed_length", VInt (Z.of_nat k)) :: ("random_seed", seed) :: ("verbose", VBool verbose) :: ("__rng__", rng) ::
  ("nucleotides", VStr [65; 67; 71; 84]) :: ("shuffles", VArr rows) :: ("monitor", VOpaque) :: tail.
Definition good_tail (tail : env) : Prop := tail = [] \/ exists a, tail = [("index", a)].

Lemma col_store n a b c d j z : 0 <= j < 4 ->
  store_column (VArr (repeat (VArr [VInt a; VInt b; VInt c; VInt d]) n)) (VInt j) (VInt z)
  = Ret (VArr (repeat (VArr (set_nth [VInt a; VInt b; VInt c; VInt d] (Z.to_nat j) (VInt z))) n)).
Proof. intro H. apply store_column_repeat; [cbn [length]; lia|reflexivity]. Qed.

Lemma shuffle_prefix ce fuel k seed verbose rng :
  exec ce fuel (body create_random_shuffles_def)
    [("observed_length", VInt (Z.of_nat k)); ("random_seed", seed); ("verbose", VBool verbose); ("__rng__", rng)]
  = exec ce fuel sh_rest (env1 k seed verbose rng (repeat id_row (Z.to_nat (4 ^ Z.of_nat k)))).
Proof.
  cbn [body create_random_shuffles_def].
  rewrite exec_seq; setK; step; subst K.
  rewrite exec_seq; setK; step. rewrite pow4_ltb. step.
  change (Z.of_nat 4) with 4. change (Z.to_nat 4) with 4%nat. cbn [repeat]. subst K.
  rewrite exec_seq; setK; step. rewrite col_store by lia. step. change (Z.to_nat 1) with 1%nat. cbn [set_nth]. subst K.
  rewrite exec_seq; setK; step. rewrite col_store by lia. step. change (Z.to_nat 2) with 2%nat. cbn [set_nth]. subst K.
  rewrite exec_seq; setK; step. rewrite col_store by lia. step. change (Z.to_nat 3) with 3%nat. cbn [set_nth]. subst K.
  reflexivity.
Qed.

Definition id4 : list Z := [0; 1; 2; 3].

Lemma sh_body_step ce fuel k seed verbose p rest pre post tail :
  perm4_ok p = true -> good_tail tail ->
  exists tail', good_tail tail' /\
  seq (assign ce (TVar "index") (VInt (Z.of_nat (length pre))) (genv k seed verbose (v_perms (p :: rest)) (pre ++ id_row :: post) tail))
      (exec ce fuel sh_body)
  = ONormal (genv k seed verbose (v_perms rest) (pre ++ varr (apply_perm p id4) :: post) tail').
Proof.
  intros Hp Ht. exists [("index", VInt (Z.of_nat (length pre)))]. split; [right; eauto|].
  unfold v_perms. cbn [map]. unfold vints at 1.
  destruct Ht as [->|(a & ->)]; unfold genv, sh_body, id_row; step; rewrite py_get_mid; step.
  all: rewrite (permute_id p Hp); step.
  all: rewrite store_row_mid; [|reflexivity|apply forallb_ints|rewrite map_length; unfold apply_perm; rewrite map_length; apply (perm4_length p Hp)].
  all: step; destruct verbose; step; rewrite ?pow4_ltb; step; reflexivity.
Qed.

Lemma sh_for ce fuel k seed verbose :
  forall n pre stream tail, good_tail tail -> (n <= length stream)%nat ->
  Forall (fun p => perm4_ok p = true) (firstn n stream) ->
  exists tail', good_tail tail' /\
  for_loop ce fuel (TVar "index") sh_body (zrange_up n (Z.of_nat (length pre)) 1)
    (genv k seed verbose (v_perms stream) (pre ++ repeat id_row n) tail)
  = ONormal (genv k seed verbose (v_perms (skipn n stream)) (pre ++ map (fun p => varr (apply_perm p id4)) (firstn n stream)) tail').
Proof.
  induction n as [|n IH]; intros pre stream tail Ht Hn Hok.
  - exists tail; split; [exact Ht|]. reflexivity.
  - destruct stream as [|p rest]; [cbn [length] in Hn; lia|].
    cbn [length] in Hn. cbn [firstn] in Hok. inversion Hok as [|? ? Hp Hrest]; subst.
    cbn [zrange_up repeat firstn skipn map]. rewrite for_loop_cons.
    destruct (sh_body_step ce fuel k seed verbose p rest pre (repeat id_row n) tail Hp Ht) as (t1 & G1 & E1).
    rewrite E1. cbn [seq].
    destruct (IH (pre ++ [varr (apply_perm p id4)]) rest t1 G1 ltac:(lia) Hrest) as (t2 & G2 & E2).
    rewrite app_length in E2. cbn [length] in E2. rewrite <- !app_assoc in E2. cbn [app] in E2.
    replace (Z.of_nat (length pre + 1)) with (Z.of_nat (length pre) + 1) in E2 by lia.
    exists t2; split; [exact G2|exact E2].
Qed.

(* ---- the model ---- *)
Lemma model_rows stream : forall n, (n <= length stream)%nat ->
  map (fun i => stream_shuffle stream i id4) (List.seq 0 n) = map (fun p => apply_perm p id4) (firstn n stream).
Proof.
  induction stream as [|p rest IH]; intros n Hn.
  - cbn [length] in Hn. assert (n = 0%nat) by lia. subst n. reflexivity.
  - destruct n as [|n]; [reflexivity|]. cbn [length] in Hn.
    cbn [List.seq firstn map]. rewrite <- seq_shift, map_map. f_equal. apply IH. lia.
Qed.

Theorem create_random_shuffles_gen : forall ce fuel k seed verbose stream,
  seed_ok ce seed -> (Z.to_nat (pow4 k) <= length stream)%nat ->
  Forall (fun p => perm4_ok p = true) (firstn (Z.to_nat (pow4 k)) stream) ->
  run_fun ce fuel create_random_shuffles_def [VInt (Z.of_nat k); seed; VBool verbose; v_perms stream]
  = Ret (varr2 (Shuffle.create_random_shuffles k (stream_shuffle stream))).
Proof.
  intros ce fuel k seed verbose stream [Hs1 Hs2] Hlen Hok. unfold run_fun. cbn [params bind_params create_random_shuffles_def].
  change (body _) with (body create_random_shuffles_def). rewrite shuffle_prefix.
  unfold pow4 in Hlen, Hok.
  unfold sh_rest, env1.
  rewrite exec_seq; setK; step. rewrite Hs1. step. subst K.
  rewrite exec_seq; setK; step. subst K.
  rewrite exec_seq, exec_for; setK; step. rewrite pow4_ltb. step.
  unfold range3. change (1 =? 0) with false. change (0 <? 1) with true. cbv iota.
  replace (Z.to_nat ((4 ^ Z.of_nat k - 0 + 1 - 1) / 1)) with (Z.to_nat (4 ^ Z.of_nat k)) by lia.
  step.
  destruct (sh_for ce fuel k seed verbose (Z.to_nat (4 ^ Z.of_nat k)) [] stream [] (or_introl eq_refl) Hlen Hok) as (t & G & E).
  unfold genv in E at 1. cbn [length app] in E. change (Z.of_nat 0) with 0 in E. unfold sh_body in E.
  rewrite E. cbn [seq]. subst K. unfold genv.
  rewrite exec_seq; setK; step. rewrite Hs2. step. subst K. step.
  unfold varr2, Shuffle.create_random_shuffles, pow4. fold id4. rewrite (model_rows stream _ Hlen), map_map. reflexivity.
Qed.

Theorem create_random_shuffles_gen_raise : forall ce fuel k seed verbose stream e,
  ce "__seed__" [seed] = Exn e ->
  run_fun ce fuel create_random_shuffles_def [VInt (Z.of_nat k); seed; VBool verbose; v_perms stream] = Exn e.
Proof.
  intros ce fuel k seed verbose stream e He. unfold run_fun. cbn [params bind_params create_random_shuffles_def].
  change (body _) with (body create_random_shuffles_def). rewrite shuffle_prefix.
  unfold sh_rest, env1.
  rewrite exec_seq; setK; step. rewrite He. step. reflexivity.
Qed.
Print Assumptions create_random_shuffles_gen.
Print Assumptions create_random_shuffles_gen_raise.
