(* ScoreKnotGenProofs.v -- ties the knot for the scoring functions REGENERATED from the current source (ScoreGen.score_module =
   [remove_nasty_arc; calculate_intersection_score; obtain_leaf_vertices; obtain_vertices], run by MiniPyS.call_in) and restates
   C19 for the source text.
   Compiled on every run of the checks against the freshly generated ScoreGen.v (harness/regen.py, unit "score"). *)
From Coq Require Import Lia ZifyBool.
From DSW Require Import MiniPyS Graph Kmer Score Spec GraphSpec MiniPySLemmas KmerProofs GraphProofs ReprProofs ScoreProofs.
From DSWGen Require Import ScoreGen ScoreRepr ScoreLeavesGenProofs ScoreVerticesGenProofs IntersectionScoreGenProofs NastyArcGenProofs.
Open Scope Z_scope.
Open Scope string_scope.
Ltac Zify.zify_post_hook ::= Z.to_euclidean_division_equations.
Local Open Scope Z_scope.
Local Open Scope list_scope.
Notation lookup := MiniPyS.lookup.

(* running a function of the regenerated module *)
Definition py6 (fuel : nat) (f : string) (args : list val) : res val := call_in score_module fuel f args.

(* a history of calls of the SOURCE: each call receives the accessor and the latter map the previous call returned
   (remove_nasty_arc works in place: these are the caller's objects); stops at the first call that does not return a 4-tuple *)
Fixpoint run_removals_src (fuel : nat) (flags : list (bool * bool)) (a m : val) : list val :=
  match flags with
  | [] => []
  | (ins, del) :: rest =>
      match py6 fuel "remove_nasty_arc" [a; m; VInt 0; VBool ins; VBool del; VBool false] with
      | Ret (VTuple [a'; m'; arc; _]) => VTuple [a'; m'; arc] :: run_removals_src fuel rest a' m'
      | _ => []
      end
  end.
Definition v_removal (x : accessor * lmap * (Z * Z)) : val :=
  match x with (acc, m, (u, v)) => VTuple [varr2 acc; v_lmap m; VTuple [VInt u; VInt v]] end.

(* STATUS: every statement of the former TARGET STATEMENTS block is proved below with Qed, exactly as it was stated:
     Part A  py6_obtain_vertices, py6_leaves_map, py6_calculate_intersection_score, py6_remove_nasty_arc
     Part B  C19_scores_source, C19_step_source, C19_total_source, run_removals_source, C19_history_source
   (helpers: nodup_latter_map -- the keys of accessor_to_latter_map are duplicate-free --, legal_shape, model_not_fuel).
   score_module = [remove_nasty_arc; calculate_intersection_score; obtain_leaf_vertices; obtain_vertices]; call_in resolves a name
   and runs it with the REST of the list as callees (mod_after "<name>"). *)

(* ==== Part A: the knot ============================================================================================== *)
(* the callees of a function of the module: what follows it in the list *)
Fixpoint mod_after (f : string) (m : module) : module :=
  match m with
  | [] => []
  | (g, _) :: rest => if String.eqb f g then rest else mod_after f rest
  end.

Ltac knot := unfold py6, score_module; cbn [call_in mod_after String.eqb Ascii.eqb Bool.eqb]; reflexivity.

Lemma py6_remove_nasty_arc_unfold fuel args :
  py6 fuel "remove_nasty_arc" args
  = run_fun (call_in (mod_after "remove_nasty_arc" score_module) fuel) fuel remove_nasty_arc_def args.
Proof. knot. Qed.
Lemma py6_calculate_intersection_score_unfold fuel args :
  py6 fuel "calculate_intersection_score" args
  = run_fun (call_in (mod_after "calculate_intersection_score" score_module) fuel) fuel calculate_intersection_score_def args.
Proof. knot. Qed.
Lemma py6_obtain_leaf_vertices_unfold fuel args :
  py6 fuel "obtain_leaf_vertices" args
  = run_fun (call_in (mod_after "obtain_leaf_vertices" score_module) fuel) fuel obtain_leaf_vertices_def args.
Proof. knot. Qed.
Lemma py6_obtain_vertices_unfold fuel args :
  py6 fuel "obtain_vertices" args
  = run_fun (call_in (mod_after "obtain_vertices" score_module) fuel) fuel obtain_vertices_def args.
Proof. knot. Qed.

(* a callee environment of the module is the module itself for the names that come later *)
Lemma after_rna_cis fuel args :
  call_in (mod_after "remove_nasty_arc" score_module) fuel "calculate_intersection_score" args
  = py6 fuel "calculate_intersection_score" args.
Proof. knot. Qed.
Lemma after_rna_ov fuel args :
  call_in (mod_after "remove_nasty_arc" score_module) fuel "obtain_vertices" args = py6 fuel "obtain_vertices" args.
Proof. knot. Qed.
Lemma after_cis_olv fuel args :
  call_in (mod_after "calculate_intersection_score" score_module) fuel "obtain_leaf_vertices" args
  = py6 fuel "obtain_leaf_vertices" args.
Proof. knot. Qed.

Theorem py6_obtain_vertices : forall fuel acc,
  py6 fuel "obtain_vertices" [varr2 acc] = Ret (varr (Graph.obtain_vertices acc)).
Proof. intros fuel acc. rewrite py6_obtain_vertices_unfold. apply obtain_vertices_gen_any. Qed.

Theorem py6_leaves_map : forall fuel v d m, 0 <= d ->
  py6 fuel "obtain_leaf_vertices" [VInt v; VInt d; VNone; v_lmap m] = Ret (varr (leaves_map (Z.to_nat d) m [v])).
Proof. intros fuel v d m Hd. rewrite py6_obtain_leaf_vertices_unfold. apply leaves_map_gen. exact Hd. Qed.

Theorem py6_calculate_intersection_score : forall fuel m k ins del verbose, (1 <= k)%nat -> NoDup (map fst m) ->
  py6 fuel "calculate_intersection_score" [v_lmap m; VInt (Z.of_nat k); VBool ins; VBool del; VBool verbose]
  = res_of_scores (Score.calculate_intersection_score m k ins del).
Proof.
  intros fuel m k ins del verbose Hk HN. rewrite py6_calculate_intersection_score_unfold.
  apply calculate_intersection_score_gen; [|exact Hk|exact HN].
  intros v d Hd. rewrite after_cis_olv. apply py6_leaves_map. exact Hd.
Qed.

Theorem py6_remove_nasty_arc : forall fuel acc m iteration ins del k,
  (1 <= k)%nat -> length acc = Z.to_nat (pow4 k) -> ScoreRepr.rows4 acc -> NoDup (map fst m) ->
  py6 fuel "remove_nasty_arc" [varr2 acc; v_lmap m; VInt iteration; VBool ins; VBool del; VBool false]
  = res_of_removal (Score.remove_nasty_arc acc m ins del).
Proof.
  intros fuel acc m iteration ins del k Hk Hlen H4 HN. rewrite py6_remove_nasty_arc_unfold.
  apply (remove_nasty_arc_gen _ fuel acc m iteration ins del k); try assumption.
  - intro vb. rewrite after_rna_cis. apply py6_calculate_intersection_score; assumption.
  - intro acc'. rewrite after_rna_ov. apply py6_obtain_vertices.
Qed.

(* ==== Part B: C19 for the source text =============================================================================== *)
Lemma sorted_lt_nodup : forall l : list Z, Sorted.StronglySorted Z.lt l -> NoDup l.
Proof.
  induction l as [|x xs IH]; intro H; [constructor|].
  inversion H as [|y ys Hs Hall]; subst. constructor; [|apply IH; exact Hs].
  intro Hin. rewrite Forall_forall in Hall. specialize (Hall x Hin). lia.
Qed.

Lemma nodup_latter_map : forall acc, NoDup (map fst (accessor_to_latter_map acc)).
Proof.
  intro acc. unfold accessor_to_latter_map. change (map fst (lmap_from acc 0)) with (keys (lmap_from acc 0)).
  rewrite keys_lmap_from. apply sorted_lt_nodup. apply listed_from_sorted.
Qed.

Lemma legal_shape : forall k acc, legal k acc -> length acc = Z.to_nat (pow4 k) /\ ScoreRepr.rows4 acc.
Proof. intros k acc [Hlen [H4 _]]. split; [exact Hlen|]. exact H4. Qed.

Lemma py6_remove_legal : forall fuel k acc iteration ins del, (1 <= k)%nat -> legal k acc ->
  py6 fuel "remove_nasty_arc" [varr2 acc; v_lmap (accessor_to_latter_map acc); VInt iteration; VBool ins; VBool del; VBool false]
  = res_of_removal (Score.remove_nasty_arc acc (accessor_to_latter_map acc) ins del).
Proof.
  intros fuel k acc iteration ins del Hk HL. destruct (legal_shape k acc HL) as [Hlen H4].
  apply (py6_remove_nasty_arc fuel acc _ iteration ins del k); try assumption. apply nodup_latter_map.
Qed.

Theorem C19_scores_source : forall fuel k acc ins del verbose, (1 <= k)%nat -> legal k acc ->
  exists sc, py6 fuel "calculate_intersection_score"
                 [v_lmap (accessor_to_latter_map acc); VInt (Z.of_nat k); VBool ins; VBool del; VBool verbose] = Ret (varr2 sc)
             /\ length sc = Z.to_nat (pow4 k) /\ Forall (fun r => length r = 4%nat) sc
             /\ (forall u j, 0 <= u < pow4 k -> 0 <= j < 4 -> 0 <= score_at sc u j)
             /\ (forall u j, 0 <= u < pow4 k -> 0 <= j < 4 -> 0 < score_at sc u j -> 0 <= entry acc u j).
Proof.
  intros fuel k acc ins del verbose Hk HL. destruct (score_spec k acc ins del Hk HL) as [sc [Esc Hok]].
  exists sc. split; [|exact Hok].
  rewrite py6_calculate_intersection_score by (try exact Hk; apply nodup_latter_map). rewrite Esc. reflexivity.
Qed.

(* every run of the source that RETURNS returns a 4-tuple describing exactly one removed arc of maximum score, as C19_step *)
Theorem C19_step_source : forall fuel k acc iteration ins del w, (1 <= k)%nat -> legal k acc ->
  py6 fuel "remove_nasty_arc" [varr2 acc; v_lmap (accessor_to_latter_map acc); VInt iteration; VBool ins; VBool del; VBool false]
    = Ret w ->
  exists acc' u v scs,
    w = VTuple [varr2 acc'; v_lmap (accessor_to_latter_map acc'); VTuple [VInt u; VInt v]; VList (map VInt scs)]
    /\ legal k acc'
    /\ exists j sc, 0 <= j < 4 /\ 0 <= u < pow4 k /\ entry acc u j = v /\ 0 <= v
       /\ py6 fuel "calculate_intersection_score"
              [v_lmap (accessor_to_latter_map acc); VInt (Z.of_nat k); VBool ins; VBool del; VBool false] = Ret (varr2 sc)
       /\ (forall u' j', 0 <= u' < pow4 k -> 0 <= j' < 4 -> score_at sc u' j' <= score_at sc u j)
       /\ entry acc' u j = -1
       /\ (forall u' j', 0 <= u' < pow4 k -> 0 <= j' < 4 -> (u', j') <> (u, j) -> entry acc' u' j' = entry acc u' j')
       /\ scs = filter (fun x => 0 <? x) (concat sc)
       /\ arc_count acc' = arc_count acc - 1.
Proof.
  intros fuel k acc iteration ins del w Hk HL Hrun.
  rewrite (py6_remove_legal fuel k acc iteration ins del Hk HL) in Hrun.
  destruct (Score.remove_nasty_arc acc (accessor_to_latter_map acc) ins del) as [[[[acc' m'] [u v]] scs]|e|] eqn:ER;
    cbn [res_of_removal] in Hrun; [|discriminate..].
  injection Hrun as Hw.
  destruct (remove_step k acc ins del acc' m' u v scs Hk HL ER)
    as (HL' & Em & j & sc & Hj & Hu & He & Hv & Esc & Hmax & Hrem & Hoth & Hscs & Hcnt).
  exists acc', u, v, scs. split; [rewrite <- Em; symmetry; exact Hw|]. split; [exact HL'|].
  exists j, sc. repeat (split; [assumption|]). split; [|repeat (split; [assumption|]); assumption].
  rewrite py6_calculate_intersection_score by (try exact Hk; apply nodup_latter_map). rewrite Esc. reflexivity.
Qed.

(* the model never runs out of fuel on a legal graph *)
Lemma model_not_fuel : forall k acc ins del, (1 <= k)%nat -> legal k acc ->
  Score.remove_nasty_arc acc (accessor_to_latter_map acc) ins del <> OutOfFuel.
Proof.
  intros k acc ins del Hk HL. pose proof (legal_len k acc HL) as Hlen.
  destruct (score_spec k acc ins del Hk HL) as [sc [Esc _]].
  unfold Score.remove_nasty_arc. rewrite Hlen, log4_pow4, Esc. cbn [bind]. cbv zeta.
  repeat match goal with
         | |- context [match ?X with _ => _ end] => destruct X
         | |- context [if ?X then _ else _] => destruct X
         end; discriminate.
Qed.

(* the source never gets stuck or runs out of fuel on a legal graph: it returns or raises a Python exception *)
Theorem C19_total_source : forall fuel k acc iteration ins del, (1 <= k)%nat -> legal k acc ->
  (exists w, py6 fuel "remove_nasty_arc"
       [varr2 acc; v_lmap (accessor_to_latter_map acc); VInt iteration; VBool ins; VBool del; VBool false] = Ret w)
  \/ (exists e, py6 fuel "remove_nasty_arc"
       [varr2 acc; v_lmap (accessor_to_latter_map acc); VInt iteration; VBool ins; VBool del; VBool false] = Exn e).
Proof.
  intros fuel k acc iteration ins del Hk HL. rewrite (py6_remove_legal fuel k acc iteration ins del Hk HL).
  pose proof (model_not_fuel k acc ins del Hk HL) as HNF.
  destruct (Score.remove_nasty_arc acc (accessor_to_latter_map acc) ins del) as [[[[acc' m'] [u v]] scs]|e|];
    cbn [res_of_removal].
  - left. eexists. reflexivity.
  - right. exists e. reflexivity.
  - contradiction.
Qed.

(* a history of calls of the source equals the model's history; hence C19_history for the source *)
Theorem run_removals_source : forall fuel flags k acc, (1 <= k)%nat -> legal k acc ->
  run_removals_src fuel flags (varr2 acc) (v_lmap (accessor_to_latter_map acc))
  = map v_removal (run_removals flags acc (accessor_to_latter_map acc)).
Proof.
  intros fuel flags. induction flags as [|[ins del] rest IH]; intros k acc Hk HL; [reflexivity|].
  cbn [run_removals_src run_removals]. rewrite (py6_remove_legal fuel k acc 0 ins del Hk HL).
  destruct (Score.remove_nasty_arc acc (accessor_to_latter_map acc) ins del) as [[[[acc' m'] [u v]] scs]|e|] eqn:ER;
    cbn [res_of_removal]; [|reflexivity..].
  destruct (remove_step k acc ins del acc' m' u v scs Hk HL ER) as (HL' & Em & _).
  subst m'. cbn [map v_removal]. f_equal. apply (IH k acc' Hk HL').
Qed.

Theorem C19_history_source : forall fuel flags k acc, (1 <= k)%nat -> legal k acc ->
  forall i w, nth_error (run_removals_src fuel flags (varr2 acc) (v_lmap (accessor_to_latter_map acc))) i = Some w ->
  exists acc' u v, w = VTuple [varr2 acc'; v_lmap (accessor_to_latter_map acc'); VTuple [VInt u; VInt v]]
    /\ legal k acc' /\ arc_count acc' = arc_count acc - Z.of_nat (S i).
Proof.
  intros fuel flags k acc Hk HL i w Hn. rewrite (run_removals_source fuel flags k acc Hk HL) in Hn.
  rewrite nth_error_map in Hn.
  destruct (nth_error (run_removals flags acc (accessor_to_latter_map acc)) i) as [[[acc' m'] [u v]]|] eqn:EN;
    cbn [option_map] in Hn; [|discriminate].
  injection Hn as Hw.
  destruct (remove_history flags k acc Hk HL i acc' m' (u, v) EN) as (HL' & Em & Hcnt).
  exists acc', u, v. split; [subst m'; symmetry; exact Hw|]. split; [exact HL'|exact Hcnt].
Qed.

(* ---- non-vacuity: an order-1 graph, two calls ---- *)
Example score_knot_nonvacuous :
  legal 1 [[0;1;-1;-1];[0;1;2;-1];[-1;1;-1;-1];[-1;-1;-1;-1]] /\
  length (run_removals_src 50 [(false, false); (true, true)] (varr2 [[0;1;-1;-1];[0;1;2;-1];[-1;1;-1;-1];[-1;-1;-1;-1]])
            (v_lmap (accessor_to_latter_map [[0;1;-1;-1];[0;1;2;-1];[-1;1;-1;-1];[-1;-1;-1;-1]]))) = 2%nat.
Proof.
  split; [|vm_compute; reflexivity].
  split; [reflexivity|]. split; [repeat constructor|].
  intros v j Hv Hj. change (pow4 1) with 4 in *.
  assert (Hv' : v = 0 \/ v = 1 \/ v = 2 \/ v = 3) by lia. assert (Hj' : j = 0 \/ j = 1 \/ j = 2 \/ j = 3) by lia.
  destruct Hv' as [->|[->|[->| ->]]]; destruct Hj' as [->|[->|[->| ->]]]; vm_compute; auto.
Qed.

Print Assumptions py6_obtain_vertices.
Print Assumptions py6_leaves_map.
Print Assumptions py6_calculate_intersection_score.
Print Assumptions py6_remove_nasty_arc.
Print Assumptions C19_scores_source.
Print Assumptions C19_step_source.
Print Assumptions C19_total_source.
Print Assumptions run_removals_source.
Print Assumptions C19_history_source.
