(* MatrixRepr.v -- how the data of the matrix conversions (Graph.v) appears as MiniPyM values, and what the theorems about
   the regenerated accessor_to_adjacency_matrix / adjacency_matrix_to_accessor (MatrixGen.v) assume of the EXTERNAL function
   "__list_of_set__" (the iteration order of a CPython set, which MiniPyM does not model). *)
From Coq Require Import Sorting.Sorted Sorting.Permutation.
From DSW Require Import MiniPyM Graph Kmer MiniPyMLemmas.
Open Scope Z_scope.
Open Scope string_scope.
Local Open Scope Z_scope.

Definition res_of_acc (r : result accessor) : res val :=
  match r with Ok a => Ret (varr2 a) | Raise e => Exn e | OutOfFuel => Fuel end.
(* an adjacency matrix is a list of rows, like an accessor *)
Definition res_of_mat (r : result (list (list Z))) : res val :=
  match r with Ok a => Ret (varr2 a) | Raise e => Exn e | OutOfFuel => Fuel end.

(* a set of ints whose elements were inserted in the order l (duplicate-free) *)
Definition v_intset (l : list Z) : val := VSet (map VInt l).

(* ASSUMPTION on the iteration order of a set of ints (the external "__list_of_set__" = list(s)):
   (1) it lists the elements of the set, each once;
   (2) non-negative ints that all lie in one aligned block of four  4b .. 4b+3  are listed in ascending order
       (CPython: hash(i) = i, slot = i mod table size >= 8, no collision inside an aligned block, iteration in slot order).
   Nothing else is assumed; harness/regen.py checks (1) and (2) on CPython itself on every run (cpython_set_order_assumption). *)
Definition set_order_ok (ext : string -> list val -> res val) : Prop :=
  exists ord : list Z -> list Z,
    (forall l, NoDup l -> ext "__list_of_set__" [v_intset l] = Ret (vints (ord l)))
    /\ (forall l, NoDup l -> Permutation (ord l) l)
    /\ (forall l b, NoDup l -> 0 <= b -> (forall x, In x l -> 4 * b <= x < 4 * b + 4) -> StronglySorted Z.lt (ord l)).
