(* FilterGenProofs.v -- the constructor and valid() of dsw/biofilter.py's LocalBioFilter, REGENERATED from the current source as
   terms of MiniPyF.v (BiofilterGen.filter_init_def, filter_valid_def), compute what the hand-written model computes:
   Filter.ctor_accepts and FilterFloat.valid_float (the filter with its GC comparisons in binary64), hence -- through the
   theorems of C12 -- the documented predicate.  Compiled on every run of the checks against the freshly generated
   BiofilterGen.v (harness/regen.py, unit "biofilter"). *)
From Coq Require Import Lia ZifyBool PrimFloat.
From DSW Require Import MiniPyF Filter FilterFloat Thresholds MiniPyFLemmas.
From DSWGen Require Import BiofilterGen.
Open Scope Z_scope.
Ltac Zify.zify_post_hook ::= Z.to_euclidean_division_equations.

(* model data as MiniPyF values *)
Definition v_optint (o : option Z) : val := match o with Some r => VInt r | None => VNone end.
Definition v_gc (o : option (float * float)) : val :=
  match o with Some (lo, hi) => VList [VFloat lo; VFloat hi] | None => VNone end.
Definition v_motifs (o : option (list (list Z))) : val :=
  match o with Some ms => VList (map VStr ms) | None => VNone end.
Definition ascii_motifs (o : option (list (list Z))) : Prop :=
  forall ms, o = Some ms -> Forall (Forall (fun ch => ch < 128)) ms.

(* Proved below, exactly as stated in the original TARGET STATEMENTS (the parameter order is the one of the generated definition:
   own parameters, then the attributes read); no hypothesis was added or changed:

     filter_valid_gen     run_fun filter_valid_def [s; only_last; run; motifs; gc; k] = Ret (VBool (valid_float c only_last s))
                          for 0 <= k < 2^53, |s| < 2^53, ASCII motifs
     filter_init_rejects  ctor_accepts = false -> run_proc filter_init_def [...] = Exn ValueError
     filter_init_accepts  ctor_accepts = true  -> run_proc filter_init_def [...] = Ret en with the four self.* fields stored
     filter_object_gen    the object the constructor builds, then asked: valid_float
     C12_valid_source     with FilterFloatProofs.valid_float_is_valid (which depends on the standard library's float axioms):
                          the verdict of the regenerated valid() is the verdict of the integer-threshold filter Filter.valid
     filter_gen_witness   non-vacuity, by vm_compute (the F8 witness k = 5, gc = (0.8, 1), "T" -> False; an accepted string with
                          run limit, motif and gc range -> True; the constructor accepting / rejecting)

   Notes.  * No while loop: any fuel.  * `x is not None` is (ENot (EB1 BIsNone x)); `a in b` / `a not in b` are ECmp CIn / CNotIn
   (infixZ); for a one-character string [c], infixZ [c] [65;67;71;84] is is_acgt c (infix_acgt).  * "nucleotide * (1 + run)" is
   repeat_list (Z.to_nat (1 + r)) [n] = repeat n (Z.to_nat (1 + r)) (repeat_list_single).  * the replace chain + [::-1] + upper()
   is Filter.reverse_complement for ASCII motifs (replace_chain, up_rc_char, upper_rev_rc).  * float comparisons: cmp_vals on
   (VInt g, VFloat x) goes through as_float / float_of_int, which is Ret (fz g) for 0 <= g < 2^53 (float_of_int_ok) -- counts are
   bounded by the length of the string; `(1 - lo)` is (fz 1 - lo)%float and fz 1 is convertible to 1%float.  fz is never unfolded
   and no float value is reasoned about: the program reaches syntactically the float expressions of valid_float.  * The two early
   returns inside the window loop correspond to windows_ok_float (win_loop: induction on the number of windows, generalising
   the list suffix; the window at index |pre| of pre ++ suf is py_slice .. = firstn k suf, py_slice_window).
   * Every stage is stated through [stage]: it either falls through with an environment that still satisfies [Env] (an invariant
   that only speaks through lookup) or returns False. *)
From DSW Require Import FilterProofs FilterFloatProofs.

Local Open Scope string_scope.
Local Open Scope Z_scope.

(* ---- tactics ------------------------------------------------------------------------------------------------------ *)
Ltac lk := repeat (rewrite lookup_update_same || (rewrite lookup_update_other by discriminate)).
Ltac step := cbn [exec eval lift seq rbind assign lookup update bind_tuple items String.eqb Ascii.eqb Bool.eqb
  binop_vals cmp_vals truthy builtin1_val builtin2_val index_val mixes_bool has_float as_float negb slice_val opt_int
  replace_val].
Ltac ev := cbn [eval lift seq rbind assign lookup update bind_tuple items String.eqb Ascii.eqb Bool.eqb
  binop_vals cmp_vals truthy builtin1_val builtin2_val index_val mixes_bool has_float as_float negb slice_val opt_int
  replace_val].
Lemma exec_assign ce fuel t e en : exec ce fuel (SAssign t e) en = lift (eval ce en e) (fun v => assign ce t v en).
Proof. reflexivity. Qed.
Lemma exec_return ce fuel e en : exec ce fuel (SReturn e) en = lift (eval ce en e) (OReturn).
Proof. reflexivity. Qed.
Lemma exec_raise ce fuel e en : exec ce fuel (SRaise e) en = OExn e.
Proof. reflexivity. Qed.
Lemma exec_skip ce fuel en : exec ce fuel SSkip en = ONormal en.
Proof. reflexivity. Qed.
(* unfold the loop-free statement constructors (loops by hand with exec_for) *)
Ltac ex := repeat first [rewrite exec_seq | rewrite exec_assign | rewrite exec_if | rewrite exec_return | rewrite exec_raise
                        | rewrite exec_skip].
Ltac go := repeat (progress (ex; ev; lk)).
Ltac setK := match goal with |- context [seq _ ?k] => let K := fresh "K" in set (K := k) end.

(* ---- the sub-statements of the generated programs (cut out of the generated terms, nothing copied by hand) ------------ *)
Definition v_pick : stmt :=
  Eval cbv in match body filter_valid_def with SSeq a _ => a | _ => SSkip end.
Definition v_chars_body : stmt :=
  Eval cbv in match body filter_valid_def with SSeq _ (SSeq (SFor _ _ bd) _) => bd | _ => SSkip end.
Definition v_chars : stmt :=
  Eval cbv in match body filter_valid_def with SSeq _ (SSeq a _) => a | _ => SSkip end.
Definition v_runs_body : stmt :=
  Eval cbv in match body filter_valid_def with SSeq _ (SSeq _ (SSeq (SIf _ (SFor _ _ bd) _) _)) => bd | _ => SSkip end.
Definition v_runs : stmt :=
  Eval cbv in match body filter_valid_def with SSeq _ (SSeq _ (SSeq a _)) => a | _ => SSkip end.
Definition v_motifs_body : stmt :=
  Eval cbv in match body filter_valid_def with SSeq _ (SSeq _ (SSeq _ (SSeq (SIf _ (SFor _ _ bd) _) _))) => bd | _ => SSkip end.
Definition v_motifs_st : stmt :=
  Eval cbv in match body filter_valid_def with SSeq _ (SSeq _ (SSeq _ (SSeq a _))) => a | _ => SSkip end.
Definition v_win_body : stmt :=
  Eval cbv in match body filter_valid_def with
  | SSeq _ (SSeq _ (SSeq _ (SSeq _ (SSeq (SIf _ (SIf _ (SFor _ _ bd) _) _) _)))) => bd | _ => SSkip end.
Definition v_short : stmt :=
  Eval cbv in match body filter_valid_def with
  | SSeq _ (SSeq _ (SSeq _ (SSeq _ (SSeq (SIf _ (SIf _ _ sh) _) _)))) => sh | _ => SSkip end.
Definition v_gc_st : stmt :=
  Eval cbv in match body filter_valid_def with SSeq _ (SSeq _ (SSeq _ (SSeq _ (SSeq a _)))) => a | _ => SSkip end.
Definition v_final : stmt :=
  Eval cbv in match body filter_valid_def with SSeq _ (SSeq _ (SSeq _ (SSeq _ (SSeq _ fin)))) => fin | _ => SSkip end.

Lemma valid_body_eq :
  body filter_valid_def = SSeq v_pick (SSeq v_chars (SSeq v_runs (SSeq v_motifs_st (SSeq v_gc_st v_final)))).
Proof. reflexivity. Qed.

(* ---- the environment: what the stages read --------------------------------------------------------------------------- *)
Definition Env (c : fcfg) (obs : list Z) (en : env) : Prop :=
  lookup "observed_dna_sequence" en = Ret (VStr obs) /\
  lookup "self.max_homopolymer_runs" en = Ret (v_optint (ff_run c)) /\
  lookup "self.undesired_motifs" en = Ret (v_motifs (ff_motifs c)) /\
  lookup "self.gc_range" en = Ret (v_gc (ff_gc c)) /\
  lookup "self.observed_length" en = Ret (VInt (ff_k c)).

Lemma Env_update c obs en x v :
  x <> "observed_dna_sequence" -> x <> "self.max_homopolymer_runs" -> x <> "self.undesired_motifs" ->
  x <> "self.gc_range" -> x <> "self.observed_length" ->
  Env c obs en -> Env c obs (update x v en).
Proof.
  intros N1 N2 N3 N4 N5 (H1 & H2 & H3 & H4 & H5). unfold Env.
  rewrite !lookup_update_other by (intro E; symmetry in E; contradiction). repeat split; assumption.
Qed.

(* a stage either falls through with the environment still good, or returns False *)
Definition stage (c : fcfg) (obs : list Z) (b : bool) (o : outcome) : Prop :=
  if b then exists en', o = ONormal en' /\ Env c obs en' else o = OReturn (VBool false).

(* ---- stage 1: the alphabet check ------------------------------------------------------------------------------------ *)
Lemma infix_acgt x : infixZ [x] [65; 67; 71; 84] = is_acgt x.
Proof.
  unfold is_acgt, nuc_index. cbn [infixZ prefixZ].
  destruct (x =? 65); [reflexivity|]. destruct (x =? 67); [reflexivity|].
  destruct (x =? 71); [reflexivity|]. destruct (x =? 84); reflexivity.
Qed.

Lemma chars_loop ce fuel c obs : forall l en, Env c obs en ->
  stage c obs (forallb is_acgt l) (for_loop ce fuel (TVar "nucleotide") v_chars_body (chars l) en).
Proof.
  induction l as [|x l IH]; intros en HE.
  - cbn [chars map for_loop forallb stage]. eauto.
  - cbn [chars map forallb]. fold (chars l). rewrite for_loop_cons. unfold v_chars_body at 1. step. lk. step.
    rewrite infix_acgt. destruct (is_acgt x); cbn [negb andb lift seq exec eval].
    + apply IH. apply Env_update; try discriminate. exact HE.
    + reflexivity.
Qed.

(* ---- stage 2: homopolymer runs -------------------------------------------------------------------------------------- *)
Lemma repeat_list_single {A} (x : A) n : repeat_list n [x] = repeat x n.
Proof. induction n as [|n IH]; cbn [repeat_list repeat app]; [reflexivity|rewrite IH; reflexivity]. Qed.

Lemma runs_loop ce fuel c obs r : ff_run c = Some r -> forall l en, Env c obs en ->
  stage c obs (negb (existsb (fun n => infixZ (repeat n (Z.to_nat (1 + r))) obs) l))
    (for_loop ce fuel (TVar "nucleotide") v_runs_body (chars l) en).
Proof.
  intros Hr. induction l as [|x l IH]; intros en HE.
  - cbn [chars map for_loop existsb negb stage]. eauto.
  - cbn [chars map existsb]. fold (chars l). rewrite for_loop_cons. unfold v_runs_body at 1. step. lk.
    destruct HE as (H1 & H2 & H3 & H4 & H5).
    rewrite H2, Hr. cbn [v_optint]. step. lk. rewrite H1. step.
    rewrite repeat_list_single.
    destruct (infixZ (repeat x (Z.to_nat (1 + r))) obs); cbn [orb negb lift seq exec eval].
    + reflexivity.
    + apply IH. apply Env_update; try discriminate. repeat split; assumption.
Qed.

Lemma runs_stage ce fuel c obs en : Env c obs en ->
  stage c obs (match ff_run c with
               | Some r => negb (existsb (fun n => infixZ (repeat n (Z.to_nat (1 + r))) obs) [chA; chC; chG; chT])
               | None => true end)
    (exec ce fuel v_runs en).
Proof.
  intros HE. unfold v_runs. rewrite exec_if. fold v_runs_body. ev.
  destruct HE as (H1 & H2 & H3 & H4 & H5). rewrite H2.
  destruct (ff_run c) as [r|] eqn:Hr; cbn [v_optint]; ev.
  - rewrite exec_for. ev. apply (runs_loop ce fuel c obs r Hr [65; 67; 71; 84]). repeat split; try assumption.
    rewrite Hr; exact H2.
  - step. cbn [stage]. exists en. split; [reflexivity|]. repeat split; try assumption. rewrite Hr; exact H2.
Qed.

Lemma chars_stage ce fuel c obs en : Env c obs en ->
  stage c obs (forallb is_acgt obs) (exec ce fuel v_chars en).
Proof.
  intros HE. unfold v_chars. rewrite exec_for. fold v_chars_body. ev.
  destruct HE as (H1 & H2 & H3 & H4 & H5). rewrite H1. ev.
  apply chars_loop. repeat split; assumption.
Qed.

(* ---- stage 3: undesired motifs and their reverse complements ------------------------------------------------------------ *)
Lemma flat_map_single (x y : Z) s :
  flat_map (fun ch => if ch =? x then [y] else [ch]) s = map (fun ch => if ch =? x then y else ch) s.
Proof. induction s as [|a s IH]; cbn [flat_map map]; [reflexivity|]. rewrite IH. destruct (a =? x); reflexivity. Qed.

Definition rc_char (ch : Z) : Z :=
  let c1 := if ch =? 65 then 116 else ch in
  let c2 := if c1 =? 67 then 103 else c1 in
  let c3 := if c2 =? 71 then 99 else c2 in
  if c3 =? 84 then 97 else c3.
Definition up_char (c : Z) : Z := if (97 <=? c) && (c <=? 122) then c - 32 else c.

Lemma up_rc_char ch : up_char (rc_char ch) = comp_upper ch.
Proof.
  unfold up_char, rc_char, comp_upper. cbv zeta.
  destruct (ch =? 65) eqn:E1; [reflexivity|].
  destruct (ch =? 67) eqn:E2; [reflexivity|].
  destruct (ch =? 71) eqn:E3; [reflexivity|].
  destruct (ch =? 84) eqn:E4; reflexivity.
Qed.

Lemma rc_char_ascii ch : ch < 128 -> rc_char ch < 128.
Proof.
  unfold rc_char. cbv zeta. intros H.
  destruct (ch =? 65) eqn:E1; [reflexivity|].
  destruct (ch =? 67) eqn:E2; [reflexivity|].
  destruct (ch =? 71) eqn:E3; [reflexivity|].
  destruct (ch =? 84) eqn:E4; [reflexivity|exact H].
Qed.

Lemma replace_chain m :
  flat_map (fun ch => if ch =? 84 then [97] else [ch])
    (flat_map (fun ch => if ch =? 71 then [99] else [ch])
      (flat_map (fun ch => if ch =? 67 then [103] else [ch])
        (flat_map (fun ch => if ch =? 65 then [116] else [ch]) m))) = map rc_char m.
Proof. rewrite !flat_map_single, !map_map. reflexivity. Qed.

Lemma upper_rev_rc m : Forall (fun ch => ch < 128) m ->
  (if forallb (fun c => c <? 128) (rev (map rc_char m))
   then Ret (VStr (map (fun c => if (97 <=? c) && (c <=? 122) then c - 32 else c) (rev (map rc_char m))))
   else @Stuck val) = Ret (VStr (reverse_complement m)).
Proof.
  intros Hm.
  replace (forallb (fun c => c <? 128) (rev (map rc_char m))) with true.
  - fold up_char. change (fun c => if (97 <=? c) && (c <=? 122) then c - 32 else c) with up_char.
    unfold reverse_complement. rewrite map_rev, map_map. do 3 f_equal.
    apply map_ext. intro a. apply up_rc_char.
  - symmetry. apply forallb_forall. intros x Hx. apply in_rev in Hx. apply in_map_iff in Hx.
    destruct Hx as (y & <- & Hy). rewrite Forall_forall in Hm. apply Z.ltb_lt. apply rc_char_ascii. apply Hm, Hy.
Qed.

Lemma motifs_loop ce fuel c obs : forall ms en, Forall (Forall (fun ch => ch < 128)) ms -> Env c obs en ->
  stage c obs (negb (existsb (fun m => infixZ m obs || infixZ (reverse_complement m) obs) ms))
    (for_loop ce fuel (TVar "special") v_motifs_body (map VStr ms) en).
Proof.
  induction ms as [|m ms IH]; intros en Hms HE.
  - cbn [map for_loop existsb negb stage]. eauto.
  - cbn [map existsb]. rewrite for_loop_cons. unfold v_motifs_body at 1.
    inversion Hms as [|? ? Hm Hms']; subst.
    assert (HE1 : Env c obs (update "special" (VStr m) en)) by (apply Env_update; try discriminate; exact HE).
    cbn [assign seq]. set (en1 := update "special" (VStr m) en) in *.
    assert (HS : lookup "special" en1 = Ret (VStr m)) by (subst en1; apply lookup_update_same).
    destruct HE1 as (H1 & H2 & H3 & H4 & H5).
    go. rewrite HS, H1. go.
    destruct (infixZ m obs); cbn [orb negb]; go; [reflexivity|].
    rewrite HS. go. rewrite replace_chain. go. rewrite (upper_rev_rc m Hm). go. rewrite H1. go.
    destruct (infixZ (reverse_complement m) obs); cbn [negb]; go; [reflexivity|].
    apply IH; [exact Hms'|]. do 2 (apply Env_update; try discriminate). repeat split; assumption.
Qed.

Lemma motifs_stage ce fuel c obs en : ascii_motifs (ff_motifs c) -> Env c obs en ->
  stage c obs (match ff_motifs c with
               | Some ms => negb (existsb (fun m => infixZ m obs || infixZ (reverse_complement m) obs) ms)
               | None => true end)
    (exec ce fuel v_motifs_st en).
Proof.
  intros HA HE. unfold v_motifs_st. rewrite exec_if. fold v_motifs_body. ev.
  pose proof HE as (H1 & H2 & H3 & H4 & H5). rewrite H3.
  destruct (ff_motifs c) as [ms|] eqn:Hm; cbn [v_motifs]; ev.
  - rewrite exec_for. ev. rewrite H3. ev. apply motifs_loop; [apply HA; reflexivity|].
    unfold Env. rewrite Hm. repeat split; assumption.
  - step. cbn [stage]. exists en. split; [reflexivity|]. unfold Env. rewrite Hm. repeat split; assumption.
Qed.

(* ---- stage 4: GC content, compared in binary64 --------------------------------------------------------------------------- *)
Lemma float_of_int_ok z : 0 <= z < 2 ^ 53 -> float_of_int z = Ret (fz z).
Proof.
  intros H. unfold float_of_int. destruct ((0 <=? z) && (z <? 2 ^ 53)) eqn:E; [reflexivity|lia].
Qed.

Lemma py_get_pair_0 {A} (a b : A) : py_get [a; b] 0 = Ok a.
Proof. reflexivity. Qed.
Lemma py_get_pair_1 {A} (a b : A) : py_get [a; b] 1 = Ok b.
Proof. reflexivity. Qed.

Lemma clampZ_id n i : 0 <= i <= n -> clampZ n i = i.
Proof.
  intro H. unfold clampZ; cbv zeta. destruct (i <? 0) eqn:E1; [lia|]. destruct (i <? 0) eqn:E2; [lia|].
  destruct (n <? i) eqn:E3; [lia|]. reflexivity.
Qed.
Lemma clampZ_over n i : 0 <= n <= i -> clampZ n i = n.
Proof.
  intro H. unfold clampZ; cbv zeta. destruct (i <? 0) eqn:E1; [lia|]. destruct (i <? 0) eqn:E2; [lia|].
  destruct (n <? i) eqn:E3; lia.
Qed.

(* the window at index [length pre] *)
Lemma py_slice_window (pre suf : list Z) k : 0 <= k ->
  py_slice (pre ++ suf) (Z.of_nat (length pre)) (Z.of_nat (length pre) + k) = firstn (Z.to_nat k) suf.
Proof.
  intros Hk. unfold py_slice; cbv zeta. rewrite app_length, Nat2Z.inj_add.
  set (a := Z.of_nat (length pre)). set (p := Z.of_nat (length suf)).
  rewrite (clampZ_id (a + p) a) by lia.
  assert (HS : skipn (Z.to_nat a) (pre ++ suf) = suf).
  { replace (Z.to_nat a) with (length pre) by lia. rewrite skipn_app, skipn_all, Nat.sub_diag. reflexivity. }
  destruct (Z.le_gt_cases (a + k) (a + p)) as [L|L].
  - rewrite (clampZ_id (a + p) (a + k)) by lia.
    destruct (a + k <=? a) eqn:E.
    + replace k with 0 by lia. reflexivity.
    + rewrite HS. f_equal. lia.
  - rewrite (clampZ_over (a + p) (a + k)) by lia.
    destruct (a + p <=? a) eqn:E.
    + destruct suf; [rewrite firstn_nil; reflexivity|cbn [length] in p; lia].
    + rewrite HS. rewrite !firstn_all2; [reflexivity|lia|lia].
Qed.

Lemma gc_count_small (w : list Z) n : Z.of_nat (length w) <= n -> n < 2 ^ 53 -> 0 <= gc_count w < 2 ^ 53.
Proof. intros H1 H2. destruct (gc_count_bounds w) as [Hg _]. lia. Qed.
Lemma at_count_small (w : list Z) n : Z.of_nat (length w) <= n -> n < 2 ^ 53 -> 0 <= at_count w < 2 ^ 53.
Proof. intros H1 H2. destruct (gc_count_bounds w) as [_ Hg]. lia. Qed.

Lemma win_loop ce fuel c obs lo hi : ff_gc c = Some (lo, hi) -> 0 <= ff_k c < 2 ^ 53 -> Z.of_nat (length obs) < 2 ^ 53 ->
  forall f pre suf en, obs = (pre ++ suf)%list -> (f <= length suf + 1)%nat -> Env c obs en ->
  stage c obs (windows_ok_float f (Z.to_nat (ff_k c)) lo hi (ff_k c) suf)
    (for_loop ce fuel (TVar "index") v_win_body (zrange_up f (Z.of_nat (length pre)) 1) en).
Proof.
  intros Hgc Hk Hn. induction f as [|f IH]; intros pre suf en Hobs Hf HE.
  - cbn [zrange_up for_loop windows_ok_float stage]. eauto.
  - cbn [zrange_up windows_ok_float]. cbv zeta. rewrite for_loop_cons. unfold v_win_body at 1.
    assert (HE1 : Env c obs (update "index" (VInt (Z.of_nat (length pre))) en))
      by (apply Env_update; try discriminate; exact HE).
    cbn [assign seq]. set (en1 := update "index" (VInt (Z.of_nat (length pre))) en) in *.
    assert (HI : lookup "index" en1 = Ret (VInt (Z.of_nat (length pre)))) by (subst en1; apply lookup_update_same).
    pose proof HE1 as (H1 & H2 & H3 & H4 & H5). rewrite Hgc in H4. cbn [v_gc] in H4.
    assert (HW : py_slice obs (Z.of_nat (length pre)) (Z.of_nat (length pre) + ff_k c) = firstn (Z.to_nat (ff_k c)) suf)
      by (rewrite Hobs; apply py_slice_window; lia).
    go. rewrite H1, HI, H5. go. rewrite !HW.
    set (w := firstn (Z.to_nat (ff_k c)) suf).
    assert (Hw : 0 <= gc_count w < 2 ^ 53).
    { apply (gc_count_small w (Z.of_nat (length obs))); [|exact Hn]. subst w obs.
      rewrite firstn_length, app_length. lia. }
    go. change (countZ 67 w + countZ 71 w) with (gc_count w).
    rewrite H4, H5. go. rewrite py_get_pair_1. go. rewrite (float_of_int_ok (ff_k c) Hk). go.
    rewrite (float_of_int_ok (gc_count w) Hw). go.
    destruct (PrimFloat.ltb (hi * fz (ff_k c)) (fz (gc_count w))); go; [reflexivity|].
    rewrite H4, H5. go. rewrite py_get_pair_0. go. rewrite (float_of_int_ok (ff_k c) Hk). go.
    rewrite (float_of_int_ok (gc_count w) Hw). go.
    destruct (PrimFloat.ltb (fz (gc_count w)) (lo * fz (ff_k c))); go; [reflexivity|].
    assert (HE3 : Env c obs (update "gc_count" (VInt (gc_count w)) (update "sub_dna_sequence" (VStr w) en1))).
    { do 2 (apply Env_update; try discriminate). exact HE1. }
    destruct suf as [|x t].
    + assert (f = 0)%nat by (cbn [length] in Hf; lia). subst f. cbn [zrange_up for_loop stage]. eauto.
    + replace (Z.of_nat (length pre) + 1) with (Z.of_nat (length (pre ++ [x])%list)) by (rewrite app_length; cbn [length]; lia).
      apply IH; [rewrite <- app_assoc; exact Hobs|cbn [length] in Hf; lia|exact HE3].
Qed.

Lemma gc_stage ce fuel c obs en : 0 <= ff_k c < 2 ^ 53 -> Z.of_nat (length obs) < 2 ^ 53 -> Env c obs en ->
  stage c obs (match ff_gc c with
               | Some (lo, hi) =>
                   let n := Z.of_nat (length obs) in
                   if ff_k c <=? n
                   then windows_ok_float (Z.to_nat (n - ff_k c + 1)) (Z.to_nat (ff_k c)) lo hi (ff_k c) obs
                   else negb (PrimFloat.ltb (hi * fz (ff_k c))%float (fz (gc_count obs)))
                        && negb (PrimFloat.ltb ((1 - lo) * fz (ff_k c))%float (fz (at_count obs)))
               | None => true end)
    (exec ce fuel v_gc_st en).
Proof.
  intros Hk Hn HE. unfold v_gc_st. rewrite exec_if. fold v_win_body. fold v_short. ev.
  pose proof HE as (H1 & H2 & H3 & H4 & H5). rewrite H4.
  destruct (ff_gc c) as [[lo hi]|] eqn:Hgc; cbn [v_gc]; ev.
  2:{ go. cbn [stage]. eauto. }
  cbv zeta. rewrite exec_if. ev. rewrite H1, H5. ev.
  destruct (ff_k c <=? Z.of_nat (length obs)) eqn:Hlen.
  - rewrite exec_for. ev. rewrite H1, H5. ev. unfold range3. change (1 =? 0) with false. change (0 <? 1) with true.
    cbv iota. ev.
    replace (Z.to_nat ((Z.of_nat (length obs) - ff_k c + 1 - 0 + 1 - 1) / 1))
      with (Z.to_nat (Z.of_nat (length obs) - ff_k c + 1)) by lia.
    apply (win_loop ce fuel c obs lo hi Hgc Hk Hn _ [] obs en); [reflexivity|lia|exact HE].
  - unfold v_short. go. rewrite H1. go. change (countZ 67 obs + countZ 71 obs) with (gc_count obs).
    assert (Hg : 0 <= gc_count obs < 2 ^ 53) by (apply (gc_count_small obs (Z.of_nat (length obs))); lia).
    assert (Ha : 0 <= at_count obs < 2 ^ 53) by (apply (at_count_small obs (Z.of_nat (length obs))); lia).
    rewrite H4, H5. cbn [v_gc]. go. rewrite py_get_pair_1. go. rewrite (float_of_int_ok (ff_k c) Hk). go.
    rewrite (float_of_int_ok (gc_count obs) Hg). go.
    destruct (PrimFloat.ltb (hi * fz (ff_k c)) (fz (gc_count obs))); cbn [negb andb]; go; [reflexivity|].
    rewrite H1. go. change (countZ 65 obs + countZ 84 obs) with (at_count obs).
    rewrite H4, H5. cbn [v_gc]. go. rewrite py_get_pair_0. go.
    rewrite (float_of_int_ok 1) by lia. go. rewrite (float_of_int_ok (ff_k c) Hk). go.
    rewrite (float_of_int_ok (at_count obs) Ha). go. change (fz 1) with 1%float.
    destruct (PrimFloat.ltb ((1 - lo) * fz (ff_k c)) (fz (at_count obs))); cbn [negb]; go; [reflexivity|].
    cbn [stage]. eexists; split; [reflexivity|]. do 2 (apply Env_update; try discriminate). exact HE.
Qed.

(* ---- valid(): the stages in sequence ------------------------------------------------------------------------------------ *)
Definition checks (c : fcfg) (obs : list Z) : bool :=
  forallb is_acgt obs &&
  (match ff_run c with
   | Some r => negb (existsb (fun n => infixZ (repeat n (Z.to_nat (1 + r))) obs) [chA; chC; chG; chT])
   | None => true end) &&
  (match ff_motifs c with
   | Some ms => negb (existsb (fun m => infixZ m obs || infixZ (reverse_complement m) obs) ms)
   | None => true end) &&
  (match ff_gc c with
   | Some (lo, hi) =>
       let n := Z.of_nat (length obs) in
       if ff_k c <=? n
       then windows_ok_float (Z.to_nat (n - ff_k c + 1)) (Z.to_nat (ff_k c)) lo hi (ff_k c) obs
       else negb (PrimFloat.ltb (hi * fz (ff_k c))%float (fz (gc_count obs)))
            && negb (PrimFloat.ltb ((1 - lo) * fz (ff_k c))%float (fz (at_count obs)))
   | None => true end).

Lemma valid_float_checks c only_last s :
  valid_float c only_last s = checks c (if only_last then py_slice_from s (- ff_k c) else s).
Proof. reflexivity. Qed.

Lemma checks_exec ce fuel c obs en :
  0 <= ff_k c < 2 ^ 53 -> Z.of_nat (length obs) < 2 ^ 53 -> ascii_motifs (ff_motifs c) -> Env c obs en ->
  exec ce fuel (SSeq v_chars (SSeq v_runs (SSeq v_motifs_st (SSeq v_gc_st v_final)))) en = OReturn (VBool (checks c obs)).
Proof.
  intros Hk Hn HA HE. unfold checks.
  rewrite exec_seq. pose proof (chars_stage ce fuel c obs en HE) as S1.
  destruct (forallb is_acgt obs); cbn [stage] in S1; [|rewrite S1; reflexivity].
  destruct S1 as (en1 & -> & HE1). cbn [seq andb].
  rewrite exec_seq. pose proof (runs_stage ce fuel c obs en1 HE1) as S2.
  match type of S2 with stage _ _ ?b _ => destruct b end; cbn [stage] in S2; [|rewrite S2; reflexivity].
  destruct S2 as (en2 & -> & HE2). cbn [seq andb].
  rewrite exec_seq. pose proof (motifs_stage ce fuel c obs en2 HA HE2) as S3.
  match type of S3 with stage _ _ ?b _ => destruct b end; cbn [stage] in S3; [|rewrite S3; reflexivity].
  destruct S3 as (en3 & -> & HE3). cbn [seq andb].
  rewrite exec_seq. pose proof (gc_stage ce fuel c obs en3 Hk Hn HE3) as S4.
  match type of S4 with stage _ _ ?b _ => destruct b end; cbn [stage] in S4; [|rewrite S4; reflexivity].
  destruct S4 as (en4 & -> & HE4). cbn [seq]. reflexivity.
Qed.

Lemma valid_params_eq : params filter_valid_def =
  ["dna_sequence"; "only_last"; "self.max_homopolymer_runs"; "self.undesired_motifs"; "self.gc_range"; "self.observed_length"].
Proof. reflexivity. Qed.

Theorem filter_valid_gen : forall ce fuel c only_last s,
  0 <= ff_k c < 2 ^ 53 -> Z.of_nat (length s) < 2 ^ 53 -> ascii_motifs (ff_motifs c) ->
  run_fun ce fuel filter_valid_def
    [VStr s; VBool only_last; v_optint (ff_run c); v_motifs (ff_motifs c); v_gc (ff_gc c); VInt (ff_k c)]
  = Ret (VBool (valid_float c only_last s)).
Proof.
  intros ce fuel c only_last s Hk Hs HA. unfold run_fun. rewrite valid_body_eq, valid_params_eq. cbn [bind_params].
  rewrite valid_float_checks. rewrite exec_seq.
  set (R := SSeq v_chars (SSeq v_runs (SSeq v_motifs_st (SSeq v_gc_st v_final)))). unfold v_pick. go.
  destruct only_last; go; subst R.
  - rewrite Z.sub_0_l. fold (py_slice_from s (- ff_k c)).
    rewrite (checks_exec ce fuel c (py_slice_from s (- ff_k c))); [reflexivity|exact Hk| |exact HA|repeat split; reflexivity].
    pose proof (py_slice_from_length s (- ff_k c)). lia.
  - rewrite (checks_exec ce fuel c s); [reflexivity|exact Hk|exact Hs|exact HA|repeat split; reflexivity].
Qed.

(* ---- the constructor ------------------------------------------------------------------------------------------------------ *)
Definition i_run : stmt :=
  Eval cbv in match body filter_init_def with SSeq a _ => a | _ => SSkip end.
Definition i_motifs_body : stmt :=
  Eval cbv in match body filter_init_def with SSeq _ (SSeq (SIf _ (SFor _ _ bd) _) _) => bd | _ => SSkip end.
Definition i_motifs : stmt :=
  Eval cbv in match body filter_init_def with SSeq _ (SSeq a _) => a | _ => SSkip end.
Definition i_store : stmt :=
  Eval cbv in match body filter_init_def with SSeq _ (SSeq _ r) => r | _ => SSkip end.

Lemma init_body_eq : body filter_init_def = SSeq i_run (SSeq i_motifs i_store).
Proof. reflexivity. Qed.
Lemma init_params_eq : params filter_init_def = ["observed_length"; "max_homopolymer_runs"; "gc_range"; "undesired_motifs"].
Proof. reflexivity. Qed.

Definition Penv (k : Z) (run : option Z) (gc : option (float * float)) (motifs : option (list (list Z))) (en : env) : Prop :=
  lookup "observed_length" en = Ret (VInt k) /\
  lookup "max_homopolymer_runs" en = Ret (v_optint run) /\
  lookup "gc_range" en = Ret (v_gc gc) /\
  lookup "undesired_motifs" en = Ret (v_motifs motifs).

Lemma Penv_update k run gc motifs en x v :
  x <> "observed_length" -> x <> "max_homopolymer_runs" -> x <> "gc_range" -> x <> "undesired_motifs" ->
  Penv k run gc motifs en -> Penv k run gc motifs (update x v en).
Proof.
  intros N1 N2 N3 N4 (H1 & H2 & H3 & H4). unfold Penv.
  rewrite !lookup_update_other by (intro E; symmetry in E; contradiction). repeat split; assumption.
Qed.

Definition istage k run gc motifs (b : bool) (o : outcome) : Prop :=
  if b then exists en', o = ONormal en' /\ Penv k run gc motifs en' else o = OExn ValueError.

Lemma init_loop ce fuel k run gc motifs : forall ms i en, Penv k run gc motifs en ->
  istage k run gc motifs (forallb (fun m => negb (k <? Z.of_nat (length m))) ms)
    (for_loop ce fuel (TTuple ["index"; "undesired_motif"]) i_motifs_body (enumerate_from i (map VStr ms)) en).
Proof.
  induction ms as [|m ms IH]; intros i en HP.
  - cbn [map enumerate_from for_loop forallb istage]. eauto.
  - cbn [map enumerate_from forallb]. rewrite for_loop_cons. unfold i_motifs_body at 1.
    assert (HP1 : Penv k run gc motifs (update "undesired_motif" (VStr m) (update "index" (VInt i) en)))
      by (do 2 (apply Penv_update; try discriminate); exact HP).
    go. destruct HP1 as (H1 & H2 & H3 & H4). revert H1. lk. intros H1. rewrite H1. go.
    destruct (k <? Z.of_nat (length m)); cbn [negb andb]; go; [reflexivity|].
    apply IH. do 2 (apply Penv_update; try discriminate). exact HP.
Qed.

Lemma init_exec ce fuel k run gc motifs :
  let en0 := [("observed_length", VInt k); ("max_homopolymer_runs", v_optint run); ("gc_range", v_gc gc);
              ("undesired_motifs", v_motifs motifs)] in
  if ctor_accepts {| f_k := k; f_run := run; f_motifs := motifs; f_gc := None |}
  then exists en, exec ce fuel (body filter_init_def) en0 = ONormal en
    /\ lookup "self.observed_length" en = Ret (VInt k)
    /\ lookup "self.max_homopolymer_runs" en = Ret (v_optint run)
    /\ lookup "self.gc_range" en = Ret (v_gc gc)
    /\ lookup "self.undesired_motifs" en = Ret (v_motifs motifs)
  else exec ce fuel (body filter_init_def) en0 = OExn ValueError.
Proof.
  intros en0. rewrite init_body_eq. unfold ctor_accepts. cbn [f_k f_run f_motifs].
  assert (HP0 : Penv k run gc motifs en0) by (repeat split; reflexivity).
  rewrite exec_seq.
  assert (S1 : istage k run gc motifs (match run with Some r => negb (k <? r) | None => true end) (exec ce fuel i_run en0)).
  { unfold i_run, en0. destruct run as [r|]; cbn [v_optint]; go.
    - destruct (k <? r); cbn [negb]; go; [reflexivity|]. cbn [istage]. eexists; split; [reflexivity|exact HP0].
    - cbn [istage]. eexists; split; [reflexivity|exact HP0]. }
  destruct (match run with Some r => negb (k <? r) | None => true end); cbn [istage] in S1; [|rewrite S1; reflexivity].
  destruct S1 as (en1 & -> & HP1). cbn [seq andb]. rewrite exec_seq.
  assert (S2 : istage k run gc motifs
                 (match motifs with Some ms => forallb (fun m => negb (k <? Z.of_nat (length m))) ms | None => true end)
                 (exec ce fuel i_motifs en1)).
  { unfold i_motifs. rewrite exec_if. fold i_motifs_body. ev. pose proof HP1 as (H1 & H2 & H3 & H4). rewrite H4.
    destruct motifs as [ms|]; cbn [v_motifs]; ev.
    - rewrite exec_for. ev. rewrite H4. cbn [v_motifs]. ev. apply init_loop. exact HP1.
    - go. cbn [istage]. eexists; split; [reflexivity|exact HP1]. }
  match type of S2 with istage _ _ _ _ ?b _ => destruct b end; cbn [istage] in S2; [|rewrite S2; reflexivity].
  destruct S2 as (en2 & -> & (H1 & H2 & H3 & H4)). cbn [seq]. unfold i_store. go.
  rewrite H1. go. rewrite H2. go. rewrite H3. go. rewrite H4. go. eexists; split; [reflexivity|]. lk. repeat split; reflexivity.
Qed.

Theorem filter_init_rejects : forall ce fuel k run gc motifs,
  ctor_accepts {| f_k := k; f_run := run; f_motifs := motifs; f_gc := None |} = false ->
  run_proc ce fuel filter_init_def [VInt k; v_optint run; v_gc gc; v_motifs motifs] = Exn ValueError.
Proof.
  intros ce fuel k run gc motifs H. pose proof (init_exec ce fuel k run gc motifs) as X. cbv zeta in X. rewrite H in X.
  unfold run_proc. rewrite init_params_eq. cbn [bind_params]. rewrite X. reflexivity.
Qed.

Theorem filter_init_accepts : forall ce fuel k run gc motifs,
  ctor_accepts {| f_k := k; f_run := run; f_motifs := motifs; f_gc := None |} = true ->
  exists en, run_proc ce fuel filter_init_def [VInt k; v_optint run; v_gc gc; v_motifs motifs] = Ret en
    /\ lookup "self.observed_length" en = Ret (VInt k)
    /\ lookup "self.max_homopolymer_runs" en = Ret (v_optint run)
    /\ lookup "self.gc_range" en = Ret (v_gc gc)
    /\ lookup "self.undesired_motifs" en = Ret (v_motifs motifs).
Proof.
  intros ce fuel k run gc motifs H. pose proof (init_exec ce fuel k run gc motifs) as X. cbv zeta in X. rewrite H in X.
  destruct X as (en & E & L). exists en. split; [|exact L].
  unfold run_proc. rewrite init_params_eq. cbn [bind_params]. rewrite E. reflexivity.
Qed.

(* the object the constructor builds, then asked: for every accepted configuration *)
Theorem filter_object_gen : forall ce fuel c only_last s,
  ctor_accepts (to_cfg c) = true ->
  0 <= ff_k c < 2 ^ 53 -> Z.of_nat (length s) < 2 ^ 53 -> ascii_motifs (ff_motifs c) ->
  exists en, run_proc ce fuel filter_init_def [VInt (ff_k c); v_optint (ff_run c); v_gc (ff_gc c); v_motifs (ff_motifs c)] = Ret en
    /\ forall x_run x_mot x_gc x_k,
         lookup "self.max_homopolymer_runs" en = Ret x_run -> lookup "self.undesired_motifs" en = Ret x_mot ->
         lookup "self.gc_range" en = Ret x_gc -> lookup "self.observed_length" en = Ret x_k ->
         run_fun ce fuel filter_valid_def [VStr s; VBool only_last; x_run; x_mot; x_gc; x_k]
         = Ret (VBool (valid_float c only_last s)).
Proof.
  intros ce fuel c only_last s Hc Hk Hs HA.
  destruct (filter_init_accepts ce fuel (ff_k c) (ff_run c) (ff_gc c) (ff_motifs c)) as (en & E & L1 & L2 & L3 & L4).
  { exact Hc. }
  exists en. split; [exact E|]. intros x_run x_mot x_gc x_k X2 X4 X3 X1.
  rewrite L1 in X1. rewrite L2 in X2. rewrite L3 in X3. rewrite L4 in X4.
  injection X1 as <-. injection X2 as <-. injection X3 as <-. injection X4 as <-.
  apply filter_valid_gen; assumption.
Qed.

(* C12 for the source text *)
Theorem C12_valid_source : forall ce fuel c only_last s,
  products_ok c -> 0 <= ff_k c < 2 ^ 53 -> Z.of_nat (length s) <= 2 ^ 52 -> ascii_motifs (ff_motifs c) ->
  run_fun ce fuel filter_valid_def
    [VStr s; VBool only_last; v_optint (ff_run c); v_motifs (ff_motifs c); v_gc (ff_gc c); VInt (ff_k c)]
  = Ret (VBool (valid (to_cfg c) only_last s)).
Proof.
  intros ce fuel c only_last s Hp Hk Hs HA.
  rewrite filter_valid_gen; [|exact Hk|lia|exact HA].
  rewrite (valid_float_is_valid c only_last s Hp Hs). reflexivity.
Qed.

(* ---- non-vacuity ------------------------------------------------------------------------------------------------------------ *)
Definition c_f8 : fcfg := {| ff_k := 5; ff_run := None; ff_motifs := None; ff_gc := Some (0x1.999999999999ap-1, 1)%float |}.
Definition c_doc : fcfg :=
  {| ff_k := 8; ff_run := Some 2; ff_motifs := Some [[71; 67]];
     ff_gc := Some (0x1.999999999999ap-2, 0x1.3333333333333p-1)%float |}.        (* the docstring's example: 0.4, 0.6 *)

Example filter_gen_witness :
  (* F8: k = 5, gc = (0.8, 1), "T" *)
  run_fun (fun _ _ => Stuck) 0 filter_valid_def
    [VStr [84]; VBool true; v_optint (ff_run c_f8); v_motifs (ff_motifs c_f8); v_gc (ff_gc c_f8); VInt (ff_k c_f8)]
    = Ret (VBool false) /\ valid_float c_f8 true [84] = false
  (* the docstring: "ACGTACGT" accepted, "GCATGCAT" (motif) and "AAACCGGA" (run) rejected *)
  /\ run_fun (fun _ _ => Stuck) 0 filter_valid_def
       [VStr [65; 67; 71; 84; 65; 67; 71; 84]; VBool true; v_optint (ff_run c_doc); v_motifs (ff_motifs c_doc);
        v_gc (ff_gc c_doc); VInt (ff_k c_doc)] = Ret (VBool true)
  /\ valid_float c_doc true [65; 67; 71; 84; 65; 67; 71; 84] = true
  /\ run_fun (fun _ _ => Stuck) 0 filter_valid_def
       [VStr [71; 67; 65; 84; 71; 67; 65; 84]; VBool true; v_optint (ff_run c_doc); v_motifs (ff_motifs c_doc);
        v_gc (ff_gc c_doc); VInt (ff_k c_doc)] = Ret (VBool false)
  /\ run_fun (fun _ _ => Stuck) 0 filter_valid_def
       [VStr [65; 65; 65; 67; 67; 71; 71; 65]; VBool false; v_optint (ff_run c_doc); v_motifs (ff_motifs c_doc);
        v_gc (ff_gc c_doc); VInt (ff_k c_doc)] = Ret (VBool false)
  (* the constructor: accepted (the hypotheses of filter_object_gen hold for c_doc), rejected *)
  /\ ctor_accepts (to_cfg c_doc) = true
  /\ ascii_motifs (ff_motifs c_doc)
  /\ (exists en, run_proc (fun _ _ => Stuck) 0 filter_init_def
                   [VInt (ff_k c_doc); v_optint (ff_run c_doc); v_gc (ff_gc c_doc); v_motifs (ff_motifs c_doc)] = Ret en)
  /\ run_proc (fun _ _ => Stuck) 0 filter_init_def [VInt 1; VNone; VNone; v_motifs (Some [[71; 67]])] = Exn ValueError
  /\ run_proc (fun _ _ => Stuck) 0 filter_init_def [VInt 1; VInt 2; VNone; VNone] = Exn ValueError.
Proof.
  repeat split; try (vm_compute; reflexivity).
  - intros ms E. injection E as <-. repeat constructor.
  - eexists. vm_compute. reflexivity.
Qed.

Print Assumptions filter_valid_gen.
Print Assumptions filter_init_rejects.
Print Assumptions filter_init_accepts.
Print Assumptions filter_object_gen.
Print Assumptions C12_valid_source.
