(* ShuffleMTGenProofs.v -- create_random_shuffles REGENERATED from the current source, run with the stream of row permutations that
   the model of NumPy's generator (MT19937.v) produces for the given seed: the table is exactly the model's table -- so it is a
   function of (observed_length, seed) alone: the same seed gives the same table.
   Compiled on every run of the checks against the freshly generated ShuffleGen.v (harness/regen.py, unit "shuffle"). *)
From Coq Require Import Lia ZifyBool Sorting.Permutation.
From DSW Require Import MiniPyD MiniPyDLemmas Kmer KmerProofs Spec MT19937 ShuffleMTProofs.
From DSW Require Shuffle.
From DSWGen Require Import ShuffleGen ShuffleRepr ShuffleGenProofs ShuffleKnotGenProofs.
Open Scope Z_scope.
Open Scope string_scope.
Local Open Scope Z_scope.
Local Open Scope list_scope.
Notation lookup := MiniPyD.lookup.

(* STATUS: all targets proved with Qed exactly as stated (no hypothesis added, nothing left open): C18_numpy_table_source,
   C18_reproducible_source, C18_doctest_source (vm_compute).  py9_create_random_shuffles (ShuffleKnotGenProofs.v) with stream := rows;
   mt_rows_spec gives length rows = 4^k and perm4b for every row; perm4b = perm4_ok (nodupZ_nodupb); the model's table over the
   stream is the stream itself (stream_table: apply_perm_id row by row, then numpy_table_is_model).
   Print Assumptions: only the kernel primitives PrimFloat.* / PrimInt63.* that MiniPyD.val / call_in_ext depend on. *)

Lemma nodupZ_nodupb l : nodupZ l = nodupb l.
Proof. induction l as [|x t IH]; cbn [nodupZ nodupb]; [reflexivity|rewrite IH; reflexivity]. Qed.

Lemma perm4b_ok p : perm4b p = true -> perm4_ok p = true.
Proof. unfold perm4b, perm4_ok. rewrite nodupZ_nodupb. intro H; exact H. Qed.

Lemma stream_table k rows : length rows = Z.to_nat (pow4 k) -> Forall (fun p => perm4_ok p = true) rows ->
  Shuffle.create_random_shuffles k (stream_shuffle rows) = Shuffle.create_random_shuffles k (fun i _ => nth i rows []).
Proof.
  intros L F. unfold Shuffle.create_random_shuffles. apply map_ext_in. intros i Hi.
  apply in_seq in Hi. unfold stream_shuffle.
  destruct (nth_error rows i) as [p|] eqn:E.
  - rewrite (nth_error_nth _ _ _ E).
    apply apply_perm_id. rewrite Forall_forall in F. apply F. exact (nth_error_In _ _ E).
  - apply nth_error_None in E. lia.
Qed.

Lemma mt_rows_stream k seed rows : mt_rows (Z.to_nat (pow4 k)) seed = Some rows ->
  length rows = Z.to_nat (pow4 k) /\ Forall (fun p => perm4_ok p = true) rows
  /\ Shuffle.create_random_shuffles k (stream_shuffle rows) = rows.
Proof.
  intro H. destruct (mt_rows_spec _ _ _ H) as (L & _ & F).
  assert (F' : Forall (fun p => perm4_ok p = true) rows).
  { apply Forall_forall. intros p Hp. rewrite Forall_forall in F. apply perm4b_ok, F, Hp. }
  split; [exact L|]. split; [exact F'|].
  rewrite (stream_table k rows L F'). symmetry. exact (numpy_table_is_model k seed rows H).
Qed.

Theorem C18_numpy_table_source : forall ext fuel k seed verbose rows,
  seed_ok ext (VInt seed) -> mt_rows (Z.to_nat (pow4 k)) seed = Some rows ->
  py9 ext fuel "create_random_shuffles" [VInt (Z.of_nat k); VInt seed; VBool verbose; v_perms rows] = Ret (varr2 rows).
Proof.
  intros ext fuel k seed verbose rows Hs H.
  destruct (mt_rows_stream k seed rows H) as (L & F & T).
  rewrite (py9_create_random_shuffles ext fuel k (VInt seed) verbose rows Hs).
  - rewrite T. reflexivity.
  - lia.
  - rewrite firstn_all2 by lia. exact F.
Qed.

Theorem C18_reproducible_source : forall ext fuel fuel' k seed verbose verbose' rows,
  seed_ok ext (VInt seed) -> mt_rows (Z.to_nat (pow4 k)) seed = Some rows ->
  py9 ext fuel "create_random_shuffles" [VInt (Z.of_nat k); VInt seed; VBool verbose; v_perms rows]
  = py9 ext fuel' "create_random_shuffles" [VInt (Z.of_nat k); VInt seed; VBool verbose'; v_perms rows].
Proof.
  intros ext fuel fuel' k seed verbose verbose' rows Hs H.
  rewrite (C18_numpy_table_source ext fuel k seed verbose rows Hs H).
  rewrite (C18_numpy_table_source ext fuel' k seed verbose' rows Hs H). reflexivity.
Qed.

(* non-vacuity: the documented table of seed 2021, observed length 2, through the regenerated program *)
Example C18_doctest_source :
  py9 (fun f _ => if String.eqb f "__seed__" then Ret VNone else Stuck) 10 "create_random_shuffles"
      [VInt 2; VInt 2021; VBool false; v_perms (match mt_rows 16 2021 with Some r => r | None => [] end)]
  = Ret (varr2 [[3;2;1;0];[2;3;1;0];[3;1;0;2];[0;3;1;2];[3;2;0;1];[1;0;3;2];[0;3;1;2];[2;0;1;3];[2;3;0;1];[1;0;3;2];[2;0;1;3];[0;1;3;2];
                [2;3;1;0];[2;0;3;1];[0;1;3;2];[0;3;2;1]]).
Proof. vm_compute; reflexivity. Qed.

Print Assumptions C18_numpy_table_source.
Print Assumptions C18_reproducible_source.
