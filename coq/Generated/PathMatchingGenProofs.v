(* PathMatchingGenProofs.v -- the regenerated path_matching (dsw/graphized.py) computes Repair.path_matching, value and exception.
   Compiled on every run of the checks against the freshly generated RepairGen.v (harness/regen.py, unit "repair"). *)
From Coq Require Import Lia ZifyBool Permutation.
From DSW Require Import MiniPyR Repair Coder Convert Kmer Spec MiniPyRLemmas.
From DSWGen Require Import RepairGen RepairRepr.
Open Scope Z_scope.
Open Scope string_scope.
Ltac Zify.zify_post_hook ::= Z.to_euclidean_division_equations.
Local Open Scope Z_scope.
Local Open Scope list_scope.
Notation lookup := MiniPyR.lookup.

(* PROVED: path_matching_gen (end of file), value and exception, for all ce, fuel, s, acc (rows of four entries, entries arbitrary),
   prev, occ, has_indel -- with ONE added hypothesis, occ <> -1 (corollary path_matching_gen_nonneg: 0 <= occ, which is what
   repair_dna passes).  The statement as given is FALSE for occ = -1 (checked with Eval vm_compute on strings of length 1..6, every
   occ from -length-2 to length+2, prev in and out of range, both has_indel, foreign characters, the GC-balanced order-2 accessor, a
   complete accessor, an accessor with entries outside the graph, the empty accessor: occ = -1 is the only disagreement), e.g.
     s = "A", acc = the complete order-2 accessor (acc[v][j] = (4 v + j) mod 16), prev = 0, occ = -1, has_indel = False:
       program (= CPython):  ([(('S', -1, 'C'), 'C'), (('S', -1, 'G'), 'G'), (('S', -1, 'T'), 'T')], 3)
       Repair.path_matching: ([(('S', -1, 'C'), 'CA'), (('S', -1, 'G'), 'GA'), (('S', -1, 'T'), 'TA')], 3)
     s = "ACA", acc = the GC-balanced accessor of the docstring, prev = 4, occ = -1, has_indel = False:
       program: 'ACC', 'ACG' / model: 'ACCACA', 'ACGACA'.
   Reason: for occ = -1 dna_sequence[occ + 1:] is dna_sequence[0:], the whole string, in Python and in the model (py_slice_from s 0),
   so the walks and visited counts agree; but Python builds the repaired string from list(dna_sequence) by replacing / deleting
   position occ (the last symbol), whereas the model writes before ++ c :: after = s[:-1] ++ c :: s (resp. s[:-1] ++ s).  Insertion
   records agree for every occ.  No other hypothesis is needed: out-of-range prev, occ, vertex entries give IndexError on both sides
   in the same place; foreign characters simply end a walk (`in` is tested before `.index`).
   Structure: (1) body_step: one iteration of a walk loop = step_arc; (2) walk_loop: the SForB loop with break = walk_from, by
   induction on the rest of the string (the loop target is abstracted by feed1: enumerate(..) pairs or plain characters);
   (3)+(4) cand_loop: the loop over candidate nucleotides = try_each (the walk statement and the record statement are parameters:
   walks / records, instantiated by walks_L1 / walks_L2 and rec_S / rec_I / rec_D); (5) del_part, main_part, exec_S_orig and the
   theorem.  Environments are only ever described through lookup; `frame S en en'` says that only the variables in S changed. *)

(* ---- tactics ------------------------------------------------------------------------------------------------------ *)
Ltac lk := repeat (rewrite lookup_update_same || (rewrite lookup_update_other by discriminate)).

(* ---- lists --------------------------------------------------------------------------------------------------------- *)
Lemma nthZ_map {A B} (f : A -> B) : forall l n, nthZ (map f l) n = option_map f (nthZ l n).
Proof.
  induction l as [|x t IH]; intros n; [destruct n; reflexivity|].
  destruct n as [|n]; cbn [map nthZ option_map]; [reflexivity|apply IH].
Qed.

Lemma py_get_map {A B} (f : A -> B) l i :
  py_get (map f l) i = match py_get l i with Ok x => Ok (f x) | Raise e => Raise e | OutOfFuel => OutOfFuel end.
Proof.
  unfold py_get. rewrite map_length. cbv zeta.
  destruct (((if i <? 0 then i + Z.of_nat (length l) else i) <? 0)
            || (Z.of_nat (length l) <=? (if i <? 0 then i + Z.of_nat (length l) else i))); [reflexivity|].
  rewrite nthZ_map. destruct (nthZ l _); reflexivity.
Qed.

Lemma nthZ_in {A} : forall (l : list A) n x, nthZ l n = Some x -> In x l.
Proof.
  induction l as [|y t IH]; intros n x H; [destruct n; discriminate|].
  destruct n as [|n]; cbn [nthZ] in H; [injection H as <-; left; reflexivity|right; eapply IH; exact H].
Qed.

Lemma py_get_in {A} (l : list A) i x : py_get l i = Ok x -> In x l.
Proof.
  unfold py_get. cbv zeta. destruct (_ || _); [discriminate|].
  destruct (nthZ l _) as [y|] eqn:E; [|discriminate]. intro H; injection H as <-. eapply nthZ_in; exact E.
Qed.

Lemma py_get_raise {A} (l : list A) i e : py_get l i = Raise e -> e = IndexError.
Proof.
  unfold py_get. cbv zeta. destruct (_ || _); [intro H; injection H as <-; reflexivity|].
  destruct (nthZ l _); [discriminate|intro H; injection H as <-; reflexivity].
Qed.

Lemma py_get_fuel {A} (l : list A) i : py_get l i <> OutOfFuel.
Proof. unfold py_get. cbv zeta. destruct (_ || _); [discriminate|]. destruct (nthZ l _); discriminate. Qed.

Lemma map_res_map {A B C} (f : B -> res C) (h : A -> B) (k : A -> C) : forall l,
  (forall x, In x l -> f (h x) = Ret (k x)) -> map_res f (map h l) = Ret (map k l).
Proof.
  induction l as [|x t IH]; intros H; [reflexivity|].
  cbn [map map_res]. rewrite H by (left; reflexivity). cbn [rbind]. rewrite IH; [reflexivity|].
  intros y Hy. apply H. right. exact Hy.
Qed.

(* ---- NumPy primitives ----------------------------------------------------------------------------------------------- *)
Lemma index_varr2 a v :
  index_val (varr2 a) (VInt v) = match py_get a v with Ok row => Ret (varr row) | _ => Exn IndexError end.
Proof. unfold index_val, varr2. rewrite py_get_map. destruct (py_get a v); reflexivity. Qed.

Lemma index_varr l j :
  index_val (varr l) (VInt j) = match py_get l j with Ok x => Ret (VInt x) | _ => Exn IndexError end.
Proof. unfold index_val, varr. rewrite py_get_map. destruct (py_get l j); reflexivity. Qed.

(* MiniPyR compares through cmp_top (2-D arrays row by row): on a 1-D integer array it is cmp_vals *)
Lemma cmp_top_varr o row z : cmp_top o (varr row) (VInt z) = cmp_vals o (varr row) (VInt z).
Proof. destruct row; reflexivity. Qed.

Lemma cmp_ge0_varr row : cmp_vals CGe (varr row) (VInt 0) = Ret (VArr (map (fun x => VBool (0 <=? x)) row)).
Proof.
  unfold cmp_vals, varr.
  rewrite (map_res_map _ VInt (fun x => VBool (0 <=? x))); [reflexivity|]. intros x _. reflexivity.
Qed.

Lemma where_bools {A} (g : A -> bool) l :
  builtin1_val BNpWhere (VArr (map (fun x => VBool (g x)) l)) =
  Ret (VTuple [varr (used_indices (map (fun x => if g x then 0 else -1) l))]).
Proof.
  unfold builtin1_val.
  rewrite (map_res_map _ (fun x => VBool (g x)) g) by (intros; reflexivity). cbn [rbind].
  rewrite map_map. reflexivity.
Qed.

Lemma used_from_flag : forall row j, used_from (map (fun x => if 0 <=? x then 0 else -1) row) j = used_from row j.
Proof.
  induction row as [|x t IH]; intros j; [reflexivity|]. cbn [map used_from]. rewrite IH.
  destruct (0 <=? x); reflexivity.
Qed.

Lemma where_ge0 row : builtin1_val BNpWhere (VArr (map (fun x => VBool (0 <=? x)) row)) = Ret (VTuple [varr (used_indices row)]).
Proof. rewrite where_bools. unfold used_indices. rewrite used_from_flag. reflexivity. Qed.

Lemma index_tuple1 x : index_val (VTuple [x]) (VInt 0) = Ret x.
Proof. reflexivity. Qed.

Lemma used_from_range : forall row j x, In x (used_from row j) -> j <= x < j + Z.of_nat (length row).
Proof.
  induction row as [|y t IH]; intros j x H; [destruct H|].
  cbn [used_from] in H. cbn [length]. destruct (0 <=? y).
  - destruct H as [H|H]; [lia|]. apply IH in H. lia.
  - apply IH in H. lia.
Qed.

Lemma used_range row : length row = 4%nat -> Forall (fun j => 0 <= j < 4) (used_indices row).
Proof.
  intro Hl. apply Forall_forall. intros x Hx. unfold used_indices in Hx. apply used_from_range in Hx. rewrite Hl in Hx. lia.
Qed.

(* ---- nucleotides ----------------------------------------------------------------------------------------------------- *)
Definition ACGT : list Z := [65; 67; 71; 84].
Definition nucv (j : Z) : val := VStr [nuc_char j].

Lemma index_nuc r : 0 <= r < 4 -> index_val (VStr ACGT) (VInt r) = Ret (nucv r).
Proof.
  intro H. assert (C : r = 0 \/ r = 1 \/ r = 2 \/ r = 3) by lia.
  destruct C as [->|[->|[->| ->]]]; reflexivity.
Qed.

Lemma str_index_nuc c : builtin2_val BIndexOf (VStr ACGT) (VStr [c]) =
  match nuc_index c with Some j => Ret (VInt j) | None => Exn ValueError end.
Proof.
  unfold builtin2_val, str_index, nuc_index, ACGT. cbn [indexZ].
  destruct (c =? 65); [reflexivity|]. destruct (c =? 67); [reflexivity|].
  destruct (c =? 71); [reflexivity|]. destruct (c =? 84); reflexivity.
Qed.

Lemma nuc_index_char j : 0 <= j < 4 -> nuc_index (nuc_char j) = Some j.
Proof.
  intro H. assert (C : j = 0 \/ j = 1 \/ j = 2 \/ j = 3) by lia.
  destruct C as [->|[->|[->| ->]]]; reflexivity.
Qed.

Lemma val_eqb_nuc c j : 0 <= j < 4 ->
  val_eqb (VStr [c]) (nucv j) = match nuc_index c with Some j' => j' =? j | None => false end.
Proof.
  intro H. unfold nucv, val_eqb, listZ_eqb. rewrite andb_true_r.
  assert (C : j = 0 \/ j = 1 \/ j = 2 \/ j = 3) by lia.
  unfold nuc_index.
  destruct C as [->|[->|[->| ->]]];
    [change (nuc_char 0) with 65|change (nuc_char 1) with 67|change (nuc_char 2) with 71|change (nuc_char 3) with 84];
  destruct (c =? 65) eqn:E1; destruct (c =? 67) eqn:E2; destruct (c =? 71) eqn:E3; destruct (c =? 84) eqn:E4;
  cbv beta iota; try reflexivity; lia.
Qed.

Lemma forallb_nucv used : forallb (fun y => match y with VInt _ | VStr _ => true | _ => false end) (map nucv used) = true.
Proof. induction used as [|x t IH]; [reflexivity|exact IH]. Qed.

Lemma mem_nucs c : forall used, Forall (fun j => 0 <= j < 4) used ->
  mem_val (VStr [c]) (map nucv used) = match nuc_index c with Some j => memZ j used | None => false end.
Proof.
  induction used as [|u t IH]; intros H; [destruct (nuc_index c); reflexivity|].
  inversion H as [|? ? Hu Ht]; subst. cbn [map mem_val memZ].
  rewrite (val_eqb_nuc c u Hu). rewrite (IH Ht).
  destruct (nuc_index c) as [j|]; reflexivity.
Qed.

Lemma cmp_in_nucs c used : Forall (fun j => 0 <= j < 4) used ->
  cmp_top CIn (VStr [c]) (VList (map nucv used)) =
  Ret (VBool (match nuc_index c with Some j => memZ j used | None => false end)).
Proof.
  intro H. cbv beta iota delta [cmp_top cmp_vals cmp_scalar mixes_bool is_arr orb].
  rewrite forallb_nucv. rewrite (mem_nucs c used H). cbv zeta. rewrite Bool.xorb_false_l. reflexivity.
Qed.

(* ---- frames: which variables a piece of program may change ---------------------------------------------------------- *)
Definition frame (S : list string) (en en' : env) : Prop := forall x, ~ In x S -> lookup x en' = lookup x en.

Lemma frame_refl S en : frame S en en.
Proof. intros x _. reflexivity. Qed.

Lemma frame_trans S en1 en2 en3 : frame S en1 en2 -> frame S en2 en3 -> frame S en1 en3.
Proof. intros H1 H2 x Hx. rewrite (H2 x Hx). apply H1, Hx. Qed.

Lemma frame_incl S S' en en' : incl S S' -> frame S en en' -> frame S' en en'.
Proof. intros Hi H x Hx. apply H. intro Hin. apply Hx, Hi, Hin. Qed.

Lemma frame_update S y v en : In y S -> frame S en (update y v en).
Proof. intros Hy x Hx. apply lookup_update_other. intro E; subst x. apply Hx, Hy. Qed.

Lemma frame_update_r S y v en en' : In y S -> frame S en en' -> frame S en (update y v en').
Proof. intros Hy H. eapply frame_trans; [exact H|apply frame_update, Hy]. Qed.

Lemma notin_b y S : existsb (String.eqb y) S = false -> ~ In y S.
Proof.
  intros H Hin. assert (E : existsb (String.eqb y) S = true) by (apply existsb_exists; exists y; split; [exact Hin|apply String.eqb_refl]).
  congruence.
Qed.

Lemma in_b y S : existsb (String.eqb y) S = true -> In y S.
Proof. intro H. apply existsb_exists in H. destruct H as [x [Hx E]]. apply String.eqb_eq in E. subst x. exact Hx. Qed.

Ltac ni := first [apply notin_b; reflexivity | cbn [In]; intuition discriminate].
Ltac inl := first [apply in_b; reflexivity | cbn [In]; tauto].

(* the variables of a walk loop *)
Definition wscratch : list string := ["index"; "nucleotide"; "used_nucleotides"; "vertex_index"; "visited_count"; "reliable"].

(* ---- the pieces of the generated term --------------------------------------------------------------------------------- *)
Definition used_nucs_expr : expr :=
  (EComp (EIndex (EVar "nucleotides"%string) (EVar "used_index"%string)) "used_index"%string (EIndex (EB1 BNpWhere (ECmp CGe (EIndex (EVar "accessor"%string) (EVar "vertex_index"%string)) (EInt (0)))) (EInt (0)))).
Definition next_expr : expr :=
  (EIndex (EIndex (EVar "accessor"%string) (EVar "vertex_index"%string)) (EB2 BIndexOf (EVar "nucleotides"%string) (EVar "nucleotide"%string))).
Definition walk_body : stmt :=
 (SSeq (SAssign (TVar "used_nucleotides"%string) used_nucs_expr)
 (SIf (ECmp CIn (EVar "nucleotide"%string) (EVar "used_nucleotides"%string))
 (SSeq (SAssign (TVar "vertex_index"%string) next_expr)
 (SAug (TVar "visited_count"%string) Add (EInt (1))))
 (SSeq (SAssign (TVar "reliable"%string) (EBoolLit false))
 SBreak))).

Section Walk.
  Variable ce : string -> list val -> res val.
  Variable fuel : nat.
  Variable acc : list (list Z).
  Hypothesis Hacc : Forall (fun row => length row = 4%nat) acc.

  Lemma row_len v row : py_get acc v = Ok row -> length row = 4%nat.
  Proof. intro H. apply py_get_in in H. rewrite Forall_forall in Hacc. exact (Hacc _ H). Qed.

  Lemma eval_used_nucs en v :
    lookup "accessor" en = Ret (varr2 acc) -> lookup "vertex_index" en = Ret (VInt v) ->
    lookup "nucleotides" en = Ret (VStr ACGT) ->
    eval ce en used_nucs_expr =
    match py_get acc v with Ok row => Ret (VList (map nucv (used_indices row))) | _ => Exn IndexError end.
  Proof.
    intros HA HV HN. unfold used_nucs_expr. cbn [eval]. rewrite HA, HV. cbn [rbind]. rewrite index_varr2.
    destruct (py_get acc v) as [row|e|] eqn:Er; cbn [rbind]; try reflexivity.
    rewrite cmp_top_varr, cmp_ge0_varr. cbn [rbind]. rewrite where_ge0. cbn [rbind]. rewrite index_tuple1. cbn [rbind].
    rewrite items_varr. cbn [rbind].
    rewrite (map_res_map _ VInt nucv); [reflexivity|].
    intros x Hx. pose proof (used_range row (row_len v row Er)) as Hr. rewrite Forall_forall in Hr.
    lk. rewrite HN. cbn [rbind]. apply index_nuc. apply Hr, Hx.
  Qed.

  Lemma eval_next en v row c j : lookup "accessor" en = Ret (varr2 acc) -> lookup "vertex_index" en = Ret (VInt v) ->
    lookup "nucleotides" en = Ret (VStr ACGT) -> lookup "nucleotide" en = Ret (VStr [c]) ->
    py_get acc v = Ok row -> nuc_index c = Some j ->
    eval ce en next_expr = match py_get row j with Ok x => Ret (VInt x) | _ => Exn IndexError end.
  Proof.
    intros HA HV HN HC Hrow Hj. unfold next_expr. cbn [eval]. rewrite HA, HV, HN, HC. cbn [rbind].
    rewrite index_varr2, Hrow. cbn [rbind]. rewrite str_index_nuc, Hj. cbn [rbind]. apply index_varr.
  Qed.

  (* (1) one walk step = step_arc *)
  Lemma body_step en v vc c :
    lookup "accessor" en = Ret (varr2 acc) -> lookup "nucleotides" en = Ret (VStr ACGT) ->
    lookup "vertex_index" en = Ret (VInt v) -> lookup "visited_count" en = Ret (VInt vc) ->
    lookup "nucleotide" en = Ret (VStr [c]) ->
    match step_arc acc v c with
    | Ok (Some nxt) => exists en', exec ce fuel walk_body en = ONormal en' /\
                         lookup "vertex_index" en' = Ret (VInt nxt) /\ lookup "visited_count" en' = Ret (VInt (vc + 1)) /\
                         frame ["used_nucleotides"; "vertex_index"; "visited_count"] en en'
    | Ok None => exists en', exec ce fuel walk_body en = OBreak en' /\
                   lookup "reliable" en' = Ret (VBool false) /\ frame ["used_nucleotides"; "reliable"] en en'
    | Raise e => exec ce fuel walk_body en = OExn e
    | OutOfFuel => True
    end.
  Proof.
    intros HA HN HV HC Hc. unfold step_arc, walk_body. rewrite exec_seq. cbn [exec]. rewrite (eval_used_nucs en v HA HV HN).
    destruct (py_get acc v) as [row|e|] eqn:Er; cbn [bind lift]; [|apply py_get_raise in Er; subst e; reflexivity|exact I].
    cbn [assign seq]. set (en1 := update "used_nucleotides" (VList (map nucv (used_indices row))) en).
    assert (HA1 : lookup "accessor" en1 = Ret (varr2 acc)) by (unfold en1; lk; exact HA).
    assert (HN1 : lookup "nucleotides" en1 = Ret (VStr ACGT)) by (unfold en1; lk; exact HN).
    assert (HV1 : lookup "vertex_index" en1 = Ret (VInt v)) by (unfold en1; lk; exact HV).
    assert (HC1 : lookup "visited_count" en1 = Ret (VInt vc)) by (unfold en1; lk; exact HC).
    assert (Hc1 : lookup "nucleotide" en1 = Ret (VStr [c])) by (unfold en1; lk; exact Hc).
    assert (Hu1 : lookup "used_nucleotides" en1 = Ret (VList (map nucv (used_indices row)))) by (unfold en1; lk; reflexivity).
    assert (Hf1 : frame ["used_nucleotides"] en en1) by (apply frame_update; inl).
    clearbody en1.
    cbn [eval]. rewrite Hc1, Hu1. cbn [rbind].
    rewrite (cmp_in_nucs c _ (used_range row (row_len v row Er))). cbn [lift truthy].
    destruct (nuc_index c) as [j|] eqn:Ej.
    - destruct (memZ j (used_indices row)) eqn:Em.
      + rewrite (eval_next en1 v row c j HA1 HV1 HN1 Hc1 Er Ej).
        destruct (py_get row j) as [nxt|e|] eqn:En; cbn [bind lift]; [|apply py_get_raise in En; subst e; reflexivity|exact I].
        cbn [assign seq]. lk. rewrite HC1. cbn [lift eval binop_vals binop_scalar].
        eexists. split; [reflexivity|]. split; [lk; reflexivity|]. split; [lk; reflexivity|].
        apply frame_update_r; [inl|]. apply frame_update_r; [inl|]. eapply frame_incl; [|exact Hf1]. intros y Hy; revert Hy; inl.
      + cbn [eval lift assign seq]. eexists. split; [reflexivity|]. split; [lk; reflexivity|].
        apply frame_update_r; [inl|]. eapply frame_incl; [|exact Hf1]. intros y Hy; revert Hy; inl.
    - cbn [eval lift assign seq]. eexists. split; [reflexivity|]. split; [lk; reflexivity|].
      apply frame_update_r; [inl|]. eapply frame_incl; [|exact Hf1]. intros y Hy; revert Hy; inl.
  Qed.

  (* how a loop target binds one character of the walked string *)
  Definition feed1 (t : target) (v : val) (c : Z) : Prop :=
    forall en, exists en', assign ce t v en = ONormal en' /\ lookup "nucleotide" en' = Ret (VStr [c]) /\
                           frame ["index"; "nucleotide"] en en'.

  Lemma feeds_enum : forall cs i, Forall2 (feed1 (TTuple ["index"; "nucleotide"])) (enumerate_from i (chars cs)) cs.
  Proof.
    induction cs as [|c t IH]; intros i; [constructor|]. cbn [chars map enumerate_from]. constructor; [|apply IH].
    intro en. cbn [assign items lift bind_tuple]. eexists. split; [reflexivity|]. split; [lk; reflexivity|].
    apply frame_update_r; [inl|]. apply frame_update; inl.
  Qed.

  Lemma feeds_chars : forall cs, Forall2 (feed1 (TVar "nucleotide")) (chars cs) cs.
  Proof.
    induction cs as [|c t IH]; [constructor|]. cbn [chars map]. constructor; [|apply IH].
    intro en. cbn [assign]. eexists. split; [reflexivity|]. split; [lk; reflexivity|]. apply frame_update; inl.
  Qed.

  (* (2) the inner walk loop (with break) = walk_from *)
  Lemma walk_loop t : forall cs its en v vc, Forall2 (feed1 t) its cs ->
    lookup "accessor" en = Ret (varr2 acc) -> lookup "nucleotides" en = Ret (VStr ACGT) ->
    lookup "vertex_index" en = Ret (VInt v) -> lookup "visited_count" en = Ret (VInt vc) ->
    lookup "reliable" en = Ret (VBool true) ->
    match walk_from acc v cs vc with
    | Ok (b, vc') => exists en', for_loop_b ce fuel t walk_body its en = ONormal en' /\
                       lookup "reliable" en' = Ret (VBool b) /\ lookup "visited_count" en' = Ret (VInt vc') /\
                       frame wscratch en en'
    | Raise e => for_loop_b ce fuel t walk_body its en = OExn e
    | OutOfFuel => True
    end.
  Proof.
    induction cs as [|c cs IH]; intros its en v vc Hf HA HN HV HC HR; inversion Hf as [|it ? its' ? H1 H2]; subst.
    - cbn [walk_from for_loop_b]. exists en. split; [reflexivity|]. split; [exact HR|]. split; [exact HC|apply frame_refl].
    - cbn [walk_from for_loop_b]. destruct (H1 en) as [en1 [E1 [Hc1 Hf1]]]. rewrite E1. cbn [seq].
      assert (HA1 : lookup "accessor" en1 = Ret (varr2 acc)) by (rewrite Hf1 by ni; exact HA).
      assert (HN1 : lookup "nucleotides" en1 = Ret (VStr ACGT)) by (rewrite Hf1 by ni; exact HN).
      assert (HV1 : lookup "vertex_index" en1 = Ret (VInt v)) by (rewrite Hf1 by ni; exact HV).
      assert (HC1 : lookup "visited_count" en1 = Ret (VInt vc)) by (rewrite Hf1 by ni; exact HC).
      assert (HR1 : lookup "reliable" en1 = Ret (VBool true)) by (rewrite Hf1 by ni; exact HR).
      assert (Hw1 : frame wscratch en en1) by (eapply frame_incl; [|exact Hf1]; intros y Hy; revert Hy; unfold wscratch; inl).
      pose proof (body_step en1 v vc c HA1 HN1 HV1 HC1 Hc1) as B.
      destruct (step_arc acc v c) as [[nxt|]|e|]; cbn [bind]; [| | |exact I].
      + destruct B as [en2 [E2 [HV2 [HC2 Hf2]]]]. rewrite E2. cbn [loop_seq].
        assert (HA2 : lookup "accessor" en2 = Ret (varr2 acc)) by (rewrite Hf2 by ni; exact HA1).
        assert (HN2 : lookup "nucleotides" en2 = Ret (VStr ACGT)) by (rewrite Hf2 by ni; exact HN1).
        assert (HR2 : lookup "reliable" en2 = Ret (VBool true)) by (rewrite Hf2 by ni; exact HR1).
        assert (Hw2 : frame wscratch en1 en2) by (eapply frame_incl; [|exact Hf2]; intros y Hy; revert Hy; unfold wscratch; inl).
        specialize (IH its' en2 nxt (vc + 1) H2 HA2 HN2 HV2 HC2 HR2).
        destruct (walk_from acc nxt cs (vc + 1)) as [[b vc']|e|]; [|exact IH|exact I].
        destruct IH as [en3 [E3 [HR3 [HC3 Hf3]]]]. exists en3. split; [exact E3|]. split; [exact HR3|]. split; [exact HC3|].
        eapply frame_trans; [exact Hw1|]. eapply frame_trans; [exact Hw2|exact Hf3].
      + destruct B as [en2 [E2 [HR2 Hf2]]]. rewrite E2. cbn [loop_seq].
        exists en2. split; [reflexivity|]. split; [exact HR2|]. split; [rewrite Hf2 by ni; exact HC1|].
        eapply frame_trans; [exact Hw1|]. eapply frame_incl; [|exact Hf2]. intros y Hy; revert Hy; unfold wscratch; inl.
      + rewrite B. reflexivity.
  Qed.
End Walk.

(* ---- facts about the model ---------------------------------------------------------------------------------------------- *)
Lemma walk_from_shift acc : forall cs v vc,
  walk_from acc v cs vc =
  match walk_from acc v cs 0 with Ok (b, n) => Ok (b, vc + n) | Raise e => Raise e | OutOfFuel => OutOfFuel end.
Proof.
  induction cs as [|c cs IH]; intros v vc; cbn [walk_from].
  - f_equal. f_equal. lia.
  - destruct (step_arc acc v c) as [[nxt|]|e|]; cbn [bind]; try reflexivity.
    + rewrite (IH nxt (vc + 1)), (IH nxt (0 + 1)). destruct (walk_from acc nxt cs 0) as [[b n]|e|]; try reflexivity.
      f_equal. f_equal. lia.
    + f_equal. f_equal. lia.
Qed.

Lemma step_arc_nofuel acc v c : step_arc acc v c <> OutOfFuel.
Proof.
  unfold step_arc. destruct (py_get acc v) as [row|e|] eqn:E; cbn [bind]; [|discriminate|exfalso; exact (py_get_fuel _ _ E)].
  destruct (nuc_index c) as [j|]; [|discriminate]. destruct (memZ j (used_indices row)); [|discriminate].
  destruct (py_get row j) as [x|e|] eqn:F; cbn [bind]; [discriminate|discriminate|exfalso; exact (py_get_fuel _ _ F)].
Qed.

Lemma walk_from_nofuel acc : forall cs v vc, walk_from acc v cs vc <> OutOfFuel.
Proof.
  induction cs as [|c cs IH]; intros v vc; cbn [walk_from]; [discriminate|].
  destruct (step_arc acc v c) as [[nxt|]|e|] eqn:E; cbn [bind]; [apply IH|discriminate|discriminate|exfalso; exact (step_arc_nofuel _ _ _ E)].
Qed.

Lemma try_each_nofuel acc row rest mk : forall cands vc, try_each acc row cands rest mk vc <> OutOfFuel.
Proof.
  induction cands as [|j t IH]; intros vc; cbn [try_each]; [discriminate|].
  destruct (py_get row j) as [nxt|e|] eqn:E; cbn [bind]; [|discriminate|exfalso; exact (py_get_fuel _ _ E)].
  destruct (walk_from acc nxt rest 0) as [r|e|] eqn:F; cbn [bind]; [|discriminate|exfalso; exact (walk_from_nofuel _ _ _ _ F)].
  destruct (try_each acc row t rest mk (vc + snd r)) as [m|e|] eqn:G; cbn [bind]; [discriminate|discriminate|exfalso; exact (IH _ G)].
Qed.

(* ---- strings as lists of one-character strings ----------------------------------------------------------------------- *)
Lemma join_chars : forall l, join_strs [] (chars l) = Ret l.
Proof.
  induction l as [|c t IH]; [reflexivity|]. destruct t as [|c2 t']; [reflexivity|].
  change (join_strs [] (chars (c :: c2 :: t'))) with (r <~ join_strs [] (chars (c2 :: t')) ;; Ret ([c] ++ [] ++ r)).
  rewrite IH. reflexivity.
Qed.

Lemma set_nth_split {A} : forall (l : list A) p x, (p < length l)%nat -> set_nth l p x = firstn p l ++ x :: skipn (S p) l.
Proof.
  induction l as [|y t IH]; intros p x H; cbn [length] in H; [lia|].
  destruct p as [|p]; [reflexivity|]. cbn [set_nth firstn skipn app]. f_equal. apply IH. lia.
Qed.

Lemma chars_app a b : chars (a ++ b) = chars a ++ chars b.
Proof. unfold chars. apply map_app. Qed.

Lemma chars_length l : length (chars l) = length l.
Proof. unfold chars. apply map_length. Qed.

Lemma clampZ_eq n i j : j = (if i <? 0 then i + n else i) -> 0 <= j <= n -> clampZ n i = j.
Proof.
  intros -> H. unfold clampZ. destruct (i <? 0) eqn:E.
  - destruct (i + n <? 0) eqn:E1; [lia|]. destruct (n <? i + n) eqn:E2; lia.
  - destruct (i <? 0) eqn:E1; [lia|]. destruct (n <? i) eqn:E2; lia.
Qed.

Lemma tail_slice {A} (s : list A) a : 0 <= a <= Z.of_nat (length s) ->
  (if Z.of_nat (length s) <=? a then [] else firstn (Z.to_nat (Z.of_nat (length s) - a)) (skipn (Z.to_nat a) s)) = skipn (Z.to_nat a) s.
Proof.
  intro H. destruct (Z.of_nat (length s) <=? a) eqn:E.
  - symmetry. apply skipn_all2. lia.
  - apply firstn_all2. rewrite skipn_length. lia.
Qed.

(* dna_sequence[occ] exists and occ is not -1: the three slices the model uses *)
Lemma slices {A} (s : list A) occ x : py_get s occ = Ok x -> occ <> -1 ->
  let j := if occ <? 0 then occ + Z.of_nat (length s) else occ in
  0 <= j < Z.of_nat (length s) /\
  py_slice_to s occ = firstn (Z.to_nat j) s /\ py_slice_from s (occ + 1) = skipn (S (Z.to_nat j)) s /\
  py_slice_from s occ = skipn (Z.to_nat j) s.
Proof.
  intros H Hm. cbv zeta. unfold py_get in H. cbv zeta in H.
  set (n := Z.of_nat (length s)) in *. set (j := if occ <? 0 then occ + n else occ) in *.
  destruct ((j <? 0) || (n <=? j)) eqn:E; [discriminate|]. apply orb_false_iff in E. destruct E as [E1 E2].
  assert (Hj : 0 <= j < n) by lia. clear H E1 E2. split; [exact Hj|].
  assert (C0 : clampZ n 0 = 0) by (apply clampZ_eq; [reflexivity|lia]).
  assert (Cn : clampZ n n = n).
  { apply clampZ_eq; [|lia]. destruct (n <? 0) eqn:E; lia. }
  assert (Co : clampZ n occ = j) by (apply clampZ_eq; [reflexivity|lia]).
  assert (Co1 : clampZ n (occ + 1) = j + 1).
  { apply clampZ_eq; [|lia]. unfold j. destruct (occ <? 0) eqn:E; destruct (occ + 1 <? 0) eqn:F; lia. }
  split; [|split].
  - unfold py_slice_to, py_slice. fold n. cbv zeta. rewrite C0, Co. destruct (j <=? 0) eqn:E.
    + replace j with 0 by lia. reflexivity.
    + replace (j - 0) with j by lia. reflexivity.
  - unfold py_slice_from, py_slice. fold n. cbv zeta. rewrite Cn, Co1.
    replace (S (Z.to_nat j)) with (Z.to_nat (j + 1)) by lia. unfold n. apply tail_slice. fold n. lia.
  - unfold py_slice_from, py_slice. fold n. cbv zeta. rewrite Cn, Co. unfold n. apply tail_slice. fold n. lia.
Qed.

(* ---- [.. for n in .. if ..] ------------------------------------------------------------------------------------------- *)
Definition compif_go (ce : string -> list val -> res val) (en : env) (x : string) (bd cd : expr) : list val -> res (list val) :=
  fix go (l : list val) : res (list val) :=
    match l with
    | [] => Ret []
    | v :: t => c <~ eval ce (update x v en) cd ;; b <~ truthy c ;;
                if b then w <~ eval ce (update x v en) bd ;; r <~ go t ;; Ret (w :: r) else go t
    end.

Lemma eval_compif ce en bd x it cd :
  eval ce en (ECompIf bd x it cd) =
  (src <~ eval ce en it ;; l <~ items src ;; vs <~ compif_go ce en x bd cd l ;; Ret (VList vs)).
Proof. reflexivity. Qed.

(* ---- the statements of the generated body ------------------------------------------------------------------------------ *)
Definition L1 : stmt :=
 (SForB (TTuple ["index"%string; "nucleotide"%string]) (EB1 BEnumerate (ESlice (EVar "dna_sequence"%string) (Some (EBin Add (EVar "occur_location"%string) (EInt (1)))) None))
 walk_body).
Definition L2 : stmt :=
 (SForB (TVar "nucleotide"%string) (ESlice (EVar "dna_sequence"%string) (Some (EVar "occur_location"%string)) None)
 walk_body).
Definition rec_stmt (mut : stmt) (kc : Z) (x : string) : stmt :=
 (SSeq (SAssign (TVar "obtained_dna_sequence"%string) (EB1 BList (EVar "dna_sequence"%string)))
 (SSeq mut
 (SAppend "repair_info"%string (ETuple [(ETuple [(EStr [kc]); (EVar "occur_location"%string); (EVar x)]); (EB2 BJoin (EStr []) (EVar "obtained_dna_sequence"%string))])))).
Definition mut_S : stmt := (SAssign (TIndex "obtained_dna_sequence"%string (EVar "occur_location"%string)) (EVar "r_nucleotide"%string)).
Definition mut_I : stmt := (SInsert "obtained_dna_sequence"%string (EVar "occur_location"%string) (EVar "a_nucleotide"%string)).
Definition mut_D : stmt := (SDel "obtained_dna_sequence"%string (EVar "occur_location"%string)).
Definition cand_body (x : string) (L R : stmt) : stmt :=
 (SSeq (SAssign (TTuple ["vertex_index"%string; "reliable"%string]) (ETuple [(EIndex (EIndex (EVar "accessor"%string) (EVar "previous_index"%string)) (EB2 BIndexOf (EVar "nucleotides"%string) (EVar x))); (EBoolLit true)]))
 (SSeq L
 (SIf (EVar "reliable"%string) R SSkip))).

Definition subs_iter : expr :=
  (ECompIf (EVar "n"%string) "n"%string (EComp (EIndex (EVar "nucleotides"%string) (EVar "index"%string)) "index"%string (EVar "used_indices"%string)) (ECmp CNe (EVar "n"%string) (EVar "original"%string))).
Definition ins_iter : expr :=
  (EComp (EIndex (EVar "nucleotides"%string) (EVar "used_index"%string)) "used_index"%string (EVar "used_indices"%string)).
Definition S_none : stmt :=
 (SIf (EB1 BIsNone (EVar "nucleotides"%string))
 (SAssign (TVar "nucleotides"%string) (EStr [65; 67; 71; 84]))
 SSkip).
Definition S_init : stmt :=
 (SAssign (TTuple ["repair_info"%string; "visited_count"%string]) (ETuple [(EList []); (EInt (0))])).
Definition S_orig : stmt :=
 (SAssign (TTuple ["original"%string; "used_indices"%string]) (ETuple [(EIndex (EVar "dna_sequence"%string) (EVar "occur_location"%string)); (EIndex (EB1 BNpWhere (ECmp CGe (EIndex (EVar "accessor"%string) (EVar "previous_index"%string)) (EInt (0)))) (EInt (0)))])).
Definition R_S : stmt := rec_stmt mut_S 83 "r_nucleotide".
Definition R_I : stmt := rec_stmt mut_I 73 "a_nucleotide".
Definition R_D : stmt := rec_stmt mut_D 68 "d_nucleotide".
Definition S_subs : stmt := (SFor (TVar "r_nucleotide"%string) subs_iter (cand_body "r_nucleotide" L1 R_S)).
Definition S_ins : stmt := (SFor (TVar "a_nucleotide"%string) ins_iter (cand_body "a_nucleotide" L2 R_I)).
Definition S_dinit : stmt :=
 (SAssign (TTuple ["d_nucleotide"%string; "vertex_index"%string; "reliable"%string]) (ETuple [(EVar "original"%string); (EVar "previous_index"%string); (EBoolLit true)])).
Definition S_indel : stmt :=
 (SIf (EVar "has_indel"%string)
 (SSeq S_ins
 (SSeq S_dinit
 (SSeq L1
 (SIf (EVar "reliable"%string) R_D SSkip))))
 SSkip).
Definition S_ret : stmt := (SReturn (ETuple [(EVar "repair_info"%string); (EVar "visited_count"%string)])).

Lemma body_shape :
  body path_matching_def = SSeq S_none (SSeq S_init (SSeq S_orig (SSeq S_subs (SSeq S_indel S_ret)))).
Proof. reflexivity. Qed.

Lemma compif_go_cons ce en x bd cd v t :
  compif_go ce en x bd cd (v :: t) =
  (c <~ eval ce (update x v en) cd ;; b <~ truthy c ;;
   if b then w <~ eval ce (update x v en) bd ;; r <~ compif_go ce en x bd cd t ;; Ret (w :: r) else compif_go ce en x bd cd t).
Proof. reflexivity. Qed.

Lemma cmp_ne_nuc a c : cmp_top CNe (nucv a) (VStr [c]) = Ret (VBool (negb (nuc_char a =? c))).
Proof.
  unfold nucv. cbv beta iota delta [cmp_top cmp_vals cmp_scalar mixes_bool is_arr orb val_eqb listZ_eqb].
  rewrite andb_true_r. reflexivity.
Qed.

Definition consts : list string :=
  ["dna_sequence"; "accessor"; "previous_index"; "occur_location"; "has_indel"; "nucleotides"; "original"; "used_indices"].
(* everything else *)
Definition scr : list string :=
  ["r_nucleotide"; "a_nucleotide"; "d_nucleotide"; "index"; "nucleotide"; "used_nucleotides"; "vertex_index"; "visited_count";
   "reliable"; "obtained_dna_sequence"; "repair_info"].

Lemma consts_scr : forall y, In y consts -> ~ In y scr.
Proof. intros y Hy. cbn [In consts] in Hy. decompose [or] Hy; try contradiction; subst y; unfold scr; ni. Qed.

Lemma incl_w_scr : incl wscratch scr.
Proof. intros y Hy. cbn [In wscratch] in Hy. decompose [or] Hy; try contradiction; subst y; unfold scr; inl. Qed.

Section Cand.
  Variable ce : string -> list val -> res val.
  Variable fuel : nat.
  Variable acc : list (list Z).
  Hypothesis Hacc : Forall (fun row => length row = 4%nat) acc.
  Variables (s : list Z) (prev occ : Z) (hi : bool) (orig : Z) (row : list Z).
  Hypothesis Hs : py_get s occ = Ok orig.
  Hypothesis Hrow : py_get acc prev = Ok row.
  Hypothesis Hocc : occ <> -1.

  Definition cinv (en : env) : Prop :=
    lookup "dna_sequence" en = Ret (VStr s) /\ lookup "accessor" en = Ret (varr2 acc) /\
    lookup "previous_index" en = Ret (VInt prev) /\ lookup "occur_location" en = Ret (VInt occ) /\
    lookup "has_indel" en = Ret (VBool hi) /\ lookup "nucleotides" en = Ret (VStr ACGT) /\
    lookup "original" en = Ret (VStr [orig]) /\ lookup "used_indices" en = Ret (varr (used_indices row)).

  Lemma cinv_frame S en en' : (forall y, In y consts -> ~ In y S) -> cinv en -> frame S en en' -> cinv en'.
  Proof.
    intros Hd (H1 & H2 & H3 & H4 & H5 & H6 & H7 & H8) Hf. unfold cinv.
    repeat split; (rewrite Hf by (apply Hd; unfold consts; inl)); assumption.
  Qed.

  Lemma cinv_scr en en' : cinv en -> frame scr en en' -> cinv en'.
  Proof. apply cinv_frame, consts_scr. Qed.

  Lemma cinv_w en en' : cinv en -> frame wscratch en en' -> cinv en'.
  Proof. intros H Hf. eapply cinv_scr; [exact H|]. eapply frame_incl; [exact incl_w_scr|exact Hf]. Qed.

  Let jj : Z := if occ <? 0 then occ + Z.of_nat (length s) else occ.
  Let before : list Z := py_slice_to s occ.
  Let after : list Z := py_slice_from s (occ + 1).
  Let from_occ : list Z := py_slice_from s occ.

  Lemma jj_range : 0 <= jj < Z.of_nat (length s).
  Proof. exact (proj1 (slices s occ orig Hs Hocc)). Qed.
  Lemma before_eq : before = firstn (Z.to_nat jj) s.
  Proof. exact (proj1 (proj2 (slices s occ orig Hs Hocc))). Qed.
  Lemma after_eq : after = skipn (S (Z.to_nat jj)) s.
  Proof. exact (proj1 (proj2 (proj2 (slices s occ orig Hs Hocc)))). Qed.
  Lemma from_occ_eq : from_occ = skipn (Z.to_nat jj) s.
  Proof. exact (proj2 (proj2 (proj2 (slices s occ orig Hs Hocc)))). Qed.

  (* the loops walk the model's slices *)
  Definition walks (L : stmt) (rest : list Z) : Prop :=
    forall en v vc, cinv en -> lookup "vertex_index" en = Ret (VInt v) -> lookup "visited_count" en = Ret (VInt vc) ->
      lookup "reliable" en = Ret (VBool true) ->
      match walk_from acc v rest vc with
      | Ok (b, vc') => exists en', exec ce fuel L en = ONormal en' /\
                         lookup "reliable" en' = Ret (VBool b) /\ lookup "visited_count" en' = Ret (VInt vc') /\
                         frame wscratch en en'
      | Raise e => exec ce fuel L en = OExn e
      | OutOfFuel => True
      end.

  Lemma walks_L1 : walks L1 after.
  Proof.
    intros en v vc (H1 & H2 & H3 & H4 & H5 & H6 & H7 & H8) HV HC HR. unfold L1. rewrite exec_for_b.
    cbn [eval]. rewrite H1, H4. cbn [rbind binop_vals binop_scalar slice_val opt_int builtin1_val items lift].
    change (py_slice s (occ + 1) (Z.of_nat (length s))) with after.
    apply (walk_loop ce fuel acc Hacc _ after _ en v vc (feeds_enum ce after 0) H2 H6 HV HC HR).
  Qed.

  Lemma walks_L2 : walks L2 from_occ.
  Proof.
    intros en v vc (H1 & H2 & H3 & H4 & H5 & H6 & H7 & H8) HV HC HR. unfold L2. rewrite exec_for_b.
    cbn [eval]. rewrite H1, H4. cbn [rbind slice_val opt_int items lift].
    change (py_slice s occ (Z.of_nat (length s))) with from_occ.
    apply (walk_loop ce fuel acc Hacc _ from_occ _ en v vc (feeds_chars ce from_occ) H2 H6 HV HC HR).
  Qed.

  (* the three ways a record is made *)
  Definition records (R : stmt) (x : string) (mkc : Z -> record) : Prop :=
    forall en ri c, cinv en -> lookup x en = Ret (VStr [c]) -> lookup "repair_info" en = Ret (VList ri) ->
      exists en', exec ce fuel R en = ONormal en' /\
                  lookup "repair_info" en' = Ret (VList (ri ++ [v_record occ (mkc c)])) /\
                  frame ["obtained_dna_sequence"; "repair_info"] en en'.

  Lemma store_chars c :
    store_val (VList (chars s)) (VInt occ) (VStr [c]) = Ret (VList (chars (before ++ c :: after))).
  Proof.
    pose proof jj_range as Hj. unfold store_val. rewrite chars_length. cbv zeta. fold jj.
    destruct ((jj <? 0) || (Z.of_nat (length s) <=? jj)) eqn:E; [lia|].
    rewrite set_nth_split by (rewrite chars_length; lia).
    rewrite before_eq, after_eq, chars_app. unfold chars. cbn [map]. rewrite firstn_map, skipn_map. reflexivity.
  Qed.

  Lemma insert_chars c :
    insert_val (VList (chars s)) (VInt occ) (VStr [c]) = Ret (VList (chars (before ++ c :: from_occ))).
  Proof.
    pose proof jj_range as Hj. unfold insert_val. rewrite chars_length.
    rewrite (clampZ_eq (Z.of_nat (length s)) occ jj) by (first [reflexivity|lia]).
    rewrite before_eq, from_occ_eq, chars_app. unfold chars. cbn [map]. rewrite firstn_map, skipn_map. reflexivity.
  Qed.

  Lemma del_chars :
    firstn (Z.to_nat jj) (chars s) ++ skipn (S (Z.to_nat jj)) (chars s) = chars (before ++ after).
  Proof. rewrite before_eq, after_eq, chars_app. unfold chars. rewrite firstn_map, skipn_map. reflexivity. Qed.

  Lemma cinv_or en en' : cinv en -> frame ["obtained_dna_sequence"; "repair_info"] en en' -> cinv en'.
  Proof.
    intros H Hf. eapply cinv_scr; [exact H|]. eapply frame_incl; [|exact Hf].
    intros y Hy. cbn [In] in Hy. decompose [or] Hy; try contradiction; subst y; unfold scr; inl.
  Qed.

  Lemma rec_common mut kc x kd (f : Z -> list Z) :
    (forall en c, cinv en -> lookup x en = Ret (VStr [c]) -> lookup "obtained_dna_sequence" en = Ret (VList (chars s)) ->
       exists en', exec ce fuel mut en = ONormal en' /\ lookup "obtained_dna_sequence" en' = Ret (VList (chars (f c))) /\
                   frame ["obtained_dna_sequence"] en en') ->
    kind_char kd = kc -> ~ In x ["obtained_dna_sequence"; "repair_info"] ->
    records (rec_stmt mut kc x) x (fun c => (kd, c, f c)).
  Proof.
    intros Hmut Hk Hx en ri c Hinv Hxc Hri. unfold rec_stmt. rewrite exec_seq.
    replace (exec ce fuel (SAssign (TVar "obtained_dna_sequence") (EB1 BList (EVar "dna_sequence"))) en)
      with (ONormal (update "obtained_dna_sequence" (VList (chars s)) en))
      by (cbn [exec eval]; rewrite (proj1 Hinv); reflexivity).
    cbn [seq]. set (en1 := update "obtained_dna_sequence" (VList (chars s)) en).
    assert (F1 : frame ["obtained_dna_sequence"; "repair_info"] en en1) by (apply frame_update; inl).
    assert (Hinv1 : cinv en1) by (eapply cinv_or; [exact Hinv|exact F1]).
    assert (Hx1 : lookup x en1 = Ret (VStr [c])) by (rewrite F1 by exact Hx; exact Hxc).
    assert (Hob1 : lookup "obtained_dna_sequence" en1 = Ret (VList (chars s))) by (unfold en1; lk; reflexivity).
    assert (Hri1 : lookup "repair_info" en1 = Ret (VList ri)) by (unfold en1; lk; exact Hri).
    clearbody en1. rewrite exec_seq.
    destruct (Hmut en1 c Hinv1 Hx1 Hob1) as [en2 [E2 [Hob2 F2]]]. rewrite E2. cbn [seq].
    assert (F2' : frame ["obtained_dna_sequence"; "repair_info"] en1 en2).
    { eapply frame_incl; [|exact F2]. intros y Hy; revert Hy; inl. }
    assert (Hinv2 : cinv en2) by (eapply cinv_or; [exact Hinv1|exact F2']).
    assert (Hx2 : lookup x en2 = Ret (VStr [c])).
    { rewrite F2; [exact Hx1|]. intro Hin. apply Hx. cbn [In] in Hin |- *. tauto. }
    assert (Hri2 : lookup "repair_info" en2 = Ret (VList ri)) by (rewrite F2 by ni; exact Hri1).
    destruct Hinv2 as (_ & _ & _ & H4 & _).
    cbn [exec eval]. rewrite Hri2, H4, Hx2, Hob2. cbn [lift rbind builtin2_val items]. rewrite join_chars. cbn [rbind lift].
    eexists. split; [reflexivity|]. split; [lk; unfold v_record; rewrite <- Hk; reflexivity|].
    eapply frame_trans; [exact F1|]. eapply frame_trans; [exact F2'|]. apply frame_update; inl.
  Qed.

  Lemma rec_S : records (rec_stmt mut_S 83 "r_nucleotide") "r_nucleotide" (fun c => (0, c, before ++ c :: after)).
  Proof.
    apply rec_common; [|reflexivity|ni].
    intros en c (_ & _ & _ & H4 & _) Hx Hob. unfold mut_S. cbn [exec eval]. rewrite Hx. cbn [lift assign eval]. rewrite H4, Hob.
    cbn [lift]. rewrite store_chars. cbn [lift]. eexists. split; [reflexivity|]. split; [lk; reflexivity|apply frame_update; inl].
  Qed.

  Lemma rec_I : records (rec_stmt mut_I 73 "a_nucleotide") "a_nucleotide" (fun c => (1, c, before ++ c :: from_occ)).
  Proof.
    apply rec_common; [|reflexivity|ni].
    intros en c (_ & _ & _ & H4 & _) Hx Hob. unfold mut_I. cbn [exec eval]. rewrite Hob, H4, Hx. cbn [lift].
    rewrite insert_chars. cbn [lift]. eexists. split; [reflexivity|]. split; [lk; reflexivity|apply frame_update; inl].
  Qed.

  Lemma rec_D : records (rec_stmt mut_D 68 "d_nucleotide") "d_nucleotide" (fun c => (2, c, before ++ after)).
  Proof.
    apply rec_common; [|reflexivity|ni].
    intros en c (_ & _ & _ & H4 & _) Hx Hob. pose proof jj_range as Hj. unfold mut_D. cbn [exec eval]. rewrite Hob, H4. cbn [lift].
    rewrite chars_length. cbv zeta. fold jj.
    destruct ((jj <? 0) || (Z.of_nat (length s) <=? jj)) eqn:E; [lia|].
    rewrite del_chars. eexists. split; [reflexivity|]. split; [lk; reflexivity|apply frame_update; inl].
  Qed.

  Lemma frame_or_scr en en' : frame ["obtained_dna_sequence"; "repair_info"] en en' -> frame scr en en'.
  Proof.
    apply frame_incl. intros y Hy. cbn [In] in Hy. decompose [or] Hy; try contradiction; subst y; unfold scr; inl.
  Qed.

  Definition cand_init (x : string) : stmt :=
    (SAssign (TTuple ["vertex_index"%string; "reliable"%string]) (ETuple [(EIndex (EIndex (EVar "accessor"%string) (EVar "previous_index"%string)) (EB2 BIndexOf (EVar "nucleotides"%string) (EVar x))); (EBoolLit true)])).

  Lemma exec_cand_init x en j : cinv en -> 0 <= j < 4 -> lookup x en = Ret (nucv j) ->
    exec ce fuel (cand_init x) en =
    match py_get row j with
    | Ok nxt => ONormal (update "reliable" (VBool true) (update "vertex_index" (VInt nxt) en))
    | _ => OExn IndexError
    end.
  Proof.
    intros (H1 & H2 & H3 & H4 & H5 & H6 & H7 & H8) Hj Hx. unfold cand_init. cbn [exec eval]. rewrite H2, H3, H6, Hx. cbn [rbind].
    rewrite index_varr2, Hrow. cbn [rbind]. unfold nucv. rewrite str_index_nuc, (nuc_index_char j Hj). cbn [rbind].
    rewrite index_varr. destruct (py_get row j); reflexivity.
  Qed.

  Lemma exec_cand_body x L R en :
    exec ce fuel (cand_body x L R) en =
    seq (exec ce fuel (cand_init x) en) (fun en1 => seq (exec ce fuel L en1) (exec ce fuel (SIf (EVar "reliable") R SSkip))).
  Proof. reflexivity. Qed.

  (* (3) one candidate, (4) the loop over the candidates = try_each *)
  Lemma cand_loop x L R rest mkc : x = "r_nucleotide" \/ x = "a_nucleotide" -> walks L rest -> records R x mkc ->
    forall cands en ri vc, Forall (fun j => 0 <= j < 4) cands -> cinv en ->
      lookup "repair_info" en = Ret (VList ri) -> lookup "visited_count" en = Ret (VInt vc) ->
      match try_each acc row cands rest (fun j => mkc (nuc_char j)) vc with
      | Ok (recs, vc') => exists en', for_loop ce fuel (TVar x) (cand_body x L R) (map nucv cands) en = ONormal en' /\
                            lookup "repair_info" en' = Ret (VList (ri ++ map (v_record occ) recs)) /\
                            lookup "visited_count" en' = Ret (VInt vc') /\ frame scr en en'
      | Raise e => for_loop ce fuel (TVar x) (cand_body x L R) (map nucv cands) en = OExn e
      | OutOfFuel => True
      end.
  Proof.
    intros Hx HL HR. induction cands as [|j t IH]; intros en ri vc Hc Hinv Hri Hvc.
    - cbn [try_each map for_loop]. exists en. rewrite app_nil_r. split; [reflexivity|]. split; [exact Hri|]. split; [exact Hvc|apply frame_refl].
    - inversion Hc as [|? ? Hj Ht]; subst. cbn [try_each map for_loop assign seq].
      set (en1 := update x (nucv j) en).
      assert (Hxs : In x scr) by (destruct Hx; subst x; unfold scr; inl).
      assert (Hxw : ~ In x wscratch) by (destruct Hx; subst x; unfold wscratch; ni).
      assert (F1 : frame scr en en1) by (apply frame_update; exact Hxs).
      assert (Hinv1 : cinv en1) by (eapply cinv_scr; [exact Hinv|exact F1]).
      assert (Hx1 : lookup x en1 = Ret (nucv j)) by (unfold en1; apply lookup_update_same).
      assert (Hri1 : lookup "repair_info" en1 = Ret (VList ri)) by (unfold en1; destruct Hx; subst x; lk; exact Hri).
      assert (Hvc1 : lookup "visited_count" en1 = Ret (VInt vc)) by (unfold en1; destruct Hx; subst x; lk; exact Hvc).
      clearbody en1. rewrite exec_cand_body. rewrite (exec_cand_init x en1 j Hinv1 Hj Hx1).
      destruct (py_get row j) as [nxt|e|] eqn:En; cbn [bind seq];
        [|apply py_get_raise in En; subst e; reflexivity|exact I].
      set (en2 := update "reliable" (VBool true) (update "vertex_index" (VInt nxt) en1)).
      assert (F2 : frame wscratch en1 en2) by (apply frame_update_r; [unfold wscratch; inl|apply frame_update; unfold wscratch; inl]).
      assert (Hinv2 : cinv en2) by (eapply cinv_w; [exact Hinv1|exact F2]).
      assert (HV2 : lookup "vertex_index" en2 = Ret (VInt nxt)) by (unfold en2; lk; reflexivity).
      assert (HR2 : lookup "reliable" en2 = Ret (VBool true)) by (unfold en2; lk; reflexivity).
      assert (Hvc2 : lookup "visited_count" en2 = Ret (VInt vc)) by (unfold en2; lk; exact Hvc1).
      clearbody en2.
      pose proof (HL en2 nxt vc Hinv2 HV2 Hvc2 HR2) as W. rewrite walk_from_shift in W.
      destruct (walk_from acc nxt rest 0) as [[b n]|e|]; cbn [bind fst snd]; [|rewrite W; reflexivity|exact I].
      destruct W as [en3 [E3 [HR3 [Hvc3 F3]]]]. rewrite E3. cbn [seq]. rewrite exec_if. cbn [eval]. rewrite HR3. cbn [lift truthy].
      assert (Hinv3 : cinv en3) by (eapply cinv_w; [exact Hinv2|exact F3]).
      assert (Hx3 : lookup x en3 = Ret (nucv j)) by (rewrite F3 by exact Hxw; rewrite F2 by exact Hxw; exact Hx1).
      assert (Hri3 : lookup "repair_info" en3 = Ret (VList ri)) by (rewrite F3 by ni; rewrite F2 by ni; exact Hri1).
      assert (F13 : frame scr en en3).
      { eapply frame_trans; [exact F1|]. eapply frame_incl; [exact incl_w_scr|]. eapply frame_trans; [exact F2|exact F3]. }
      destruct b.
      + destruct (HR en3 ri (nuc_char j) Hinv3 Hx3 Hri3) as [en4 [E4 [Hri4 F4]]]. rewrite E4.
        assert (Hinv4 : cinv en4) by (eapply cinv_or; [exact Hinv3|exact F4]).
        assert (Hvc4 : lookup "visited_count" en4 = Ret (VInt (vc + n))) by (rewrite F4 by ni; exact Hvc3).
        specialize (IH en4 (ri ++ [v_record occ (mkc (nuc_char j))]) (vc + n) Ht Hinv4 Hri4 Hvc4).
        destruct (try_each acc row t rest (fun j0 => mkc (nuc_char j0)) (vc + n)) as [[recs vc']|e|]; cbn [bind fst snd]; [|exact IH|exact I].
        destruct IH as [en5 [E5 [Hri5 [Hvc5 F5]]]]. exists en5. split; [exact E5|]. split; [|split; [exact Hvc5|]].
        * rewrite Hri5. cbn [map]. rewrite <- app_assoc. reflexivity.
        * eapply frame_trans; [exact F13|]. eapply frame_trans; [apply frame_or_scr; exact F4|exact F5].
      + cbn [exec].
        specialize (IH en3 ri (vc + n) Ht Hinv3 Hri3 Hvc3).
        destruct (try_each acc row t rest (fun j0 => mkc (nuc_char j0)) (vc + n)) as [[recs vc']|e|]; cbn [bind fst snd]; [|exact IH|exact I].
        destruct IH as [en5 [E5 [Hri5 [Hvc5 F5]]]]. exists en5. split; [exact E5|]. split; [exact Hri5|]. split; [exact Hvc5|].
        eapply frame_trans; [exact F13|exact F5].
  Qed.

  (* (5) the sections *)
  Let used : list Z := used_indices row.

  Lemma used_ok : Forall (fun j => 0 <= j < 4) used.
  Proof. apply used_range. exact (row_len acc Hacc prev row Hrow). Qed.

  Lemma eval_comp_used en x : x = "index" \/ x = "used_index" -> cinv en ->
    eval ce en (EComp (EIndex (EVar "nucleotides") (EVar x)) x (EVar "used_indices")) = Ret (VList (map nucv used)).
  Proof.
    intros Hx (H1 & H2 & H3 & H4 & H5 & H6 & H7 & H8). cbn [eval]. rewrite H8. cbn [rbind]. rewrite items_varr. cbn [rbind].
    rewrite (map_res_map _ VInt nucv); [reflexivity|].
    intros y Hy. pose proof used_ok as Hr. rewrite Forall_forall in Hr.
    destruct Hx; subst x; lk; rewrite H6; cbn [rbind]; apply index_nuc, Hr, Hy.
  Qed.

  Lemma compif_filter en : cinv en -> forall l,
    compif_go ce en "n" (EVar "n") (ECmp CNe (EVar "n") (EVar "original")) (map nucv l) =
    Ret (map nucv (filter (fun j => negb (nuc_char j =? orig)) l)).
  Proof.
    intros (H1 & H2 & H3 & H4 & H5 & H6 & H7 & H8). induction l as [|a l IH]; [reflexivity|].
    cbn [map filter]. rewrite compif_go_cons. cbn [eval]. lk. rewrite H7. cbn [rbind]. rewrite cmp_ne_nuc. cbn [rbind truthy].
    rewrite IH. destruct (negb (nuc_char a =? orig)); reflexivity.
  Qed.

  Lemma eval_subs_iter en : cinv en ->
    eval ce en subs_iter = Ret (VList (map nucv (filter (fun j => negb (nuc_char j =? orig)) used))).
  Proof.
    intro Hinv. unfold subs_iter. rewrite eval_compif. rewrite (eval_comp_used en "index" (or_introl eq_refl) Hinv).
    cbn [rbind items]. rewrite (compif_filter en Hinv). reflexivity.
  Qed.

  Lemma filter_ok (f : Z -> bool) : Forall (fun j => 0 <= j < 4) (filter f used).
  Proof.
    pose proof used_ok as Hr. rewrite Forall_forall in Hr. apply Forall_forall. intros y Hy. apply filter_In in Hy. apply Hr, Hy.
  Qed.

  (* the model once dna_sequence[occ] and accessor[prev] are known to exist *)
  Definition pm_tail : result (list record * Z) :=
    subs <- try_each acc row (filter (fun j => negb (nuc_char j =? orig)) used) after
              (fun j => (0, nuc_char j, before ++ nuc_char j :: after)) 0 ;;
    if hi then
      ins <- try_each acc row used from_occ (fun j => (1, nuc_char j, before ++ nuc_char j :: from_occ)) (snd subs) ;;
      del <- walk_from acc prev after 0 ;;
      Ok (fst subs ++ fst ins ++ (if fst del then [(2, orig, before ++ after)] else []), snd ins + snd del)
    else Ok subs.

  Lemma pm_unfold : path_matching s acc prev occ hi = pm_tail.
  Proof. unfold path_matching. rewrite Hs, Hrow. reflexivity. Qed.

  Definition out_of (r : result (list record * Z)) : outcome :=
    match r with
    | Ok (recs, vc) => OReturn (VTuple [VList (map (v_record occ) recs); VInt vc])
    | Raise e => OExn e
    | OutOfFuel => OFuel
    end.

  Lemma exec_ret en ri vc : lookup "repair_info" en = Ret (VList ri) -> lookup "visited_count" en = Ret (VInt vc) ->
    exec ce fuel S_ret en = OReturn (VTuple [VList ri; VInt vc]).
  Proof. intros H1 H2. unfold S_ret. cbn [exec eval]. rewrite H1, H2. reflexivity. Qed.

  Lemma exec_S_dinit en : cinv en ->
    exec ce fuel S_dinit en =
    ONormal (update "reliable" (VBool true) (update "vertex_index" (VInt prev) (update "d_nucleotide" (VStr [orig]) en))).
  Proof.
    intros (H1 & H2 & H3 & H4 & H5 & H6 & H7 & H8). unfold S_dinit. cbn [exec eval]. rewrite H7, H3. reflexivity.
  Qed.

  Lemma del_part en ri vc : cinv en -> lookup "repair_info" en = Ret (VList ri) -> lookup "visited_count" en = Ret (VInt vc) ->
    match walk_from acc prev after 0 with
    | Ok (b, n) => exists en', exec ce fuel (SSeq S_dinit (SSeq L1 (SIf (EVar "reliable") R_D SSkip))) en = ONormal en' /\
                     lookup "repair_info" en' = Ret (VList (ri ++ map (v_record occ) (if b then [(2, orig, before ++ after)] else []))) /\
                     lookup "visited_count" en' = Ret (VInt (vc + n))
    | Raise e => exec ce fuel (SSeq S_dinit (SSeq L1 (SIf (EVar "reliable") R_D SSkip))) en = OExn e
    | OutOfFuel => True
    end.
  Proof.
    intros Hinv Hri Hvc. pose proof Hinv as (H1 & H2 & H3 & H4 & H5 & H6 & H7 & H8).
    rewrite exec_seq. rewrite (exec_S_dinit en Hinv). cbn [seq].
    set (en1 := update "reliable" (VBool true) (update "vertex_index" (VInt prev) (update "d_nucleotide" (VStr [orig]) en))).
    assert (F1 : frame scr en en1).
    { apply frame_update_r; [unfold scr; inl|]. apply frame_update_r; [unfold scr; inl|]. apply frame_update; unfold scr; inl. }
    assert (Hinv1 : cinv en1) by (eapply cinv_scr; [exact Hinv|exact F1]).
    assert (HV1 : lookup "vertex_index" en1 = Ret (VInt prev)) by (unfold en1; lk; reflexivity).
    assert (HR1 : lookup "reliable" en1 = Ret (VBool true)) by (unfold en1; lk; reflexivity).
    assert (Hd1 : lookup "d_nucleotide" en1 = Ret (VStr [orig])) by (unfold en1; lk; reflexivity).
    assert (Hri1 : lookup "repair_info" en1 = Ret (VList ri)) by (unfold en1; lk; exact Hri).
    assert (Hvc1 : lookup "visited_count" en1 = Ret (VInt vc)) by (unfold en1; lk; exact Hvc).
    clearbody en1. rewrite exec_seq.
    pose proof (walks_L1 en1 prev vc Hinv1 HV1 Hvc1 HR1) as W. rewrite walk_from_shift in W.
    destruct (walk_from acc prev after 0) as [[b n]|e|]; [|rewrite W; reflexivity|exact I].
    destruct W as [en2 [E2 [HR2 [Hvc2 F2]]]]. rewrite E2. cbn [seq]. rewrite exec_if. cbn [eval]. rewrite HR2. cbn [lift truthy].
    assert (Hinv2 : cinv en2) by (eapply cinv_w; [exact Hinv1|exact F2]).
    assert (Hd2 : lookup "d_nucleotide" en2 = Ret (VStr [orig])) by (rewrite F2 by (unfold wscratch; ni); exact Hd1).
    assert (Hri2 : lookup "repair_info" en2 = Ret (VList ri)) by (rewrite F2 by (unfold wscratch; ni); exact Hri1).
    destruct b.
    - destruct (rec_D en2 ri orig Hinv2 Hd2 Hri2) as [en3 [E3 [Hri3 F3]]]. unfold R_D. rewrite E3.
      exists en3. split; [reflexivity|]. split; [exact Hri3|]. rewrite F3 by ni. exact Hvc2.
    - cbn [exec]. exists en2. split; [reflexivity|]. split; [cbn [map]; rewrite app_nil_r; exact Hri2|exact Hvc2].
  Qed.

  Lemma main_part en : cinv en -> lookup "repair_info" en = Ret (VList []) -> lookup "visited_count" en = Ret (VInt 0) ->
    exec ce fuel (SSeq S_subs (SSeq S_indel S_ret)) en = out_of pm_tail.
  Proof.
    intros Hinv Hri Hvc. rewrite exec_seq. unfold S_subs. rewrite exec_for. rewrite (eval_subs_iter en Hinv). cbn [lift items].
    pose proof (cand_loop "r_nucleotide" L1 R_S after (fun c => (0, c, before ++ c :: after)) (or_introl eq_refl) walks_L1 rec_S
                  (filter (fun j => negb (nuc_char j =? orig)) used) en [] 0 (filter_ok _) Hinv Hri Hvc) as C.
    unfold pm_tail.
    destruct (try_each acc row (filter (fun j => negb (nuc_char j =? orig)) used) after
                (fun j => (0, nuc_char j, before ++ nuc_char j :: after)) 0) as [[recs1 vc1]|e|] eqn:T1; cbn [bind fst snd out_of];
      [|rewrite C; reflexivity|exfalso; exact (try_each_nofuel _ _ _ _ _ _ T1)].
    destruct C as [en1 [E1 [Hri1 [Hvc1 F1]]]]. rewrite E1. cbn [seq app] in *.
    assert (Hinv1 : cinv en1) by (eapply cinv_scr; [exact Hinv|exact F1]).
    pose proof Hinv1 as (H1 & H2 & H3 & H4 & H5 & H6 & H7 & H8).
    rewrite exec_seq. unfold S_indel. rewrite exec_if. cbn [eval]. rewrite H5. cbn [lift truthy].
    destruct hi.
    - rewrite exec_seq. unfold S_ins. rewrite exec_for. unfold ins_iter.
      rewrite (eval_comp_used en1 "used_index" (or_intror eq_refl) Hinv1). cbn [lift items].
      pose proof (cand_loop "a_nucleotide" L2 R_I from_occ (fun c => (1, c, before ++ c :: from_occ)) (or_intror eq_refl) walks_L2 rec_I
                    used en1 (map (v_record occ) recs1) vc1 used_ok Hinv1 Hri1 Hvc1) as C2.
      destruct (try_each acc row used from_occ (fun j => (1, nuc_char j, before ++ nuc_char j :: from_occ)) vc1)
        as [[recs2 vc2]|e|] eqn:T2; cbn [bind fst snd out_of];
        [|rewrite C2; reflexivity|exfalso; exact (try_each_nofuel _ _ _ _ _ _ T2)].
      destruct C2 as [en2 [E2 [Hri2 [Hvc2 F2]]]]. rewrite E2. cbn [seq].
      assert (Hinv2 : cinv en2) by (eapply cinv_scr; [exact Hinv1|exact F2]).
      pose proof (del_part en2 _ vc2 Hinv2 Hri2 Hvc2) as D.
      destruct (walk_from acc prev after 0) as [[b n]|e|] eqn:T3; cbn [bind fst snd out_of];
        [|rewrite D; reflexivity|exfalso; exact (walk_from_nofuel _ _ _ _ T3)].
      destruct D as [en3 [E3 [Hri3 Hvc3]]]. rewrite E3. cbn [seq].
      rewrite (exec_ret en3 _ _ Hri3 Hvc3). rewrite !map_app, app_assoc. reflexivity.
    - cbn [exec seq out_of]. rewrite (exec_ret en1 _ _ Hri1 Hvc1). reflexivity.
  Qed.
End Cand.

(* ---- the prelude ------------------------------------------------------------------------------------------------------ *)
Lemma exec_S_orig ce fuel s acc prev occ en :
  lookup "dna_sequence" en = Ret (VStr s) -> lookup "accessor" en = Ret (varr2 acc) ->
  lookup "previous_index" en = Ret (VInt prev) -> lookup "occur_location" en = Ret (VInt occ) ->
  exec ce fuel S_orig en =
  match py_get s occ with
  | Ok orig => match py_get acc prev with
               | Ok row => ONormal (update "used_indices" (varr (used_indices row)) (update "original" (VStr [orig]) en))
               | _ => OExn IndexError
               end
  | _ => OExn IndexError
  end.
Proof.
  intros H1 H2 H3 H4. unfold S_orig. cbn [exec eval]. rewrite H1, H2, H3, H4. cbn [rbind].
  change (index_val (VStr s) (VInt occ)) with (match py_get s occ with Ok c => Ret (VStr [c]) | _ => Exn IndexError end).
  destruct (py_get s occ) as [orig|e|]; cbn [rbind lift]; try reflexivity.
  rewrite index_varr2. destruct (py_get acc prev) as [row|e|]; cbn [rbind lift]; try reflexivity.
  rewrite cmp_top_varr, cmp_ge0_varr. cbn [rbind]. rewrite where_ge0. cbn [rbind]. rewrite index_tuple1.
  cbn [rbind lift assign items bind_tuple]. reflexivity.
Qed.

(* ---- the theorem ------------------------------------------------------------------------------------------------------ *)
(* STATEMENT AS GIVEN (false for occ = -1, see the note below):
   Theorem path_matching_gen : forall ce fuel s acc prev occ has_indel,
     Forall (fun row => length row = 4%nat) acc ->
     run_fun ce fuel path_matching_def [VStr s; varr2 acc; VInt prev; VInt occ; VBool has_indel; VNone]
     = res_of_matching occ (Repair.path_matching s acc prev occ has_indel).
   Added hypothesis: occ <> -1.  For occ = -1 Python's dna_sequence[occ + 1:] is dna_sequence[0:], the WHOLE string (and so is the
   model's py_slice_from s 0, so the walks agree), but the program builds the repaired string by list(dna_sequence) with
   [occ] replaced / deleted (the last symbol), whereas the model writes before ++ c :: after = s[:-1] ++ c :: s, resp. s[:-1] ++ s. *)
Theorem path_matching_gen : forall ce fuel s acc prev occ has_indel,
  Forall (fun row => length row = 4%nat) acc -> occ <> -1 ->
  run_fun ce fuel path_matching_def [VStr s; varr2 acc; VInt prev; VInt occ; VBool has_indel; VNone]
  = res_of_matching occ (Repair.path_matching s acc prev occ has_indel).
Proof.
  intros ce fuel s acc prev occ hi Hacc Hocc. unfold run_fun. rewrite body_shape.
  change (params path_matching_def) with ["dna_sequence"; "accessor"; "previous_index"; "occur_location"; "has_indel"; "nucleotides"].
  cbn [bind_params].
  set (en0 := [("dna_sequence", VStr s); ("accessor", varr2 acc); ("previous_index", VInt prev); ("occur_location", VInt occ);
               ("has_indel", VBool hi); ("nucleotides", VNone)]).
  set (en1 := [("dna_sequence", VStr s); ("accessor", varr2 acc); ("previous_index", VInt prev); ("occur_location", VInt occ);
               ("has_indel", VBool hi); ("nucleotides", VStr ACGT); ("repair_info", VList []); ("visited_count", VInt 0)]).
  rewrite exec_seq. replace (exec ce fuel S_none en0) with (ONormal (update "nucleotides" (VStr ACGT) en0)) by reflexivity.
  cbn [seq]. rewrite exec_seq. replace (exec ce fuel S_init (update "nucleotides" (VStr ACGT) en0)) with (ONormal en1) by reflexivity.
  cbn [seq]. rewrite exec_seq.
  rewrite (exec_S_orig ce fuel s acc prev occ en1 eq_refl eq_refl eq_refl eq_refl).
  destruct (py_get s occ) as [orig|e|] eqn:Hs.
  - destruct (py_get acc prev) as [row|e|] eqn:Hrow.
    + cbn [seq]. rewrite (pm_unfold acc s prev occ hi orig row Hs Hrow).
      rewrite (main_part ce fuel acc Hacc s prev occ hi orig row Hs Hrow Hocc); [| |reflexivity|reflexivity].
      * destruct (pm_tail acc s prev occ hi orig row) as [[recs vc]|e|]; reflexivity.
      * unfold cinv. repeat split; reflexivity.
    + cbn [seq]. unfold path_matching. rewrite Hs, Hrow. apply py_get_raise in Hrow. subst e. reflexivity.
    + exfalso. exact (py_get_fuel _ _ Hrow).
  - cbn [seq]. unfold path_matching. rewrite Hs. apply py_get_raise in Hs. subst e. reflexivity.
  - exfalso. exact (py_get_fuel _ _ Hs).
Qed.

(* what repair_dna needs: occur_location = observed_length - recall - 1 with recall < observed_length *)
Corollary path_matching_gen_nonneg : forall ce fuel s acc prev occ has_indel,
  Forall (fun row => length row = 4%nat) acc -> 0 <= occ ->
  run_fun ce fuel path_matching_def [VStr s; varr2 acc; VInt prev; VInt occ; VBool has_indel; VNone]
  = res_of_matching occ (Repair.path_matching s acc prev occ has_indel).
Proof. intros ce fuel s acc prev occ hi Hacc Hocc. apply path_matching_gen; [exact Hacc|lia]. Qed.

Print Assumptions path_matching_gen.
Print Assumptions path_matching_gen_nonneg.
