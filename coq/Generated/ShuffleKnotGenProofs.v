(* ShuffleKnotGenProofs.v -- create_random_shuffles REGENERATED from the current source, run as a module with its external function
   (MiniPyD.call_in_ext: "__seed__" is answered by ext), and C18's table clause restated for the source text.
   Compiled on every run of the checks against the freshly generated ShuffleGen.v (harness/regen.py, unit "shuffle"). *)
From Coq Require Import Lia ZifyBool Sorting.Permutation.
From DSW Require Import MiniPyD MiniPyDLemmas Kmer KmerProofs Spec.
From DSW Require Shuffle.
From DSWGen Require Import ShuffleGen ShuffleRepr ShuffleGenProofs.
Open Scope Z_scope.
Open Scope string_scope.
Local Open Scope Z_scope.
Local Open Scope list_scope.
Notation lookup := MiniPyD.lookup.

Definition py9 (ext : string -> list val -> res val) (fuel : nat) (f : string) (args : list val) : res val :=
  call_in_ext ext shuffle_module fuel f args.

(* STATUS: all four targets proved with Qed exactly as stated (no hypothesis added, nothing left open):

     Theorem py9_create_random_shuffles : forall ext fuel k seed verbose stream,
       seed_ok ext seed -> (Z.to_nat (pow4 k) <= length stream)%nat ->
       Forall (fun p => perm4_ok p = true) (firstn (Z.to_nat (pow4 k)) stream) ->
       py9 ext fuel "create_random_shuffles" [VInt (Z.of_nat k); seed; VBool verbose; v_perms stream]
       = Ret (varr2 (Shuffle.create_random_shuffles k (stream_shuffle stream))).
     Theorem C18_table_source : forall ext fuel k seed verbose stream,
       seed_ok ext seed -> (Z.to_nat (pow4 k) <= length stream)%nat ->
       Forall (fun p => perm4_ok p = true) (firstn (Z.to_nat (pow4 k)) stream) ->
       exists table, py9 ext fuel "create_random_shuffles" [VInt (Z.of_nat k); seed; VBool verbose; v_perms stream] = Ret (varr2 table)
         /\ length table = Z.to_nat (pow4 k) /\ Forall (fun r => Permutation r [0; 1; 2; 3]) table.
        (C18, table clause, for the source: one row per vertex, each row a permutation of 0..3 -- whatever permutations the
         generator applies)
     Theorem C18_seed_and_verbose_irrelevant_source : forall ext fuel k seed seed' verbose verbose' stream,
       seed_ok ext seed -> seed_ok ext seed' -> (Z.to_nat (pow4 k) <= length stream)%nat ->
       Forall (fun p => perm4_ok p = true) (firstn (Z.to_nat (pow4 k)) stream) ->
       py9 ext fuel "create_random_shuffles" [VInt (Z.of_nat k); seed; VBool verbose; v_perms stream]
       = py9 ext fuel "create_random_shuffles" [VInt (Z.of_nat k); seed'; VBool verbose'; v_perms stream].
        (the same stream gives the same table; neither the seed value nor verbose changes it)
     Theorem C18_bad_seed_source : forall ext fuel k seed verbose stream e,
       ext "__seed__" [seed] = Exn e ->
       py9 ext fuel "create_random_shuffles" [VInt (Z.of_nat k); seed; VBool verbose; v_perms stream] = Exn e.
        (a seed NumPy rejects: the function raises what numpy.random.seed raises and returns no table)

   shuffle_module has one function, so call_in_ext leaves "__seed__" to ext (py9_unfold; call_in_ext ext [] fuel is ext up to eta).
   perm4_permutation: a checked p has its entries in 0..3, so apply_perm p [0;1;2;3] = p (apply_perm_id), and p is duplicate-free
   of length 4 inside [0;1;2;3] (nodupb_NoDup, NoDup_Permutation_bis).
   Print Assumptions: as in ShuffleGenProofs.v, only the kernel primitives PrimFloat.* / PrimInt63.* that MiniPyD.val / run_fun /
   call_in_ext themselves depend on (the interpreter has floats); no assumed proposition of the standard library, nothing declared by /verif. *)

Lemma py9_unfold ext fuel args :
  py9 ext fuel "create_random_shuffles" args = run_fun (call_in_ext ext [] fuel) fuel create_random_shuffles_def args.
Proof. unfold py9, shuffle_module. cbn [call_in_ext String.eqb Ascii.eqb Bool.eqb]. reflexivity. Qed.

Theorem py9_create_random_shuffles : forall ext fuel k seed verbose stream,
  seed_ok ext seed -> (Z.to_nat (pow4 k) <= length stream)%nat ->
  Forall (fun p => perm4_ok p = true) (firstn (Z.to_nat (pow4 k)) stream) ->
  py9 ext fuel "create_random_shuffles" [VInt (Z.of_nat k); seed; VBool verbose; v_perms stream]
  = Ret (varr2 (Shuffle.create_random_shuffles k (stream_shuffle stream))).
Proof.
  intros ext fuel k seed verbose stream Hs Hlen Hok. rewrite py9_unfold.
  apply create_random_shuffles_gen; [exact Hs|exact Hlen|exact Hok].
Qed.

(* ---- a checked permutation of 0 .. 3 permutes [0;1;2;3] ---- *)
Lemma In_memZ x l : In x l -> memZ x l = true.
Proof.
  induction l as [|y t IH]; cbn [memZ In]; [contradiction|].
  intros [->|H]; [rewrite Z.eqb_refl; reflexivity|rewrite (IH H); apply orb_true_r].
Qed.

Lemma nodupb_NoDup l : nodupb l = true -> NoDup l.
Proof.
  induction l as [|x t IH]; cbn [nodupb]; intro H; [constructor|].
  apply andb_prop in H. destruct H as [H1 H2]. constructor; [|exact (IH H2)].
  intro Hin. rewrite (In_memZ _ _ Hin) in H1. discriminate.
Qed.

Lemma apply_perm_id p : perm4_ok p = true -> apply_perm p [0; 1; 2; 3] = p.
Proof.
  intro H. unfold apply_perm. rewrite <- (map_id p) at 2. apply map_ext_in. intros j Hj.
  pose proof (perm4_range p j H Hj) as R.
  assert (C : j = 0 \/ j = 1 \/ j = 2 \/ j = 3) by lia.
  destruct C as [->|[->|[->| ->]]]; reflexivity.
Qed.

Lemma perm4_permutation p : perm4_ok p = true -> Permutation (apply_perm p [0; 1; 2; 3]) [0; 1; 2; 3].
Proof.
  intro H. rewrite (apply_perm_id p H).
  assert (Hnd : NoDup p).
  { apply nodupb_NoDup. unfold perm4_ok in H. apply andb_prop in H. destruct H as [H _]. apply andb_prop in H. apply H. }
  apply NoDup_Permutation_bis; [exact Hnd|rewrite (perm4_length p H); cbn [length]; lia|].
  intros j Hj. pose proof (perm4_range p j H Hj) as R. cbn [In]. lia.
Qed.

Theorem C18_table_source : forall ext fuel k seed verbose stream,
  seed_ok ext seed -> (Z.to_nat (pow4 k) <= length stream)%nat ->
  Forall (fun p => perm4_ok p = true) (firstn (Z.to_nat (pow4 k)) stream) ->
  exists table, py9 ext fuel "create_random_shuffles" [VInt (Z.of_nat k); seed; VBool verbose; v_perms stream] = Ret (varr2 table)
    /\ length table = Z.to_nat (pow4 k) /\ Forall (fun r => Permutation r [0; 1; 2; 3]) table.
Proof.
  intros ext fuel k seed verbose stream Hs Hlen Hok.
  exists (Shuffle.create_random_shuffles k (stream_shuffle stream)). split; [|split].
  - apply py9_create_random_shuffles; assumption.
  - unfold Shuffle.create_random_shuffles. rewrite map_length, seq_length. reflexivity.
  - unfold Shuffle.create_random_shuffles. fold id4. rewrite (model_rows stream _ Hlen).
    apply Forall_forall. intros r Hr. apply in_map_iff in Hr. destruct Hr as (p & <- & Hp).
    rewrite Forall_forall in Hok. apply perm4_permutation, Hok, Hp.
Qed.

Theorem C18_seed_and_verbose_irrelevant_source : forall ext fuel k seed seed' verbose verbose' stream,
  seed_ok ext seed -> seed_ok ext seed' -> (Z.to_nat (pow4 k) <= length stream)%nat ->
  Forall (fun p => perm4_ok p = true) (firstn (Z.to_nat (pow4 k)) stream) ->
  py9 ext fuel "create_random_shuffles" [VInt (Z.of_nat k); seed; VBool verbose; v_perms stream]
  = py9 ext fuel "create_random_shuffles" [VInt (Z.of_nat k); seed'; VBool verbose'; v_perms stream].
Proof.
  intros ext fuel k seed seed' verbose verbose' stream Hs Hs' Hlen Hok.
  rewrite (py9_create_random_shuffles ext fuel k seed verbose stream Hs Hlen Hok).
  rewrite (py9_create_random_shuffles ext fuel k seed' verbose' stream Hs' Hlen Hok). reflexivity.
Qed.

Theorem C18_bad_seed_source : forall ext fuel k seed verbose stream e,
  ext "__seed__" [seed] = Exn e ->
  py9 ext fuel "create_random_shuffles" [VInt (Z.of_nat k); seed; VBool verbose; v_perms stream] = Exn e.
Proof.
  intros ext fuel k seed verbose stream e He. rewrite py9_unfold.
  apply create_random_shuffles_gen_raise. exact He.
Qed.

Print Assumptions py9_create_random_shuffles.
Print Assumptions C18_table_source.
Print Assumptions C18_seed_and_verbose_irrelevant_source.
Print Assumptions C18_bad_seed_source.
