(* GraphGenProofs.v -- ties the knot for the graph functions REGENERATED from the current source of dsw/graphized.py and
   dsw/spiderweb.py (GraphGen.graph_module, run by MiniPyG.call_in) and restates C13 / C14 / C11 for the source text.
   Compiled on every run of the checks against the freshly generated GraphGen.v (harness/regen.py, unit "graph"). *)
From Coq Require Import Lia ZifyBool Sorted.
From DSW Require Import MiniPyG Graph Kmer Convert Spec GraphSpec MiniPyGLemmas KmerProofs GraphProofs ReprProofs.
From DSWGen Require Import GraphGen GraphRepr KmerDeepGenProofs VerticesGenProofs LeavesGenProofs LmapGenProofs ValidGraphGenProofs.
Open Scope Z_scope.
Open Scope string_scope.
Ltac Zify.zify_post_hook ::= Z.to_euclidean_division_equations.
Local Open Scope Z_scope.
Notation lookup := MiniPyG.lookup.

(* running a function of the regenerated graph module *)
Definition py3 (fuel : nat) (f : string) (args : list val) : res val := call_in graph_module fuel f args.

(* STATUS: every target statement of the unit is proved below (Part A: the thirteen closed forms; Part B: C13, C14 round trip /
   vertices / leaves, C11 and its empty case), exactly as they were stated in the former TARGET STATEMENTS block, plus
   py3_latter_map_to_accessor_none (threshold None needs no fuel bound and no NoDup: there is no call of remove_useless), which is
   why C14_latter_map_roundtrip_source holds with the hypothesis (3 <= fuel) as stated (the proof does not even use it).
   find_vertices keeps its callee hypotheses (number_to_dna lives in dsw/operation.py, the filter is a parameter): nothing here.

   graph_module lists callers first (find_vertices, connect_valid_graph, latter_map_to_accessor, remove_useless,
   accessor_to_latter_map, obtain_leaf_vertices, obtain_vertices, get_complete_accessor, obtain_latters, obtain_formers);
   call_in resolves a name and runs it with the REST of the list as callees (mod_after "<name>"). *)

(* ==== Part A: the knot ============================================================================================== *)
(* the callees of a function of the module: what follows it in the list *)
Fixpoint mod_after (f : string) (m : module) : module :=
  match m with
  | [] => []
  | (g, _) :: rest => if String.eqb f g then rest else mod_after f rest
  end.

Ltac knot := unfold py3, graph_module; cbn [call_in mod_after String.eqb Ascii.eqb Bool.eqb]; reflexivity.

Lemma py3_obtain_formers_unfold fuel args :
  py3 fuel "obtain_formers" args = run_fun (call_in (mod_after "obtain_formers" graph_module) fuel) fuel obtain_formers_def args.
Proof. knot. Qed.
Lemma py3_obtain_latters_unfold fuel args :
  py3 fuel "obtain_latters" args = run_fun (call_in (mod_after "obtain_latters" graph_module) fuel) fuel obtain_latters_def args.
Proof. knot. Qed.
Lemma py3_get_complete_accessor_unfold fuel args :
  py3 fuel "get_complete_accessor" args
  = run_fun (call_in (mod_after "get_complete_accessor" graph_module) fuel) fuel get_complete_accessor_def args.
Proof. knot. Qed.
Lemma py3_obtain_vertices_unfold fuel args :
  py3 fuel "obtain_vertices" args = run_fun (call_in (mod_after "obtain_vertices" graph_module) fuel) fuel obtain_vertices_def args.
Proof. knot. Qed.
Lemma py3_obtain_leaf_vertices_unfold fuel args :
  py3 fuel "obtain_leaf_vertices" args
  = run_fun (call_in (mod_after "obtain_leaf_vertices" graph_module) fuel) fuel obtain_leaf_vertices_def args.
Proof. knot. Qed.
Lemma py3_accessor_to_latter_map_unfold fuel args :
  py3 fuel "accessor_to_latter_map" args
  = run_fun (call_in (mod_after "accessor_to_latter_map" graph_module) fuel) fuel accessor_to_latter_map_def args.
Proof. knot. Qed.
Lemma py3_remove_useless_unfold fuel args :
  py3 fuel "remove_useless" args = run_fun (call_in (mod_after "remove_useless" graph_module) fuel) fuel remove_useless_def args.
Proof. knot. Qed.
Lemma py3_latter_map_to_accessor_unfold fuel args :
  py3 fuel "latter_map_to_accessor" args
  = run_fun (call_in (mod_after "latter_map_to_accessor" graph_module) fuel) fuel latter_map_to_accessor_def args.
Proof. knot. Qed.
Lemma py3_connect_valid_graph_unfold fuel args :
  py3 fuel "connect_valid_graph" args
  = run_fun (call_in (mod_after "connect_valid_graph" graph_module) fuel) fuel connect_valid_graph_def args.
Proof. knot. Qed.

(* what the callers see of their callees: the resolved callee is the closed form *)
Lemma callee_obtain_latters_gca fuel args :
  call_in (mod_after "get_complete_accessor" graph_module) fuel "obtain_latters" args = py3 fuel "obtain_latters" args.
Proof. knot. Qed.
Lemma callee_obtain_latters_cvg fuel args :
  call_in (mod_after "connect_valid_graph" graph_module) fuel "obtain_latters" args = py3 fuel "obtain_latters" args.
Proof. knot. Qed.
Lemma callee_remove_useless_lmta fuel args :
  call_in (mod_after "latter_map_to_accessor" graph_module) fuel "remove_useless" args = py3 fuel "remove_useless" args.
Proof. knot. Qed.

(* ---- dsw/graphized.py: k-mers ---- *)
Theorem py3_obtain_latters : forall fuel current k,
  py3 fuel "obtain_latters" [VInt current; VInt (Z.of_nat k)] = Ret (VList (map VInt (obtain_latters current k))).
Proof. intros. rewrite py3_obtain_latters_unfold. apply obtain_latters_gen. Qed.

Theorem py3_obtain_formers : forall fuel current k, (1 <= k)%nat ->
  py3 fuel "obtain_formers" [VInt current; VInt (Z.of_nat k)] = Ret (VList (map VInt (obtain_formers current k))).
Proof. intros fuel current k Hk. rewrite py3_obtain_formers_unfold. apply obtain_formers_gen. exact Hk. Qed.

Theorem py3_get_complete_accessor : forall fuel k verbose,
  py3 fuel "get_complete_accessor" [VInt (Z.of_nat k); VBool verbose] = Ret (varr2 (get_complete_accessor k)).
Proof.
  intros fuel k verbose. rewrite py3_get_complete_accessor_unfold. apply get_complete_accessor_gen.
  intro current. rewrite callee_obtain_latters_gca. apply py3_obtain_latters.
Qed.

(* ---- representations ---- *)
Theorem py3_obtain_vertices : forall fuel acc,
  py3 fuel "obtain_vertices" [varr2 acc] = Ret (varr (Graph.obtain_vertices acc)).
Proof. intros. rewrite py3_obtain_vertices_unfold. apply obtain_vertices_gen_any. Qed.

Theorem py3_accessor_to_latter_map : forall fuel acc verbose,
  py3 fuel "accessor_to_latter_map" [varr2 acc; VBool verbose] = Ret (v_lmap (Graph.accessor_to_latter_map acc)).
Proof. intros. rewrite py3_accessor_to_latter_map_unfold. apply accessor_to_latter_map_gen_any. Qed.

Theorem py3_leaves_acc : forall fuel v d acc, rows4 acc -> 0 <= d ->
  py3 fuel "obtain_leaf_vertices" [VInt v; VInt d; varr2 acc; VNone] = res_of_arr (leaves_acc (Z.to_nat d) acc [v]).
Proof. intros fuel v d acc H4 Hd. rewrite py3_obtain_leaf_vertices_unfold. apply leaves_acc_gen; assumption. Qed.

Theorem py3_leaves_map : forall fuel v d m, 0 <= d ->
  py3 fuel "obtain_leaf_vertices" [VInt v; VInt d; VNone; v_lmap m] = Ret (varr (leaves_map (Z.to_nat d) m [v])).
Proof. intros fuel v d m Hd. rewrite py3_obtain_leaf_vertices_unfold. apply leaves_map_gen; assumption. Qed.

Theorem py3_leaves_both : forall fuel v d acc m,
  py3 fuel "obtain_leaf_vertices" [VInt v; VInt d; varr2 acc; v_lmap m] = Exn ValueError.
Proof. intros. rewrite py3_obtain_leaf_vertices_unfold. apply leaves_both_gen. Qed.

Theorem py3_leaves_none : forall fuel v d,
  py3 fuel "obtain_leaf_vertices" [VInt v; VInt d; VNone; VNone] = Exn ValueError.
Proof. intros. rewrite py3_obtain_leaf_vertices_unfold. apply leaves_none_gen. Qed.

Theorem py3_remove_useless : forall fuel m t verbose r, NoDup (map fst m) ->
  Graph.remove_useless m t = Ok r -> (S (lmap_size m) < fuel)%nat ->
  py3 fuel "remove_useless" [v_lmap m; VInt t; VBool verbose] = Ret (v_lmap r).
Proof. intros fuel m t verbose r HN HR Hf. rewrite py3_remove_useless_unfold. apply remove_useless_gen; assumption. Qed.

Theorem py3_latter_map_to_accessor : forall fuel m k threshold verbose, NoDup (map fst m) ->
  (S (lmap_size m) < fuel)%nat ->
  py3 fuel "latter_map_to_accessor" [v_lmap m; VInt (Z.of_nat k); v_opt threshold; VBool verbose]
  = res_of_acc (Graph.latter_map_to_accessor m k threshold).
Proof.
  intros fuel m k threshold verbose HN Hf. rewrite py3_latter_map_to_accessor_unfold.
  apply latter_map_to_accessor_gen; [exact HN| |exact Hf].
  intros m' t r HN' HR' Hf'. rewrite callee_remove_useless_lmta. apply py3_remove_useless; assumption.
Qed.

(* threshold None: remove_useless is not called, so neither the fuel bound nor NoDup is needed (the None branch of the proof
   of LmapGenProofs.latter_map_to_accessor_gen, for an arbitrary callee environment) *)
Lemma latter_map_to_accessor_none_gen : forall ce fuel m k verbose,
  run_fun ce fuel latter_map_to_accessor_def [v_lmap m; VInt (Z.of_nat k); VNone; VBool verbose]
  = res_of_acc (Graph.latter_map_to_accessor m k None).
Proof.
  intros ce fuel m k verbose. unfold run_fun, Graph.latter_map_to_accessor.
  cbn [params body bind_params latter_map_to_accessor_def].
  rewrite exec_seq, LmapGenProofs.exec_assign. cbn [eval lift assign seq update String.eqb Ascii.eqb Bool.eqb].
  rewrite exec_seq, LmapGenProofs.exec_assign. cbn [eval lift assign seq update String.eqb Ascii.eqb Bool.eqb].
  rewrite exec_seq, exec_if. cbn [eval lookup String.eqb Ascii.eqb Bool.eqb rbind].
  cbn [builtin1_val rbind truthy negb lift bind].
  rewrite LmapGenProofs.exec_skip. cbn [seq].
  pose proof (LmapGenProofs.tail_ok ce fuel m k verbose
                [("latter_map", v_lmap m); ("observed_length", VInt (Z.of_nat k)); ("threshold", VNone);
                 ("verbose", VBool verbose); ("nucleotides", VStr ACGT); ("monitor", VOpaque)]
                eq_refl eq_refl eq_refl eq_refl) as HT.
  unfold out_res, tail_stmt, map_body, arc_body, monitor2, ACGT in HT.
  pose proof (put_map_nofuel m (blank_accessor k)) as HNF.
  destruct (put_map (blank_accessor k) m) as [a|e|]; [rewrite HT; reflexivity|rewrite HT; reflexivity|contradiction].
Qed.

Theorem py3_latter_map_to_accessor_none : forall fuel m k verbose,
  py3 fuel "latter_map_to_accessor" [v_lmap m; VInt (Z.of_nat k); VNone; VBool verbose]
  = res_of_acc (Graph.latter_map_to_accessor m k None).
Proof. intros. rewrite py3_latter_map_to_accessor_unfold. apply latter_map_to_accessor_none_gen. Qed.

(* ---- dsw/spiderweb.py: the valid graph ---- *)
Theorem py3_connect_valid_graph : forall fuel k mask verbose, length mask = Z.to_nat (pow4 k) ->
  Z.of_nat (length mask) < 2 ^ 1000 -> Forall (fun x => 0 <= x <= 1) mask ->
  py3 fuel "connect_valid_graph" [VInt (Z.of_nat k); v_mask_int mask; VBool verbose]
  = res_of_acc (Graph.connect_valid_graph k mask).
Proof.
  intros fuel k mask verbose HL HB HF. rewrite py3_connect_valid_graph_unfold.
  apply connect_valid_graph_gen; try assumption.
  intro current. rewrite callee_obtain_latters_cvg. apply py3_obtain_latters.
Qed.

Theorem py3_connect_valid_graph_bool : forall fuel k mask verbose, length mask = Z.to_nat (pow4 k) ->
  Z.of_nat (length mask) < 2 ^ 1000 -> Forall (fun x => 0 <= x <= 1) mask ->
  py3 fuel "connect_valid_graph" [VInt (Z.of_nat k); v_mask_bool mask; VBool verbose]
  = res_of_acc (Graph.connect_valid_graph k mask).
Proof.
  intros fuel k mask verbose HL HB HF. rewrite py3_connect_valid_graph_unfold.
  apply connect_valid_graph_gen_bool; try assumption.
  intro current. rewrite callee_obtain_latters_cvg. apply py3_obtain_latters.
Qed.

(* ==== Part B: the properties for the source text ==================================================================== *)
Local Open Scope list_scope.

(* GraphSpec.rows4 and GraphRepr.rows4 are the same predicate *)
Lemma legal_rows4 k acc : legal k acc -> rows4 acc.
Proof. intros (_ & H4 & _). exact H4. Qed.

(* C13: get_complete_accessor of the source builds the complete de Bruijn graph of order k *)
Theorem C13_complete_source : forall fuel k verbose,
  exists acc, py3 fuel "get_complete_accessor" [VInt (Z.of_nat k); VBool verbose] = Ret (varr2 acc)
    /\ length acc = Z.to_nat (pow4 k) /\ legal k acc
    /\ forall v, 0 <= v < pow4 k -> nth (Z.to_nat v) acc [] = obtain_latters v k.
Proof.
  intros fuel k verbose. exists (get_complete_accessor k).
  split; [apply py3_get_complete_accessor|].
  split; [|split; [apply complete_legal|]].
  - pose proof (pow4_pos k) as Hp. apply (complete_spec k 0). lia.
  - intros v Hv. apply (complete_spec k v Hv).
Qed.

(* C14: accessor -> latter map -> accessor is the identity on legal accessors (threshold None: any fuel) *)
Theorem C14_latter_map_roundtrip_source : forall fuel k acc verbose, (1 <= k)%nat -> legal k acc -> (3 <= fuel)%nat ->
  exists m, py3 fuel "accessor_to_latter_map" [varr2 acc; VBool verbose] = Ret (v_lmap m)
    /\ py3 fuel "latter_map_to_accessor" [v_lmap m; VInt (Z.of_nat k); VNone; VBool verbose] = Ret (varr2 acc).
Proof.
  intros fuel k acc verbose Hk HL _. exists (accessor_to_latter_map acc).
  split; [apply py3_accessor_to_latter_map|].
  rewrite py3_latter_map_to_accessor_none, (latter_map_roundtrip_partial k acc Hk HL). reflexivity.
Qed.

Theorem C14_vertices_source : forall fuel k acc, legal k acc ->
  exists l, py3 fuel "obtain_vertices" [varr2 acc] = Ret (varr l) /\ StronglySorted Z.lt l
    /\ forall v, In v l <-> (0 <= v < pow4 k /\ live acc v).
Proof.
  intros fuel k acc HL. exists (Graph.obtain_vertices acc).
  split; [apply py3_obtain_vertices|]. apply (obtain_vertices_spec k acc HL).
Qed.

Theorem C14_leaves_agree_source : forall fuel k acc d v verbose, legal k acc -> 0 <= v < pow4 k -> 0 <= d ->
  exists m l, py3 fuel "accessor_to_latter_map" [varr2 acc; VBool verbose] = Ret (v_lmap m)
    /\ py3 fuel "obtain_leaf_vertices" [VInt v; VInt d; varr2 acc; VNone] = Ret (varr l)
    /\ py3 fuel "obtain_leaf_vertices" [VInt v; VInt d; VNone; v_lmap m] = Ret (varr l)
    /\ l = walk_ends acc (Z.to_nat d) v.
Proof.
  intros fuel k acc d v verbose HL Hv Hd.
  exists (accessor_to_latter_map acc), (walk_ends acc (Z.to_nat d) v).
  split; [apply py3_accessor_to_latter_map|].
  pose proof (leaves_are_walk_ends k acc (Z.to_nat d) v HL Hv) as HW.
  pose proof (leaves_agree k acc (Z.to_nat d) v HL Hv) as HA.
  split; [|split; [|reflexivity]].
  - rewrite (py3_leaves_acc fuel v d acc (legal_rows4 k acc HL) Hd), HW. reflexivity.
  - rewrite (py3_leaves_map fuel v d (accessor_to_latter_map acc) Hd).
    rewrite HW in HA. injection HA as HA. rewrite <- HA. reflexivity.
Qed.

(* C11: the valid graph of a 0/1 mask (the boolean array find_vertices returns) is the induced graph; ValueError when empty *)
Lemma mask_small k (mask : list Z) : length mask = Z.to_nat (pow4 k) -> Z.of_nat k < 400 -> Z.of_nat (length mask) < 2 ^ 1000.
Proof.
  intros HL Hk. rewrite HL, pow4_nat. apply pow4_lt_1000. exact Hk.
Qed.

Theorem C11_valid_graph_source : forall fuel k mask verbose, length mask = Z.to_nat (pow4 k) -> Z.of_nat k < 400 ->
  Forall (fun x => 0 <= x <= 1) mask ->
  (exists v, 0 <= v < pow4 k /\ maskb mask v = true) ->
  py3 fuel "connect_valid_graph" [VInt (Z.of_nat k); v_mask_bool mask; VBool verbose] = Ret (varr2 (induced k mask))
  /\ legal k (induced k mask).
Proof.
  intros fuel k mask verbose HL Hk HF (v & Hv & Hm).
  split; [|apply induced_legal].
  rewrite (py3_connect_valid_graph_bool fuel k mask verbose HL (mask_small k mask HL Hk) HF).
  assert (HF0 : Forall (fun x => 0 <= x) mask) by (eapply Forall_impl; [|exact HF]; cbv beta; intros; lia).
  pose proof (connect_valid_graph_spec k mask HF0 HL) as HS.
  destruct (connect_valid_graph k mask) as [a|e|]; [|destruct e; try contradiction|contradiction].
  - destruct HS as (-> & _). reflexivity.
  - rewrite (HS v Hv) in Hm. discriminate.
Qed.

Theorem C11_valid_graph_empty_source : forall fuel k mask verbose, length mask = Z.to_nat (pow4 k) -> Z.of_nat k < 400 ->
  Forall (fun x => x = 0) mask ->
  py3 fuel "connect_valid_graph" [VInt (Z.of_nat k); v_mask_bool mask; VBool verbose] = Exn ValueError.
Proof.
  intros fuel k mask verbose HL Hk HZ.
  assert (HF : Forall (fun x => 0 <= x <= 1) mask) by (eapply Forall_impl; [|exact HZ]; cbv beta; intros; lia).
  assert (HF0 : Forall (fun x => 0 <= x) mask) by (eapply Forall_impl; [|exact HZ]; cbv beta; intros; lia).
  rewrite (py3_connect_valid_graph_bool fuel k mask verbose HL (mask_small k mask HL Hk) HF).
  pose proof (connect_valid_graph_spec k mask HF0 HL) as HS.
  assert (HM : forall v, maskb mask v = false).
  { intro v. unfold maskb. destruct (nth_in_or_default (Z.to_nat v) mask 0) as [Hin | ->]; [|reflexivity].
    rewrite Forall_forall in HZ. rewrite (HZ _ Hin). reflexivity. }
  destruct (connect_valid_graph k mask) as [a|e|]; [|destruct e; try contradiction; reflexivity|contradiction].
  destruct HS as (_ & _ & v & _ & Hm). rewrite HM in Hm. discriminate.
Qed.

(* ==== non-vacuity: the source text, run on an arc subset that is neither complete nor vertex-induced =================== *)
Definition ex_acc : accessor := [[0; -1; 2; -1]; [-1; 1; -1; 3]; [-1; -1; -1; -1]; [0; 1; -1; -1]].
Definition ex_map : lmap := [(0, [0; 2]); (1, [1; 3]); (3, [0; 1])].

(* the hypothesis of the C14 theorems holds of the input used *)
Lemma ex_acc_legal : legal 1 ex_acc.
Proof.
  split; [reflexivity|split; [repeat constructor|]].
  intros v j Hv Hj. change (pow4 1) with 4 in *.
  assert (Cv : v = 0 \/ v = 1 \/ v = 2 \/ v = 3) by lia.
  assert (Cj : j = 0 \/ j = 1 \/ j = 2 \/ j = 3) by lia.
  destruct Cv as [-> | [-> | [-> | ->]]]; destruct Cj as [-> | [-> | [-> | ->]]]; vm_compute;
    first [left; reflexivity | right; reflexivity].
Qed.

Example graph_source_nonvacuous :
  legal 1 ex_acc /\ ex_acc <> get_complete_accessor 1 /\ ex_acc <> induced 1 [1; 1; 0; 1]
  /\ py3 0 "obtain_latters" [VInt 35; VInt 3] = Ret (VList (map VInt [12; 13; 14; 15]))
  /\ py3 0 "obtain_formers" [VInt 35; VInt 3] = Ret (VList (map VInt [8; 24; 40; 56]))
  /\ py3 0 "get_complete_accessor" [VInt 1; VBool true] = Ret (varr2 [[0; 1; 2; 3]; [0; 1; 2; 3]; [0; 1; 2; 3]; [0; 1; 2; 3]])
  /\ py3 0 "get_complete_accessor" [VInt 2; VBool false] = Ret (varr2 (get_complete_accessor 2))
  /\ py3 3 "accessor_to_latter_map" [varr2 ex_acc; VBool true] = Ret (v_lmap ex_map)
  /\ py3 3 "latter_map_to_accessor" [v_lmap ex_map; VInt 1; VNone; VBool true] = Ret (varr2 ex_acc)
  /\ py3 9 "latter_map_to_accessor" [v_lmap ex_map; VInt 1; VInt 1; VBool true]
     = Ret (varr2 [[0; -1; -1; -1]; [-1; 1; -1; 3]; [-1; -1; -1; -1]; [0; 1; -1; -1]])
  /\ py3 9 "latter_map_to_accessor" [v_lmap ex_map; VInt 1; VInt 2; VBool true] = Ret (varr2 (blank_accessor 1))
  /\ py3 0 "obtain_vertices" [varr2 ex_acc] = Ret (varr [0; 1; 3])
  /\ py3 0 "obtain_leaf_vertices" [VInt 0; VInt 2; varr2 ex_acc; VNone] = Ret (varr [0; 2])
  /\ py3 0 "obtain_leaf_vertices" [VInt 0; VInt 2; VNone; v_lmap ex_map] = Ret (varr [0; 2])
  /\ walk_ends ex_acc 2 0 = [0; 2]
  /\ py3 0 "obtain_leaf_vertices" [VInt 0; VInt 2; varr2 ex_acc; v_lmap ex_map] = Exn ValueError
  /\ py3 0 "connect_valid_graph" [VInt 1; v_mask_bool [1; 1; 1; 0]; VBool true]
     = Ret (varr2 [[0; 1; 2; -1]; [0; 1; 2; -1]; [0; 1; 2; -1]; [-1; -1; -1; -1]])
  /\ induced 1 [1; 1; 1; 0] = [[0; 1; 2; -1]; [0; 1; 2; -1]; [0; 1; 2; -1]; [-1; -1; -1; -1]]
  /\ maskb [1; 1; 1; 0] 2 = true
  /\ py3 0 "connect_valid_graph" [VInt 1; v_mask_bool [0; 0; 0; 0]; VBool true] = Exn ValueError.
Proof.
  split; [exact ex_acc_legal|].
  split; [vm_compute; discriminate|]. split; [vm_compute; discriminate|].
  repeat split; vm_compute; reflexivity.
Qed.

Print Assumptions py3_obtain_latters.
Print Assumptions py3_obtain_formers.
Print Assumptions py3_get_complete_accessor.
Print Assumptions py3_obtain_vertices.
Print Assumptions py3_accessor_to_latter_map.
Print Assumptions py3_leaves_acc.
Print Assumptions py3_leaves_map.
Print Assumptions py3_leaves_both.
Print Assumptions py3_leaves_none.
Print Assumptions py3_remove_useless.
Print Assumptions py3_latter_map_to_accessor.
Print Assumptions py3_latter_map_to_accessor_none.
Print Assumptions py3_connect_valid_graph.
Print Assumptions py3_connect_valid_graph_bool.
Print Assumptions C13_complete_source.
Print Assumptions C14_latter_map_roundtrip_source.
Print Assumptions C14_vertices_source.
Print Assumptions C14_leaves_agree_source.
Print Assumptions C11_valid_graph_source.
Print Assumptions C11_valid_graph_empty_source.
Print Assumptions graph_source_nonvacuous.
