(* OperationGenProofs.v -- ties the knot: the module REGENERATED from the current source of dsw/operation.py
   (OperationGen.operation_module, run by MiniPy.call_in) computes what the hand-written model computes, and therefore
   satisfies the statements of C15 / C16 -- at the level of the source text, for all inputs.
   Compiled on every run of the checks against the freshly generated OperationGen.v (harness/regen.py). *)
From Coq Require Import Lia ZifyBool.
From DSW Require Import MiniPy Bignum Convert Spec MiniPyLemmas BignumProofs ConvertProofs.
From DSWGen Require Import OperationGen AddGenProofs SubGenProofs MulGenProofs DivGenProofs ConvGenProofs.
Open Scope Z_scope.
Ltac Zify.zify_post_hook ::= Z.to_euclidean_division_equations.

(* running a function of the regenerated module *)
Definition py (fuel : nat) (f : string) (args : list val) : res val := call_in operation_module fuel f args.

(* Spec.dval is the vocabulary of the statements; SubGenProofs has a private copy (a * 10 + d instead of 10 * a + d) *)
Local Notation dval := Spec.dval.

Lemma dval_agree : forall l, SubGenProofs.dval l = Spec.dval l.
Proof.
  intro l. unfold SubGenProofs.dval, Spec.dval. generalize 0.
  induction l as [|x l IH]; intro a; cbn [fold_left]; [reflexivity|].
  rewrite IH. f_equal. lia.
Qed.

Lemma canonical_ok d : canonical d -> digits_ok d.
Proof.
  intro H. apply canonical_digits in H. unfold digits_ok. eapply Forall_impl; [|exact H].
  unfold digit. intros; lia.
Qed.

(* ---- Part A: the knot ---------------------------------------------------------------------------------------------- *)
(* the callees a converter sees: the rest of operation_module after the four converters *)
Definition helpers : module :=
  [("calculus_division"%string, calculus_division_def); ("calculus_multiplication"%string, calculus_multiplication_def);
   ("calculus_subtraction"%string, calculus_subtraction_def); ("calculus_addition"%string, calculus_addition_def)].

Ltac resolve := unfold py, operation_module, helpers; cbn [call_in String.eqb Ascii.eqb Bool.eqb]; reflexivity.

Lemma py_add_unfold fuel args :
  py fuel "calculus_addition" args = run_fun (call_in [] fuel) fuel calculus_addition_def args.
Proof. resolve. Qed.
Lemma py_sub_unfold fuel args :
  py fuel "calculus_subtraction" args =
  run_fun (call_in [("calculus_addition"%string, calculus_addition_def)] fuel) fuel calculus_subtraction_def args.
Proof. resolve. Qed.
Lemma py_mul_unfold fuel args :
  py fuel "calculus_multiplication" args =
  run_fun (call_in [("calculus_subtraction"%string, calculus_subtraction_def); ("calculus_addition"%string, calculus_addition_def)] fuel)
          fuel calculus_multiplication_def args.
Proof. resolve. Qed.
Lemma py_div_unfold fuel args :
  py fuel "calculus_division" args =
  run_fun (call_in [("calculus_multiplication"%string, calculus_multiplication_def);
                    ("calculus_subtraction"%string, calculus_subtraction_def); ("calculus_addition"%string, calculus_addition_def)] fuel)
          fuel calculus_division_def args.
Proof. resolve. Qed.
Lemma py_b2n_unfold fuel args :
  py fuel "bit_to_number" args = run_fun (call_in helpers fuel) fuel bit_to_number_def args.
Proof. resolve. Qed.
Lemma py_n2b_unfold fuel args :
  py fuel "number_to_bit" args =
  run_fun (call_in (("bit_to_number"%string, bit_to_number_def) :: helpers) fuel) fuel number_to_bit_def args.
Proof. resolve. Qed.
Lemma py_d2n_unfold fuel args :
  py fuel "dna_to_number" args =
  run_fun (call_in (("number_to_bit"%string, number_to_bit_def) :: ("bit_to_number"%string, bit_to_number_def) :: helpers) fuel)
          fuel dna_to_number_def args.
Proof. resolve. Qed.
Lemma py_n2d_unfold fuel args :
  py fuel "number_to_dna" args =
  run_fun (call_in (("dna_to_number"%string, dna_to_number_def) :: ("number_to_bit"%string, number_to_bit_def) ::
                    ("bit_to_number"%string, bit_to_number_def) :: helpers) fuel)
          fuel number_to_dna_def args.
Proof. resolve. Qed.

(* what ConvGenProofs assumes of the callees of a converter *)
Definition callees_ok (ce : string -> list val -> res val) : Prop :=
  (forall ds b, digits_ok ds -> 0 <= b <= 9 ->
     ce "calculus_addition"%string [dstr ds; dstr [b]] = Ret (dstr (calculus_addition ds b))) /\
  (forall ds b, digits_ok ds -> 0 <= b <= 9 ->
     ce "calculus_multiplication"%string [dstr ds; dstr [b]] = Ret (dstr (calculus_multiplication ds b))) /\
  (forall ds b, digits_ok ds -> ds <> [] -> 0 <= b <= 9 ->
     ce "calculus_division"%string [dstr ds; dstr [b]] =
     Ret (VTuple [dstr (fst (calculus_division ds b)); dstr [snd (calculus_division ds b)]])).

Lemma helpers_ok fuel : (3 <= fuel)%nat -> callees_ok (call_in helpers fuel).
Proof.
  intro Hf. unfold callees_ok, helpers. cbn [call_in String.eqb Ascii.eqb Bool.eqb].
  split; [|split].
  - intros ds b Hd Hb. apply calculus_addition_gen; assumption.
  - intros ds b Hd Hb. apply calculus_multiplication_gen; [assumption|assumption|lia].
  - intros ds b Hd _ Hb. apply calculus_division_gen; assumption.
Qed.

(* a converter in front of the list does not hide a helper *)
Lemma skip_ok g fd m fuel :
  String.eqb "calculus_addition" g = false -> String.eqb "calculus_multiplication" g = false ->
  String.eqb "calculus_division" g = false ->
  callees_ok (call_in m fuel) -> callees_ok (call_in ((g, fd) :: m) fuel).
Proof.
  intros E1 E2 E3 (H1 & H2 & H3). unfold callees_ok. cbn [call_in]. rewrite E1, E2, E3. auto.
Qed.

Lemma n2b_callees_ok fuel : (3 <= fuel)%nat ->
  callees_ok (call_in (("bit_to_number"%string, bit_to_number_def) :: helpers) fuel).
Proof. intro Hf. apply skip_ok; try reflexivity. apply helpers_ok, Hf. Qed.
Lemma d2n_callees_ok fuel : (3 <= fuel)%nat ->
  callees_ok (call_in (("number_to_bit"%string, number_to_bit_def) :: ("bit_to_number"%string, bit_to_number_def) :: helpers) fuel).
Proof. intro Hf. apply skip_ok; try reflexivity. apply n2b_callees_ok, Hf. Qed.
Lemma n2d_callees_ok fuel : (3 <= fuel)%nat ->
  callees_ok (call_in (("dna_to_number"%string, dna_to_number_def) :: ("number_to_bit"%string, number_to_bit_def) ::
                       ("bit_to_number"%string, bit_to_number_def) :: helpers) fuel).
Proof. intro Hf. apply skip_ok; try reflexivity. apply d2n_callees_ok, Hf. Qed.

(* -- the four helpers -- *)
Theorem py_calculus_addition : forall fuel ds b, digits_ok ds -> 0 <= b <= 9 -> (3 <= fuel)%nat ->
  py fuel "calculus_addition" [dstr ds; dstr [b]] = Ret (dstr (calculus_addition ds b)).
Proof. intros fuel ds b Hd Hb Hf. rewrite py_add_unfold. apply calculus_addition_gen; assumption. Qed.

Theorem py_calculus_subtraction : forall fuel ds b,
  digits_ok ds -> ds <> [] -> 0 <= b <= 9 -> b <= dval ds -> (S (length ds) <= fuel)%nat ->
  py fuel "calculus_subtraction" [dstr ds; dstr [b]] = Ret (dstr (calculus_subtraction ds b)).
Proof.
  intros fuel ds b Hd Hne Hb Hle Hf. rewrite py_sub_unfold. apply calculus_subtraction_gen; try assumption.
  rewrite dval_agree. exact Hle.
Qed.

Theorem py_calculus_multiplication : forall fuel ds b, digits_ok ds -> 0 <= b <= 9 -> (2 <= fuel)%nat ->
  py fuel "calculus_multiplication" [dstr ds; dstr [b]] = Ret (dstr (calculus_multiplication ds b)).
Proof. intros fuel ds b Hd Hb Hf. rewrite py_mul_unfold. apply calculus_multiplication_gen; assumption. Qed.

Theorem py_calculus_division : forall fuel ds b, digits_ok ds -> 0 <= b <= 9 ->
  py fuel "calculus_division" [dstr ds; dstr [b]] =
  Ret (VTuple [dstr (fst (calculus_division ds b)); dstr [snd (calculus_division ds b)]]).
Proof. intros fuel ds b Hd Hb. rewrite py_div_unfold. apply calculus_division_gen; assumption. Qed.

(* -- the four converters, both code paths -- *)
Theorem py_bit_to_number_str : forall fuel bits verbose, Forall (fun a => 0 <= a <= 9) bits -> (3 <= fuel)%nat ->
  py fuel "bit_to_number" [vints bits; VBool true; VBool verbose] = Ret (dstr (bit_to_number_str bits)).
Proof.
  intros fuel bits verbose HB Hf. rewrite py_b2n_unfold.
  destruct (helpers_ok fuel Hf) as (H1 & H2 & H3). apply bit_to_number_str_gen; assumption.
Qed.

(* the same on a NumPy array of bits (what encode of dsw/spiderweb.py passes) *)
Theorem py_bit_to_number_str_arr : forall fuel bits verbose, Forall (fun a => 0 <= a <= 9) bits -> (3 <= fuel)%nat ->
  py fuel "bit_to_number" [varr bits; VBool true; VBool verbose] = Ret (dstr (bit_to_number_str bits)).
Proof.
  intros fuel bits verbose HB Hf. rewrite py_b2n_unfold.
  destruct (helpers_ok fuel Hf) as (H1 & H2 & H3). apply bit_to_number_str_gen_arr; assumption.
Qed.

Theorem py_bit_to_number_int : forall fuel bits verbose,
  py fuel "bit_to_number" [vints bits; VBool false; VBool verbose] = Ret (VInt (bit_to_number_int bits)).
Proof. intros fuel bits verbose. rewrite py_b2n_unfold. apply bit_to_number_int_gen. Qed.

Theorem py_number_to_bit_str : forall fuel d len r, digits_ok d -> d <> [] ->
  number_to_bit_str d len = Ok r -> (3 <= fuel)%nat -> (fuel_str d < fuel)%nat ->
  py fuel "number_to_bit" [dstr d; VInt len] = Ret (vints r).
Proof.
  intros fuel d len r Hd Hne HR Hf Hfs. rewrite py_n2b_unfold.
  destruct (n2b_callees_ok fuel Hf) as (H1 & H2 & H3). apply number_to_bit_str_gen; assumption.
Qed.

Theorem py_number_to_bit_int : forall fuel n len r,
  number_to_bit_int n len = Ok r -> (3 <= fuel)%nat -> (fuel_int n < fuel)%nat ->
  py fuel "number_to_bit" [VInt n; VInt len] = Ret (vints r).
Proof.
  intros fuel n len r HR Hf Hfs. rewrite py_n2b_unfold.
  destruct (n2b_callees_ok fuel Hf) as (H1 & H2 & H3). apply number_to_bit_int_gen; assumption.
Qed.

Theorem py_dna_to_number_str : forall fuel s, (3 <= fuel)%nat ->
  py fuel "dna_to_number" [VStr s; VBool true] =
  match dna_to_number_str s with Ok d => Ret (dstr d) | Raise e => Exn e | OutOfFuel => Fuel end.
Proof.
  intros fuel s Hf. rewrite py_d2n_unfold.
  destruct (d2n_callees_ok fuel Hf) as (H1 & H2 & H3). apply dna_to_number_str_gen; assumption.
Qed.

Theorem py_dna_to_number_int : forall fuel s,
  py fuel "dna_to_number" [VStr s; VBool false] =
  match dna_to_number_int s with Ok n => Ret (VInt n) | Raise e => Exn e | OutOfFuel => Fuel end.
Proof. intros fuel s. rewrite py_d2n_unfold. apply dna_to_number_int_gen. Qed.

Theorem py_number_to_dna_str : forall fuel d len r, digits_ok d -> d <> [] ->
  number_to_dna_str d len = Ok r -> (3 <= fuel)%nat -> (fuel_str d < fuel)%nat ->
  py fuel "number_to_dna" [dstr d; VInt len] = Ret (VStr r).
Proof.
  intros fuel d len r Hd Hne HR Hf Hfs. rewrite py_n2d_unfold.
  destruct (n2d_callees_ok fuel Hf) as (H1 & H2 & H3). apply number_to_dna_str_gen; assumption.
Qed.

Theorem py_number_to_dna_int : forall fuel n len r,
  number_to_dna_int n len = Ok r -> (3 <= fuel)%nat -> (fuel_int n < fuel)%nat ->
  py fuel "number_to_dna" [VInt n; VInt len] = Ret (VStr r).
Proof.
  intros fuel n len r HR Hf Hfs. rewrite py_n2d_unfold.
  destruct (n2d_callees_ok fuel Hf) as (H1 & H2 & H3). apply number_to_dna_int_gen; assumption.
Qed.

(* ---- Part B: C15 for the source text ------------------------------------------------------------------------------- *)
Lemma digit_09 b : digit b -> 0 <= b <= 9.
Proof. unfold digit. lia. Qed.

Theorem C15_add_source : forall fuel n b, canonical n -> digit b -> (3 <= fuel)%nat ->
  exists r, py fuel "calculus_addition" [dstr n; dstr [b]] = Ret (dstr r) /\ canonical r /\ dval r = dval n + b.
Proof.
  intros fuel n b Hc Hb Hf. exists (calculus_addition n b).
  split; [apply py_calculus_addition; [apply canonical_ok, Hc|apply digit_09, Hb|exact Hf]|].
  apply add_correct; assumption.
Qed.

Theorem C15_mul_source : forall fuel n b, canonical n -> digit b -> (3 <= fuel)%nat ->
  exists r, py fuel "calculus_multiplication" [dstr n; dstr [b]] = Ret (dstr r) /\ canonical r /\ dval r = dval n * b.
Proof.
  intros fuel n b Hc Hb Hf. exists (calculus_multiplication n b).
  split; [apply py_calculus_multiplication; [apply canonical_ok, Hc|apply digit_09, Hb|lia]|].
  apply mul_correct; assumption.
Qed.

Theorem C15_sub_source : forall fuel n b, canonical n -> digit b -> b <= dval n -> (S (length n) <= fuel)%nat ->
  exists r, py fuel "calculus_subtraction" [dstr n; dstr [b]] = Ret (dstr r) /\ canonical r /\ dval r = dval n - b.
Proof.
  intros fuel n b Hc Hb Hle Hf. exists (calculus_subtraction n b).
  split; [apply py_calculus_subtraction; [apply canonical_ok, Hc|apply Hc|apply digit_09, Hb|exact Hle|exact Hf]|].
  apply sub_correct; assumption.
Qed.

Theorem C15_div_source : forall fuel n b, canonical n -> 1 <= b < 10 ->
  exists q r, py fuel "calculus_division" [dstr n; dstr [b]] = Ret (VTuple [dstr q; dstr [r]])
              /\ canonical q /\ dval q = dval n / b /\ r = dval n mod b.
Proof.
  intros fuel n b Hc Hb. exists (fst (calculus_division n b)), (snd (calculus_division n b)).
  split; [apply py_calculus_division; [apply canonical_ok, Hc|lia]|].
  apply div_correct; assumption.
Qed.

(* ---- Part C: C16 for the source text ------------------------------------------------------------------------------- *)
(* a canonical numeral below 10^k has at most k digits (k + 1 is all the fuel bounds need) *)
Lemma canonical_length_bound d k : canonical d -> dval d < 10 ^ Z.of_nat k -> (length d <= k + 1)%nat.
Proof.
  intros Hc Hv. destruct (canon_lower d Hc) as [H1|H]; [lia|].
  assert (HL : 10 ^ (Z.of_nat (length d) - 1) < 10 ^ Z.of_nat k) by lia.
  apply Z.pow_lt_mono_r_iff in HL; lia.
Qed.

Lemma pow_le_10 b k : 1 <= b <= 10 -> b ^ Z.of_nat k <= 10 ^ Z.of_nat k.
Proof. intro H. apply Z.pow_le_mono_l. lia. Qed.

Lemma fuel_str_bound d b k : 1 <= b <= 10 -> canonical d -> dval d < b ^ Z.of_nat k -> (fuel_str d <= 4 * k + 5)%nat.
Proof.
  intros Hb Hc Hv. pose proof (pow_le_10 b k Hb) as HP.
  pose proof (canonical_length_bound d k Hc ltac:(lia)) as HL. unfold fuel_str. lia.
Qed.

Lemma fuel_int_bound n k : 0 <= n < 2 ^ Z.of_nat k -> (fuel_int n <= S k)%nat.
Proof.
  intros Hn. unfold fuel_int.
  assert (H : Z.log2_up (n + 1) <= Z.of_nat k) by (apply Z.log2_up_le_pow2; lia).
  pose proof (Z.log2_up_nonneg (n + 1)). lia.
Qed.

Lemma bits_09 l : bits_ok l -> Forall (fun a => 0 <= a <= 9) l.
Proof. apply Forall_impl. unfold bit. intros; lia. Qed.

Theorem C16_bits_roundtrip_str_source : forall fuel l, bits_ok l -> (4 * length l + 16 <= fuel)%nat ->
  exists d, py fuel "bit_to_number" [vints l; VBool true; VBool false] = Ret (dstr d)
         /\ py fuel "number_to_bit" [dstr d; VInt (Z.of_nat (length l))] = Ret (vints l).
Proof.
  intros fuel l Hl Hf. exists (bit_to_number_str l).
  split; [apply py_bit_to_number_str; [apply bits_09, Hl|lia]|].
  destruct (bit_to_number_str_spec l Hl) as (Hc & Hv).
  pose proof (rval_bound 2 l ltac:(lia) (proj1 (bits_dig l) Hl)) as HB.
  pose proof (fuel_str_bound (bit_to_number_str l) 2 (length l) ltac:(lia) Hc ltac:(lia)) as HF.
  apply py_number_to_bit_str; [apply canonical_ok, Hc|apply Hc|apply bits_roundtrip_str, Hl|lia|lia].
Qed.

Theorem C16_bits_roundtrip_int_source : forall fuel l, bits_ok l -> (4 * length l + 16 <= fuel)%nat ->
  exists n, py fuel "bit_to_number" [vints l; VBool false; VBool false] = Ret (VInt n)
         /\ py fuel "number_to_bit" [VInt n; VInt (Z.of_nat (length l))] = Ret (vints l).
Proof.
  intros fuel l Hl Hf. exists (bit_to_number_int l).
  split; [apply py_bit_to_number_int|].
  pose proof (rval_bound 2 l ltac:(lia) (proj1 (bits_dig l) Hl)) as HB. rewrite <- bit_to_number_int_spec in HB.
  pose proof (fuel_int_bound _ _ HB) as HF.
  apply py_number_to_bit_int; [apply bits_roundtrip_int, Hl|lia|lia].
Qed.

Theorem C16_dna_roundtrip_str_source : forall fuel s, acgt s -> (4 * length s + 16 <= fuel)%nat ->
  exists d, py fuel "dna_to_number" [VStr s; VBool true] = Ret (dstr d)
         /\ py fuel "number_to_dna" [dstr d; VInt (Z.of_nat (length s))] = Ret (VStr s).
Proof.
  intros fuel s Hs Hf. destruct (dna_paths_agree s Hs) as (d & n & E1 & _ & Hc & Hv & HB).
  destruct (dna_roundtrip_str s Hs) as (d' & E1' & E2). rewrite E1 in E1'. injection E1' as <-.
  exists d. split; [rewrite py_dna_to_number_str by lia; rewrite E1; reflexivity|].
  pose proof (fuel_str_bound d 4 (length s) ltac:(lia) Hc ltac:(lia)) as HF.
  apply py_number_to_dna_str; [apply canonical_ok, Hc|apply Hc|exact E2|lia|lia].
Qed.

Theorem C16_dna_roundtrip_int_source : forall fuel s, acgt s -> (4 * length s + 16 <= fuel)%nat ->
  exists n, py fuel "dna_to_number" [VStr s; VBool false] = Ret (VInt n)
         /\ py fuel "number_to_dna" [VInt n; VInt (Z.of_nat (length s))] = Ret (VStr s).
Proof.
  intros fuel s Hs Hf. destruct (dna_paths_agree s Hs) as (d & n & _ & E1 & _ & _ & HB).
  destruct (dna_roundtrip_int s Hs) as (n' & E1' & E2). rewrite E1 in E1'. injection E1' as <-.
  exists n. split; [rewrite py_dna_to_number_int; rewrite E1; reflexivity|].
  assert (HB' : 0 <= n < 2 ^ Z.of_nat (2 * length s)).
  { rewrite Nat2Z.inj_mul, Z.pow_mul_r by lia. exact HB. }
  pose proof (fuel_int_bound _ _ HB') as HF.
  apply py_number_to_dna_int; [exact E2|lia|lia].
Qed.

Theorem C16_dna_foreign_source : forall fuel s, ~ acgt s -> (3 <= fuel)%nat ->
  py fuel "dna_to_number" [VStr s; VBool true] = Exn ValueError /\ py fuel "dna_to_number" [VStr s; VBool false] = Exn ValueError.
Proof.
  intros fuel s Hs Hf. destruct (dna_foreign s Hs) as (E1 & E2).
  rewrite py_dna_to_number_str by exact Hf. rewrite py_dna_to_number_int. rewrite E1, E2. split; reflexivity.
Qed.

(* non-vacuity: the regenerated module computes, on carry / borrow chains and on both code paths *)
Example source_nonvacuous :
  py 40 "bit_to_number" [vints [0; 0; 1; 0; 1]; VBool true; VBool false] = Ret (dstr [5])
  /\ py 40 "number_to_bit" [dstr [5]; VInt 5] = Ret (vints [0; 0; 1; 0; 1])
  /\ py 40 "bit_to_number" [vints [0; 0; 1; 0; 1]; VBool false; VBool false] = Ret (VInt 5)
  /\ py 40 "number_to_bit" [VInt 5; VInt 5] = Ret (vints [0; 0; 1; 0; 1])
  /\ py 40 "calculus_subtraction" [dstr [1; 0; 0; 0]; dstr [2]] = Ret (dstr [9; 9; 8])
  /\ py 40 "calculus_addition" [dstr [9; 9; 9]; dstr [2]] = Ret (dstr [1; 0; 0; 1])
  /\ py 40 "calculus_multiplication" [dstr [9; 9]; dstr [9]] = Ret (dstr [8; 9; 1])
  /\ py 40 "calculus_division" [dstr [1; 0; 0; 1]; dstr [7]] = Ret (VTuple [dstr [1; 4; 3]; dstr [0]])
  /\ py 40 "dna_to_number" [VStr [65; 67; 71; 84]; VBool true] = Ret (dstr [2; 7])
  /\ py 40 "number_to_dna" [dstr [2; 7]; VInt 4] = Ret (VStr [65; 67; 71; 84])
  /\ py 40 "dna_to_number" [VStr [65; 67; 71; 84]; VBool false] = Ret (VInt 27)
  /\ py 40 "number_to_dna" [VInt 27; VInt 4] = Ret (VStr [65; 67; 71; 84])
  /\ py 40 "dna_to_number" [VStr [65; 78]; VBool true] = Exn ValueError
  /\ bits_ok [0; 0; 1; 0; 1] /\ acgt [65; 67; 71; 84] /\ ~ acgt [65; 78] /\ canonical [1; 0; 0; 0] /\ (4 * 5 + 16 <= 40)%nat.
Proof.
  repeat match goal with |- _ /\ _ => split end; try (vm_compute; reflexivity).
  - repeat constructor; (left; reflexivity) || (right; reflexivity).
  - repeat constructor.
  - intro H. inversion H as [|? ? _ H2]. inversion H2 as [|? ? H3 _]. vm_compute in H3. discriminate.
  - apply canonical_lead; [repeat constructor; unfold digit; lia|lia].
  - lia.
Qed.

(* TARGET STATEMENTS: all proved above, exactly as stated.
   Part A: py_calculus_addition (3 <= fuel), py_calculus_subtraction (S (length ds) <= fuel; b <= Spec.dval ds, which is
   SubGenProofs.dval by dval_agree), py_calculus_multiplication (2 <= fuel suffices), py_calculus_division (any fuel),
   py_bit_to_number_str (3 <= fuel), py_bit_to_number_int (any fuel), py_number_to_bit_str / py_number_to_dna_str
   (3 <= fuel, fuel_str d < fuel), py_number_to_bit_int / py_number_to_dna_int (3 <= fuel, fuel_int n < fuel),
   py_dna_to_number_str (3 <= fuel), py_dna_to_number_int (any fuel).
   Part B: C15_add_source, C15_mul_source, C15_sub_source, C15_div_source.
   Part C: C16_bits_roundtrip_str_source, C16_bits_roundtrip_int_source, C16_dna_roundtrip_str_source,
   C16_dna_roundtrip_int_source with the fuel bound (4 * length input + 16 <= fuel) of the statement (discharged through
   canonical_length_bound: a canonical numeral below 10^k has at most k + 1 digits, so fuel_str d <= 4 * k + 5; and
   fuel_int n <= S k for n < 2^k), C16_dna_foreign_source (3 <= fuel).  Example source_nonvacuous. *)

Print Assumptions py_calculus_addition.
Print Assumptions py_calculus_subtraction.
Print Assumptions py_calculus_multiplication.
Print Assumptions py_calculus_division.
Print Assumptions py_bit_to_number_str.
Print Assumptions py_bit_to_number_str_arr.
Print Assumptions py_bit_to_number_int.
Print Assumptions py_number_to_bit_str.
Print Assumptions py_number_to_bit_int.
Print Assumptions py_dna_to_number_str.
Print Assumptions py_dna_to_number_int.
Print Assumptions py_number_to_dna_str.
Print Assumptions py_number_to_dna_int.
Print Assumptions C15_add_source.
Print Assumptions C15_mul_source.
Print Assumptions C15_sub_source.
Print Assumptions C15_div_source.
Print Assumptions C16_bits_roundtrip_str_source.
Print Assumptions C16_bits_roundtrip_int_source.
Print Assumptions C16_dna_roundtrip_str_source.
Print Assumptions C16_dna_roundtrip_int_source.
Print Assumptions C16_dna_foreign_source.
Print Assumptions source_nonvacuous.
