(* ValidGraphGenProofs.v -- the regenerated connect_valid_graph / find_vertices (dsw/spiderweb.py) compute Graph.v's functions.
   Compiled on every run of the checks against the freshly generated GraphGen.v (harness/regen.py, unit "graph"). *)
From Coq Require Import Lia ZifyBool.
From DSW Require Import MiniPyG Graph Kmer Convert Spec MiniPyGLemmas KmerProofs GraphProofs.
From DSWGen Require Import GraphGen GraphRepr.
Open Scope Z_scope.
Open Scope string_scope.
Ltac Zify.zify_post_hook ::= Z.to_euclidean_division_equations.
Local Open Scope Z_scope.

(* All TARGET STATEMENTS are proved below, exactly as stated: connect_valid_graph_gen, connect_valid_graph_gen_bool (the same
   statement with v_mask_bool mask, the array find_vertices returns), find_vertices_gen (for ANY filter function f).

   Notes: `sum(vertices) / len(vertices)` is (EBin TrueDiv ..) -> VRatio (sum) (len) when ratio_ok (0 < len < 2^1000, hence the
   size hypotheses; 4^k < 2^1000 iff k < 500) and `valid_rate > 0` / `== 0` compare the numerator with 0 (cmp_scalar on VRatio);
   sum of a 0/1 integer array is sumZ mask, of a boolean array the number of True entries.  `vertices is None` is BIsNone.
   `vertices[vertex_index]` as a condition: truthy of VInt x (x <> 0) resp. VBool b = maskb mask v.  The object parameter
   bio_filter is never evaluated (its method call is (ECall "bio_filter.valid" ..)); VOpaque is passed for it.
   zeros(shape=(n,), dtype=bool) is an array of VBool false; `vertices[vertex_index] = bio_filter.valid(..)` stores a VBool into
   a boolean array (store_val keeps it a VBool).  The verbose branch evaluates sum(vertices[: vertex_index + 1]) inside a
   dict display for the monitor: all total.  If a hypothesis is missing add the weakest one and report it.
*)

Local Open Scope list_scope.
Local Open Scope Z_scope.

Notation lookup := MiniPyG.lookup.

(* ---- tactics ------------------------------------------------------------------------------------------------------ *)
Ltac lk := repeat (rewrite lookup_update_same || (rewrite lookup_update_other by discriminate)).
Ltac step := cbn [exec eval lift seq rbind assign items bind_tuple builtin1_val builtin2_val binop_vals binop_scalar cmp_vals is_arr orb
                  truthy mixes_bool type_is to_int].
Ltac evc := cbn [exec eval lift seq rbind assign items bind_tuple builtin1_val builtin2_val binop_vals binop_scalar cmp_vals is_arr orb
                  truthy mixes_bool type_is to_int lookup update String.eqb Ascii.eqb Bool.eqb].

(* ---- lists ------------------------------------------------------------------------------------------------------------ *)
Lemma nthZ_mid {A} (pre : list A) c t : nthZ (pre ++ c :: t) (length pre) = Some c.
Proof. induction pre as [|x pre IH]; cbn [app length nthZ]; [reflexivity|exact IH]. Qed.

Lemma py_get_mid {A} (pre : list A) c t : py_get (pre ++ c :: t) (Z.of_nat (length pre)) = Ok c.
Proof.
  unfold py_get. rewrite app_length. cbn [length].
  destruct (Z.of_nat (length pre) <? 0) eqn:E; [lia|].
  destruct ((Z.of_nat (length pre) <? 0) || (Z.of_nat (length pre + S (length t)) <=? Z.of_nat (length pre))) eqn:F; [lia|].
  rewrite Nat2Z.id, nthZ_mid. reflexivity.
Qed.

Lemma set_nth_mid {A} (pre : list A) c t y : set_nth (pre ++ c :: t) (length pre) y = pre ++ y :: t.
Proof. induction pre as [|x pre IH]; cbn [app length set_nth]; [reflexivity|rewrite IH; reflexivity]. Qed.

Lemma nthZ_map_nth {A} (g : Z -> A) : forall (l : list Z) i, (i < length l)%nat -> nthZ (map g l) i = Some (g (nth i l 0)).
Proof.
  induction l as [|x l IH]; intros i H; cbn [length] in H; [lia|].
  destruct i as [|i]; cbn [map nthZ nth]; [reflexivity|apply IH; lia].
Qed.

Lemma py_get_map {A} (g : Z -> A) (l : list Z) v : 0 <= v < Z.of_nat (length l) ->
  py_get (map g l) v = Ok (g (nth (Z.to_nat v) l 0)).
Proof.
  intro H. unfold py_get. rewrite map_length.
  destruct (v <? 0) eqn:E; [lia|].
  destruct ((v <? 0) || (Z.of_nat (length l) <=? v)) eqn:F; [lia|].
  rewrite nthZ_map_nth by lia. reflexivity.
Qed.

Lemma zrange_up_from : forall n a, zrange_up n a 1 = map VInt (zrange_from a n).
Proof. induction n as [|n IH]; intro a; cbn [zrange_up zrange_from map]; [reflexivity|rewrite IH; reflexivity]. Qed.

Lemma range_items n : 0 <= n -> range3 0 n 1 = Ret (map VInt (zrange_from 0 (Z.to_nat n))).
Proof.
  intro H. unfold range3. change (1 =? 0) with false. change (0 <? 1) with true. cbv iota.
  rewrite zrange_up_from. do 3 f_equal. lia.
Qed.

(* ---- sums of masks --------------------------------------------------------------------------------------------------- *)
Lemma sumZ_01 : forall l, Forall (fun x => 0 <= x <= 1) l -> 0 <= sumZ l <= Z.of_nat (length l).
Proof.
  induction l as [|x l IH]; intro H; [cbn; lia|].
  inversion H as [|? ? Hx Hl]; subst. rewrite sumZ_cons. cbn [length]. specialize (IH Hl). lia.
Qed.

Lemma ratio_ok_sum s n : 0 <= s <= n -> 0 < n -> n < 2 ^ 1000 -> ratio_ok s n = true.
Proof.
  intros Hs Hn Hb. unfold ratio_ok. generalize dependent (2 ^ 1000). intros B HB. lia.
Qed.

Lemma pow4_nat k : Z.of_nat (Z.to_nat (pow4 k)) = pow4 k.
Proof. pose proof (pow4_pos k). lia. Qed.

(* ---- -ones(shape=(n, 4)) ---------------------------------------------------------------------------------------------- *)
Definition blank : val := VArr [VInt (-1); VInt (-1); VInt (-1); VInt (-1)].

Lemma minus_ones n :
  broadcast_int Sub false (VArr (repeat (VArr (repeat (VInt 1) (Z.to_nat 4))) n)) 0 = Ret (VArr (repeat blank n)).
Proof.
  induction n as [|n IH]; [reflexivity|].
  cbn [repeat]. cbn [broadcast_int] in IH |- *.
  match type of IH with rbind ?G _ = _ => destruct G as [r| | |] eqn:EG end; cbn [rbind] in IH; try discriminate.
  injection IH as ->.
  change (Z.to_nat 4) with 4%nat. cbn [repeat rbind binop_scalar]. reflexivity.
Qed.

(* ---- stores ------------------------------------------------------------------------------------------------------------ *)
Lemma store_int_mid pre x R l :
  store_val (VArr (map VInt pre ++ VInt x :: R)) (VInt (Z.of_nat (length pre))) (VInt l) = Ret (VArr (map VInt pre ++ VInt l :: R)).
Proof.
  unfold store_val. rewrite app_length, map_length. cbn [length].
  destruct (Z.of_nat (length pre) <? 0) eqn:E; [lia|].
  destruct ((Z.of_nat (length pre) <? 0) || (Z.of_nat (length pre + S (length R)) <=? Z.of_nat (length pre))) eqn:F; [lia|].
  rewrite Nat2Z.id. rewrite <- (map_length VInt pre). rewrite set_nth_mid.
  destruct pre; reflexivity.
Qed.

Lemma store2_mid B A pre x R l :
  store2_val (VArr (B ++ VArr (map VInt pre ++ VInt x :: R) :: A)) (VInt (Z.of_nat (length B))) (VInt (Z.of_nat (length pre))) (VInt l)
  = Ret (VArr (B ++ VArr (map VInt pre ++ VInt l :: R) :: A)).
Proof.
  unfold store2_val. rewrite app_length. cbn [length].
  destruct (Z.of_nat (length B) <? 0) eqn:E; [lia|].
  destruct ((Z.of_nat (length B) <? 0) || (Z.of_nat (length B + S (length A)) <=? Z.of_nat (length B))) eqn:F; [lia|].
  rewrite py_get_mid, store_int_mid. cbn [rbind]. rewrite Nat2Z.id, set_nth_mid. reflexivity.
Qed.

(* ---- connect_valid_graph ----------------------------------------------------------------------------------------------- *)
Section Valid.
  Variable ce : string -> list val -> res val.
  Variable k : nat.
  Variable mask : list Z.
  (* how a mask entry appears in the array: VInt x (integer array) or VBool (x <> 0) (boolean array) *)
  Variable g : Z -> val.
  Hypothesis g_truthy : forall x, truthy (g x) = Ret (negb (x =? 0)).
  Hypothesis g_count : forall x, 0 <= x <= 1 -> as_count (g x) = Ret x.
  Hypothesis ce_lat : forall current,
    ce "obtain_latters" [VInt current; VInt (Z.of_nat k)] = Ret (VList (map VInt (obtain_latters current k))).

  Definition sel (l : Z) : Z := if maskb mask l then l else -1.

  Lemma index_mask v : 0 <= v < Z.of_nat (length mask) ->
    index_val (VArr (map g mask)) (VInt v) = Ret (g (nth (Z.to_nat v) mask 0)).
  Proof. intro H. unfold index_val. rewrite py_get_map by exact H. reflexivity. Qed.

  Definition inner_body : stmt :=
    (SIf (EIndex (EVar "vertices"%string) (EVar "latter_vertex_index"%string))
     (SAssign (TIndex2 "accessor"%string (EVar "vertex_index"%string) (EVar "position"%string)) (EVar "latter_vertex_index"%string))
     SSkip).

  Lemma inner_loop fuel B A : forall ls pre en,
    Forall (fun l => 0 <= l < Z.of_nat (length mask)) ls ->
    lookup "vertices" en = Ret (VArr (map g mask)) ->
    lookup "vertex_index" en = Ret (VInt (Z.of_nat (length B))) ->
    lookup "accessor" en = Ret (VArr (B ++ VArr (map VInt pre ++ repeat (VInt (-1)) (length ls)) :: A)) ->
    exists en', for_loop ce fuel (TTuple ["position"; "latter_vertex_index"]) inner_body
                  (enumerate_from (Z.of_nat (length pre)) (map VInt ls)) en = ONormal en' /\
      lookup "accessor" en' = Ret (VArr (B ++ VArr (map VInt (pre ++ map sel ls)) :: A)) /\
      (forall x, x <> "accessor" -> x <> "position" -> x <> "latter_vertex_index" -> lookup x en' = lookup x en).
  Proof.
    induction ls as [|l ls IH]; intros pre en HL HV HI HA.
    - exists en. cbn [map enumerate_from for_loop length repeat] in *. rewrite app_nil_r in *. auto.
    - inversion HL as [|? ? Hl HL']; subst.
      cbn [map enumerate_from for_loop length repeat] in *. unfold inner_body at 1. step. lk. rewrite HV. step.
      rewrite (index_mask l Hl). step. rewrite g_truthy. step.
      assert (EP : Z.of_nat (length pre) + 1 = Z.of_nat (length (pre ++ [l]))) by (rewrite app_length; cbn [length]; lia).
      assert (ES : Z.of_nat (length pre) + 1 = Z.of_nat (length (pre ++ [-1]))) by (rewrite app_length; cbn [length]; lia).
      fold (maskb mask l). unfold sel at 1. destruct (maskb mask l) eqn:EM.
      + step. lk. rewrite HI. step. lk. step. lk. rewrite HA. step. rewrite store2_mid. step.
        rewrite EP.
        match goal with |- context [for_loop _ _ _ _ _ ?E] => set (en1 := E) end.
        destruct (IH (pre ++ [l]) en1) as (en' & EL & HA' & HF); auto; try (unfold en1; lk; auto).
        { rewrite map_app. rewrite <- app_assoc. reflexivity. }
        exists en'. split; [exact EL|]. split.
        { rewrite HA'. rewrite <- app_assoc. reflexivity. }
        intros x N1 N2 N3. rewrite HF by auto. unfold en1. rewrite !lookup_update_other by auto. reflexivity.
      + step. rewrite ES.
        match goal with |- context [for_loop _ _ _ _ _ ?E] => set (en1 := E) end.
        destruct (IH (pre ++ [-1]) en1) as (en' & EL & HA' & HF); auto; try (unfold en1; lk; auto).
        { rewrite HA. rewrite map_app. rewrite <- app_assoc. reflexivity. }
        exists en'. split; [exact EL|]. split.
        { rewrite HA'. rewrite <- app_assoc. reflexivity. }
        intros x N1 N2 N3. rewrite HF by auto. unfold en1. rewrite !lookup_update_other by auto. reflexivity.
  Qed.

  Lemma exec_assign fuel t e en : exec ce fuel (SAssign t e) en = lift (eval ce en e) (fun v => assign ce t v en).
  Proof. reflexivity. Qed.
  Lemma exec_return fuel e en : exec ce fuel (SReturn e) en = lift (eval ce en e) OReturn.
  Proof. reflexivity. Qed.
  Lemma exec_raise fuel e en : exec ce fuel (SRaise e) en = OExn e.
  Proof. reflexivity. Qed.
  Lemma exec_skip fuel en : exec ce fuel SSkip en = ONormal en.
  Proof. reflexivity. Qed.
  Ltac ex := repeat first [rewrite exec_seq | rewrite exec_assign | rewrite exec_if | rewrite exec_for
                          | rewrite exec_return | rewrite exec_raise | rewrite exec_skip].
  Ltac ev := cbn [eval lift seq rbind assign items bind_tuple builtin1_val builtin2_val binop_vals binop_scalar cmp_vals is_arr orb
                  truthy mixes_bool type_is to_int].

  Ltac evl := cbn [eval lift seq rbind assign items bind_tuple builtin1_val builtin2_val binop_vals binop_scalar cmp_vals is_arr orb
                  truthy mixes_bool type_is to_int lookup update String.eqb Ascii.eqb Bool.eqb].

  Definition monitor_stmt : stmt :=
    (SIf (EVar "verbose"%string)
     (SExpr (ETuple [(EBin Add (EVar "vertex_index"%string) (EInt (1))); (EB1 BLen (EVar "vertices"%string))]))
     SSkip).

  Lemma monitor_ok fuel en verbose s l :
    lookup "verbose" en = Ret (VBool verbose) -> lookup "vertex_index" en = Ret (VInt s) ->
    lookup "vertices" en = Ret (VArr l) -> exec ce fuel monitor_stmt en = ONormal en.
  Proof.
    intros HB HI HV. unfold monitor_stmt. step. rewrite HB. step. destruct verbose; [|reflexivity].
    step. rewrite HI. step. rewrite HV. step. reflexivity.
  Qed.

  Definition outer_body : stmt :=
    (SSeq (SIf (EIndex (EVar "vertices"%string) (EVar "vertex_index"%string))
     (SSeq (SAssign (TVar "latters"%string) (ECall "obtain_latters"%string [(EVar "vertex_index"%string); (EVar "observed_length"%string)]))
     (SFor (TTuple ["position"%string; "latter_vertex_index"%string]) (EB1 BEnumerate (EVar "latters"%string))
     inner_body))
     SSkip)
     monitor_stmt).

  Hypothesis mask_len : Z.of_nat (length mask) = pow4 k.

  Lemma outer_loop fuel verbose : forall m D s en,
    s = Z.of_nat (length D) -> s + Z.of_nat m = Z.of_nat (length mask) ->
    lookup "vertices" en = Ret (VArr (map g mask)) ->
    lookup "observed_length" en = Ret (VInt (Z.of_nat k)) ->
    lookup "verbose" en = Ret (VBool verbose) ->
    lookup "accessor" en = Ret (VArr (map varr D ++ repeat blank m)) ->
    exists en', for_loop ce fuel (TVar "vertex_index") outer_body (map VInt (zrange_from s m)) en = ONormal en' /\
      lookup "accessor" en' = Ret (VArr (map varr (D ++ map (induced_row k mask) (zrange_from s m)))) /\
      lookup "verbose" en' = Ret (VBool verbose).
  Proof.
    induction m as [|m IH]; intros D s en Hs Hm HV HK HB HA.
    - exists en. cbn [zrange_from map for_loop repeat] in *. rewrite app_nil_r in *. auto.
    - cbn [zrange_from map for_loop repeat] in *. ev.
      set (en0 := update "vertex_index" (VInt s) en).
      assert (HV0 : lookup "vertices" en0 = Ret (VArr (map g mask))) by (unfold en0; lk; exact HV).
      assert (HK0 : lookup "observed_length" en0 = Ret (VInt (Z.of_nat k))) by (unfold en0; lk; exact HK).
      assert (HB0 : lookup "verbose" en0 = Ret (VBool verbose)) by (unfold en0; lk; exact HB).
      assert (HI0 : lookup "vertex_index" en0 = Ret (VInt s)) by (unfold en0; lk; reflexivity).
      assert (HA0 : lookup "accessor" en0 = Ret (VArr (map varr D ++ blank :: repeat blank m))) by (unfold en0; lk; exact HA).
      clearbody en0.
      assert (Hr : 0 <= s < Z.of_nat (length mask)) by lia.
      unfold outer_body at 1. rewrite exec_seq, exec_if. ev. rewrite HV0, HI0. ev.
      rewrite (index_mask s Hr). ev. rewrite g_truthy. ev. fold (maskb mask s).
      assert (ES : s + 1 = Z.of_nat (length (D ++ [induced_row k mask s]))) by (rewrite app_length; cbn [length]; lia).
      unfold induced_row in ES |- *. destruct (maskb mask s) eqn:EM.
      + rewrite exec_seq, exec_assign. ev. rewrite HI0, HK0. ev. rewrite ce_lat. ev.
        set (en1 := update "latters" (VList (map VInt (obtain_latters s k))) en0).
        rewrite exec_for. ev. unfold en1 at 1. lk. ev.
        destruct (inner_loop fuel (map varr D) (repeat blank m) (obtain_latters s k) [] en1) as (en2 & EL & HA2 & HF).
        { rewrite mask_len. apply latters_in_range. lia. }
        { unfold en1; lk; exact HV0. }
        { unfold en1; lk. rewrite map_length, <- Hs. exact HI0. }
        { unfold en1; lk. exact HA0. }
        change (Z.of_nat (length (@nil Z))) with 0 in EL. rewrite EL. ev.
        assert (HV2 : lookup "vertices" en2 = Ret (VArr (map g mask))) by (rewrite HF by discriminate; unfold en1; lk; exact HV0).
        assert (HK2 : lookup "observed_length" en2 = Ret (VInt (Z.of_nat k))) by (rewrite HF by discriminate; unfold en1; lk; exact HK0).
        assert (HB2 : lookup "verbose" en2 = Ret (VBool verbose)) by (rewrite HF by discriminate; unfold en1; lk; exact HB0).
        assert (HI2 : lookup "vertex_index" en2 = Ret (VInt s)) by (rewrite HF by discriminate; unfold en1; lk; exact HI0).
        rewrite (monitor_ok fuel en2 verbose s _ HB2 HI2 HV2). ev.
        destruct (IH (D ++ [map sel (obtain_latters s k)]) (s + 1) en2) as (en' & EL' & HA' & HB'); auto; try lia.
        { rewrite HA2. rewrite (map_app varr), <- app_assoc. reflexivity. }
        exists en'. split; [exact EL'|]. split; [|exact HB'].
        rewrite HA'. rewrite <- app_assoc. reflexivity.
      + rewrite exec_skip. ev.
        rewrite (monitor_ok fuel en0 verbose s _ HB0 HI0 HV0). ev.
        destruct (IH (D ++ [empty_row]) (s + 1) en0) as (en' & EL' & HA' & HB'); auto; try lia.
        { rewrite HA0. rewrite map_app, <- app_assoc. reflexivity. }
        exists en'. split; [exact EL'|]. split; [|exact HB'].
        rewrite HA'. rewrite <- app_assoc. reflexivity.
  Qed.

  Lemma if_same {A} (b : bool) (x : A) : (if b then x else x) = x.
  Proof. destruct b; reflexivity. Qed.

  Lemma count_mask : forall l, Forall (fun x => 0 <= x <= 1) l -> map_res as_count (map g l) = Ret l.
  Proof.
    induction l as [|x l IH]; intro H; [reflexivity|].
    inversion H as [|? ? Hx Hl]; subst. cbn [map map_res]. rewrite (g_count x Hx), (IH Hl). reflexivity.
  Qed.

  Lemma connect_generic fuel verbose :
    Z.of_nat (length mask) < 2 ^ 1000 -> Forall (fun x => 0 <= x <= 1) mask ->
    run_fun ce fuel connect_valid_graph_def [VInt (Z.of_nat k); VArr (map g mask); VBool verbose]
    = res_of_acc (Graph.connect_valid_graph k mask).
  Proof.
    intros HB H01. pose proof (pow4_pos k) as Hp. pose proof (sumZ_01 mask H01) as Hsum.
    unfold run_fun. cbn [params body bind_params connect_valid_graph_def].
    ex. evl. ex. evl. ex. evl. rewrite if_same. ex. evl. ex. evl.
    rewrite (count_mask mask H01). evl. rewrite map_length.
    destruct (Z.of_nat (length mask) =? 0) eqn:E0; [lia|].
    rewrite (ratio_ok_sum (sumZ mask) (Z.of_nat (length mask))) by lia. evl.
    ex. evl. cbn [cmp_scalar]. rewrite (ratio_ok_sum (sumZ mask) (Z.of_nat (length mask))) by lia.
    change (0 =? 0) with true. cbn [andb]. evl.
    unfold Graph.connect_valid_graph. destruct (0 <? sumZ mask) eqn:ES; cbn [res_of_acc].
    - ex. evl. change (Z.of_nat (length [65; 67; 71; 84])) with 4.
      destruct (Z.of_nat k <? 0) eqn:EK; [lia|]. evl. rewrite minus_ones. evl.
      ex. evl. change (Z.of_nat (length [65; 67; 71; 84])) with 4. rewrite EK. evl.
      fold (pow4 k). rewrite range_items by lia. evl.
      match goal with |- context [for_loop _ _ _ _ _ ?E] => set (en0 := E) end.
      destruct (outer_loop fuel verbose (Z.to_nat (pow4 k)) [] 0 en0) as (en' & EL & HA & HV); try reflexivity.
      { rewrite pow4_nat. lia. }
      unfold outer_body, monitor_stmt, inner_body in EL. rewrite EL. evl. ex. evl. rewrite HV. evl. rewrite if_same. ex. evl. ex. evl. rewrite HA. reflexivity.
    - ex. reflexivity.
  Qed.
End Valid.

Theorem connect_valid_graph_gen : forall ce fuel k mask verbose, length mask = Z.to_nat (pow4 k) ->
  Z.of_nat (length mask) < 2 ^ 1000 -> Forall (fun x => 0 <= x <= 1) mask ->
  (forall current, ce "obtain_latters" [VInt current; VInt (Z.of_nat k)] = Ret (VList (map VInt (obtain_latters current k)))) ->
  run_fun ce fuel connect_valid_graph_def [VInt (Z.of_nat k); v_mask_int mask; VBool verbose]
  = res_of_acc (Graph.connect_valid_graph k mask).
Proof.
  intros ce fuel k mask verbose HL HB H01 Hce. unfold v_mask_int.
  apply (connect_generic ce k mask VInt); auto.
  rewrite HL. apply pow4_nat.
Qed.

(* the same with the boolean array find_vertices returns *)
Theorem connect_valid_graph_gen_bool : forall ce fuel k mask verbose, length mask = Z.to_nat (pow4 k) ->
  Z.of_nat (length mask) < 2 ^ 1000 -> Forall (fun x => 0 <= x <= 1) mask ->
  (forall current, ce "obtain_latters" [VInt current; VInt (Z.of_nat k)] = Ret (VList (map VInt (obtain_latters current k)))) ->
  run_fun ce fuel connect_valid_graph_def [VInt (Z.of_nat k); v_mask_bool mask; VBool verbose]
  = res_of_acc (Graph.connect_valid_graph k mask).
Proof.
  intros ce fuel k mask verbose HL HB H01 Hce. unfold v_mask_bool.
  apply (connect_generic ce k mask (fun x => VBool (negb (x =? 0)))); auto.
  - intros x Hx. assert (C : x = 0 \/ x = 1) by lia. destruct C as [-> | ->]; reflexivity.
  - rewrite HL. apply pow4_nat.
Qed.

(* ---- find_vertices ------------------------------------------------------------------------------------------------------ *)
Definition b2z (b : bool) : Z := if b then 1 else 0.

Lemma count_bools : forall bs, map_res as_count (map VBool bs) = Ret (map b2z bs).
Proof. induction bs as [|b bs IH]; [reflexivity|]. cbn [map map_res as_count]. rewrite IH. reflexivity. Qed.

Lemma py_slice_map {A B} (h : A -> B) l lo hi : py_slice (map h l) lo hi = map h (py_slice l lo hi).
Proof.
  unfold py_slice. rewrite map_length.
  destruct (clampZ (Z.of_nat (length l)) hi <=? clampZ (Z.of_nat (length l)) lo); [reflexivity|].
  rewrite skipn_map, firstn_map. reflexivity.
Qed.

Lemma map_repeat_ {A B} (h : A -> B) x n : map h (repeat x n) = repeat (h x) n.
Proof. induction n as [|n IH]; cbn [repeat map]; [reflexivity|rewrite IH; reflexivity]. Qed.

Lemma store_bool_mid done x R t :
  store_val (VArr (map VBool (done ++ x :: R))) (VInt (Z.of_nat (length done))) (VBool t) = Ret (VArr (map VBool (done ++ t :: R))).
Proof.
  unfold store_val. rewrite map_length, app_length. cbn [length].
  destruct (Z.of_nat (length done) <? 0) eqn:E; [lia|].
  destruct ((Z.of_nat (length done) <? 0) || (Z.of_nat (length done + S (length R)) <=? Z.of_nat (length done))) eqn:F; [lia|].
  rewrite Nat2Z.id. rewrite !map_app. cbn [map]. rewrite <- (map_length VBool done). rewrite set_nth_mid.
  destruct done; reflexivity.
Qed.

Lemma sum_b2z_nonneg : forall bs, 0 <= sumZ (map b2z bs) <= Z.of_nat (length bs).
Proof.
  induction bs as [|b bs IH]; [cbn; lia|]. cbn [map length]. rewrite sumZ_cons. destruct b; cbn [b2z]; lia.
Qed.

Lemma sum_b2z_zero : forall bs, (sumZ (map b2z bs) =? 0) = forallb (fun x => x =? 0) (map b2z bs).
Proof.
  induction bs as [|b bs IH]; [reflexivity|]. cbn [map forallb]. rewrite sumZ_cons, <- IH.
  pose proof (sum_b2z_nonneg bs). destruct b; cbn [b2z].
  - change (1 =? 0) with false. cbn [andb]. lia.
  - change (0 =? 0) with true. cbn [andb]. reflexivity.
Qed.

Lemma pow4_lt_1000 k : Z.of_nat k < 400 -> pow4 k < 2 ^ 1000.
Proof.
  intro H. unfold pow4. change 4 with (2 ^ 2). rewrite <- Z.pow_mul_r by lia.
  apply Z.pow_lt_mono_r; lia.
Qed.

Section Find.
  Variable ce : string -> list val -> res val.
  Variable k : nat.
  Variable f : list Z -> bool.
  Hypothesis ce_dna : forall v, 0 <= v < pow4 k -> ce "number_to_dna" [VInt v; VInt (Z.of_nat k)] = Ret (VStr (kmer_string k v)).
  Hypothesis ce_valid : forall s, ce "bio_filter.valid" [VStr s] = Ret (VBool (f s)).

  Lemma fexec_assign fuel t e en : exec ce fuel (SAssign t e) en = lift (eval ce en e) (fun v => assign ce t v en).
  Proof. reflexivity. Qed.
  Lemma fexec_return fuel e en : exec ce fuel (SReturn e) en = lift (eval ce en e) OReturn.
  Proof. reflexivity. Qed.
  Lemma fexec_raise fuel e en : exec ce fuel (SRaise e) en = OExn e.
  Proof. reflexivity. Qed.
  Lemma fexec_skip fuel en : exec ce fuel SSkip en = ONormal en.
  Proof. reflexivity. Qed.
  Ltac ex := repeat first [rewrite exec_seq | rewrite fexec_assign | rewrite exec_if | rewrite exec_for
                          | rewrite fexec_return | rewrite fexec_raise | rewrite fexec_skip].
  Ltac evl := cbn [eval lift seq rbind assign items bind_tuple builtin1_val builtin2_val binop_vals binop_scalar cmp_vals is_arr orb
                  truthy mixes_bool type_is to_int lookup update String.eqb Ascii.eqb Bool.eqb].

  Ltac ev := cbn [eval lift seq rbind assign items bind_tuple builtin1_val builtin2_val binop_vals binop_scalar cmp_vals is_arr orb
                  truthy mixes_bool type_is to_int].

  Definition find_monitor : stmt :=
    (SIf (EVar "verbose"%string)
    (SExpr (ETuple [(EBin Add (EVar "vertex_index"%string) (EInt (1))); (EB1 BLen (EVar "vertices"%string)); (EDict [((EStr [118; 97; 108; 105; 100]), (EB1 BNpSum (ESlice (EVar "vertices"%string) None (Some (EBin Add (EVar "vertex_index"%string) (EInt (1)))))))])]))
    SSkip).

  Lemma find_monitor_ok fuel en verbose s bs :
    lookup "verbose" en = Ret (VBool verbose) -> lookup "vertex_index" en = Ret (VInt s) ->
    lookup "vertices" en = Ret (VArr (map VBool bs)) -> exec ce fuel find_monitor en = ONormal en.
  Proof.
    intros HB HI HV. unfold find_monitor. step. rewrite HB. step. destruct verbose; [|reflexivity].
    step. rewrite HI. step. rewrite HV. step. cbn [slice_val opt_int rbind].
    rewrite py_slice_map, count_bools. reflexivity.
  Qed.

  Definition find_body : stmt :=
    (SSeq (SAssign (TVar "dna_sequence"%string) (ECall "number_to_dna"%string [(EVar "vertex_index"%string); (EVar "observed_length"%string)]))
    (SSeq (SAssign (TIndex "vertices"%string (EVar "vertex_index"%string)) (ECall "bio_filter.valid"%string [(EVar "dna_sequence"%string)]))
    find_monitor)).

  Definition keep (v : Z) : bool := f (kmer_string k v).

  Lemma find_loop fuel verbose : forall m done s en,
    s = Z.of_nat (length done) -> s + Z.of_nat m = pow4 k ->
    lookup "vertices" en = Ret (VArr (map VBool (done ++ repeat false m))) ->
    lookup "observed_length" en = Ret (VInt (Z.of_nat k)) ->
    lookup "verbose" en = Ret (VBool verbose) ->
    exists en', for_loop ce fuel (TVar "vertex_index") find_body (map VInt (zrange_from s m)) en = ONormal en' /\
      lookup "vertices" en' = Ret (VArr (map VBool (done ++ map keep (zrange_from s m)))) /\
      lookup "verbose" en' = Ret (VBool verbose).
  Proof.
    induction m as [|m IH]; intros done s en Hs Hm HV HK HB.
    - exists en. cbn [zrange_from map for_loop repeat] in *. auto.
    - subst s. cbn [zrange_from map for_loop repeat] in *. ev. unfold find_body at 1.
      rewrite exec_seq, fexec_assign. ev. lk. rewrite HK. ev. rewrite ce_dna by lia. ev.
      rewrite exec_seq, fexec_assign. ev. lk. ev. rewrite ce_valid. ev. lk. rewrite HV. ev.
      rewrite store_bool_mid. ev.
      fold (keep (Z.of_nat (length done))).
      match goal with |- context [exec ce fuel find_monitor ?E] => set (en1 := E) end.
      rewrite (find_monitor_ok fuel en1 verbose (Z.of_nat (length done)) (done ++ keep (Z.of_nat (length done)) :: repeat false m))
        by (unfold en1; lk; auto).
      ev.
      destruct (IH (done ++ [keep (Z.of_nat (length done))]) (Z.of_nat (length done) + 1) en1) as (en' & EL & HV' & HB');
        try (unfold en1; lk; auto).
      { rewrite app_length. cbn [length]. lia. }
      { lia. }
      { rewrite <- app_assoc. reflexivity. }
      exists en'. split; [exact EL|]. split; [|exact HB'].
      rewrite HV'. rewrite <- app_assoc. reflexivity.
  Qed.

  Lemma fif_same {A} (b : bool) (x : A) : (if b then x else x) = x.
  Proof. destruct b; reflexivity. Qed.

  Lemma find_generic fuel verbose : Z.of_nat k < 400 ->
    run_fun ce fuel find_vertices_def [VInt (Z.of_nat k); VOpaque; VBool verbose]
    = match Graph.find_vertices k f with Ok mask => Ret (v_mask_bool mask) | Raise e => Exn e | OutOfFuel => Fuel end.
  Proof.
    intro Hk. pose proof (pow4_pos k) as Hp. pose proof (pow4_lt_1000 k Hk) as Hlt.
    unfold run_fun. cbn [params body bind_params find_vertices_def].
    ex. evl. ex. evl. change (Z.of_nat (length [65; 67; 71; 84])) with 4.
    destruct (Z.of_nat k <? 0) eqn:EK; [lia|]. evl. fold (pow4 k).
    ex. evl. rewrite fif_same. ex. evl.
    ex. evl. rewrite repeat_length, pow4_nat. rewrite range_items by lia. evl.
    match goal with |- context [for_loop _ _ _ _ _ ?E] => set (en0 := E) end.
    destruct (find_loop fuel verbose (Z.to_nat (pow4 k)) [] 0 en0) as (en' & EL & HV & HB); try reflexivity.
    { rewrite pow4_nat. lia. }
    { unfold en0. lk. cbn [app]. rewrite map_repeat_. reflexivity. }
    unfold find_body, find_monitor in EL. rewrite EL. evl. cbn [app] in HV.
    set (bs := map keep (zrange_from 0 (Z.to_nat (pow4 k)))) in *.
    assert (Hlen : Z.of_nat (length bs) = pow4 k) by (unfold bs; rewrite map_length, zrange_from_length; apply pow4_nat).
    pose proof (sum_b2z_nonneg bs) as Hsum.
    ex. evl. rewrite HV. evl. rewrite count_bools. evl. rewrite map_length.
    destruct (Z.of_nat (length bs) =? 0) eqn:E0; [lia|].
    rewrite (ratio_ok_sum (sumZ (map b2z bs)) (Z.of_nat (length bs))) by lia. evl.
    ex. evl. lk. evl. cbn [cmp_scalar]. rewrite (ratio_ok_sum (sumZ (map b2z bs)) (Z.of_nat (length bs))) by lia.
    change (0 =? 0) with true. cbn [andb]. evl.
    assert (EM : map (fun v => if f (kmer_string k v) then 1 else 0) (vertices_of k) = map b2z bs).
    { unfold bs, vertices_of, zrange. rewrite map_map. reflexivity. }
    unfold Graph.find_vertices. rewrite EM, <- sum_b2z_zero.
    destruct (sumZ (map b2z bs) =? 0) eqn:ES.
    - ex. reflexivity.
    - ex. evl. ex. evl. lk. rewrite HB. evl. rewrite fif_same. ex. evl. ex. evl. lk. rewrite HV. evl.
      unfold v_mask_bool. rewrite map_map. do 2 f_equal. apply map_ext. intros []; reflexivity.
  Qed.
End Find.

Theorem find_vertices_gen : forall ce fuel k (f : list Z -> bool) verbose, Z.of_nat k < 400 ->
  (forall v, 0 <= v < pow4 k -> ce "number_to_dna" [VInt v; VInt (Z.of_nat k)] = Ret (VStr (kmer_string k v))) ->
  (forall s, ce "bio_filter.valid" [VStr s] = Ret (VBool (f s))) ->
  run_fun ce fuel find_vertices_def [VInt (Z.of_nat k); VOpaque; VBool verbose]
  = match Graph.find_vertices k f with Ok mask => Ret (v_mask_bool mask) | Raise e => Exn e | OutOfFuel => Fuel end.
Proof. intros ce fuel k f verbose Hk Hd Hv. apply find_generic; assumption. Qed.

Print Assumptions connect_valid_graph_gen.
Print Assumptions connect_valid_graph_gen_bool.
Print Assumptions find_vertices_gen.
