(* MulGenProofs.v -- proves that the program REGENERATED from the current source of dsw/operation.py (calculus_multiplication)
   computes, under the semantics of MiniPy.v, exactly what the hand-written model of Bignum.v / Convert.v computes.
   Compiled on every run of the checks against the freshly generated OperationGen.v (harness/translate_minipy.py). *)
From Coq Require Import Lia ZifyBool.
From DSW Require Import MiniPy Bignum Convert MiniPyLemmas.
From DSW Require Import Spec BignumProofs.
From DSWGen Require Import OperationGen.
Open Scope Z_scope.
Ltac Zify.zify_post_hook ::= Z.to_euclidean_division_equations.

(* ---- sanity checks of the statement (corner cases) ------------------------------------------------------------- *)
Definition mul_agree (ds : list Z) (b : Z) : bool :=
  match run_fun (fun _ _ => Stuck) 2 calculus_multiplication_def [dstr ds; dstr [b]] with
  | Ret v => val_eqb v (dstr (calculus_multiplication ds b))
  | _ => false
  end.
Goal forallb (fun ds => forallb (mul_agree ds) [0;1;2;3;4;5;6;7;8;9])
       [[]; [0]; [9]; [5]; [0;0]; [9;9;9]; [0;0;5]; [1;2;3;4;5;6;7;8;9;0]] = true.
Proof. vm_compute. reflexivity. Qed.

(* ---- the symbolic-execution step --------------------------------------------------------------------------------- *)
Ltac step :=
  cbn [exec eval lift seq rbind assign lookup update String.eqb Ascii.eqb Bool.eqb andb
       binop_vals binop_scalar cmp_vals cmp_scalar is_arr orb truthy builtin1_val mixes_bool items Z.eqb].

(* the same without [exec]: used where the continuation still contains loops *)
Ltac step0 :=
  cbn [eval lift seq rbind assign lookup update String.eqb Ascii.eqb Bool.eqb andb
       binop_vals binop_scalar cmp_vals cmp_scalar is_arr orb truthy builtin1_val mixes_bool items Z.eqb].

Lemma exec_assign ce fuel t e en :
  exec ce fuel (SAssign t e) en = lift (eval ce en e) (fun v => assign ce t v en).
Proof. reflexivity. Qed.
Lemma exec_return ce fuel e en : exec ce fuel (SReturn e) en = lift (eval ce en e) OReturn.
Proof. reflexivity. Qed.
Lemma exec_skip ce fuel en : exec ce fuel SSkip en = ONormal en.
Proof. reflexivity. Qed.

(* ---- list indexing on a list of ints ----------------------------------------------------------------------------- *)
Lemma nthZ_mid {A} (pre : list A) x post : nthZ (pre ++ x :: post) (length pre) = Some x.
Proof. induction pre as [|y pre IH]; cbn [app length nthZ]; [reflexivity|exact IH]. Qed.

Lemma set_nth_mid {A} (pre : list A) x post y : set_nth (pre ++ x :: post) (length pre) y = pre ++ y :: post.
Proof. induction pre as [|z pre IH]; cbn [app length set_nth]; [reflexivity|rewrite IH; reflexivity]. Qed.

Lemma index_vints_mid pre x post :
  index_val (vints (pre ++ x :: post)) (VInt (Z.of_nat (length pre))) = Ret (VInt x).
Proof.
  unfold index_val, vints, py_get. rewrite map_app. cbn [map].
  rewrite app_length. cbn [length]. rewrite !map_length.
  destruct (Z.of_nat (length pre) <? 0) eqn:E1; [lia|].
  destruct ((Z.of_nat (length pre) <? 0) || (Z.of_nat (length pre + S (length post)) <=? Z.of_nat (length pre)))%bool eqn:E2; [lia|].
  rewrite Nat2Z.id. rewrite <- (map_length VInt pre). rewrite nthZ_mid. reflexivity.
Qed.

Lemma store_vints_mid pre x post y :
  store_val (vints (pre ++ x :: post)) (VInt (Z.of_nat (length pre))) (VInt y) = Ret (vints (pre ++ y :: post)).
Proof.
  unfold store_val, vints. rewrite !map_app. cbn [map].
  rewrite app_length. cbn [length]. rewrite !map_length. cbv zeta.
  destruct (Z.of_nat (length pre) <? 0) eqn:E1; [lia|].
  destruct ((Z.of_nat (length pre) <? 0) || (Z.of_nat (length pre + S (length post)) <=? Z.of_nat (length pre)))%bool eqn:E2; [lia|].
  rewrite Nat2Z.id. rewrite <- (map_length VInt pre). rewrite set_nth_mid. reflexivity.
Qed.

Lemma insert_vints_0 l v : insert_val (vints l) (VInt 0) (VInt v) = Ret (vints (v :: l)).
Proof.
  unfold insert_val, vints, clampZ. cbn [Z.ltb Z.compare].
  destruct (Z.of_nat (length (map VInt l)) <? 0) eqn:E; [lia|]. reflexivity.
Qed.

(* ---- the range of the loop --------------------------------------------------------------------------------------- *)
Lemma range3_len k : range3 0 (Z.of_nat k) 1 = Ret (zrange_up k 0 1).
Proof.
  unfold range3. change (1 =? 0) with false. change (0 <? 1) with true. cbv iota.
  replace ((Z.of_nat k - 0 + 1 - 1) / 1) with (Z.of_nat k) by (rewrite Z.div_1_r; lia).
  rewrite Nat2Z.id. reflexivity.
Qed.

Lemma zrange_up_snoc n a : zrange_up (S n) a 1 = zrange_up n a 1 ++ [VInt (a + Z.of_nat n)].
Proof.
  revert a; induction n as [|n IH]; intro a.
  - cbn [zrange_up app]. replace (a + Z.of_nat 0) with a by lia. reflexivity.
  - change (zrange_up (S (S n)) a 1) with (VInt a :: zrange_up (S n) (a + 1) 1). rewrite IH.
    replace (a + 1 + Z.of_nat n) with (a + Z.of_nat (S n)) by lia. reflexivity.
Qed.

Lemma rev_zrange_S n : rev (zrange_up (S n) 0 1) = VInt (Z.of_nat n) :: rev (zrange_up n 0 1).
Proof. rewrite zrange_up_snoc, rev_app_distr. reflexivity. Qed.

(* ---- comparisons of the one-character operand -------------------------------------------------------------------- *)
Lemma eqb_base_0 b : val_eqb (VStr [dchr b]) (VStr [48]) = (b =? 0).
Proof.
  unfold dchr. cbn [val_eqb listZ_eqb]. rewrite Bool.andb_true_r.
  destruct (b =? 0) eqn:E; lia.
Qed.

Lemma eqb_base_1 b : val_eqb (VStr [dchr b]) (VStr [49]) = (b =? 1).
Proof.
  unfold dchr. cbn [val_eqb listZ_eqb]. rewrite Bool.andb_true_r.
  destruct (b =? 1) eqn:E; lia.
Qed.

(* ---- the model's recursion, one digit at a time ------------------------------------------------------------------- *)
Definition mstep (x b r : Z) : Z * Z :=
  if 10 <=? x * b + r then ((x * b + r) mod 10, (x * b + r) / 10) else (x * b + r, 0).

Lemma mul_rev_cons d ds b r :
  mul_rev (d :: ds) b r =
  (fst (mstep d b r) :: fst (mul_rev ds b (snd (mstep d b r))), snd (mul_rev ds b (snd (mstep d b r)))).
Proof.
  cbn [mul_rev]. unfold mstep. destruct (10 <=? d * b + r); cbn [fst snd];
  destruct (mul_rev ds b _) as [rest final]; reflexivity.
Qed.

Section Mul.
  Variable ce : string -> list val -> res val.
  Variable fuel : nat.
  Variable b : Z.
  Hypothesis Hb : 0 <= b <= 9.

  (* the body of  for index in range(len(number))[::-1]  , taken from the generated term *)
  Definition loop_body : stmt := Eval cbv in
    match body calculus_multiplication_def with
    | SSeq _ (SSeq _ (SSeq _ (SSeq _ (SSeq (SFor _ _ bd) _)))) => bd
    | _ => SSkip
    end.

  Definition while_body : stmt := Eval cbv in
    match body calculus_multiplication_def with
    | SSeq _ (SSeq _ (SSeq _ (SSeq _ (SSeq _ (SSeq (SWhile _ bd) _))))) => bd
    | _ => SSkip
    end.

  Definition while_cond : expr := Eval cbv in
    match body calculus_multiplication_def with
    | SSeq _ (SSeq _ (SSeq _ (SSeq _ (SSeq _ (SSeq (SWhile c _) _))))) => c
    | _ => ENone
    end.

  (* the environment during and after the loop; [tl] holds the loop-local variables *)
  Definition E (num : list Z) (r : Z) (tl : env) : env :=
    ("number"%string, vints num) :: ("base"%string, VStr [dchr b]) :: ("remainder"%string, VInt r) :: tl.

  Definition shape (tl : env) : Prop :=
    tl = [] \/ exists i c, tl = [("index"%string, VInt i); ("current"%string, VInt c)].

  Lemma body_step pre x post r tl : shape tl ->
    exists tl', shape tl' /\
    seq (assign ce (TVar "index") (VInt (Z.of_nat (length pre))) (E (pre ++ x :: post) r tl)) (exec ce fuel loop_body)
    = ONormal (E (pre ++ fst (mstep x b r) :: post) (snd (mstep x b r)) tl').
  Proof.
    intro Hs.
    exists [("index"%string, VInt (Z.of_nat (length pre))); ("current"%string, VInt (x * b + r))].
    split; [right; eexists; eexists; reflexivity|].
    unfold mstep, E, loop_body.
    destruct Hs as [->|[i [c ->]]].
    - step. rewrite index_vints_mid. step. rewrite (to_int_digit b Hb). step.
      destruct (10 <=? x * b + r) eqn:E10; step.
      + rewrite store_vints_mid. step. reflexivity.
      + rewrite store_vints_mid. step. reflexivity.
    - step. rewrite index_vints_mid. step. rewrite (to_int_digit b Hb). step.
      destruct (10 <=? x * b + r) eqn:E10; step.
      + rewrite store_vints_mid. step. reflexivity.
      + rewrite store_vints_mid. step. reflexivity.
  Qed.

  Lemma loop_correct l : forall post r tl, shape tl ->
    exists tl', shape tl' /\
    for_loop ce fuel (TVar "index") loop_body (rev (zrange_up (length l) 0 1)) (E (rev l ++ post) r tl)
    = ONormal (E (rev (fst (mul_rev l b r)) ++ post) (snd (mul_rev l b r)) tl').
  Proof.
    induction l as [|x l IH]; intros post r tl Hs.
    - exists tl. split; [exact Hs|]. reflexivity.
    - cbn [length]. rewrite rev_zrange_S, for_loop_cons.
      cbn [rev]. rewrite <- app_assoc. cbn [app].
      rewrite <- (rev_length l).
      destruct (body_step (rev l) x post r tl Hs) as [tl1 [Hs1 E1]]. rewrite E1. cbn [seq].
      rewrite rev_length.
      destruct (IH (fst (mstep x b r) :: post) (snd (mstep x b r)) tl1 Hs1) as [tl2 [Hs2 E2]].
      exists tl2. split; [exact Hs2|]. rewrite E2.
      rewrite mul_rev_cons. cbn [fst snd rev]. rewrite <- app_assoc. reflexivity.
  Qed.

  (* while remainder > 0: number.insert(0, remainder % 10); remainder //= 10 *)
  Lemma while_correct num r tl : 0 <= r < 10 -> (2 <= fuel)%nat ->
    while_loop ce fuel while_cond while_body fuel (E num r tl)
    = ONormal (E (rem_digits (Z.to_nat r) r [] ++ num) 0 tl).
  Proof.
    intros Hr Hf. rewrite rem_digits_small by exact Hr.
    destruct fuel as [|[|f]]; [lia|lia|].
    unfold while_cond, while_body, E.
    cbn [while_loop]. step.
    destruct (0 <? r) eqn:E0.
    - destruct (r =? 0) eqn:E1; [lia|].
      step.
      rewrite insert_vints_0. step.
      replace (r / 10) with 0 by lia. replace (r mod 10) with r by lia.
      change (0 <? 0) with false. step. reflexivity.
    - destruct (r =? 0) eqn:E1; [|lia]. assert (r = 0) by lia. subst r. reflexivity.
  Qed.
End Mul.

(* ---- the comprehension and the final join ------------------------------------------------------------------------- *)
Lemma map_res_digits (f : val -> res val) ds :
  (forall d, 0 <= d <= 9 -> f (VStr [dchr d]) = Ret (VInt d)) -> digits_ok ds ->
  map_res f (map (fun d => VStr [dchr d]) ds) = Ret (map VInt ds).
Proof.
  intros Hf. induction 1 as [|d ds Hd Hds IH]; cbn [map map_res]; [reflexivity|].
  rewrite IH, (Hf d Hd). reflexivity.
Qed.

Lemma eval_comp_ints ce en ds : digits_ok ds -> lookup "number" en = Ret (dstr ds) ->
  eval ce en (EComp (EB1 BInt (EVar "item")) "item" (EVar "number")) = Ret (vints ds).
Proof.
  intros Hds Hl. cbn [eval]. rewrite Hl. cbn [rbind]. rewrite items_dstr. cbn [rbind].
  rewrite map_res_digits; [reflexivity| |exact Hds].
  intros d Hd. rewrite lookup_update_same. cbn [rbind builtin1_val]. apply to_int_digit; exact Hd.
Qed.

Lemma map_str_digits ds : digits_ok ds ->
  map_res to_str (map VInt ds) = Ret (map (fun d => VStr [dchr d]) ds).
Proof.
  induction 1 as [|d ds Hd Hds IH]; cbn [map map_res]; [reflexivity|].
  rewrite IH, (to_str_digit d Hd). reflexivity.
Qed.

Lemma join_digits ds : join_strs [] (map (fun d => VStr [dchr d]) ds) = Ret (map dchr ds).
Proof.
  induction ds as [|d ds IH]; [reflexivity|].
  destruct ds as [|d' ds]; [reflexivity|].
  change (join_strs [] (map (fun d => VStr [dchr d]) (d :: d' :: ds)))
    with (r <~ join_strs [] (map (fun d => VStr [dchr d]) (d' :: ds)) ;; Ret ([dchr d] ++ [] ++ r)).
  rewrite IH. reflexivity.
Qed.

Lemma digit_ok_of l : Forall digit l -> digits_ok l.
Proof. apply Forall_impl. unfold digit. intros; lia. Qed.

Lemma ok_digit_of l : digits_ok l -> Forall digit l.
Proof. apply Forall_impl. unfold digit. intros; lia. Qed.

Theorem calculus_multiplication_gen : forall ce fuel ds b,
  digits_ok ds -> 0 <= b <= 9 -> (2 <= fuel)%nat ->
  run_fun ce fuel calculus_multiplication_def [dstr ds; dstr [b]] = Ret (dstr (calculus_multiplication ds b)).
Proof.
  intros ce fuel ds b Hds Hb Hf.
  unfold run_fun, calculus_multiplication.
  cbn [params body bind_params calculus_multiplication_def].
  change (dstr [b]) with (VStr [dchr b]).
  rewrite exec_seq, exec_if. step0. rewrite eqb_base_0.
  destruct (b =? 0) eqn:E0; [rewrite exec_return; reflexivity|].
  rewrite exec_skip. step0. rewrite exec_seq, exec_if. step0. rewrite eqb_base_1.
  destruct (b =? 1) eqn:E1; [rewrite exec_return; reflexivity|].
  rewrite exec_skip. step0.
  (* number = [int(item) for item in number] ; remainder = 0 *)
  rewrite exec_seq, exec_assign. rewrite (eval_comp_ints ce _ ds Hds) by reflexivity. step0.
  rewrite exec_seq, exec_assign. step0.
  (* the for loop *)
  rewrite exec_seq, exec_for. step0. unfold vints at 1. step0. rewrite map_length, range3_len. step0.
  pose proof (loop_correct ce fuel b Hb (rev ds) [] 0 [] (or_introl eq_refl)) as [tl [Hs EL]].
  rewrite rev_involutive, app_nil_r, rev_length in EL. unfold E in EL at 1. unfold loop_body in EL.
  rewrite EL. clear EL. step0.
  (* what the model says about the loop's result *)
  destruct (mul_rev (rev ds) b 0) as [q rm] eqn:Em. cbn [fst snd].
  destruct (mul_rev_val (rev ds) b 0 (Forall_rev (ok_digit_of ds Hds)) ltac:(lia) ltac:(lia) q rm Em)
    as (_ & Hq & _ & Hrm).
  (* the while loop *)
  rewrite exec_seq, exec_while.
  pose proof (while_correct ce fuel b (rev q ++ []) rm tl Hrm Hf) as EW.
  unfold while_cond, while_body in EW. rewrite EW. clear EW. step0.
  (* result = ''.join(list(map(str, number))) ; return result *)
  rewrite app_nil_r.
  assert (Hout : digits_ok (rem_digits (Z.to_nat rm) rm [] ++ rev q)).
  { apply digit_ok_of. apply Forall_app. split; [|apply Forall_rev; exact Hq].
    rewrite rem_digits_small by exact Hrm. destruct (rm =? 0); [constructor|].
    constructor; [exact Hrm|constructor]. }
  unfold E. rewrite exec_seq, exec_assign. step0. unfold vints at 1. step0.
  rewrite (map_str_digits _ Hout). step0.
  cbn [builtin2_val]. step0. rewrite join_digits. step0.
  rewrite exec_return. step0. rewrite lookup_update_same. reflexivity.
Qed.

Print Assumptions calculus_multiplication_gen.
