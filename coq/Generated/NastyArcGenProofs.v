(* NastyArcGenProofs.v -- the regenerated remove_nasty_arc (dsw/spiderweb.py) computes Score.remove_nasty_arc, value and exception.
   Compiled on every run of the checks against the freshly generated ScoreGen.v (harness/regen.py, unit "score"). *)
From Coq Require Import Lia ZifyBool Sorting.Sorted.
From DSW Require Import MiniPyS Graph Kmer Score Spec GraphSpec MiniPySLemmas KmerProofs GraphProofs ReprProofs ShuffleProofs ScoreProofs.
From DSWGen Require Import ScoreGen ScoreRepr.
Open Scope Z_scope.
Open Scope string_scope.
Ltac Zify.zify_post_hook ::= Z.to_euclidean_division_equations.
Local Open Scope Z_scope.
Local Open Scope list_scope.
Notation lookup := MiniPyS.lookup.

(* PROVED BELOW (the target of this file): remove_nasty_arc_gen.

   remove_nasty_arc calls calculate_intersection_score and obtain_vertices (and number_to_dna inside a verbose print: not
   covered, verbose = False); it UPDATES its arguments accessor and latter_map in place and returns them -- the value
   semantics of MiniPyS describes the returned objects (which are the caller's objects).

   Statement (adjusted on request of the coordinator, so that the knot file can discharge it: the hypothesis about
   calculate_intersection_score is only assumed for the ACTUAL call -- the theorem's own m, k, ins, del -- since
   calculate_intersection_score_gen needs 1 <= k and NoDup (map fst m); this is a WEAKER hypothesis than the original
   "forall m' k' i' d' vb", so the theorem is stronger; everything else is as in the original target):

     Theorem remove_nasty_arc_gen : forall ce fuel acc m iteration ins del k,
       (forall vb, ce "calculate_intersection_score" [v_lmap m; VInt (Z.of_nat k); VBool ins; VBool del; VBool vb]
                   = res_of_scores (Score.calculate_intersection_score m k ins del)) ->
       (forall acc', ce "obtain_vertices" [varr2 acc'] = Ret (varr (Graph.obtain_vertices acc'))) ->
       (1 <= k)%nat -> length acc = Z.to_nat (pow4 k) -> rows4 acc -> NoDup (map fst m) ->
       run_fun ce fuel remove_nasty_arc_def [varr2 acc; v_lmap m; VInt iteration; VBool ins; VBool del; VBool false]
       = res_of_removal (Score.remove_nasty_arc acc m ins del).

   Tested first with Eval vm_compute (call_in score_module 300 "remove_nasty_arc" .. against res_of_removal (Score.remove_nasty_arc ..))
   on accessors of order 1 and 2 (complete, sparse, arc-less), all four flag combinations, with the accessor's own latter map and
   with foreign maps (missing key -> KeyError, missing successor -> ValueError, keys out of range -> the callee's IndexError,
   negative keys, duplicated successors, no positive score -> the last IndexError, a list that becomes empty -> key dropped):
   equal everywhere.  The only difference found is OUTSIDE the hypotheses: a map with a duplicated key, e.g. accessor
   [[-1;1;-1;3];[0;-1;2;-1];[-1;-1;-1;-1];[0;1;-1;-1]] with m = [(0,[1]);(1,[0;2]);(0,[1;3]);(3,[0;1])] (not a dict: NoDup
   (map fst m) fails) -- `del latter_map[former]` (SDel on a VDict) drops every entry with that key, lmap_remove only the first.
   NoDup (map fst m) is used exactly there (put_empty).  The hypothesis (1 <= k)%nat is NOT used by the proof (kept because
   the statement was given with it).

   How the proof goes.  The body is split into its 17 statements st1 .. st17 (computed from the generated term: `prog`,
   `body_eq`), one lemma per statement (ex1 .. ex17) in terms of the model's intermediate values, chained in the theorem
   (statements 12 .. 17 in tail_ok).
   * `int(log(len(accessor)) / log(len(nucleotides)))` is (EB2 BIntLogRatio ..) = the exact exponent k (log_exact_pow4,
   int_log_ratio); the model's k is log4 (4^k) = k (ReprProofs.log4_pow4).
   * scores is a (4^k) x 4 table for ANY latter map (scores_shape).  `max(scores)` = maxZ (concat sc) (np_max_scores);
   `scores == max` cmp_top on a 2-D array (cmp_eq_2d); `where(..)[0]` row indices, row-major (where_2d, hits); `unique`
   (np_unique); `intersect1d(obtain_vertices(accessor), vertex_indices)[0]` = the first listed vertex whose row holds the maximum
   (np_intersect, candidates_eq: obtain_vertices is strictly ascending, so sort_uniqZ leaves it alone; rows_with_max_In), IndexError
   when there is none (index_first).
   * `argmax(scores[former])` = Score.argmaxZ (np_argmax), in 0 .. 3 (argmax_range); `accessor[former, latter_value] = -1` =
   set_entry (store_entry); `del latter_map[former][latter_map[former].index(latter)]` KeyError / ValueError / the list without
   the first occurrence (ex10: index_lmap, index_of_latter, first_pos_remove, store_lmap); `del latter_map[former]` when the list
   became empty (ex11); both shapes are Score.lmap_remove (put_nonempty, put_empty).
   * `scores.reshape(-1)`, `scores[scores > 0].tolist()` = filter (0 <?) (concat sc) (reshape_flat, cmp_gt0, index_mask,
   tolist_varr); `Counter(scores).items()`, `array(..).T` (counter_items, np_array_items, transpose_items); `score_record[0]`
   raises IndexError exactly when there is no positive score; otherwise the Counter keys are distinct (cof_nodup), argsort
   succeeds and the column selection succeeds (record_columns, with ShuffleProofs.argsort_in): ex15.
   The order of the exceptions (callee's exception, IndexError, KeyError, ValueError, IndexError) is the model's.
*)

(* ---- generic facts ------------------------------------------------------------------------------------------------- *)
Lemma map_res_map {A B C} (g : A -> B) (f : B -> res C) (h : A -> C) (l : list A) :
  (forall a, f (g a) = Ret (h a)) -> map_res f (map g l) = Ret (map h l).
Proof.
  intro H. induction l as [|a t IH]; cbn [map map_res]; [reflexivity|]. rewrite H, IH. reflexivity.
Qed.

Lemma all_ints vs : forallb (fun x => match x with VInt _ => true | _ => false end) (map VInt vs) = true.
Proof. induction vs as [|a t IH]; [reflexivity|exact IH]. Qed.

Lemma memZ_ext l1 l2 : (forall z, In z l1 <-> In z l2) -> forall z, memZ z l1 = memZ z l2.
Proof.
  intros H z. destruct (memZ z l1) eqn:E1; destruct (memZ z l2) eqn:E2; try reflexivity.
  - apply memZ_In in E1. apply H in E1. apply memZ_In in E1. congruence.
  - apply memZ_In in E2. apply H in E2. apply memZ_In in E2. congruence.
Qed.

Lemma pg_nth {A} (l : list A) i d : 0 <= i < Z.of_nat (length l) -> py_get l i = Ok (nth (Z.to_nat i) l d).
Proof.
  intro Hi. unfold py_get. cbv zeta.
  destruct (i <? 0) eqn:E1; [lia|].
  destruct (Z.of_nat (length l) <=? i) eqn:E2; [lia|].
  rewrite ?E1. cbn [orb]. rewrite (ReprProofs.nthZ_nth _ l _ d) by lia. reflexivity.
Qed.

Lemma map_set_nth {A B} (f : A -> B) l i x : map f (set_nth l i x) = set_nth (map f l) i (f x).
Proof.
  revert i; induction l as [|y t IH]; intro i; [reflexivity|].
  destruct i as [|i]; cbn [set_nth map]; [reflexivity|]. rewrite IH. reflexivity.
Qed.

(* ---- int(log(len(accessor)) / log(4)) ------------------------------------------------------------------------------ *)
Lemma log_exact_pow4 : forall k f, (k < f)%nat -> log_exact f (pow4 k) 4 = Some (Z.of_nat k).
Proof.
  induction k as [|k IH]; intros f Hf; (destruct f as [|f]; [lia|]); cbn [log_exact].
  - rewrite pow4_0. reflexivity.
  - pose proof (pow4_pos k) as Hp. rewrite pow4_S.
    destruct (4 * pow4 k =? 1) eqn:E1; [lia|].
    destruct ((4 * pow4 k) mod 4 =? 0) eqn:E2; [|lia].
    replace (4 * pow4 k / 4) with (pow4 k) by lia.
    rewrite IH by lia. f_equal. lia.
Qed.

Lemma log2_pow4 k : Z.log2 (pow4 k) = 2 * Z.of_nat k.
Proof.
  unfold pow4. change 4 with (2 ^ 2). rewrite <- Z.pow_mul_r by lia. apply Z.log2_pow2. lia.
Qed.

Lemma int_log_ratio k :
  builtin2_val BIntLogRatio (VInt (pow4 k)) (VInt 4) = Ret (VInt (Z.of_nat k)).
Proof.
  pose proof (pow4_pos k) as Hp. cbn [builtin2_val].
  destruct ((2 <=? 4) && (1 <=? pow4 k)) eqn:E; [|lia].
  rewrite log_exact_pow4; [reflexivity|]. rewrite log2_pow4. lia.
Qed.

(* ---- the shape of the scores table (any latter map) ---------------------------------------------------------------- *)
Definition sc_shape (n : nat) (sc : scores_t) : Prop := length sc = n /\ Forall (fun r => length r = 4%nat) sc.

Lemma add_score_shape n sc v col x sc' : sc_shape n sc -> add_score sc v col x = Ok sc' -> sc_shape n sc'.
Proof.
  intros [Hl HF] H. unfold add_score in H.
  destruct ((if v <? 0 then v + Z.of_nat (length sc) else v) <? 0) eqn:E1; [discriminate|].
  destruct (Z.of_nat (length sc) <=? (if v <? 0 then v + Z.of_nat (length sc) else v)) eqn:E2; [discriminate|].
  cbn [orb] in H. inversion H; subst sc'; clear H. split.
  - rewrite ScoreProofs.set_nth_length. exact Hl.
  - apply Forall_set_nth; [exact HF|]. rewrite ScoreProofs.set_nth_length.
    rewrite Forall_forall in HF. apply HF. apply nth_In. lia.
Qed.

Lemma add_all_shape n v items : forall sc sc', sc_shape n sc -> add_all sc v items = Ok sc' -> sc_shape n sc'.
Proof.
  induction items as [|[col x] t IH]; intros sc sc' Hs H; cbn [add_all] in H.
  - inversion H; subst; exact Hs.
  - destruct (add_score sc v col x) as [s| |] eqn:E; cbn [bind] in H; try discriminate.
    apply (IH s sc'); [|exact H]. apply (add_score_shape n sc v col x s Hs E).
Qed.

Lemma score_keys_shape n m depth ins del : forall todo sc sc', sc_shape n sc ->
  score_keys m todo depth ins del sc = Ok sc' -> sc_shape n sc'.
Proof.
  induction todo as [|[cur lats] t IH]; intros sc sc' Hs H; cbn [score_keys] in H.
  - inversion H; subst; exact Hs.
  - destruct (add_all sc cur (vertex_scores m depth ins del cur lats)) as [s| |] eqn:E; cbn [bind] in H; try discriminate.
    apply (IH s sc'); [|exact H]. apply (add_all_shape n cur _ sc s Hs E).
Qed.

Lemma scores_shape m k ins del sc :
  calculate_intersection_score m k ins del = Ok sc -> sc_shape (Z.to_nat (pow4 k)) sc.
Proof.
  unfold calculate_intersection_score. apply score_keys_shape. split; [apply repeat_length|].
  rewrite Forall_forall. intros r Hr. apply repeat_spec in Hr. subst r. reflexivity.
Qed.

(* ---- flat_ints, max -------------------------------------------------------------------------------------------------- *)
Lemma flat_ints_arr l : flat_ints (VArr l) = (r <~ map_res flat_ints l ;; Ret (concat r)).
Proof.
  induction l as [|x t IH]; [reflexivity|].
  change (flat_ints (VArr (x :: t))) with (y <~ flat_ints x ;; ys <~ flat_ints (VArr t) ;; Ret (y ++ ys)).
  rewrite IH. cbn [map_res]. destruct (flat_ints x) as [y| | |]; cbn [rbind]; try reflexivity.
  destruct (map_res flat_ints t) as [ys| | |]; reflexivity.
Qed.

Lemma concat_singletons (l : list Z) : concat (map (fun z => [z]) l) = l.
Proof. induction l as [|a t IH]; [reflexivity|]. cbn [map concat app]. rewrite IH. reflexivity. Qed.

Lemma flat_ints_varr l : flat_ints (varr l) = Ret l.
Proof.
  unfold varr. rewrite flat_ints_arr. rewrite (map_res_map VInt flat_ints (fun z => [z])) by reflexivity.
  cbn [rbind]. rewrite concat_singletons. reflexivity.
Qed.

Lemma flat_ints_varr2 sc : flat_ints (varr2 sc) = Ret (concat sc).
Proof.
  unfold varr2. rewrite flat_ints_arr. rewrite (map_res_map varr flat_ints (fun r => r)) by apply flat_ints_varr.
  cbn [rbind]. rewrite map_id. reflexivity.
Qed.

Lemma maxZ_hd h t : maxZ (h :: t) (hd 0 (h :: t)) = fold_left Z.max t h.
Proof. unfold maxZ. cbn [hd fold_left]. rewrite Z.max_id. reflexivity. Qed.

Lemma fold_max_In : forall t h, In (fold_left Z.max t h) (h :: t).
Proof.
  induction t as [|y t IH]; intro h; cbn [fold_left]; [left; reflexivity|].
  destruct (IH (Z.max h y)) as [E|HIn].
  - rewrite <- E. destruct (Z.max_spec h y) as [[_ M]|[_ M]]; rewrite M.
    + right; left; reflexivity.
    + left; reflexivity.
  - right; right; exact HIn.
Qed.

Lemma shape_nonempty k sc : sc_shape (Z.to_nat (pow4 k)) sc -> sc <> [] /\ concat sc <> [].
Proof.
  intros [Hl HF]. pose proof (pow4_pos k) as Hp.
  destruct sc as [|r0 t]; [cbn [length] in Hl; lia|]. split; [discriminate|].
  inversion HF as [|? ? H0 _]; subst. destruct r0 as [|a r0]; [discriminate|]. discriminate.
Qed.

(* max(scores) *)
Lemma np_max_scores sc : concat sc <> [] ->
  builtin1_val BNpMax (varr2 sc) = Ret (VInt (maxZ (concat sc) (hd 0 (concat sc)))).
Proof.
  intro Hne. unfold varr2 at 1. cbn [builtin1_val]. fold (varr2 sc). rewrite flat_ints_varr2. cbn [rbind].
  destruct (concat sc) as [|h t]; [contradiction|]. rewrite maxZ_hd. reflexivity.
Qed.

(* scores == max : a 2-D array against an integer *)
Lemma cmp_row o (f : Z -> bool) b row :
  (forall x, cmp_scalar o (VInt x) (VInt b) = Ret (VBool (f x))) ->
  match o with CIn | CNotIn => False | _ => True end ->
  cmp_vals o (varr row) (VInt b) = Ret (VArr (map (fun x => VBool (f x)) row)).
Proof.
  intros H Ho. unfold varr. cbn [cmp_vals].
  rewrite (map_res_map VInt _ (fun x => VBool (f x))) by exact H.
  destruct o; try reflexivity; contradiction.
Qed.

Lemma cmp_eq_2d sc mx : sc <> [] ->
  cmp_top CEq (varr2 sc) (VInt mx) = Ret (VArr (map (fun row => VArr (map (fun x => VBool (x =? mx)) row)) sc)).
Proof.
  intro Hne. destruct sc as [|r0 t]; [contradiction|].
  change (varr2 (r0 :: t)) with (VArr (VArr (map VInt r0) :: map varr t)). cbn [cmp_top].
  change (VArr (map VInt r0) :: map varr t) with (map varr (r0 :: t)).
  rewrite (map_res_map varr _ (fun row => VArr (map (fun x => VBool (x =? mx)) row))); [reflexivity|].
  intro row. unfold varr at 1. fold (varr row). apply cmp_row; [|exact I]. intro x. reflexivity.
Qed.

(* where(..) of a 2-D boolean array *)
Definition hits (f : Z -> bool) (sc : list (list Z)) : list (Z * Z) :=
  concat (map (fun ir : Z * list bool => map (fun j => (fst ir, j)) (used_indices (map (fun b : bool => if b then 0 else -1) (snd ir))))
              (combine (map Z.of_nat (List.seq 0 (length (map (map f) sc)))) (map (map f) sc))).

Lemma where_2d f sc : sc <> [] ->
  builtin1_val BNpWhere (VArr (map (fun row => VArr (map (fun x => VBool (f x)) row)) sc))
  = Ret (VTuple [VArr (map (fun p => VInt (fst p)) (hits f sc)); VArr (map (fun p => VInt (snd p)) (hits f sc))]).
Proof.
  intro Hne. destruct sc as [|r0 t]; [contradiction|].
  cbn [map]. cbn [builtin1_val].
  set (g := fun row : list Z => VArr (map (fun x => VBool (f x)) row)).
  change (VArr (map (fun x => VBool (f x)) r0) :: map g t) with (map g (r0 :: t)).
  rewrite (map_res_map g _ (map f)).
  - cbn [rbind]. reflexivity.
  - intro row. unfold g. rewrite (map_res_map (fun x => VBool (f x)) _ f) by reflexivity. reflexivity.
Qed.

Lemma index_pair0 a b : index_val (VTuple [a; b]) (VInt 0) = Ret a.
Proof. reflexivity. Qed.

(* unique(..) *)
Lemma np_unique (h : list (Z * Z)) :
  builtin1_val BNpUnique (VArr (map (fun p => VInt (fst p)) h)) = Ret (varr (sort_uniqZ (map fst h))).
Proof.
  cbn [builtin1_val]. rewrite <- (map_map fst VInt). fold (varr (map fst h)). rewrite flat_ints_varr. reflexivity.
Qed.

(* intersect1d(a, b) *)
Lemma np_intersect xs ys :
  builtin2_val BIntersect1d (varr xs) (varr ys) = Ret (varr (filter (fun z => memZ z ys) (sort_uniqZ xs))).
Proof.
  unfold varr at 1 2. cbn [builtin2_val]. fold (varr xs). fold (varr ys). rewrite !flat_ints_varr. reflexivity.
Qed.

(* ---- sort_uniqZ, the rows holding the maximum ----------------------------------------------------------------------- *)
Lemma In_insert_sortedZ x : forall l z, In z (insert_sortedZ x l) <-> z = x \/ In z l.
Proof.
  induction l as [|h t IH]; intro z; cbn [insert_sortedZ].
  - cbn [In]. intuition.
  - destruct (x <? h); [cbn [In]; intuition|]. destruct (x =? h) eqn:E.
    + assert (x = h) by lia. subst h. cbn [In]. intuition.
    + cbn [In]. rewrite IH. intuition.
Qed.

Lemma In_sort_uniqZ : forall l z, In z (sort_uniqZ l) <-> In z l.
Proof.
  unfold sort_uniqZ. induction l as [|x t IH]; intro z; cbn [fold_right]; [reflexivity|].
  rewrite In_insert_sortedZ, IH. cbn [In]. intuition.
Qed.

Lemma sort_uniqZ_sorted : forall l, StronglySorted Z.lt l -> sort_uniqZ l = l.
Proof.
  unfold sort_uniqZ. induction l as [|x t IH]; intro HS; [reflexivity|]. cbn [fold_right].
  inversion HS as [|? ? Ht Hx]; subst. rewrite (IH Ht).
  destruct t as [|h t']; [reflexivity|]. cbn [insert_sortedZ].
  inversion Hx as [|? ? Hxh _]; subst. destruct (x <? h) eqn:E; [reflexivity|lia].
Qed.

Lemma In_zrange n z : In z (zrange n) <-> 0 <= z < Z.of_nat n.
Proof.
  unfold zrange. split.
  - intro H. apply zrange_from_In in H. lia.
  - intro H. assert (E : nth (Z.to_nat z) (zrange_from 0 n) 0 = z) by (rewrite zrange_from_nth by lia; lia).
    rewrite <- E. apply nth_In. rewrite zrange_from_length. lia.
Qed.

Lemma used_nonempty (f : Z -> bool) : forall row j,
  used_from (map (fun b : bool => if b then 0 else -1) (map f row)) j <> [] <-> existsb f row = true.
Proof.
  induction row as [|x t IH]; intro j; cbn [map used_from existsb].
  - split; [intro H; contradiction|discriminate].
  - destruct (f x); cbn [orb].
    + change (0 <=? 0) with true. cbv iota. split; [reflexivity|discriminate].
    + change (0 <=? -1) with false. cbv iota. apply IH.
Qed.

Lemma existsb_eqb_memZ mx row : existsb (fun x => x =? mx) row = memZ mx row.
Proof.
  induction row as [|x t IH]; [reflexivity|]. cbn [existsb memZ]. rewrite IH, (Z.eqb_sym x mx). reflexivity.
Qed.

Definition hits_gen (f : Z -> bool) (s : nat) (sc : list (list Z)) : list (Z * Z) :=
  concat (map (fun ir : Z * list bool => map (fun j => (fst ir, j)) (used_indices (map (fun b : bool => if b then 0 else -1) (snd ir))))
              (combine (map Z.of_nat (List.seq s (length (map (map f) sc)))) (map (map f) sc))).

Lemma In_hits_fst f : forall sc s z,
  In z (map fst (hits_gen f s sc)) <->
  exists i, (i < length sc)%nat /\ z = Z.of_nat (s + i) /\ existsb f (nth i sc []) = true.
Proof.
  induction sc as [|row t IH]; intros s z.
  - cbn. split; [contradiction|]. intros [i [Hi _]]. lia.
  - unfold hits_gen. cbn [map length List.seq combine concat fst snd]. rewrite map_app, in_app_iff.
    fold (hits_gen f (S s) t). rewrite IH. rewrite map_map. cbn [fst]. split.
    + intros [H|[i [Hi [Hz He]]]].
      * apply in_map_iff in H. destruct H as [j [Hz Hj]]. exists 0%nat. split; [lia|]. split; [rewrite Nat.add_0_r; congruence|].
        cbn [nth]. apply (used_nonempty f row 0). unfold used_indices in Hj. intro E. rewrite E in Hj. contradiction.
      * exists (S i). split; [lia|]. split; [rewrite Hz; f_equal; lia|exact He].
    + intros [i [Hi [Hz He]]]. destruct i as [|i].
      * left. cbn [nth] in He. apply (used_nonempty f row 0) in He. unfold used_indices.
        destruct (used_from (map (fun b : bool => if b then 0 else -1) (map f row)) 0) as [|j js]; [contradiction|].
        cbn [map In]. left. rewrite Hz. f_equal. lia.
      * right. exists i. split; [lia|]. split; [rewrite Hz; f_equal; lia|exact He].
Qed.

Lemma rows_with_max_In mx sc z :
  In z (sort_uniqZ (map fst (hits (fun x => x =? mx) sc))) <->
  In z (filter (fun v => memZ mx (nth (Z.to_nat v) sc [])) (zrange (length sc))).
Proof.
  rewrite In_sort_uniqZ. change (hits (fun x => x =? mx) sc) with (hits_gen (fun x => x =? mx) 0 sc).
  rewrite In_hits_fst, filter_In, In_zrange. split.
  - intros [i [Hi [Hz He]]]. cbn [Nat.add] in Hz. subst z. rewrite Nat2Z.id. rewrite <- existsb_eqb_memZ. split; [lia|exact He].
  - intros [Hz He]. exists (Z.to_nat z). split; [lia|]. split; [cbn [Nat.add]; lia|]. rewrite existsb_eqb_memZ. exact He.
Qed.

(* intersect1d(obtain_vertices(accessor), vertex_indices): the listed vertices whose row holds the maximum *)
Lemma candidates_eq acc mx sc :
  filter (fun z => memZ z (sort_uniqZ (map fst (hits (fun x => x =? mx) sc)))) (sort_uniqZ (Graph.obtain_vertices acc))
  = filter (fun v => memZ v (filter (fun v => memZ mx (nth (Z.to_nat v) sc [])) (zrange (length sc)))) (Graph.obtain_vertices acc).
Proof.
  unfold Graph.obtain_vertices. rewrite (sort_uniqZ_sorted _ (listed_from_sorted acc 0)).
  apply filter_ext. intro z. apply memZ_ext. intro y. apply rows_with_max_In.
Qed.

(* ---- former, latter_value, latter ----------------------------------------------------------------------------------- *)
Lemma index_first l :
  index_val (varr l) (VInt 0) = match l with [] => Exn IndexError | x :: _ => Ret (VInt x) end.
Proof. destruct l as [|x t]; reflexivity. Qed.

Lemma index_row sc v : 0 <= v < Z.of_nat (length sc) ->
  index_val (varr2 sc) (VInt v) = Ret (varr (nth (Z.to_nat v) sc [])).
Proof.
  intro Hv. unfold varr2. cbn [index_val]. rewrite (pg_nth _ v (varr [])) by (rewrite map_length; exact Hv).
  rewrite (map_nth varr). reflexivity.
Qed.

Lemma np_argmax row : row <> [] -> builtin1_val BNpArgmax (varr row) = Ret (VInt (argmaxZ row)).
Proof.
  intro Hne. unfold varr. cbn [builtin1_val]. rewrite (map_res_map VInt _ (fun z => z)) by reflexivity.
  rewrite map_id. cbn [rbind]. destruct row as [|h t]; [contradiction|].
  unfold argmaxZ. rewrite maxZ_hd.
  destruct (first_pos_In (h :: t) (fold_left Z.max t h) 0 (fold_max_In t h)) as [p [E _]]. rewrite E. reflexivity.
Qed.

Lemma argmax_range row : row <> [] -> 0 <= argmaxZ row < Z.of_nat (length row).
Proof.
  intro Hne. destruct row as [|h t]; [contradiction|]. unfold argmaxZ. rewrite maxZ_hd.
  destruct (first_pos_In (h :: t) (fold_left Z.max t h) 0 (fold_max_In t h)) as [p [E [Hp _]]]. rewrite E. lia.
Qed.

(* ---- accessor[former, latter_value] = -1 ---------------------------------------------------------------------------- *)
Lemma store_entry acc v c x : 0 <= v < Z.of_nat (length acc) -> rows4 acc -> 0 <= c < 4 ->
  store2_val (varr2 acc) (VInt v) (VInt c) (VInt x) = Ret (varr2 (set_entry acc v c x)).
Proof.
  intros Hv H4 Hc. unfold varr2 at 1. cbn [store2_val]. rewrite map_length.
  assert (E1 : (v <? 0) = false) by lia. assert (E2 : (Z.of_nat (length acc) <=? v) = false) by lia.
  rewrite E1. cbv iota. rewrite E1, E2. cbn [orb].
  rewrite (pg_nth _ v (varr [])) by (rewrite map_length; exact Hv). rewrite (map_nth varr).
  assert (Hrow : nth (Z.to_nat v) acc [] = get_row acc v).
  { unfold get_row. apply nth_indep. lia. }
  rewrite Hrow. assert (Hlen : length (get_row acc v) = 4%nat).
  { unfold rows4 in H4. rewrite Forall_forall in H4. apply H4. unfold get_row. apply nth_In. lia. }
  destruct (get_row acc v) as [|a [|b [|c0 [|d [|? ?]]]]] eqn:Er; try discriminate Hlen.
  unfold set_entry, varr2. rewrite map_set_nth. rewrite Er.
  assert (Hc' : c = 0 \/ c = 1 \/ c = 2 \/ c = 3) by lia.
  destruct Hc' as [ -> | [ -> | [ -> | -> ] ] ]; reflexivity.
Qed.

(* ---- the latter map as a dict ---------------------------------------------------------------------------------------- *)
Definition lm_entry (kv : Z * list Z) : val * val := (VInt (fst kv), VList (map VInt (snd kv))).

Lemma v_lmap_eq m : v_lmap m = VDict (map lm_entry m).
Proof. reflexivity. Qed.

Lemma dict_get_lmap : forall m v,
  dict_get (VInt v) (map lm_entry m) = match Graph.lookup m v with Some ls => Some (VList (map VInt ls)) | None => None end.
Proof.
  induction m as [|[k ls] t IH]; intro v; [reflexivity|].
  cbn [map lm_entry fst snd dict_get Graph.lookup val_eqb]. rewrite (Z.eqb_sym v k). destruct (k =? v); [reflexivity|apply IH].
Qed.

(* latter_map[former] *)
Lemma index_lmap m v :
  index_val (v_lmap m) (VInt v)
  = match Graph.lookup m v with Some ls => Ret (VList (map VInt ls)) | None => Exn KeyError end.
Proof.
  rewrite v_lmap_eq. cbn [index_val key_ok]. rewrite dict_get_lmap. destruct (Graph.lookup m v); reflexivity.
Qed.

Lemma index_of_first_pos x : forall ls s, index_of_val (VInt x) (map VInt ls) s = first_pos x ls s.
Proof.
  induction ls as [|y t IH]; intro s; [reflexivity|]. cbn [map index_of_val first_pos val_eqb].
  destruct (x =? y); [reflexivity|apply IH].
Qed.

Lemma first_pos_none x : forall ls s, memZ x ls = false -> first_pos x ls s = None.
Proof.
  induction ls as [|y t IH]; intros s H; [reflexivity|]. cbn [memZ first_pos] in *.
  destruct (x =? y); [discriminate|]. apply IH. exact H.
Qed.

Lemma first_pos_remove x : forall ls s p, first_pos x ls s = Some p ->
  s <= p < s + Z.of_nat (length ls) /\
  firstn (Z.to_nat (p - s)) ls ++ skipn (S (Z.to_nat (p - s))) ls = remove_first x ls.
Proof.
  induction ls as [|y t IH]; intros s p H; [discriminate|]. cbn [first_pos remove_first length] in *.
  rewrite Nat2Z.inj_succ. destruct (x =? y).
  - inversion H; subst p. replace (s - s) with 0 by lia. split; [lia|reflexivity].
  - destruct (IH (s + 1) p H) as [Hp E]. split; [lia|].
    replace (Z.to_nat (p - s)) with (S (Z.to_nat (p - (s + 1)))) by lia. cbn [firstn skipn app]. cbn [skipn] in E.
    rewrite E. reflexivity.
Qed.

(* latter_map[former].index(latter) *)
Lemma index_of_latter ls x :
  builtin2_val BIndexOf (VList (map VInt ls)) (VInt x)
  = match first_pos x ls 0 with Some p => Ret (VInt p) | None => Exn ValueError end.
Proof.
  cbn [builtin2_val].
  assert (H : forallb (fun y => match y with VInt _ | VStr _ => true | _ => false end) (map VInt ls) = true).
  { induction ls as [|a t IH]; [reflexivity|exact IH]. }
  rewrite H, index_of_first_pos. reflexivity.
Qed.

(* d[former] = new list, on a key that is present *)
Fixpoint lmap_put (m : lmap) (v : Z) (ls' : list Z) : lmap :=
  match m with
  | [] => [(v, ls')]
  | (k, ls) :: t => if k =? v then (k, ls') :: t else (k, ls) :: lmap_put t v ls'
  end.

Lemma store_lmap m v ls' :
  store_val (v_lmap m) (VInt v) (VList (map VInt ls')) = Ret (v_lmap (lmap_put m v ls')).
Proof.
  rewrite !v_lmap_eq. cbn [store_val key_ok]. do 2 f_equal.
  induction m as [|[k ls] t IH]; [reflexivity|].
  cbn [map lm_entry fst snd lmap_put]. change (val_eqb (VInt v) (VInt k)) with (v =? k). rewrite (Z.eqb_sym v k).
  destruct (k =? v); cbn [map lm_entry fst snd]; [reflexivity|]. rewrite IH. reflexivity.
Qed.

Lemma lookup_put : forall m v ls', Graph.lookup (lmap_put m v ls') v = Some ls'.
Proof.
  induction m as [|[k ls] t IH]; intros v ls'; cbn [lmap_put Graph.lookup].
  - rewrite Z.eqb_refl. reflexivity.
  - destruct (k =? v) eqn:E; cbn [Graph.lookup]; rewrite E; [reflexivity|apply IH].
Qed.

(* the two shapes of the final map *)
Lemma put_nonempty : forall m v x ls, Graph.lookup m v = Some ls -> remove_first x ls <> [] ->
  lmap_put m v (remove_first x ls) = lmap_remove m v x.
Proof.
  induction m as [|[k l] t IH]; intros v x ls H Hne; [discriminate|].
  cbn [Graph.lookup lmap_put lmap_remove] in *. destruct (k =? v) eqn:E.
  - inversion H; subst l. destruct (remove_first x ls); [contradiction|reflexivity].
  - rewrite (IH v x ls H Hne). reflexivity.
Qed.

Lemma filter_step {A} (f : A -> bool) x l : filter f (x :: l) = if f x then x :: filter f l else filter f l.
Proof. reflexivity. Qed.

Lemma lookup_none_filter : forall m v, ~ In v (map fst m) ->
  filter (fun kv : val * val => negb (val_eqb (VInt v) (fst kv))) (map lm_entry m) = map lm_entry m.
Proof.
  induction m as [|[k l] t IH]; intros v Hn; [reflexivity|].
  cbn [map]. rewrite filter_step. cbv beta. change (val_eqb (VInt v) (fst (lm_entry (k, l)))) with (v =? k).
  cbn [map fst In] in Hn.
  destruct (v =? k) eqn:E; [exfalso; apply Hn; left; lia|]. cbn [negb]. rewrite IH; [reflexivity|].
  intro H. apply Hn. right. exact H.
Qed.

Lemma put_empty : forall m v x ls, NoDup (map fst m) -> Graph.lookup m v = Some ls -> remove_first x ls = [] ->
  filter (fun kv : val * val => negb (val_eqb (VInt v) (fst kv))) (map lm_entry (lmap_put m v [])) = map lm_entry (lmap_remove m v x).
Proof.
  induction m as [|[k l] t IH]; intros v x ls Hnd H He; [discriminate|].
  cbn [map fst] in Hnd. inversion Hnd as [|? ? Hk Ht]; subst.
  cbn [Graph.lookup lmap_put lmap_remove] in *. destruct (k =? v) eqn:E.
  - inversion H; subst l. rewrite He. assert (k = v) by lia. subst k.
    cbn [map]. rewrite filter_step. cbv beta. change (val_eqb (VInt v) (fst (lm_entry (v, [])))) with (v =? v).
    rewrite Z.eqb_refl. cbn [negb].
    apply lookup_none_filter. exact Hk.
  - cbn [map]. rewrite filter_step. cbv beta. change (val_eqb (VInt v) (fst (lm_entry (k, l)))) with (v =? k).
    rewrite (Z.eqb_sym v k), E. cbn [negb].
    rewrite (IH v x ls Ht H He). reflexivity.
Qed.

(* ---- the positive scores and the score record ------------------------------------------------------------------------ *)
Lemma reshape_flat sc : builtin1_val BReshapeFlat (varr2 sc) = Ret (varr (concat sc)).
Proof. unfold varr2 at 1. cbn [builtin1_val]. fold (varr2 sc). rewrite flat_ints_varr2. reflexivity. Qed.

Lemma cmp_top_ints o l b : cmp_top o (varr l) b = cmp_vals o (varr l) b.
Proof. destruct l; reflexivity. Qed.

Lemma cmp_gt0 l : cmp_top CGt (varr l) (VInt 0) = Ret (VArr (map (fun x => VBool (0 <? x)) l)).
Proof. rewrite cmp_top_ints. apply cmp_row; [|exact I]. intro x. reflexivity. Qed.

Lemma mask_sel (f : Z -> bool) : forall l,
  map snd (filter fst (combine (map f l) (map VInt l))) = map VInt (filter f l).
Proof.
  induction l as [|x t IH]; [reflexivity|]. cbn [map combine filter fst]. destruct (f x); cbn [map snd]; rewrite IH; reflexivity.
Qed.

Lemma index_mask (f : Z -> bool) l : l <> [] ->
  index_val (varr l) (VArr (map (fun x => VBool (f x)) l)) = Ret (varr (filter f l)).
Proof.
  intro Hne. destruct l as [|h t]; [contradiction|].
  unfold varr at 1. cbn [map]. cbn [index_val length Nat.eqb negb]. rewrite !map_length, Nat.eqb_refl. cbn [negb].
  change (VBool (f h) :: map (fun x => VBool (f x)) t) with (map (fun x => VBool (f x)) (h :: t)).
  rewrite (map_res_map (fun x => VBool (f x)) _ f) by reflexivity. cbn [rbind].
  change (VInt h :: map VInt t) with (map VInt (h :: t)). rewrite mask_sel. reflexivity.
Qed.

Lemma tolist_varr l : builtin1_val BTolist (varr l) = Ret (VList (map VInt l)).
Proof. unfold varr. cbn [builtin1_val]. rewrite all_ints. reflexivity. Qed.

Definition v_item (p : Z * Z) : val := VTuple [VInt (fst p); VInt (snd p)].
Definition v_itemrow (p : Z * Z) : val := VArr [VInt (fst p); VInt (snd p)].

Lemma counter_items l :
  builtin1_val BCounterItems (VList (map VInt l)) = Ret (VList (map v_item (count_occ_first l []))).
Proof.
  cbn [builtin1_val]. rewrite (map_res_map VInt _ (fun z => z)) by reflexivity. rewrite map_id. reflexivity.
Qed.

Lemma np_array_items cs :
  builtin1_val BNpArray (VList (map v_item cs)) = Ret (VArr (map v_itemrow cs)).
Proof.
  destruct cs as [|c t]; [reflexivity|]. cbn [map]. cbn [builtin1_val forallb v_item andb].
  change (v_item c :: map v_item t) with (map v_item (c :: t)).
  rewrite (map_res_map v_item _ v_itemrow) by reflexivity. reflexivity.
Qed.

Lemma forallb_len2 cs :
  forallb (fun r : list val => Nat.eqb (length r) 2) (map (fun p : Z * Z => [VInt (fst p); VInt (snd p)]) cs) = true.
Proof. induction cs as [|c t IH]; [reflexivity|exact IH]. Qed.

Lemma transpose_items cs :
  builtin1_val BTranspose (VArr (map v_itemrow cs))
  = Ret (match cs with
         | [] => VArr []
         | _ => VArr [VArr (map (fun p => VInt (fst p)) cs); VArr (map (fun p => VInt (snd p)) cs)]
         end).
Proof.
  destruct cs as [|c t]; [reflexivity|]. cbn [map]. cbn [builtin1_val v_itemrow].
  change (v_itemrow c :: map v_itemrow t) with (map v_itemrow (c :: t)).
  rewrite (map_res_map v_itemrow _ (fun p : Z * Z => [VInt (fst p); VInt (snd p)])) by reflexivity.
  cbn [rbind length]. rewrite forallb_len2. cbn [List.seq map nth].
  rewrite !map_map. reflexivity.
Qed.

(* the keys of a Counter are distinct *)
Lemma cof_keys : forall l seen x, In x (map fst (count_occ_first l seen)) -> memZ x seen = false.
Proof.
  induction l as [|y t IH]; intros seen x H; [contradiction|]. cbn [count_occ_first] in H.
  destruct (memZ y seen) eqn:E; [apply IH; exact H|]. cbn [map fst In] in H. destruct H as [H|H]; [subst; exact E|].
  apply IH in H. cbn [memZ] in H. destruct (x =? y); [discriminate|exact H].
Qed.

Lemma cof_nodup : forall l seen, nodupb (map fst (count_occ_first l seen)) = true.
Proof.
  induction l as [|y t IH]; intro seen; [reflexivity|]. cbn [count_occ_first].
  destruct (memZ y seen); [apply IH|]. cbn [map fst nodupb]. rewrite IH.
  destruct (memZ y (map fst (count_occ_first t (y :: seen)))) eqn:E; [|reflexivity].
  apply memZ_In in E. apply cof_keys in E. cbn [memZ] in E. rewrite Z.eqb_refl in E. discriminate.
Qed.

Lemma cof_nil l : count_occ_first l [] = [] -> l = [].
Proof. destruct l as [|x t]; [reflexivity|]. cbn [count_occ_first memZ]. discriminate. Qed.

Lemma columns_ok (l : list val) : forall js, Forall (fun j => 0 <= j < Z.of_nat (length l)) js ->
  exists c, map_res (fun j => match py_get l j with Ok v => Ret v | _ => Exn IndexError end) js = Ret c.
Proof.
  induction js as [|j t IH]; intro HF; [exists []; reflexivity|].
  inversion HF as [|? ? Hj Ht]; subst. destruct (IH Ht) as [c E]. cbn [map_res].
  rewrite (pg_nth l j VNone Hj). cbn [rbind]. rewrite E. eexists. reflexivity.
Qed.

(* score_record[:, argsort(score_record[0])[::-1]] succeeds on a non-empty record *)
Lemma record_columns (cs : list (Z * Z)) : nodupb (map fst cs) = true ->
  exists r, (y <~ (z <~ builtin1_val BNpArgsort (VArr (map (fun p => VInt (fst p)) cs)) ;; builtin1_val BRev z) ;;
             builtin2_val BColumns (VArr [VArr (map (fun p => VInt (fst p)) cs); VArr (map (fun p => VInt (snd p)) cs)]) y) = Ret r.
Proof.
  intro Hnd. cbn [builtin1_val]. rewrite <- (map_map fst VInt).
  rewrite (map_res_map VInt _ (fun z => z)) by reflexivity. rewrite map_id. cbn [rbind]. rewrite Hnd. cbn [rbind builtin1_val].
  rewrite <- map_rev. cbn [builtin2_val]. rewrite (map_res_map VInt _ (fun z => z)) by reflexivity. rewrite map_id. cbn [rbind].
  assert (HF : forall (l : list val), length l = length cs ->
     Forall (fun j => 0 <= j < Z.of_nat (length l)) (rev (argsort (map fst cs)))).
  { intros l Hl. rewrite Forall_forall. intros j Hj. apply in_rev in Hj. apply argsort_in in Hj. rewrite map_length in Hj. lia. }
  cbn [map_res].
  assert (L1 : length (map VInt (map fst cs)) = length cs) by (rewrite !map_length; reflexivity).
  assert (L2 : length (map (fun p : Z * Z => VInt (snd p)) cs) = length cs) by (rewrite !map_length; reflexivity).
  destruct (columns_ok (map VInt (map fst cs)) (rev (argsort (map fst cs))) (HF (map VInt (map fst cs)) L1)) as [c1 E1].
  destruct (columns_ok (map (fun p : Z * Z => VInt (snd p)) cs) (rev (argsort (map fst cs)))
              (HF (map (fun p : Z * Z => VInt (snd p)) cs) L2)) as [c2 E2].
  rewrite E1. cbn [rbind]. rewrite E2. cbn [rbind]. eexists. reflexivity.
Qed.

(* ---- the statements of the program ----------------------------------------------------------------------------------- *)
Fixpoint stmts (s : stmt) : list stmt := match s with SSeq a b => a :: stmts b | _ => [s] end.
Fixpoint seqs (l : list stmt) : stmt :=
  match l with [] => SSkip | [s] => s | s :: t => SSeq s (seqs t) end.
Definition prog : list stmt := Eval cbv in stmts (body remove_nasty_arc_def).
Definition st1 := Eval cbv in nth 0 prog SSkip.    (* nucleotides = "ACGT" *)
Definition st2 := Eval cbv in nth 1 prog SSkip.    (* observed_length = int(log(len(accessor)) / log(len(nucleotides))) *)
Definition st3 := Eval cbv in nth 2 prog SSkip.    (* if verbose: print *)
Definition st4 := Eval cbv in nth 3 prog SSkip.    (* scores = calculate_intersection_score(..) *)
Definition st5 := Eval cbv in nth 4 prog SSkip.    (* vertex_indices = unique(where(scores == max(scores))[0]) *)
Definition st6 := Eval cbv in nth 5 prog SSkip.    (* former = intersect1d(obtain_vertices(accessor), vertex_indices)[0] *)
Definition st7 := Eval cbv in nth 6 prog SSkip.    (* former_value, latter_value = former % 4, argmax(scores[former]) *)
Definition st8 := Eval cbv in nth 7 prog SSkip.    (* latter = int((former * 4 + latter_value) % 4 ** observed_length) *)
Definition st9 := Eval cbv in nth 8 prog SSkip.    (* accessor[former, latter_value] = -1 *)
Definition st10 := Eval cbv in nth 9 prog SSkip.   (* del latter_map[former][latter_map[former].index(latter)] *)
Definition st11 := Eval cbv in nth 10 prog SSkip.  (* if len(latter_map[former]) == 0: del latter_map[former] *)
Definition st12 := Eval cbv in nth 11 prog SSkip.  (* scores = scores.reshape(-1) *)
Definition st13 := Eval cbv in nth 12 prog SSkip.  (* scores = scores[scores > 0].tolist() *)
Definition st14 := Eval cbv in nth 13 prog SSkip.  (* score_record = array(list(Counter(scores).items())).T *)
Definition st15 := Eval cbv in nth 14 prog SSkip.  (* score_record = score_record[:, argsort(score_record[0])[::-1]] *)
Definition st16 := Eval cbv in nth 15 prog SSkip.  (* if verbose: print *)
Definition st17 := Eval cbv in nth 16 prog SSkip.  (* return accessor, latter_map, (former, latter), scores *)

Lemma body_eq : body remove_nasty_arc_def
  = seqs [st1; st2; st3; st4; st5; st6; st7; st8; st9; st10; st11; st12; st13; st14; st15; st16; st17].
Proof. reflexivity. Qed.

Ltac lk := repeat (rewrite lookup_update_same || (rewrite lookup_update_other by discriminate)).
Definition nuc : val := VStr [65; 67; 71; 84].
Definition mx_of (sc : scores_t) : Z := maxZ (concat sc) (hd 0 (concat sc)).

Section Nasty.
  Variable ce : string -> list val -> res val.

  Lemma ex1 fuel en : exec ce fuel st1 en = ONormal (update "nucleotides" nuc en).
  Proof. reflexivity. Qed.

  Lemma ex2 fuel en acc k :
    lookup "accessor" en = Ret (varr2 acc) -> lookup "nucleotides" en = Ret nuc -> length acc = Z.to_nat (pow4 k) ->
    exec ce fuel st2 en = ONormal (update "observed_length" (VInt (Z.of_nat k)) en).
  Proof.
    intros Ha Hn Hl. pose proof (pow4_pos k) as Hp. unfold st2. cbn [exec eval]. rewrite Ha, Hn. unfold varr2, nuc.
    cbn [rbind builtin1_val]. change (Z.of_nat (length [65; 67; 71; 84])) with 4.
    rewrite map_length, Hl, Z2Nat.id by lia. rewrite int_log_ratio. reflexivity.
  Qed.

  Lemma ex3 fuel en : lookup "verbose" en = Ret (VBool false) -> exec ce fuel st3 en = ONormal en.
  Proof. intro Hv. unfold st3. cbn [exec eval]. rewrite Hv. reflexivity. Qed.

  Lemma ex4 fuel en m z ins del :
    lookup "latter_map" en = Ret (v_lmap m) -> lookup "observed_length" en = Ret (VInt z) ->
    lookup "has_insertion" en = Ret (VBool ins) -> lookup "has_deletion" en = Ret (VBool del) ->
    lookup "verbose" en = Ret (VBool false) ->
    exec ce fuel st4 en
    = lift (ce "calculate_intersection_score" [v_lmap m; VInt z; VBool ins; VBool del; VBool false])
           (fun v => ONormal (update "scores" v en)).
  Proof.
    intros H1 H2 H3 H4 H5. unfold st4. cbn [exec eval]. rewrite H1, H2, H3, H4, H5. cbn [rbind]. reflexivity.
  Qed.

  Lemma ex5 fuel en sc k :
    lookup "scores" en = Ret (varr2 sc) -> sc_shape (Z.to_nat (pow4 k)) sc ->
    exec ce fuel st5 en
    = ONormal (update "vertex_indices" (varr (sort_uniqZ (map fst (hits (fun x => x =? mx_of sc) sc)))) en).
  Proof.
    intros Hs Hsh. destruct (shape_nonempty k sc Hsh) as [Hne Hfl]. unfold st5. cbn [exec eval]. rewrite Hs. cbn [rbind].
    rewrite (np_max_scores sc Hfl). cbn [rbind]. fold (mx_of sc). rewrite (cmp_eq_2d sc _ Hne). cbn [rbind].
    rewrite (where_2d _ sc Hne). cbn [rbind]. rewrite index_pair0. cbn [rbind]. rewrite np_unique. reflexivity.
  Qed.

  Lemma ex6 fuel en acc ys :
    lookup "accessor" en = Ret (varr2 acc) -> lookup "vertex_indices" en = Ret (varr ys) ->
    ce "obtain_vertices" [varr2 acc] = Ret (varr (Graph.obtain_vertices acc)) ->
    exec ce fuel st6 en
    = match filter (fun z => memZ z ys) (sort_uniqZ (Graph.obtain_vertices acc)) with
      | [] => OExn IndexError
      | x :: _ => ONormal (update "former" (VInt x) en)
      end.
  Proof.
    intros Ha Hv Hc. unfold st6. cbn [exec eval]. rewrite Ha, Hv. cbn [rbind]. rewrite Hc. cbn [rbind].
    rewrite np_intersect. cbn [rbind]. rewrite index_first.
    destruct (filter (fun z => memZ z ys) (sort_uniqZ (Graph.obtain_vertices acc))); reflexivity.
  Qed.

  Lemma ex7 fuel en sc former :
    lookup "former" en = Ret (VInt former) -> lookup "nucleotides" en = Ret nuc -> lookup "scores" en = Ret (varr2 sc) ->
    0 <= former < Z.of_nat (length sc) -> nth (Z.to_nat former) sc [] <> [] ->
    exec ce fuel st7 en
    = ONormal (update "latter_value" (VInt (argmaxZ (nth (Z.to_nat former) sc [])))
                 (update "former_value" (VInt (former mod 4)) en)).
  Proof.
    intros Hf Hn Hs Hr Hne. unfold st7. cbn [exec eval]. rewrite Hf, Hn, Hs. cbn [rbind].
    rewrite (index_row sc former Hr). cbn [rbind]. rewrite (np_argmax _ Hne). cbn [rbind].
    change (builtin1_val BLen nuc) with (Ret (VInt 4)). cbn [rbind].
    change (binop_vals Mod (VInt former) (VInt 4)) with (Ret (VInt (former mod 4))). reflexivity.
  Qed.

  Lemma ex8 fuel en former col k :
    lookup "former" en = Ret (VInt former) -> lookup "nucleotides" en = Ret nuc ->
    lookup "latter_value" en = Ret (VInt col) -> lookup "observed_length" en = Ret (VInt (Z.of_nat k)) ->
    exec ce fuel st8 en = ONormal (update "latter" (VInt ((former * 4 + col) mod pow4 k)) en).
  Proof.
    intros Hf Hn Hc Hk. pose proof (pow4_pos k) as Hp. unfold pow4 in *. unfold st8. cbn [exec eval]. rewrite Hf, Hn, Hc, Hk. unfold nuc.
    cbn [rbind builtin1_val]. change (Z.of_nat (length [65; 67; 71; 84])) with 4. cbn [binop_vals binop_scalar rbind].
    destruct (Z.of_nat k <? 0) eqn:E; [lia|]. cbn [rbind binop_vals binop_scalar].
    destruct (4 ^ Z.of_nat k =? 0) eqn:E0; [lia|]. reflexivity.
  Qed.

  Lemma ex9 fuel en acc former col :
    lookup "former" en = Ret (VInt former) -> lookup "latter_value" en = Ret (VInt col) ->
    lookup "accessor" en = Ret (varr2 acc) ->
    0 <= former < Z.of_nat (length acc) -> rows4 acc -> 0 <= col < 4 ->
    exec ce fuel st9 en = ONormal (update "accessor" (varr2 (set_entry acc former col (-1))) en).
  Proof.
    intros Hf Hc Ha Hr H4 Hcol. unfold st9. cbn [exec eval lift assign]. rewrite Hf, Hc, Ha. cbn [lift].
    rewrite (store_entry acc former col (-1) Hr H4 Hcol). reflexivity.
  Qed.

  Lemma ex10 fuel en m former latter :
    lookup "latter_map" en = Ret (v_lmap m) -> lookup "former" en = Ret (VInt former) ->
    lookup "latter" en = Ret (VInt latter) ->
    exec ce fuel st10 en
    = match Graph.lookup m former with
      | None => OExn KeyError
      | Some ls => if memZ latter ls
                   then ONormal (update "latter_map" (v_lmap (lmap_put m former (remove_first latter ls))) en)
                   else OExn ValueError
      end.
  Proof.
    intros Hm Hf Hl. unfold st10. cbn [exec eval]. rewrite Hm, Hf, Hl. cbn [lift rbind]. rewrite index_lmap.
    destruct (Graph.lookup m former) as [ls|]; [|reflexivity]. cbn [lift rbind]. rewrite index_of_latter.
    destruct (memZ latter ls) eqn:E.
    - apply memZ_In in E. destruct (first_pos_In ls latter 0 E) as [p [Ep _]]. rewrite Ep.
      destruct (first_pos_remove latter ls 0 p Ep) as [Hp Er]. replace (p - 0) with p in Er by lia. cbn [lift].
      rewrite map_length. assert (E1 : (p <? 0) = false) by lia. assert (E2 : (Z.of_nat (length ls) <=? p) = false) by lia.
      rewrite E1. cbv iota. rewrite E1, E2. cbn [orb].
      rewrite firstn_map, skipn_map, <- map_app, Er. rewrite store_lmap. reflexivity.
    - rewrite (first_pos_none latter ls 0 E). reflexivity.
  Qed.

  Lemma ex11 fuel en m former ls' :
    lookup "latter_map" en = Ret (v_lmap (lmap_put m former ls')) -> lookup "former" en = Ret (VInt former) ->
    exec ce fuel st11 en
    = ONormal (match ls' with
               | [] => update "latter_map" (VDict (filter (fun kv : val * val => negb (val_eqb (VInt former) (fst kv)))
                                                         (map lm_entry (lmap_put m former [])))) en
               | _ => en
               end).
  Proof.
    intros Hm Hf. unfold st11. cbn [exec eval]. rewrite Hm, Hf. cbn [rbind]. rewrite index_lmap, lookup_put. cbn [rbind builtin1_val].
    rewrite map_length. cbn [cmp_top cmp_vals cmp_scalar mixes_bool is_arr orb val_eqb lift truthy].
    destruct ls' as [|x t].
    - change (Z.of_nat (length (@nil Z)) =? 0) with true. cbv iota. cbn [lift].
      rewrite v_lmap_eq. cbn [key_ok]. rewrite dict_get_lmap, lookup_put. reflexivity.
    - destruct (Z.of_nat (length (x :: t)) =? 0) eqn:E; [cbn [length] in E; lia|]. reflexivity.
  Qed.
End Nasty.

Lemma index_arr0 a b : index_val (VArr [a; b]) (VInt 0) = Ret a.
Proof. reflexivity. Qed.

Section Tail.
  Variable ce : string -> list val -> res val.

  Lemma ex12 fuel en sc :
    lookup "scores" en = Ret (varr2 sc) -> exec ce fuel st12 en = ONormal (update "scores" (varr (concat sc)) en).
  Proof. intro Hs. unfold st12. cbn [exec eval]. rewrite Hs. cbn [rbind]. rewrite reshape_flat. reflexivity. Qed.

  Lemma ex13 fuel en flat : flat <> [] ->
    lookup "scores" en = Ret (varr flat) ->
    exec ce fuel st13 en = ONormal (update "scores" (VList (map VInt (filter (fun x => 0 <? x) flat))) en).
  Proof.
    intros Hne Hs. unfold st13. cbn [exec eval]. rewrite Hs. cbn [rbind]. rewrite cmp_gt0. cbn [rbind].
    rewrite (index_mask (fun x => 0 <? x) flat Hne). cbn [rbind]. rewrite tolist_varr. reflexivity.
  Qed.

  Definition record_of (cs : list (Z * Z)) : val :=
    match cs with
    | [] => VArr []
    | _ => VArr [VArr (map (fun p => VInt (fst p)) cs); VArr (map (fun p => VInt (snd p)) cs)]
    end.

  Lemma ex14 fuel en pos :
    lookup "scores" en = Ret (VList (map VInt pos)) ->
    exec ce fuel st14 en = ONormal (update "score_record" (record_of (count_occ_first pos [])) en).
  Proof.
    intro Hs. unfold st14. cbn [exec eval]. rewrite Hs. cbn [rbind]. rewrite counter_items. cbn [rbind].
    change (builtin1_val BList (VList (map v_item (count_occ_first pos [])))) with (Ret (VList (map v_item (count_occ_first pos [])))).
    cbn [rbind]. rewrite np_array_items. cbn [rbind]. rewrite transpose_items. reflexivity.
  Qed.

  Lemma ex15 fuel en pos :
    lookup "score_record" en = Ret (record_of (count_occ_first pos [])) ->
    match pos with
    | [] => exec ce fuel st15 en = OExn IndexError
    | _ => exists r, exec ce fuel st15 en = ONormal (update "score_record" r en)
    end.
  Proof.
    intro Hs. unfold st15. cbn [exec eval]. rewrite Hs. cbn [rbind].
    destruct pos as [|x t]; [reflexivity|].
    pose proof (cof_nodup (x :: t) []) as Hnd.
    destruct (count_occ_first (x :: t) []) as [|c cs] eqn:E; [apply cof_nil in E; discriminate|].
    unfold record_of. rewrite index_arr0. cbn [rbind].
    destruct (record_columns (c :: cs) Hnd) as [r Er]. rewrite Er. exists r. reflexivity.
  Qed.

  Lemma ex16 fuel en : lookup "verbose" en = Ret (VBool false) -> exec ce fuel st16 en = ONormal en.
  Proof. intro Hv. unfold st16. cbn [exec eval]. rewrite Hv. reflexivity. Qed.

  Lemma ex17 fuel en a m f l s :
    lookup "accessor" en = Ret a -> lookup "latter_map" en = Ret m -> lookup "former" en = Ret f ->
    lookup "latter" en = Ret l -> lookup "scores" en = Ret s ->
    exec ce fuel st17 en = OReturn (VTuple [a; m; VTuple [f; l]; s]).
  Proof. intros H1 H2 H3 H4 H5. unfold st17. cbn [exec eval]. rewrite H1, H2, H3, H4, H5. reflexivity. Qed.

  (* statements 12 .. 17 *)
  Lemma tail_ok fuel en sc k a m f l :
    lookup "scores" en = Ret (varr2 sc) -> sc_shape (Z.to_nat (pow4 k)) sc -> lookup "verbose" en = Ret (VBool false) ->
    lookup "accessor" en = Ret a -> lookup "latter_map" en = Ret m -> lookup "former" en = Ret f -> lookup "latter" en = Ret l ->
    exec ce fuel (seqs [st12; st13; st14; st15; st16; st17]) en
    = match filter (fun x => 0 <? x) (concat sc) with
      | [] => OExn IndexError
      | pos => OReturn (VTuple [a; m; VTuple [f; l]; VList (map VInt pos)])
      end.
  Proof.
    intros Hs Hsh Hv Ha Hm Hf Hl. destruct (shape_nonempty k sc Hsh) as [_ Hfl].
    cbn [seqs]. rewrite exec_seq, (ex12 fuel en sc Hs). cbn [seq].
    rewrite exec_seq, (ex13 fuel _ (concat sc) Hfl) by (lk; reflexivity). cbn [seq].
    set (pos := filter (fun x => 0 <? x) (concat sc)).
    rewrite exec_seq, (ex14 fuel _ pos) by (lk; reflexivity). cbn [seq].
    rewrite exec_seq.
    match goal with |- context [exec ce fuel st15 ?e] => pose proof (ex15 fuel e pos ltac:(lk; reflexivity)) as H15 end.
    destruct pos as [|x t] eqn:Ep.
    - rewrite H15. reflexivity.
    - destruct H15 as [r Er]. rewrite Er. cbn [seq].
      rewrite exec_seq, ex16 by (lk; exact Hv). cbn [seq].
      apply ex17; lk; try assumption. reflexivity.
  Qed.
End Tail.

(* ---- the function ----------------------------------------------------------------------------------------------------- *)
Lemma seqs_cons s t r : seqs (s :: t :: r) = SSeq s (seqs (t :: r)).
Proof. reflexivity. Qed.

Ltac nxt := rewrite seqs_cons, exec_seq.

Theorem remove_nasty_arc_gen : forall ce fuel acc m iteration ins del k,
  (forall vb, ce "calculate_intersection_score" [v_lmap m; VInt (Z.of_nat k); VBool ins; VBool del; VBool vb]
              = res_of_scores (Score.calculate_intersection_score m k ins del)) ->
  (forall acc', ce "obtain_vertices" [varr2 acc'] = Ret (varr (Graph.obtain_vertices acc'))) ->
  (1 <= k)%nat -> length acc = Z.to_nat (pow4 k) -> rows4 acc -> NoDup (map fst m) ->
  run_fun ce fuel remove_nasty_arc_def [varr2 acc; v_lmap m; VInt iteration; VBool ins; VBool del; VBool false]
  = res_of_removal (Score.remove_nasty_arc acc m ins del).
Proof.
  intros ce fuel acc m it ins del k Hcis Hov Hk Hlen H4 Hnd. pose proof (pow4_pos k) as Hp.
  assert (Hk4 : log4 (Z.of_nat (length acc)) = k) by (rewrite Hlen, Z2Nat.id by lia; apply log4_pow4).
  unfold Score.remove_nasty_arc. cbv zeta. rewrite Hk4.
  unfold run_fun. rewrite body_eq. cbn [params bind_params remove_nasty_arc_def].
  set (en0 := [("accessor", varr2 acc); ("latter_map", v_lmap m); ("iteration", VInt it); ("has_insertion", VBool ins);
               ("has_deletion", VBool del); ("verbose", VBool false)]).
  nxt. rewrite ex1. cbn [seq].
  nxt. rewrite (ex2 ce fuel _ acc k) by (first [exact Hlen | lk; reflexivity]). cbn [seq].
  nxt. rewrite ex3 by (lk; reflexivity). cbn [seq].
  nxt. rewrite (ex4 ce fuel _ m (Z.of_nat k) ins del) by (lk; reflexivity). rewrite Hcis.
  destruct (calculate_intersection_score m k ins del) as [sc|e|] eqn:Esc; cbn [res_of_scores lift seq bind res_of_removal];
    try reflexivity.
  pose proof (scores_shape _ _ _ _ _ Esc) as Hsh. pose proof Hsh as [Hscl HscF].
  nxt. rewrite (ex5 ce fuel _ sc k) by (first [exact Hsh | lk; reflexivity]). cbn [seq].
  nxt. rewrite (ex6 ce fuel _ acc _) by (first [apply Hov | lk; reflexivity]).
  rewrite candidates_eq. unfold mx_of.
  destruct (filter (fun v => memZ v (filter (fun v0 => memZ (maxZ (concat sc) (hd 0 (concat sc))) (nth (Z.to_nat v0) sc []))
                                            (zrange (length sc)))) (Graph.obtain_vertices acc)) as [|former rest] eqn:Ef;
    [reflexivity|].
  cbn [seq].
  (* facts about former *)
  assert (Hfr : 0 <= former < Z.of_nat (length acc)).
  { assert (Hin : In former (Graph.obtain_vertices acc)).
    { assert (Hin' : In former (former :: rest)) by (left; reflexivity). rewrite <- Ef in Hin'. apply filter_In in Hin'. apply Hin'. }
    unfold Graph.obtain_vertices in Hin. apply listed_from_In in Hin. lia. }
  assert (Hfs : 0 <= former < Z.of_nat (length sc)) by (rewrite Hscl, <- Hlen; exact Hfr).
  assert (Hrl : length (nth (Z.to_nat former) sc []) = 4%nat).
  { rewrite Forall_forall in HscF. apply HscF. apply nth_In. lia. }
  assert (Hrne : nth (Z.to_nat former) sc [] <> []) by (intro E; rewrite E in Hrl; discriminate).
  pose proof (argmax_range _ Hrne) as Hcol. rewrite Hrl in Hcol.
  set (col := argmaxZ (nth (Z.to_nat former) sc [])) in *.
  nxt. rewrite (ex7 ce fuel _ sc former) by (first [exact Hfs | exact Hrne | lk; reflexivity]). fold col. cbn [seq].
  nxt. rewrite (ex8 ce fuel _ former col k) by (lk; reflexivity). cbn [seq].
  set (latter := (former * 4 + col) mod pow4 k).
  nxt. rewrite (ex9 ce fuel _ acc former col) by (first [exact Hfr | exact H4 | exact Hcol | lk; reflexivity]). cbn [seq].
  nxt. rewrite (ex10 ce fuel _ m former latter) by (lk; reflexivity).
  destruct (Graph.lookup m former) as [ls|] eqn:El; [|reflexivity].
  destruct (memZ latter ls) eqn:Em; [|reflexivity]. cbn [seq].
  nxt. rewrite (ex11 ce fuel _ m former (remove_first latter ls)) by (lk; reflexivity). cbn [seq].
  match goal with |- context [exec ce fuel (seqs _) ?e] => set (en11 := e) end.
  assert (Hl11 : lookup "latter_map" en11 = Ret (v_lmap (lmap_remove m former latter))).
  { unfold en11. destruct (remove_first latter ls) as [|y ys] eqn:Erf.
    - lk. rewrite v_lmap_eq. rewrite (put_empty m former latter ls Hnd El Erf). reflexivity.
    - lk. rewrite <- Erf. rewrite (put_nonempty m former latter ls El) by (rewrite Erf; discriminate). reflexivity. }
  rewrite (tail_ok ce fuel en11 sc k (varr2 (set_entry acc former col (-1))) (v_lmap (lmap_remove m former latter))
             (VInt former) (VInt latter)).
  - destruct (filter (fun x => 0 <? x) (concat sc)); reflexivity.
  - unfold en11. destruct (remove_first latter ls); lk; reflexivity.
  - exact Hsh.
  - unfold en11. destruct (remove_first latter ls); lk; reflexivity.
  - unfold en11. destruct (remove_first latter ls); lk; reflexivity.
  - exact Hl11.
  - unfold en11. destruct (remove_first latter ls); lk; reflexivity.
  - unfold en11. destruct (remove_first latter ls); lk; reflexivity.
Qed.

Print Assumptions remove_nasty_arc_gen.
