(* ScoreRepr.v -- how the data of the scoring model (Score.v, Graph.v) appears as MiniPyS values, for the proofs about the
   regenerated calculate_intersection_score / remove_nasty_arc and their callees (ScoreGen.v). *)
From DSW Require Import MiniPyS Graph Kmer Score MiniPySLemmas.
Open Scope Z_scope.
Open Scope string_scope.
Local Open Scope Z_scope.

Definition v_lmap (m : lmap) : val := VDict (map (fun kv => (VInt (fst kv), VList (map VInt (snd kv)))) m).
Definition v_mask_int (mask : list Z) : val := VArr (map VInt mask).
Definition v_mask_bool (mask : list Z) : val := VArr (map (fun x => VBool (negb (x =? 0))) mask).
Definition v_opt (o : option Z) : val := match o with Some z => VInt z | None => VNone end.
Definition res_of_acc (r : result accessor) : res val :=
  match r with Ok a => Ret (varr2 a) | Raise e => Exn e | OutOfFuel => Fuel end.
Definition res_of_arr (r : result (list Z)) : res val :=
  match r with Ok l => Ret (varr l) | Raise e => Exn e | OutOfFuel => Fuel end.
Definition rows4 (acc : accessor) : Prop := Forall (fun row => length row = 4%nat) acc.

(* results of the two scoring functions *)
Definition res_of_scores (r : result scores_t) : res val :=
  match r with Ok sc => Ret (varr2 sc) | Raise e => Exn e | OutOfFuel => Fuel end.
Definition res_of_removal (r : result (accessor * lmap * (Z * Z) * list Z)) : res val :=
  match r with
  | Ok (acc, m, (former, latter), pos) =>
      Ret (VTuple [varr2 acc; v_lmap m; VTuple [VInt former; VInt latter]; VList (map VInt pos)])
  | Raise e => Exn e | OutOfFuel => Fuel
  end.
