(* FromMatrixGenProofs.v -- adjacency_matrix_to_accessor REGENERATED from dsw/graphized.py (MatrixGen.v, MiniPyM.v) computes what the
   model Graph.adjacency_matrix_to_accessor computes, exception for exception, for EVERY iteration order of CPython's sets that
   meets MatrixRepr.set_order_ok.
   Compiled on every run of the checks against the freshly generated MatrixGen.v (harness/regen.py, unit "matrix"). *)
From Coq Require Import Lia ZifyBool Sorting.Sorted Sorting.Permutation.
From DSW Require Import MiniPyM Graph Kmer Spec GraphSpec MiniPyMLemmas KmerProofs GraphProofs ReprProofs.
From DSWGen Require Import MatrixGen MatrixRepr.
Open Scope Z_scope.
Open Scope string_scope.
Ltac Zify.zify_post_hook ::= Z.to_euclidean_division_equations.
Local Open Scope Z_scope.
Local Open Scope list_scope.
Notation lookup := MiniPyM.lookup.

(* STATUS: the target statement is proved below with Qed EXACTLY as it was stated (no hypothesis added):

     Theorem adjacency_matrix_to_accessor_gen : forall ce fuel m k verbose,
       set_order_ok ce ->
       (forall cur, ce "obtain_latters" [VInt cur; VInt (Z.of_nat k)] = Ret (vints (Kmer.obtain_latters cur k))) ->
       (1 <= k)%nat -> length m = Z.to_nat (pow4 k) ->
       run_fun ce fuel adjacency_matrix_to_accessor_def [varr2 m; VBool verbose]
       = res_of_acc (Graph.adjacency_matrix_to_accessor m).

   Tested first with Eval vm_compute (ce = call_in_ext ext_sorted [("obtain_latters", obtain_latters_def)] 50; k = 1, 2; good matrices,
   a 1 on a non-successor, entries 2, rows of lengths 0 / 3 / 5 / 10): program and model agree, no counterexample; the rows may have any
   lengths.  Structure: generic facts (sorted_ext: two strictly ascending lists with the same elements are equal; uins / uni_*: the
   duplicate-free insertion-order lists of BSetOf / BSetUnion); union_order (the order test: from set_order_ok, ord U = ref iff every
   element of next is in ref = [4b; 4b+1; 4b+2; 4b+3], latters_block); one lemma per expression of the loop body (eval_next, eval_cond,
   eval_elem / eval_comp, store_row_mid); body_step (one iteration: ONormal with the row stored, or ValueError, as the model's forallb
   says); fm_for (induction over the rows: the loop stops with ValueError exactly where Graph.matrix_rows does; invariant "the first i
   rows of accessor are the model's rows, the rest are [-1;-1;-1;-1]"); no while loop: any fuel. *)

(* ---- generic facts ------------------------------------------------------------------------------------------------- *)
Lemma map_res_map {A B C} (g : A -> B) (f : B -> res C) (h : A -> C) (l : list A) :
  (forall a, f (g a) = Ret (h a)) -> map_res f (map g l) = Ret (map h l).
Proof.
  intro H. induction l as [|a t IH]; cbn [map map_res]; [reflexivity|]. rewrite H, IH. reflexivity.
Qed.

Lemma all_ints vs : forallb (fun x => match x with VInt _ => true | _ => false end) (map VInt vs) = true.
Proof. induction vs as [|a t IH]; [reflexivity|exact IH]. Qed.

Lemma all_keys vs : forallb key_ok (map VInt vs) = true.
Proof. induction vs as [|a t IH]; [reflexivity|exact IH]. Qed.

Lemma all_intstr vs : forallb (fun y => match y with VInt _ | VStr _ => true | _ => false end) (map VInt vs) = true.
Proof. induction vs as [|a t IH]; [reflexivity|exact IH]. Qed.

Lemma mem_val_ints x l : mem_val (VInt x) (map VInt l) = memZ x l.
Proof. induction l as [|a t IH]; cbn [map mem_val memZ val_eqb]; [reflexivity|]. rewrite IH. reflexivity. Qed.

Lemma val_eqb_vints a : forall b, val_eqb (vints a) (vints b) = true <-> a = b.
Proof.
  unfold vints. induction a as [|x a IH]; intros [|y b]; cbn [map val_eqb].
  - split; reflexivity.
  - split; discriminate.
  - split; discriminate.
  - specialize (IH b). cbn [val_eqb] in IH. rewrite andb_true_iff, IH. split.
    + intros [E1 E2]. f_equal; [lia|exact E2].
    + intro E. inversion E; subst. split; [lia|reflexivity].
Qed.

(* two strictly ascending lists with the same elements are equal *)
Lemma sorted_ext : forall l1 l2, StronglySorted Z.lt l1 -> StronglySorted Z.lt l2 ->
  (forall x, In x l1 <-> In x l2) -> l1 = l2.
Proof.
  induction l1 as [|a t1 IH]; intros l2 S1 S2 H.
  - destruct l2 as [|b t2]; [reflexivity|]. exfalso. apply (H b). left; reflexivity.
  - destruct l2 as [|b t2]; [exfalso; apply (H a); left; reflexivity|].
    inversion S1 as [|? ? S1t F1]; subst. inversion S2 as [|? ? S2t F2]; subst.
    rewrite Forall_forall in F1, F2.
    assert (Eab : a = b).
    { destruct (proj1 (H a) (or_introl eq_refl)) as [E|I]; [symmetry; exact E|].
      destruct (proj2 (H b) (or_introl eq_refl)) as [E|I2]; [exact E|].
      specialize (F1 _ I2). specialize (F2 _ I). lia. }
    subst b. f_equal. apply IH; [exact S1t|exact S2t|]. intro x. split; intro I.
    + destruct (proj1 (H x) (or_intror I)) as [E|I2]; [|exact I2]. subst x. specialize (F1 _ I). lia.
    + destruct (proj2 (H x) (or_intror I)) as [E|I2]; [|exact I2]. subst x. specialize (F2 _ I). lia.
Qed.

(* ---- set(x) / a | b : duplicate-free insertion-order lists ---------------------------------------------------------- *)
Definition uins (acc : list Z) (x : Z) : list Z := if memZ x acc then acc else acc ++ [x].

Lemma uni_vals l : forall a,
  fold_left (fun acc x => if mem_val x acc then acc else acc ++ [x]) (map VInt l) (map VInt a) = map VInt (fold_left uins l a).
Proof.
  induction l as [|x t IH]; intro a; cbn [map fold_left]; [reflexivity|].
  rewrite mem_val_ints. unfold uins at 2. destruct (memZ x a); [apply IH|].
  change [VInt x] with (map VInt [x]). rewrite <- map_app. apply IH.
Qed.

Lemma uni_nodup l : forall a, NoDup a -> NoDup (fold_left uins l a).
Proof.
  induction l as [|x t IH]; intros a Ha; cbn [fold_left]; [exact Ha|]. apply IH. unfold uins.
  destruct (memZ x a) eqn:E; [exact Ha|].
  apply NoDup_rev in Ha. rewrite <- (rev_involutive (a ++ [x])). apply NoDup_rev. rewrite rev_app_distr. cbn [rev app].
  constructor; [|exact Ha]. rewrite <- in_rev. intro I. apply memZ_In in I. congruence.
Qed.

Lemma uni_in l x : forall a, In x (fold_left uins l a) <-> In x a \/ In x l.
Proof.
  induction l as [|y t IH]; intro a; cbn [fold_left In]; [tauto|]. rewrite IH. unfold uins.
  destruct (memZ y a) eqn:E.
  - apply memZ_In in E. split; [tauto|]. intros [H|[H|H]]; [tauto|subst; tauto|tauto].
  - rewrite in_app_iff. cbn [In]. tauto.
Qed.

Lemma set_of l : builtin1_val BSetOf (vints l) = Ret (v_intset (fold_left uins l [])).
Proof.
  unfold vints, v_intset. cbn [builtin1_val]. rewrite all_keys. rewrite <- (uni_vals l []). reflexivity.
Qed.

Lemma set_union a b : builtin2_val BSetUnion (v_intset a) (v_intset b) = Ret (v_intset (fold_left uins b a)).
Proof. unfold v_intset. cbn [builtin2_val]. rewrite uni_vals. reflexivity. Qed.

(* ---- the order test  list(set(next) | set(ref)) != ref -------------------------------------------------------------- *)
Lemma latters_block i k : (1 <= k)%nat ->
  exists b, 0 <= b /\ obtain_latters i k = [4 * b; 4 * b + 1; 4 * b + 2; 4 * b + 3].
Proof.
  intro Hk. destruct k as [|k']; [lia|]. pose proof (pow4_pos k') as Hp.
  exists (i mod pow4 k'). split; [apply Z.mod_pos_bound; exact Hp|].
  unfold obtain_latters. cbn [map]. rewrite pow4_S.
  assert (G : forall j, 0 <= j < 4 -> (i * 4 + j) mod (4 * pow4 k') = 4 * (i mod pow4 k') + j).
  { intros j Hj. symmetry. apply (Z.mod_unique _ _ (i / pow4 k')).
    - left. pose proof (Z.mod_pos_bound i (pow4 k') Hp). lia.
    - pose proof (Z.div_mod i (pow4 k') ltac:(lia)) as D. lia. }
  rewrite (G 0), (G 1), (G 2), (G 3) by lia. rewrite Z.add_0_r. reflexivity.
Qed.

Lemma union_order (ord : list Z -> list Z) next b U :
  (forall l, NoDup l -> Permutation (ord l) l) ->
  (forall l b, NoDup l -> 0 <= b -> (forall x, In x l -> 4 * b <= x < 4 * b + 4) -> StronglySorted Z.lt (ord l)) ->
  0 <= b -> NoDup U ->
  (forall x, In x U <-> In x next \/ In x [4 * b; 4 * b + 1; 4 * b + 2; 4 * b + 3]) ->
  (ord U = [4 * b; 4 * b + 1; 4 * b + 2; 4 * b + 3]) <->
  forallb (fun x => memZ x [4 * b; 4 * b + 1; 4 * b + 2; 4 * b + 3]) next = true.
Proof.
  intros Hperm Hsort Hb HU HIn. set (ref := [4 * b; 4 * b + 1; 4 * b + 2; 4 * b + 3]) in *.
  assert (Href : forall x, In x ref <-> 4 * b <= x < 4 * b + 4) by (intro x; unfold ref; cbn [In]; lia).
  pose proof (Hperm U HU) as P. split.
  - intro E. apply forallb_forall. intros x Hx. apply memZ_In. rewrite <- E.
    apply (Permutation_in x (Permutation_sym P)). apply HIn. left; exact Hx.
  - intro F. rewrite forallb_forall in F.
    assert (HUref : forall x, In x U <-> In x ref).
    { intro x. rewrite HIn. split; [|tauto]. intros [H|H]; [|exact H]. apply memZ_In, F, H. }
    apply sorted_ext.
    + apply (Hsort U b HU Hb). intros x Hx. apply Href, HUref, Hx.
    + unfold ref. repeat constructor; lia.
    + intro x. rewrite <- HUref. split; intro H.
      * apply (Permutation_in x P H).
      * apply (Permutation_in x (Permutation_sym P) H).
Qed.

(* ---- primitives ------------------------------------------------------------------------------------------------------ *)
Lemma cmp_eq1 r : cmp_top CEq (varr r) (VInt 1) = Ret (VArr (map (fun x => VBool (x =? 1)) r)).
Proof.
  unfold varr. destruct r as [|x t]; [reflexivity|].
  change (cmp_top CEq (VArr (map VInt (x :: t))) (VInt 1)) with (cmp_vals CEq (VArr (map VInt (x :: t))) (VInt 1)).
  cbn [cmp_vals]. rewrite (map_res_map VInt _ (fun x => VBool (x =? 1))) by reflexivity. reflexivity.
Qed.

Lemma used_ones r : forall j, used_from (map (fun b : bool => if b then 0 else -1) (map (fun x => x =? 1) r)) j = ones_from r j.
Proof.
  induction r as [|x t IH]; intro j; cbn [map used_from ones_from]; [reflexivity|].
  rewrite IH. destruct (x =? 1); reflexivity.
Qed.

Lemma where_ones r :
  builtin1_val BNpWhere (VArr (map (fun x => VBool (x =? 1)) r)) = Ret (VTuple [varr (ones_from r 0)]).
Proof.
  assert (G : map_res (fun x => match x with VBool b => Ret b | _ => Stuck end) (map (fun x => VBool (x =? 1)) r)
              = Ret (map (fun x => x =? 1) r)) by (apply map_res_map; reflexivity).
  destruct r as [|x t]; [reflexivity|].
  cbn [builtin1_val map]. cbn [map] in G. rewrite G. cbn [rbind]. unfold used_indices.
  change ((x =? 1) :: map (fun x0 => x0 =? 1) t) with (map (fun x0 => x0 =? 1) (x :: t)). rewrite used_ones. reflexivity.
Qed.

Lemma cmp_ne_vints a b : cmp_top CNe (vints a) (vints b) = Ret (VBool (negb (val_eqb (vints a) (vints b)))).
Proof. reflexivity. Qed.

Lemma cmp_in_vints x l : cmp_top CIn (VInt x) (vints l) = Ret (VBool (memZ x l)).
Proof.
  unfold vints. cbn [cmp_top cmp_vals cmp_scalar mixes_bool is_arr orb]. rewrite all_intstr, mem_val_ints. destruct (memZ x l); reflexivity.
Qed.

(* ---- int(log(len(accessor)) / log(4)) ------------------------------------------------------------------------------ *)
Lemma log_exact_pow4 : forall k f, (k < f)%nat -> log_exact f (pow4 k) 4 = Some (Z.of_nat k).
Proof.
  induction k as [|k IH]; intros f Hf; (destruct f as [|f]; [lia|]); cbn [log_exact].
  - rewrite pow4_0. reflexivity.
  - pose proof (pow4_pos k) as Hp. rewrite pow4_S.
    destruct (4 * pow4 k =? 1) eqn:E1; [lia|].
    destruct ((4 * pow4 k) mod 4 =? 0) eqn:E2; [|lia].
    replace (4 * pow4 k / 4) with (pow4 k) by lia.
    rewrite IH by lia. f_equal. lia.
Qed.

Lemma log2_pow4 k : Z.log2 (pow4 k) = 2 * Z.of_nat k.
Proof.
  unfold pow4. change 4 with (2 ^ 2). rewrite <- Z.pow_mul_r by lia. apply Z.log2_pow2. lia.
Qed.

Lemma int_log_ratio k :
  builtin2_val BIntLogRatio (VInt (pow4 k)) (VInt 4) = Ret (VInt (Z.of_nat k)).
Proof.
  pose proof (pow4_pos k) as Hp. cbn [builtin2_val].
  destruct ((2 <=? 4) && (1 <=? pow4 k)) eqn:E; [|lia].
  rewrite log_exact_pow4; [reflexivity|]. rewrite log2_pow4. lia.
Qed.

(* ---- -ones((n, 4)) and the row store -------------------------------------------------------------------------------- *)
Definition ones_row : val := VArr [VInt 1; VInt 1; VInt 1; VInt 1].
Definition neg_row : val := VArr [VInt (-1); VInt (-1); VInt (-1); VInt (-1)].

Lemma neg_ones n :
  broadcast_int Sub false (VArr (repeat ones_row n)) 0 = Ret (VArr (repeat neg_row n)).
Proof.
  cbn [broadcast_int].
  assert (G : (fix go (l : list val) : res (list val) :=
             match l with [] => Ret [] | x :: t => y <~ broadcast_int Sub false x 0 ;; ys <~ go t ;; Ret (y :: ys) end)
            (repeat ones_row n) = Ret (repeat neg_row n)).
  { induction n as [|n IH]; cbn [repeat]; [reflexivity|]. rewrite IH. reflexivity. }
  rewrite G. reflexivity.
Qed.

Lemma nthZ_app_mid {A} (pre : list A) x post : nthZ (pre ++ x :: post) (length pre) = Some x.
Proof. induction pre as [|y pre IH]; cbn [app length nthZ]; [reflexivity|exact IH]. Qed.

Lemma set_nth_mid {A} (pre : list A) x post y : set_nth (pre ++ x :: post) (length pre) y = pre ++ y :: post.
Proof. induction pre as [|z pre IH]; cbn [app length set_nth]; [reflexivity|rewrite IH; reflexivity]. Qed.

Lemma store_row_mid pre post vs : length vs = 4%nat ->
  store_val (VArr (pre ++ neg_row :: post)) (VInt (Z.of_nat (length pre))) (vints vs)
  = Ret (VArr (pre ++ varr vs :: post)).
Proof.
  intro Hl. unfold vints, varr. cbn [store_val]. cbv zeta.
  destruct (Z.of_nat (length pre) <? 0) eqn:E; [lia|].
  rewrite app_length. cbn [length].
  destruct ((Z.of_nat (length pre) <? 0) || (Z.of_nat (length pre + S (length post)) <=? Z.of_nat (length pre))) eqn:F; [lia|].
  rewrite Nat2Z.id, nthZ_app_mid. unfold neg_row at 1.
  rewrite all_ints, map_length, Hl. cbn [forallb andb length Nat.eqb]. rewrite set_nth_mid. reflexivity.
Qed.

(* ---- the expressions of the loop body -------------------------------------------------------------------------------- *)
Section Body.
  Variable ce : string -> list val -> res val.
  Variable ord : list Z -> list Z.
  Variable k : nat.
  Hypothesis Hext : forall l, NoDup l -> ce "__list_of_set__" [v_intset l] = Ret (vints (ord l)).
  Hypothesis Hperm : forall l, NoDup l -> Permutation (ord l) l.
  Hypothesis Hsort : forall l b, NoDup l -> 0 <= b -> (forall x, In x l -> 4 * b <= x < 4 * b + 4) -> StronglySorted Z.lt (ord l).
  Hypothesis Hce : forall cur, ce "obtain_latters" [VInt cur; VInt (Z.of_nat k)] = Ret (vints (Kmer.obtain_latters cur k)).
  Hypothesis Hk : (1 <= k)%nat.

  (* where(vertex == 1)[0].tolist() *)
  Lemma eval_next en r : lookup "vertex" en = Ret (varr r) ->
    eval ce en (EB1 BTolist (EIndex (EB1 BNpWhere (ECmp CEq (EVar "vertex") (EInt 1))) (EInt 0))) = Ret (vints (ones_from r 0)).
  Proof.
    intro Hv. cbn [eval]. rewrite Hv. cbn [rbind]. rewrite cmp_eq1. cbn [rbind]. rewrite where_ones. cbn [rbind].
    change (index_val (VTuple [varr (ones_from r 0)]) (VInt 0)) with (Ret (varr (ones_from r 0))).
    unfold varr, vints. cbn [rbind builtin1_val]. rewrite all_ints. reflexivity.
  Qed.

  (* list(set(next_indices) | set(reference_latters)) != reference_latters *)
  Lemma eval_cond en next i :
    lookup "next_indices" en = Ret (vints next) -> lookup "reference_latters" en = Ret (vints (obtain_latters i k)) ->
    eval ce en (ECmp CNe (ECall "__list_of_set__" [EB2 BSetUnion (EB1 BSetOf (EVar "next_indices")) (EB1 BSetOf (EVar "reference_latters"))])
                         (EVar "reference_latters"))
    = Ret (VBool (negb (forallb (fun x => memZ x (obtain_latters i k)) next))).
  Proof.
    intros Hn Hr. destruct (latters_block i k Hk) as (b & Hb & Eref). rewrite Eref in *.
    set (ref := [4 * b; 4 * b + 1; 4 * b + 2; 4 * b + 3]) in *.
    cbn [eval]. rewrite Hn, Hr. cbn [rbind]. rewrite !set_of. cbn [rbind]. rewrite set_union. cbn [rbind].
    set (U := fold_left uins (fold_left uins ref []) (fold_left uins next [])).
    assert (HU : NoDup U) by (unfold U; apply uni_nodup, uni_nodup; constructor).
    assert (HIn : forall x, In x U <-> In x next \/ In x ref).
    { intro x. unfold U. rewrite !uni_in. cbn [In]. tauto. }
    rewrite (Hext U HU). cbn [rbind]. rewrite cmp_ne_vints. do 2 f_equal. f_equal.
    pose proof (union_order ord next b U Hperm Hsort Hb HU HIn) as G. fold ref in G.
    pose proof (val_eqb_vints (ord U) ref) as V.
    destruct (val_eqb (vints (ord U)) (vints ref)); destruct (forallb (fun x => memZ x ref) next); try reflexivity.
    - assert (X : false = true) by (apply G, V; reflexivity). discriminate.
    - assert (X : false = true) by (apply V, G; reflexivity). discriminate.
  Qed.

  (* [index if index in next_indices else -1 for index in reference_latters] *)
  Lemma eval_elem en next x : lookup "next_indices" en = Ret (vints next) ->
    eval ce (update "index" (VInt x) en) (EIf (ECmp CIn (EVar "index") (EVar "next_indices")) (EVar "index") (EInt (-1)))
    = Ret (VInt (if memZ x next then x else -1)).
  Proof.
    intro Hn. cbn [eval]. rewrite lookup_update_same. rewrite lookup_update_other by discriminate. rewrite Hn. cbn [rbind].
    rewrite cmp_in_vints. cbn [rbind truthy]. destruct (memZ x next); reflexivity.
  Qed.

  Lemma eval_comp en next ref :
    lookup "next_indices" en = Ret (vints next) -> lookup "reference_latters" en = Ret (vints ref) ->
    eval ce en (EComp (EIf (ECmp CIn (EVar "index") (EVar "next_indices")) (EVar "index") (EInt (-1))) "index" (EVar "reference_latters"))
    = Ret (vints (map (fun x => if memZ x next then x else -1) ref)).
  Proof.
    intros Hn Hr.
    change (eval ce en (EComp (EIf (ECmp CIn (EVar "index") (EVar "next_indices")) (EVar "index") (EInt (-1))) "index" (EVar "reference_latters")))
      with (src <~ lookup "reference_latters" en ;; l <~ items src ;;
            vs <~ map_res (fun v => eval ce (update "index" v en) (EIf (ECmp CIn (EVar "index") (EVar "next_indices")) (EVar "index") (EInt (-1)))) l ;;
            Ret (VList vs)).
    rewrite Hr. cbn [rbind]. unfold vints at 1. cbn [items rbind].
    rewrite (map_res_map VInt _ (fun x => VInt (if memZ x next then x else -1))) by (intro a; apply eval_elem; exact Hn).
    cbn [rbind]. unfold vints. rewrite map_map. reflexivity.
  Qed.

  (* ---- one iteration ------------------------------------------------------------------------------------------------ *)
  Definition fm_body : stmt :=
    Eval cbv in match body adjacency_matrix_to_accessor_def with
    | SSeq _ (SSeq _ (SSeq _ (SSeq (SFor _ _ bd) _))) => bd | _ => SSkip end.

  Definition genv (mrows : list val) (verbose : bool) (rows : list val) (tail : env) : env :=
    ("matrix", VArr mrows) :: ("verbose", VBool verbose) :: ("nucleotides", VStr [65; 67; 71; 84]) :: ("accessor", VArr rows)
    :: ("monitor", VOpaque) :: ("observed_length", VInt (Z.of_nat k)) :: tail.

  Definition good_tail (tail : env) : Prop :=
    tail = [] \/ exists a b c d e, tail = [("vertex_index", a); ("vertex", b); ("next_indices", c); ("reference_latters", d);
                                           ("saved_information", e)].

  Ltac setK := match goal with |- context [seq _ ?k] => let K := fresh "K" in set (K := k) end.
  Ltac stepx := cbn [lift seq rbind assign lookup update bind_tuple items String.eqb Ascii.eqb Bool.eqb].

  Lemma latters_len i : length (obtain_latters i k) = 4%nat.
  Proof. reflexivity. Qed.

  Lemma body_step fuel mrows verbose pre post tail r :
    good_tail tail ->
    exists tail', good_tail tail' /\
    seq (assign ce (TTuple ["vertex_index"; "vertex"]) (VTuple [VInt (Z.of_nat (length pre)); varr r])
                (genv mrows verbose (pre ++ neg_row :: post) tail))
        (exec ce fuel fm_body)
    = if forallb (fun x => memZ x (obtain_latters (Z.of_nat (length pre)) k)) (ones_from r 0)
      then ONormal (genv mrows verbose
                      (pre ++ varr (map (fun x => if memZ x (ones_from r 0) then x else -1) (obtain_latters (Z.of_nat (length pre)) k)) :: post)
                      tail')
      else OExn ValueError.
  Proof.
    intro Ht. set (i := Z.of_nat (length pre)). set (next := ones_from r 0). set (ref := obtain_latters i k).
    set (saved := map (fun x => if memZ x next then x else -1) ref).
    exists [("vertex_index", VInt i); ("vertex", varr r); ("next_indices", vints next); ("reference_latters", vints ref);
            ("saved_information", vints saved)].
    split; [right; do 5 eexists; reflexivity|].
    assert (Hsl : length saved = 4%nat) by (unfold saved; rewrite map_length; apply latters_len).
    destruct Ht as [->|(a0 & b0 & c0 & d0 & e0 & ->)]; unfold genv, fm_body; stepx.
    all: rewrite exec_seq; setK; cbn [exec]; rewrite (eval_next _ r) by reflexivity; stepx; subst K.
    all: rewrite exec_seq; setK; cbn [exec eval]; stepx; fold i; rewrite Hce; fold ref; stepx; subst K.
    all: rewrite exec_seq; setK; rewrite exec_if; rewrite (eval_cond _ next i) by reflexivity; fold ref; cbn [lift truthy].
    all: destruct (forallb (fun x => memZ x ref) next); cbn [negb exec seq]; subst K; [|reflexivity].
    all: rewrite exec_seq; setK; cbn [exec]; rewrite (eval_comp _ next ref) by reflexivity; fold saved; stepx; subst K.
    all: rewrite exec_seq; setK; cbn [exec]; stepx; cbn [eval]; stepx; unfold i; rewrite (store_row_mid pre post saved Hsl); stepx; subst K.
    all: destruct verbose; cbn [exec eval builtin1_val binop_vals binop_scalar]; stepx; reflexivity.
  Qed.

  (* ---- the loop: it stops with ValueError exactly where Graph.matrix_rows does ----------------------------------------- *)
  Lemma fm_for fuel mrows verbose : forall rows pre tail, good_tail tail ->
    exists tail', good_tail tail' /\
    for_loop ce fuel (TTuple ["vertex_index"; "vertex"]) fm_body
      (enumerate_from (Z.of_nat (length pre)) (map varr rows))
      (genv mrows verbose (pre ++ repeat neg_row (length rows)) tail)
    = match matrix_rows rows (Z.of_nat (length pre)) k with
      | Ok a => ONormal (genv mrows verbose (pre ++ map varr a) tail')
      | Raise e => OExn e
      | OutOfFuel => OFuel
      end.
  Proof.
    induction rows as [|r rows IH]; intros pre tail Ht.
    - exists tail; split; [exact Ht|]. reflexivity.
    - cbn [map enumerate_from length repeat matrix_rows]. rewrite for_loop_cons.
      destruct (body_step fuel mrows verbose pre (repeat neg_row (length rows)) tail r Ht) as (t1 & G1 & E1).
      rewrite E1.
      destruct (forallb (fun x => memZ x (obtain_latters (Z.of_nat (length pre)) k)) (ones_from r 0)).
      + cbn [seq].
        set (row := map (fun x => if memZ x (ones_from r 0) then x else -1) (obtain_latters (Z.of_nat (length pre)) k)).
        destruct (IH (pre ++ [varr row]) t1 G1) as (t2 & G2 & E2).
        rewrite app_length in E2. cbn [length] in E2. rewrite <- !app_assoc in E2. cbn [app] in E2.
        replace (Z.of_nat (length pre + 1)) with (Z.of_nat (length pre) + 1) in E2 by lia.
        exists t2; split; [exact G2|]. rewrite E2.
        destruct (matrix_rows rows (Z.of_nat (length pre) + 1) k) as [a|e|]; cbn [bind map]; [|reflexivity|reflexivity].
        rewrite <- app_assoc. reflexivity.
      + exists []; split; [left; reflexivity|]. reflexivity.
  Qed.
End Body.

(* ---- the whole function ---------------------------------------------------------------------------------------------- *)
Ltac step := cbn [exec eval lift seq rbind assign MiniPyM.lookup update bind_tuple items String.eqb Ascii.eqb Bool.eqb
  binop_vals builtin1_val length].
Ltac setK := match goal with |- context [seq _ ?k] => let K := fresh "K" in set (K := k) end.

Theorem adjacency_matrix_to_accessor_gen : forall ce fuel m k verbose,
  set_order_ok ce ->
  (forall cur, ce "obtain_latters" [VInt cur; VInt (Z.of_nat k)] = Ret (vints (Kmer.obtain_latters cur k))) ->
  (1 <= k)%nat -> length m = Z.to_nat (pow4 k) ->
  run_fun ce fuel adjacency_matrix_to_accessor_def [varr2 m; VBool verbose]
  = res_of_acc (Graph.adjacency_matrix_to_accessor m).
Proof.
  intros ce fuel m k verbose (ord & Hext & Hperm & Hsort) Hce Hk Hlen. pose proof (pow4_pos k) as Hp.
  unfold Graph.adjacency_matrix_to_accessor. rewrite Hlen, Z2Nat.id, log4_pow4 by lia.
  unfold run_fun, varr2. cbn [params bind_params body adjacency_matrix_to_accessor_def].
  rewrite exec_seq; setK; step; subst K.
  rewrite exec_seq; setK; step. rewrite map_length, Hlen, Z2Nat.id by lia. change (Z.of_nat 4) with 4. cbn [builtin2_val rbind]. step.
  change (VArr (repeat (VInt 1) (Z.to_nat 4))) with ones_row. rewrite neg_ones. step. subst K.
  rewrite exec_seq; setK; step. rewrite repeat_length, Z2Nat.id by lia. change (Z.of_nat 4) with 4.
  rewrite int_log_ratio. step. subst K.
  rewrite exec_seq, exec_for; setK; step.
  destruct (fm_for ce ord k Hext Hperm Hsort Hce Hk fuel (map varr m) verbose m [] [] (or_introl eq_refl)) as (t & G & E).
  unfold genv in E at 1. cbn [length app] in E. change (Z.of_nat 0) with 0 in E. rewrite Hlen in E. unfold fm_body in E.
  rewrite E. subst K.
  destruct (matrix_rows m 0 k) as [a|e|]; cbn [seq res_of_acc]; [|reflexivity|reflexivity].
  unfold genv. step. reflexivity.
Qed.

Print Assumptions adjacency_matrix_to_accessor_gen.
