(* MT19937.v -- layer 0: NumPy's legacy global generator as far as create_random_shuffles uses it: numpy.random.seed(int) (MT19937
   init_genrand), the 32-bit output function, random_interval (masked rejection sampling on 32-bit draws) and the in-place shuffle of
   a 1-D array (Fisher-Yates from the top).  Executable definitions only; that NumPy's RandomState IS this generator is an assumption
   that harness/props/c18.py and harness/regen.py check against NumPy itself on every run (tables compared entry for entry). *)
From Coq Require Import ZArith List.
Import ListNotations.
Open Scope Z_scope.

Definition u32 (x : Z) : Z := Z.land x 4294967295.

(* init_genrand(s): key[0] = s; key[i] = 1812433253 * (key[i-1] ^ (key[i-1] >> 30)) + i *)
Fixpoint init_from (n : nat) (i prev : Z) : list Z :=
  match n with
  | O => []
  | S m => let x := u32 (1812433253 * Z.lxor prev (Z.shiftr prev 30) + i) in x :: init_from m (i + 1) x
  end.
Definition mt_init (seed : Z) : list Z := let s := u32 seed in s :: init_from 623 1 s.

Definition mix (a b : Z) : Z := Z.lor (Z.land a 2147483648) (Z.land b 2147483647).
Definition twist_word (y m : Z) : Z := Z.lxor (Z.lxor m (Z.shiftr y 1)) (if Z.odd y then 2567483615 else 0).

(* one regeneration of the 624 words (genrand's "generate N words at one time"): new[i] = new-or-old[(i+397) mod 624] ^ twist(old[i], old-or-new[i+1]);
   words are produced left to right and appended to [done], so that position i+397-624 of the NEW block is available when needed *)
Fixpoint regen_from (n : nat) (i : nat) (old done : list Z) : list Z :=
  match n with
  | O => done
  | S m =>
      let cur := nth i old 0 in
      let nxt := if Nat.eqb i 623 then nth 0 done 0 else nth (i + 1) old 0 in
      let far := if Nat.ltb i 227 then nth (i + 397) old 0 else nth (i - 227) done 0 in
      regen_from m (S i) old (done ++ [twist_word (mix cur nxt) far])
  end.
Definition mt_regen (st : list Z) : list Z := regen_from 624 0 st [].

Definition temper (y : Z) : Z :=
  let y := Z.lxor y (Z.shiftr y 11) in
  let y := Z.lxor y (Z.land (Z.shiftl y 7) 2636928640) in
  let y := Z.lxor y (Z.land (Z.shiftl y 15) 4022730752) in
  Z.lxor y (Z.shiftr y 18).

(* the generator: the current block of 624 words and the position of the next word (624 = regenerate first) *)
Record gen := { block : list Z; pos : nat }.
Definition gen_of_seed (seed : Z) : gen := {| block := mt_init seed; pos := 624 |}.
Definition next32 (g : gen) : Z * gen :=
  let g := if Nat.leb 624 (pos g) then {| block := mt_regen (block g); pos := 0 |} else g in
  (temper (nth (pos g) (block g) 0), {| block := block g; pos := S (pos g) |}).

(* random_interval(max) for 0 < max <= 2^32 - 1: draw 32-bit words, keep the bits of the smallest mask >= max, reject above max.
   The rejection loop is fuelled (each draw succeeds with probability > 1/2); None when the fuel runs out *)
Definition mask_of (mx : Z) : Z := Z.ones (Z.log2 mx + 1).
Fixpoint interval (fuel : nat) (mx : Z) (g : gen) : option (Z * gen) :=
  match fuel with
  | O => None
  | S f => let '(w, g') := next32 g in
           let v := Z.land w (mask_of mx) in
           if v <=? mx then Some (v, g') else interval f mx g'
  end.

Fixpoint set_nth_z (l : list Z) (i : nat) (x : Z) : list Z :=
  match l, i with
  | [], _ => []
  | _ :: t, O => x :: t
  | h :: t, S j => h :: set_nth_z t j x
  end.
Definition swap (l : list Z) (i j : nat) : list Z :=
  let a := nth i l 0 in let b := nth j l 0 in set_nth_z (set_nth_z l i b) j a.

(* RandomState.shuffle of a 1-D array: for i = n-1 down to 1: j = random_interval(i); swap x[i], x[j] *)
Fixpoint shuffle_from (i : nat) (l : list Z) (g : gen) : option (list Z * gen) :=
  match i with
  | O => Some (l, g)
  | S m => match interval 200 (Z.of_nat i) g with
           | None => None
           | Some (j, g') => shuffle_from m (swap l i (Z.to_nat j)) g'
           end
  end.
Definition shuffle (l : list Z) (g : gen) : option (list Z * gen) := shuffle_from (length l - 1) l g.

(* the rows numpy.random.shuffle produces from [0;1;2;3], one after the other, after numpy.random.seed(seed) *)
Fixpoint rows_from (n : nat) (g : gen) : option (list (list Z)) :=
  match n with
  | O => Some []
  | S m => match shuffle [0; 1; 2; 3] g with
           | None => None
           | Some (r, g') => match rows_from m g' with Some t => Some (r :: t) | None => None end
           end
  end.
Definition mt_rows (n : nat) (seed : Z) : option (list (list Z)) := rows_from n (gen_of_seed seed).
