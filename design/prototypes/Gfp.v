From Coq Require Import List Arith Lia Bool.
Import ListNotations.

(* masks as list bool; F deflationary + monotone on pointwise order; python loop:
   new = F cur; if count new < 1 raise; if count cur = count new then break(cur) else cur := new *)
Definition count (m : list bool) := length (filter (fun b => b) m).
Definition le_mask (a b : list bool) := length a = length b /\ forall i, nth i a false = true -> nth i b false = true.

Section Iter.
Variable F : list bool -> list bool.
Hypothesis F_len : forall m, length (F m) = length m.
Hypothesis F_defl : forall m, le_mask (F m) m.
Hypothesis F_mono : forall a b, le_mask a b -> le_mask (F a) (F b).

Inductive res := Ok (m : list bool) | RaiseValueError | OutOfFuel.

Fixpoint iter (fuel : nat) (cur : list bool) : res :=
  match fuel with
  | O => OutOfFuel
  | S f => let new := F cur in
           if count new <? 1 then RaiseValueError
           else if count cur =? count new then Ok cur
           else iter f new
  end.

Lemma le_mask_tl : forall x a y b, le_mask (x :: a) (y :: b) -> le_mask a b /\ (x = true -> y = true).
Proof.
  intros x a y b [Hl H]. split; [split|].
  - cbn in Hl. lia.
  - intros i Hi. apply (H (S i)). exact Hi.
  - intros Hx. apply (H 0). exact Hx.
Qed.

Lemma count_le : forall a b, le_mask a b -> count a <= count b.
Proof.
  unfold count. induction a as [|x a IH]; intros b Hab.
  - cbn. lia.
  - destruct b as [|y b]; [destruct Hab as [Hl _]; discriminate|].
    destruct (le_mask_tl _ _ _ _ Hab) as [Ht Hh]. specialize (IH b Ht).
    destruct x, y; cbn; try lia; try discriminate (Hh eq_refl).
Qed.

Lemma count_eq_le_eq : forall a b, le_mask a b -> count a = count b -> a = b.
Proof.
  induction a as [|x a IH]; intros b Hab Hc.
  - destruct b; [reflexivity|]. destruct Hab as [Hl _]; discriminate.
  - destruct b as [|y b]; [destruct Hab as [Hl _]; discriminate|].
    destruct (le_mask_tl _ _ _ _ Hab) as [Ht Hh].
    pose proof (count_le a b Ht) as Hle. unfold count in *.
    destruct x, y; cbn in Hc.
    + f_equal. apply IH; [exact Ht|lia].
    + discriminate (Hh eq_refl).
    + exfalso. lia.
    + f_equal. apply IH; [exact Ht|lia].
Qed.

Theorem iter_ok : forall fuel cur m, iter fuel cur = Ok m ->
  F m = m /\ le_mask m cur /\ 1 <= count m /\
  forall s, le_mask s cur -> F s = s -> le_mask s m.
Proof.
  induction fuel as [|f IH]; intros cur m; cbn [iter]; [discriminate|].
  destruct (count (F cur) <? 1) eqn:E1; [discriminate|].
  destruct (count cur =? count (F cur)) eqn:E2.
  - intros [= <-]. apply Nat.eqb_eq in E2. apply Nat.ltb_ge in E1.
    assert (F cur = cur) as Hfix by (apply count_eq_le_eq; [apply F_defl|lia]).
    split; [exact Hfix|]. split; [split; [reflexivity|intros i Hi; exact Hi]|]. split; [lia|].
    intros s Hs _. exact Hs.
  - intros H. destruct (IH _ _ H) as (Hfix & Hle & Hc & Hmax).
    split; [exact Hfix|]. split; [|split; [exact Hc|]].
    + destruct Hle as [L1 L2]. destruct (F_defl cur) as [D1 D2]. split; [lia|].
      intros i Hi. apply D2. apply L2. exact Hi.
    + intros s Hs Hsfix. apply Hmax; [|exact Hsfix]. rewrite <- Hsfix. apply F_mono. exact Hs.
Qed.

Theorem iter_raise : forall fuel cur, iter fuel cur = RaiseValueError ->
  forall s, le_mask s cur -> F s = s -> count s = 0.
Proof.
  induction fuel as [|f IH]; intros cur; cbn [iter]; [discriminate|].
  destruct (count (F cur) <? 1) eqn:E1.
  - intros _ s Hs Hfix. apply Nat.ltb_lt in E1.
    assert (le_mask s (F cur)) by (rewrite <- Hfix; apply F_mono; exact Hs).
    pose proof (count_le _ _ H). lia.
  - destruct (count cur =? count (F cur)); [discriminate|]. intros H s Hs Hfix.
    apply (IH _ H); [|exact Hfix]. rewrite <- Hfix. apply F_mono. exact Hs.
Qed.

Theorem iter_fuel : forall fuel cur, count cur < fuel -> iter fuel cur <> OutOfFuel.
Proof.
  induction fuel as [|f IH]; intros cur Hc; [lia|]. cbn [iter].
  destruct (count (F cur) <? 1); [discriminate|].
  destruct (count cur =? count (F cur)) eqn:E; [discriminate|].
  apply IH. apply Nat.eqb_neq in E. pose proof (count_le _ _ (F_defl cur)). lia.
Qed.
End Iter.
Print Assumptions iter_ok.
