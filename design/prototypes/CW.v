From Coq Require Import List ZArith Lia.
Import ListNotations.
Open Scope Z_scope.

Section CW.
Variable succs : nat -> list nat.
Variable x : nat -> Z.
Variables p q m : Z.      (* R = p/q ; m <= x v for all v *)
Hypothesis Hq : 0 < q.  Hypothesis Hp : 0 <= p. Hypothesis Hm : 0 < m.
Hypothesis Hx : forall v, m <= x v.
Hypothesis Hup : forall v, q * fold_right (fun u a => x u + a) 0 (succs v) <= p * x v.

Fixpoint walks (n : nat) (v : nat) : Z :=
  match n with O => 1 | S n' => fold_right (fun u a => walks n' u + a) 0 (succs v) end.

Lemma sum_le : forall (f g : nat -> Z) l, (forall u, f u <= g u) ->
  fold_right (fun u a => f u + a) 0 l <= fold_right (fun u a => g u + a) 0 l.
Proof. induction l; cbn; intros; [lia|]. specialize (IHl H). specialize (H a). lia. Qed.
Lemma sum_scale : forall (f : nat -> Z) c l,
  fold_right (fun u a => c * f u + a) 0 l = c * fold_right (fun u a => f u + a) 0 l.
Proof. induction l; cbn; [lia|]. rewrite IHl. lia. Qed.

Theorem walks_upper : forall n v, walks n v * m * q ^ Z.of_nat n <= p ^ Z.of_nat n * x v.
Proof.
  induction n as [|n IH]; intros v.
  - cbn [walks Z.of_nat]. rewrite !Z.pow_0_r. specialize (Hx v). lia.
  - cbn [walks]. rewrite Nat2Z.inj_succ, !Z.pow_succ_r by lia.
    set (W := fold_right (fun u a => walks n u + a) 0 (succs v)).
    assert (H1 : W * m * q ^ Z.of_nat n <= p ^ Z.of_nat n * fold_right (fun u a => x u + a) 0 (succs v)).
    { unfold W. rewrite <- sum_scale.
      replace (fold_right (fun u a => walks n u + a) 0 (succs v) * m * q ^ Z.of_nat n)
        with (fold_right (fun u a => (m * q ^ Z.of_nat n) * walks n u + a) 0 (succs v)) by (rewrite sum_scale; lia).
      apply sum_le. intros u. specialize (IH u). lia. }
    assert (0 <= p ^ Z.of_nat n) by (apply Z.pow_nonneg; lia).
    specialize (Hup v).
    set (S := fold_right (fun u a => x u + a) 0 (succs v)) in *.
    set (P := p ^ Z.of_nat n) in *. set (Qn := q ^ Z.of_nat n) in *.
    assert (H2 : W * m * Qn * q <= P * S * q) by (apply Z.mul_le_mono_nonneg_r; lia).
    assert (H3 : P * (q * S) <= P * (p * x v)) by (apply Z.mul_le_mono_nonneg_l; lia).
    lia.
Qed.
End CW.
Print Assumptions walks_upper.
