# pure functional re-statement of repair_dna/path_matching as the Gallina model will have it (lists, ints, no numpy)
NUC="ACGT"
def py_slice(l,lo,hi):
    n=len(l)
    def norm(i):
        if i<0: i+=n
        return max(0,min(n,i))
    lo=0 if lo is None else norm(lo); hi=n if hi is None else norm(hi)
    return l[lo:hi] if lo<hi else l[:0]
def np_row(acc,v):
    n=len(acc)
    if v<0: v+=n
    assert 0<=v<n
    return acc[v]
def live(row): return [j for j in range(4) if row[j]>=0]
def d2n(s):
    x=0
    for c in s: x=4*x+NUC.index(c)
    return x
def walk_from(acc,v,s):
    """returns (ok, visited)"""
    vis=0
    for c in s:
        row=np_row(acc,v)
        if c in [NUC[j] for j in live(row)]: v=row[NUC.index(c)]; vis+=1
        else: return False,vis
    return True,vis
def path_matching(s,acc,prev,occ,indel):
    out=[];vis=0; orig=s[occ]; used=live(np_row(acc,prev))
    for r in [NUC[j] for j in used if NUC[j]!=orig]:
        ok,n=walk_from(acc,np_row(acc,prev)[NUC.index(r)],s[occ+1:]); vis+=n
        if ok: out.append(s[:occ]+r+s[occ+1:])
    if indel:
        for a in [NUC[j] for j in used]:
            ok,n=walk_from(acc,np_row(acc,prev)[NUC.index(a)],s[occ:]); vis+=n
            if ok: out.append(s[:occ]+a+s[occ:])
        ok,n=walk_from(acc,prev,s[occ+1:]); vis+=n
        if ok: out.append(s[:occ]+s[occ+1:])
    return out,vis
def set_vt(s,n):
    vals=[NUC.index(c) for c in s]
    asc=sum(i for i in range(len(vals)-1) if vals[i+1]>vals[i])%(4**(n-1))
    digs=[]
    x=asc
    while x>0: digs.insert(0,NUC[x%4]); x//=4
    d=''.join(digs)
    return NUC[sum(vals)%4]+'A'*(n-1-len(d))+d
def repair(s,acc,v0,k,vt,indel,heap):
    n=len(s); loc=0; v=v0; iq=[-1]*n; splits=[""]; chunks=[]; markers=[]; det=0; vis=0
    while loc<n:
        row=np_row(acc,v); c=s[loc]
        if c in [NUC[j] for j in live(row)]:
            splits[-1]+=c; v=row[NUC.index(c)]; iq[loc]=v; vis+=1; loc+=1
        else:
            det+=1
            splits[-1]=py_slice(splits[-1],None,-k+1)
            v=d2n(py_slice(s,loc+1,loc+k+1)); splits.append(NUC[v%4])
            markers.append(py_slice(iq,loc-k,loc)); chunks.append(py_slice(s,loc-k+1,loc+k)); loc+=k+1
    frags=[]
    for ch,mk in zip(chunks,markers):
        fs=set()
        for recall,pv in enumerate(mk[::-1]):
            rec,t=path_matching(ch,acc,pv,k-recall-1,indel); vis+=t
            for f in rec:
                if s not in fs: fs.add(f)
        frags.append(sorted(fs))
    count=1
    for f in frags: count*=len(f)
    if count==0 or count>heap:
        if vt is not None:
            return ([s],(0,False,0,vis)) if vt==set_vt(s,len(vt)) else ([],(0,True,0,vis))
        return [s],(0,False,0,vis)
    import itertools
    res=set(); flag=False
    for combo in itertools.product(*frags):
        r=''.join(splits[i]+combo[i] for i in range(len(splits)-1))+splits[-1]
        if vt is not None:
            if vt==set_vt(r,len(vt)): res.add(r)
            else: flag=True
        else: res.add(r)
    return sorted(res),(det,flag,count,vis)
