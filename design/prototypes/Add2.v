From Coq Require Import List ZArith Lia ZifyBool.
Import ListNotations.
Open Scope Z_scope.
Ltac Zify.zify_post_hook ::= Z.to_euclidean_division_equations.

(* little-endian value *)
Fixpoint lval (l : list Z) : Z := match l with [] => 0 | d :: t => d + 10 * lval t end.
Definition digits (l : list Z) := Forall (fun d => 0 <= d < 10) l.

Fixpoint add_rev (ds bs : list Z) (carry : Z) : list Z :=
  match ds, bs with
  | d :: ds', b :: bs' =>
      let sv := d + b + carry in
      if sv <? 10 then sv :: add_rev ds' bs' 0 else (sv mod 10) :: add_rev ds' bs' (sv / 10)
  | _, _ => [carry]
  end.

Lemma add_rev_val : forall ds bs c, length ds = length bs -> digits ds -> digits bs -> 0 <= c <= 1 ->
  lval (add_rev ds bs c) = lval ds + lval bs + c /\ digits (add_rev ds bs c).
Proof.
  induction ds as [|d ds IH]; intros [|b bs] c Hl Hd Hb Hc; cbn [add_rev lval]; try discriminate.
  - split; [lia|]. constructor; [lia|constructor].
  - inversion Hd as [|? ? Hd0 Hds]; inversion Hb as [|? ? Hb0 Hbs]; subst.
    cbn [length] in Hl. injection Hl as Hl.
    destruct (d + b + c <? 10) eqn:E; cbn [lval].
    + destruct (IH bs 0 Hl Hds Hbs ltac:(lia)) as [IHv IHd]. rewrite IHv. split; [lia|]. constructor; [lia|assumption].
    + destruct (IH bs ((d+b+c)/10) Hl Hds Hbs ltac:(lia)) as [IHv IHd]. rewrite IHv. split; [lia|]. constructor; [lia|assumption].
Qed.
Print Assumptions add_rev_val.
