From Coq Require Import List NArith Lia Bool.
Import ListNotations.
Open Scope N_scope.

(* abstract walk coder: vertex type nat, deg v in 0..4, nxt v i for i<deg v *)
Section Coder.
Variable deg : nat -> N.
Variable nxt : nat -> N -> nat.

(* encode: emits list of (vertex, arc-rank) *)
Fixpoint enc (fuel : nat) (q : N) (v : nat) : option (list (nat * N)) :=
  if q =? 0 then Some [] else
  match fuel with
  | O => None
  | S f =>
    if deg v =? 0 then None else
    if deg v =? 1 then
      match enc f q (nxt v 0) with Some l => Some ((v,0)::l) | None => None end
    else
      match enc f (q / deg v) (nxt v (q mod deg v)) with
      | Some l => Some ((v, q mod deg v)::l) | None => None end
  end.

(* decode value of a digit path: little-endian mixed radix *)
Fixpoint value (l : list (nat * N)) : N :=
  match l with
  | [] => 0
  | (v,r)::t => if deg v <=? 1 then value t else r + deg v * value t
  end.

Lemma enc_value : forall fuel q v l, enc fuel q v = Some l -> value l = q.
Proof.
  induction fuel as [|f IH]; intros q v l; cbn [enc].
  - destruct (q =? 0) eqn:E; [intros [= <-]; apply N.eqb_eq in E; now subst|discriminate].
  - destruct (q =? 0) eqn:E; [intros [= <-]; apply N.eqb_eq in E; now subst|].
    destruct (deg v =? 0) eqn:E0; [discriminate|].
    destruct (deg v =? 1) eqn:E1.
    + destruct (enc f q (nxt v 0)) eqn:H; [|discriminate]. intros [= <-].
      cbn [value]. apply N.eqb_eq in E1. rewrite E1. cbn. eauto.
    + destruct (enc f (q / deg v) _) eqn:H; [|discriminate]. intros [= <-].
      cbn [value]. apply N.eqb_neq in E0, E1.
      destruct (deg v <=? 1) eqn:E2; [apply N.leb_le in E2; lia|].
      rewrite (IH _ _ _ H). rewrite N.add_comm. symmetry. apply N.div_mod. assumption.
Qed.
End Coder.
